#!/bin/sh
# MANIFEST.setup_cmd: regenerate constants from /repo, then build the theorem modules and the
# line-protocol drivers of every property claimed in MANIFEST.json.  Offline; nothing is fetched.
set -e
cd "$(dirname "$0")"
/venv/bin/python harness/gen_consts.py || true   # problems with a section are reported by the check that depends on it
TARGETS=$(/venv/bin/python harness/setup_targets.py)
cd lean
lake build $TARGETS RpycModel
