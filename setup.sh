#!/bin/sh
# MANIFEST.setup_cmd: regenerate constants from /repo, build the Lean library (all property theorem
# modules) and the line-protocol driver.  Offline; nothing is fetched.
set -e
cd "$(dirname "$0")"
/venv/bin/python harness/gen_consts.py
cd lean
lake build RpycModel rpycdrv
