#!/bin/sh
# MANIFEST.setup_cmd: regenerate constants from /repo, build the Lean library (all property theorem
# modules) and the line-protocol driver.  Offline; nothing is fetched.
set -e
cd "$(dirname "$0")"
/venv/bin/python harness/gen_consts.py
cd lean
lake build RpycModel
for d in $(grep -o "drv_[a-z]*" lakefile.toml | sort -u); do
  f="Driver/$(echo ${d#drv_} | sed "s/./\U&/")Main.lean"
  if [ -f "$f" ]; then lake build "$d"; fi
done
