#!/usr/bin/env python3
"""tools/add_result.py <seed-dir-name> <cmd> <outcome> <caught-by> <replay>: append one check result to seeded/<name>/meta.json"""
import json, sys
name, cmd, outcome, caught, replay = sys.argv[1:6]
p = "/verif/seeded/%s/meta.json" % name
m = json.load(open(p))
m.setdefault("check_results", []).append(dict(cmd=cmd, outcome=outcome, caught_by=caught, replay=replay))
json.dump(m, open(p, "w"), indent=1)
