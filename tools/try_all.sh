#!/bin/sh
# tools/try_all.sh <patch.diff> [tag] [props...]: run every (or the given) claimed check against a patched SCRATCH copy of /repo,
# four at a time; prints one line per check.  Used for harmless-refactoring patches (no check may alarm).
PATCH=$1; TAG=${2:-all}; shift 2 2>/dev/null
R=/tmp/coord-repo-$TAG; V=/tmp/coord-verif-$TAG
rm -rf $R $V; mkdir -p $R $V
rsync -a --exclude '.git' /repo/ $R/; rsync -a --exclude replays --exclude '.git' /verif/ $V/
cd $R && (git apply "$PATCH" 2>/dev/null || patch -p1 -s < "$PATCH") || { echo "PATCH FAILED"; exit 3; }
PROPS=${*:-$(python3 -c "import json; print(' '.join(c['property_id'] for c in json.load(open('/verif/MANIFEST.json'))['checks']))")}
cd $V && RPYC_REPO=$R /venv/bin/python harness/gen_consts.py >/dev/null 2>&1
cd $V/lean && lake build RpycModel > $V/build.log 2>&1
echo "$PROPS" | tr ' ' '\n' | xargs -P 4 -I{} sh -c "cd $V && RPYC_REPO=$R ./check {} quick > $V/out_{}.log 2>&1; echo \"{} rc=\$? \$(grep -E '^VIOLATION' $V/out_{}.log | head -1) \$(grep -E 'broken:' $V/out_{}.log | head -1 | cut -c1-260)\""
rm -rf $R
