#!/usr/bin/env python3
"""tools/update_expected_theorems.py: rewrite tools/expected_theorems.json from the theorem lists of the current evidence
files (run after a green sweep).  Every check then reports a theorem of this list that no longer exists as a broken
obligation, so deleting or renaming a property theorem is a visible, committed act."""
import glob, json, os
V = os.path.join(os.path.dirname(os.path.abspath(__file__)), "..")
out = {}
for f in sorted(glob.glob(os.path.join(V, "evidence", "C*.json"))):
    e = json.load(open(f))
    cov = e.get("coverage", {})
    names = cov.get("obligations_named") or cov.get("theorems") or e.get("theorems") or []
    out[e["property_id"]] = sorted(names)
json.dump(out, open(os.path.join(V, "tools", "expected_theorems.json"), "w"), indent=1)
print({k: len(v) for k, v in out.items()})
