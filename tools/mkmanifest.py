#!/usr/bin/env python3
"""Regenerate /verif/MANIFEST.json from tools/manifest_entries.json (claimed properties) and
properties.jsonl (everything else goes to not_applicable with the reason given in NOT_CLAIMED)."""
import json, os
HERE = os.path.dirname(os.path.abspath(__file__))
V = os.path.join(HERE, "..")
props = [json.loads(l) for l in open(os.path.join(V, "properties.jsonl"))]
entries = json.load(open(os.path.join(HERE, "manifest_entries.json")))
not_claimed = {}
p = os.path.join(HERE, "not_claimed.json")
if os.path.exists(p):
    not_claimed = json.load(open(p))
checks = []
for pr in props:
    m = entries.get(pr["id"])
    if not m:
        continue
    # the builder of a property keeps its current texts in tools/manifest_texts/<id>.json (text, note, technique)
    tp = os.path.join(HERE, "manifest_texts", pr["id"] + ".json")
    if os.path.exists(tp):
        m = dict(m, **{k: v for k, v in json.load(open(tp)).items() if k in ("text", "note", "technique") and v})
    checks.append(dict(property_id=pr["id"], quick_cmd="./check %s quick" % pr["id"], thorough_cmd="./check %s thorough" % pr["id"],
                       evidence_file="evidence/%s.json" % pr["id"], replay_cmd_template="./check %s --replay {path}" % pr["id"],
                       engine=m.get("engine", "lean-model"),
                       level_claimed=dict(category="proof", text=m["text"], design_ref=m["ref"]),
                       level_note=m["note"], technique=m["technique"]))
man = dict(version=1, setup_cmd="./setup.sh",
           hooks=dict(guard="RPYC_VERIF", enable="no hooks: every substitution (clock, locks, condition, channel, stream, socket, os.read/os.write) is made from the harness on instances or module namespaces at run time",
                      baseline_off_cmd="cd /repo && /venv/bin/python -m pytest -ra -q -p no:cacheprovider --timeout=900 --continue-on-collection-errors",
                      source_commits=[], add_only=True),
           engines=[dict(name="lean-model", path="lean/", serves_properties=[c["property_id"] for c in checks],
                         kind_free_text="Lean 4 models + theorems (lake; one theorem module per property under lean/RpycModel/Props, audited for axioms on every run), per-layer compiled line-protocol drivers, Python correspondence harness under harness/ (constants regenerated from /repo by harness/gen_*.py)")],
           checks=checks,
           notes="Every claimed property: Lean theorems about a model, tied to /repo on every run by regenerated constants and a model-vs-implementation correspondence run; a broken proof or correspondence triggers a failing-input search with the property's direct oracle (DESIGN.md sections 2.1, 7). Repairs of genuine defects are fix: commits in /repo listed in known_findings.json.",
           not_applicable=[dict(property_id=pr["id"], reason=not_claimed.get(pr["id"], "check under construction in this session (planned as proof-level; see DESIGN.md section 5) - not yet claimed"))
                           for pr in props if pr["id"] not in entries])
json.dump(man, open(os.path.join(V, "MANIFEST.json"), "w"), indent=1)
print("claimed:", [c["property_id"] for c in checks])
