#!/bin/sh
# tools/try_seed.sh <Cxx> <patch.diff> [tier]  — run a check against a patched SCRATCH copy of /repo (never /repo itself
# while builders are using it): /tmp/repo-m (git worktree-free copy) and /tmp/verif-m (copy of /verif with its own .lake).
P=$1; PATCH=$2; TIER=${3:-quick}
[ -d /tmp/repo-m ] || cp -r /repo /tmp/repo-m
rsync -a --delete --exclude replays --exclude '.git' /verif/ /tmp/verif-m/
rsync -a --delete --exclude '.git' /repo/ /tmp/repo-m/
cd /tmp/repo-m && git apply "$PATCH" 2>/dev/null || (cd /tmp/repo-m && patch -p1 -s < "$PATCH") || { echo "PATCH FAILED"; exit 3; }
cd /tmp/verif-m && rm -rf replays && RPYC_REPO=/tmp/repo-m ./check $P $TIER > /tmp/try_seed.log 2>&1
echo "exit=$?"; grep -E "VIOLATION|KNOWN|broken:|done in" /tmp/try_seed.log | cut -c1-600
for f in /tmp/verif-m/replays/$P-*.json; do case "$f" in *disagreements*) ;; *) [ -f "$f" ] && python3 -c "
import json,sys; d=json.load(open('$f')); print('REPLAY', '$f'.split('/')[-1], '| kind:', d.get('kind'), '| case:', json.dumps(d.get('case'))[:500], '| observed:', str(d.get('observed'))[:400])";; esac; done
rsync -a --delete --exclude '.git' /repo/ /tmp/repo-m/
