#!/bin/sh
# tools/try_seed.sh <Cxx> <patch.diff> [tier]  — run a check against a patched SCRATCH copy of /repo (never /repo itself
# while builders are using it): /tmp/coord-repo (git worktree-free copy) and /tmp/coord-verif (copy of /verif with its own .lake).
P=$1; PATCH=$2; TIER=${3:-quick}
[ -d /tmp/coord-repo ] || cp -r /repo /tmp/coord-repo
rsync -a --delete --exclude replays --exclude '.git' /verif/ /tmp/coord-verif/
rsync -a --delete --exclude '.git' /repo/ /tmp/coord-repo/
cd /tmp/coord-repo && git apply "$PATCH" 2>/dev/null || (cd /tmp/coord-repo && patch -p1 -s < "$PATCH") || { echo "PATCH FAILED"; exit 3; }
cd /tmp/coord-verif && rm -rf replays && RPYC_REPO=/tmp/coord-repo timeout -k 10 1500 ./check $P $TIER > /tmp/try_seed.log 2>&1
echo "exit=$?"; grep -E "VIOLATION|KNOWN|broken:|done in" /tmp/try_seed.log | cut -c1-600
for f in /tmp/coord-verif/replays/$P-*.json; do case "$f" in *disagreements*) ;; *) [ -f "$f" ] && python3 -c "
import json,sys; d=json.load(open('$f')); print('REPLAY', '$f'.split('/')[-1], '| kind:', d.get('kind'), '| case:', json.dumps(d.get('case'))[:500], '| observed:', str(d.get('observed'))[:400])";; esac; done
rsync -a --delete --exclude '.git' /repo/ /tmp/coord-repo/
