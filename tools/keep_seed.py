#!/usr/bin/env python3
"""tools/keep_seed.py <Cxx> <slug> <srcdir> <checks-run> <outcome> <caught-by> <replay-summary>
Copy a confirmed seeded change into /verif/seeded/<Cxx>-<slug>/ and record what was run against it."""
import json, os, shutil, sys
pid, slug, src, cmd, outcome, caught, replay = sys.argv[1:8]
dst = "/verif/seeded/%s-%s" % (pid, slug)
existed = os.path.exists(os.path.join(dst, "meta.json"))
os.makedirs(dst, exist_ok=True)
for f in ("patch.diff", "demo.py"):
    shutil.copy(os.path.join(src, f), os.path.join(dst, f))
m = json.load(open(os.path.join(dst, "meta.json"))) if os.path.exists(os.path.join(dst, "meta.json")) else json.load(open(os.path.join(src, "meta.json")))
m["property"] = m.get("property", pid)
m["confirmed"] = "patch applies to /repo HEAD with git apply; the 57 stable tests pass with it; demo.py exits non-zero patched and 0 unpatched (re-run by me in a scratch copy)"
m.setdefault("check_results", []).append(dict(cmd=cmd, outcome=outcome, caught_by=caught, replay=replay))
json.dump(m, open(os.path.join(dst, "meta.json"), "w"), indent=1)
print("kept", dst)
