#!/bin/sh
# tools/sweep.sh [tier] [seed]: run every claimed check once; summary to stdout
TIER=${1:-quick}; export VERIF_SEED=${2:-1}
cd /verif
for p in $(python3 -c "import json; print(' '.join(c['property_id'] for c in json.load(open('MANIFEST.json'))['checks']))"); do
  s=$(date +%s); ./check $p $TIER > /tmp/sweep_$p.log 2>&1; rc=$?; e=$(date +%s)
  echo "$p rc=$rc $((e-s))s $(grep -c '^KNOWN-FINDING' /tmp/sweep_$p.log) known; $(grep '^VIOLATION' /tmp/sweep_$p.log | head -2 | tr '\n' ' ')"
done
