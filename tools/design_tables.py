#!/usr/bin/env python3
"""Regenerate the generated tables of DESIGN.md (between <!-- BEGIN x --> / <!-- END x --> markers):
seeded changes (from seeded/*/meta.json) and findings (from known_findings.json)."""
import glob, json, os, re
V = os.path.join(os.path.dirname(os.path.abspath(__file__)), "..")

def seeded():
    rows = ["| Seeded change | Breaks | Needs | First run | Result of the check(s) now | Caught by | Replay |", "|---|---|---|---|---|---|---|"]
    for d in sorted(glob.glob(os.path.join(V, "seeded", "C*"))):
        m = json.load(open(os.path.join(d, "meta.json")))
        name = os.path.basename(d)
        needs = str(m.get("needs", "")).replace("\n", " ").replace("|", "/")
        if len(needs) > 160:
            needs = needs[:157] + "..."
        for i, r in enumerate(m.get("check_results", [])):
            rows.append("| %s | %s | %s | %s | `%s`: %s | %s | %s |" % (
                name if i == 0 else "", m.get("property", "") if i == 0 else "", needs if i == 0 else "",
                _first(m) if i == 0 else "",
                r["cmd"].replace("|", "/"), r["outcome"].replace("|", "/"), r["caught_by"].replace("|", "/"), r["replay"].replace("|", "/")))
    return "\n".join(rows)

def _first(m):
    f = m.get("first_run", "")
    if not f:
        return "caught"
    if m.get("round") == 3:
        return f.replace("|", "/")[:90]
    return "missed" if "MISSED" in f else "no replay"


def findings():
    k = json.load(open(os.path.join(V, "known_findings.json")))["findings"]
    rows = ["| Property | Status | Commit | Signature | What fails / failed |", "|---|---|---|---|---|"]
    for f in k:
        rows.append("| %s | %s | %s | `%s` | %s |" % (f["property"], f["status"], f.get("commit", "-"), f["signature"],
                                                    f["what_failed"].replace("|", "/").replace("\n", " ")[:420]))
    return "\n".join(rows)

def status():
    man = json.load(open(os.path.join(V, "MANIFEST.json")))
    rows = ["| Property | Theorems audited (obligations = discharged) | Correspondence cases (last run) | Distinct non-trivial | Tier, seed, wall time of that run | Technique |", "|---|---|---|---|---|---|"]
    for c in man["checks"]:
        pid = c["property_id"]
        try:
            e = json.load(open(os.path.join(V, "evidence", pid + ".json")))
            cov = e["coverage"]
            rows.append("| %s | %s = %s | %s | %s | %s, seed %s, %.0f s | %s |" % (pid, cov.get("obligations"), cov.get("discharged"), cov.get("evaluations"),
                        cov.get("distinct_nontrivial"), e["tier"], e["seed"], e["wall_s"], c.get("technique", "")[:160]))
        except Exception as ex:
            rows.append("| %s | (no evidence file: %s) | | | | |" % (pid, ex))
    return "\n".join(rows)

p = os.path.join(V, "DESIGN.md")
s = open(p).read()
for tag, fn in (("SEEDED", seeded), ("FINDINGS", findings), ("STATUS", status)):
    b, e = "<!-- BEGIN %s -->" % tag, "<!-- END %s -->" % tag
    if b in s:
        s = s[:s.index(b) + len(b)] + "\n" + fn() + "\n" + s[s.index(e):]
open(p, "w").write(s)
print("ok")
