#!/bin/sh
# usage: run_seeds.sh "C03:c03/box-tuple-isinstance C03:c03/decref-boundary ..."
SEEDROOT=${SEEDROOT:-/tmp/seedout}
for item in $1; do
  P=${item%%:*}; D=${item#*:}
  echo "##### $P $D"
  /verif/tools/try_seed.sh $P $SEEDROOT/$D/patch.diff
done
