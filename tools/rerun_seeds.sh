#!/bin/sh
# tools/rerun_seeds.sh <worker-tag> "<seed-dir-names...>": re-run the owning check of each seeded change that applies to HEAD,
# in this worker's own scratch copies (/tmp/coord-repo-<tag>, /tmp/coord-verif-<tag>); one result line per seed.
TAG=$1; shift
R=/tmp/coord-repo-$TAG; V=/tmp/coord-verif-$TAG
rm -rf $R $V; cp -r /repo $R; mkdir -p $V; rsync -a --exclude replays --exclude '.git' /verif/ $V/
for name in $1; do
  P=$(echo $name | cut -c1-3)
  (cd $R && git checkout -q -- . && git clean -fdq && git apply /verif/seeded/$name/patch.diff) || { echo "$name PATCH-FAILED"; continue; }
  (cd $V && rm -rf replays && RPYC_REPO=$R timeout -k 10 1500 ./check $P quick > $V/rr.log 2>&1; echo "$name rc=$? $(grep -E '^VIOLATION' $V/rr.log | head -1)")
done
(cd $R && git checkout -q -- .)
rm -rf $R $V
