"""C18: a TCP registry must keep answering whatever malformed clients did before.

TCPRegistryServer._recv stores the accepted socket in `_connected_sockets`; only `_send` (a reply) pops and
closes it.  Every request that gets no reply - wrong magic, unknown command, failing command, undecodable or
empty payload - leaves its socket open for good.  Once the process is out of descriptors `accept` fails with
EMFILE on every iteration and the registry answers nobody, for as long as it runs.

The registry runs in a child process with RLIMIT_NOFILE = 40 (so ~35 malformed clients are enough; with the
usual 1024 it takes ~1000).  PASS = a well-formed query is answered after 60 malformed TCP clients.
Usage: demo_C18_tcp_registry_leak.py [magic|unknown|badargs|garbage|empty]      (RPYC_REPO selects the tree)
"""
import logging
import os
import socket
import subprocess
import sys
import time
REPO = os.environ.get("RPYC_REPO", "/repo")
sys.path.insert(0, REPO)
from rpyc.core import brine
from rpyc.utils.registry import TCPRegistryClient
logging.disable(logging.CRITICAL)
SERVER = """
import sys, resource, logging
sys.path.insert(0, %r)
logging.disable(logging.CRITICAL)
from rpyc.utils.registry import TCPRegistryServer
resource.setrlimit(resource.RLIMIT_NOFILE, (40, 40))
srv = TCPRegistryServer(host="127.0.0.1", port=0)
print(srv.port, flush=True)
srv.start()
""" % REPO
kind = sys.argv[1] if len(sys.argv) > 1 else "magic"
payload = {"magic": brine.dump(("XXXX", "QUERY", ("A",))), "unknown": brine.dump(("RPYC", "NOPE", ())),
           "badargs": brine.dump(("RPYC", "QUERY", (5,))), "garbage": b"\xff\xff", "empty": b""}[kind]
p = subprocess.Popen([sys.executable, "-c", SERVER], stdout=subprocess.PIPE)
try:
    port = int(p.stdout.readline())
    cli = TCPRegistryClient(ip="127.0.0.1", port=port, timeout=2)
    assert cli.register(("A",), 1111, interface="127.0.0.1")
    print("before:", cli.discover("A"))
    n = 0
    for i in range(60):
        try:
            s = socket.create_connection(("127.0.0.1", port), timeout=1)
            if payload:
                s.send(payload)
            time.sleep(0.01)
            s.close()
            n += 1
        except Exception:  # noqa
            break
    time.sleep(0.5)
    print("malformed (%s) clients that could still connect: %d of 60; registry process holds %d descriptors"
          % (kind, n, len(os.listdir("/proc/%d/fd" % p.pid))))
    t0 = time.time()
    try:
        res = cli.discover("A")
    except Exception as ex:  # noqa
        res = "no answer: %r" % (ex,)
    print("well-formed query afterwards:", res, "after %.2fs; registry process alive: %s" % (time.time() - t0, p.poll() is None))
    ok = res == (("127.0.0.1", 1111),)
finally:
    p.kill()
print("PASS" if ok else "FAIL")
sys.exit(0 if ok else 1)
