"""C18: two datagrams must not end the registry's main loop.

A REGISTER whose port is a tuple nested a few hundred levels deep is accepted ('OK').  A later QUERY for that name
makes `brine.dump(reply)` raise RecursionError (the reply nests the port as deep as the request did, and dumping the
innermost int takes one frame more than loading it did).  That call sits in the `else:` of `_work`'s try, outside
every guard: `_work` ends, and the registry answers nobody again.  Whether a depth is fatal depends on the parity of
the stack below `_work`, so depths 480..510 are all tried (each under its own name) against the real
bin/rpyc_registry.py (UDP) in a child process.  PASS = a well-formed query is still answered afterwards.
RPYC_REPO selects the tree.
"""
import os
import socket
import subprocess
import sys
import time
REPO = os.environ.get("RPYC_REPO", "/repo")
sys.path.insert(0, REPO)
from rpyc.core import brine

s0 = socket.socket()
s0.bind(("127.0.0.1", 0))
port = s0.getsockname()[1]
s0.close()
p = subprocess.Popen([sys.executable, os.path.join(REPO, "bin", "rpyc_registry.py"), "-p", str(port), "--logfile", os.devnull],
                     env=dict(os.environ, PYTHONPATH=REPO), stdout=subprocess.DEVNULL, stderr=subprocess.PIPE)
sock = socket.socket(socket.AF_INET, socket.SOCK_DGRAM)
sock.settimeout(1.5)
addr = ("127.0.0.1", port)


def ask(data):
    sock.sendto(data, addr)
    try:
        return brine.load(sock.recvfrom(65535)[0])
    except socket.timeout:
        return "NO ANSWER"


try:
    for _ in range(50):
        if ask(brine.dump(("RPYC", "QUERY", ("nobody",)))) == ():
            break
        time.sleep(0.1)
    print("registered a normal server:", ask(brine.dump(("RPYC", "REGISTER", (("calc",), 18812)))))
    head = brine.dump(("RPYC", "REGISTER", (("foo",), 7)))
    killed_at = None
    for depth in range(480, 511):
        name = "foo%d" % depth
        reg = brine.dump(("RPYC", "REGISTER", ((name,), 7)))[:-1] + bytes([0x10]) * depth + brine.dump(7)   # TAG_TUP1 x depth
        r1 = ask(reg)
        r2 = ask(brine.dump(("RPYC", "QUERY", (name,))))
        if r1 == "OK" and r2 == "NO ANSWER":
            killed_at = depth
            print("depth %d: REGISTER answered 'OK' (%d bytes), the QUERY for %r got no answer" % (depth, len(reg), name))
            break
    res = ask(brine.dump(("RPYC", "QUERY", ("calc",))))
    print("well-formed query for 'calc' afterwards:", res, "| registry process alive:", p.poll() is None)
    ok = res == (("127.0.0.1", 18812),)
    if not ok:
        p.terminate()
        err = p.stderr.read().decode()[-400:]
        print("registry stderr tail:", err.strip().split("\n")[-1] if err.strip() else "(none)")
finally:
    p.kill()
print("PASS" if ok else "FAIL")
sys.exit(0 if ok else 1)
