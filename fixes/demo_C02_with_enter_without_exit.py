"""C02 demo (known finding `with-enter-without-exit`): `with proxy:` on a target whose type has `__enter__` but no
`__exit__`.  Directly the `with` statement refuses the object (TypeError) before anything runs.  BaseNetref defines
`__exit__` for every proxy, so the interpreter's look at the proxy's TYPE passes: `__enter__` and the body run on the
target, then leaving the block raises AttributeError.

usage: PYTHONPATH=<rpyc tree> python demo_C02_with_enter_without_exit.py    exit 0: same outcome; 1: differs
"""
import sys
import rpyc

SETUP = """
class EnterOnly(object):
    log = []
    def __enter__(self):
        self.log.append('enter'); return self
x = EnterOnly()
"""


def run(obj, log):
    try:
        with obj:
            log("body")
        return "no exception"
    except Exception as ex:  # noqa
        return type(ex).__name__


def main():
    c = rpyc.classic.connect_thread()
    c.execute(SETUP)
    through = run(c.namespace["x"], lambda s: c.execute("x.log.append(%r)" % s))
    far_log = list(c.eval("x.log"))
    ns = {}
    exec(SETUP, ns)
    direct = run(ns["x"], ns["x"].log.append)
    print("through the proxy: %s, ran on the target: %r" % (through, far_log))
    print("directly         : %s, ran on the target: %r" % (direct, ns["x"].log))
    c.close()
    same = (through, far_log) == (direct, ns["x"].log)
    print("PASS" if same else "FAIL")
    return 0 if same else 1


if __name__ == "__main__":
    sys.exit(main())
