"""C07 demo: building the class of a proxy must not run module code, let alone import anything.

A peer passes, by reference, an object whose class is called ``<module>.<Name>``.  The serving side asks the peer for
the class's methods (HANDLE_INSPECT) and then `netref.class_factory` resolves the peer-chosen dotted name in
``sys.modules``.  The pinned code does that with ``getattr(module, rest, None)``: on a module that defines a
module-level ``__getattr__`` (PEP 562) this RUNS THE MODULE'S HOOK with a peer-chosen name - under the default
configuration.  Two cases:

  1. a canary module with a PEP 562 hook that records the call and imports another canary module;
  2. the standard library: ``concurrent.futures`` (loaded by many applications) imports its ``process`` / ``thread``
     submodules - and through them multiprocessing etc. - from its hook.

Exit 0: no module hook ran and nothing was imported.   Exit 1: it did.
Usage: python demo_C07_class_factory_module_getattr.py [path-to-rpyc-checkout]   (default /repo)
"""
import importlib.abc
import importlib.machinery
import sys
import types

sys.path.insert(0, sys.argv[1] if len(sys.argv) > 1 else "/repo")
import concurrent.futures  # noqa: E402,F401  (already loaded in the serving process, like in many applications)

import rpyc  # noqa: E402

HOOK_CALLS = []
IMPORTED = []


class _Finder(importlib.abc.MetaPathFinder, importlib.abc.Loader):
    """makes `c07demo_payload` importable (importing it is recorded)"""
    def find_spec(self, fullname, path=None, target=None):
        return importlib.machinery.ModuleSpec(fullname, self) if fullname == "c07demo_payload" else None

    def create_module(self, spec):
        return None

    def exec_module(self, module):
        IMPORTED.append(module.__name__)


sys.meta_path.append(_Finder())

# an already-imported application module with a PEP 562 hook (lazy attributes are a common use of it)
hookmod = types.ModuleType("c07demo_hookmod")


def _module_getattr(name):
    HOOK_CALLS.append(name)
    __import__("c07demo_payload")
    raise AttributeError(name)


hookmod.__getattr__ = _module_getattr
sys.modules["c07demo_hookmod"] = hookmod


def make_lure(module_name, class_name):
    cls = type(class_name, (object,), {})
    cls.__module__ = module_name           # boxed as ('<module_name>.<class_name>', id(type), id(obj)) - a REMOTE_REF
    return cls()


class QuietService(rpyc.Service):
    def exposed_echo(self, x):
        return None


def main():
    conn = rpyc.connect_thread(remote_service=QuietService(), remote_config={})   # the victim: DEFAULT configuration
    failures = []
    try:
        before = set(sys.modules)
        conn.root.echo(make_lure("c07demo_hookmod", "Whatever"))
        print("case 1: hook calls %r, imported %r" % (HOOK_CALLS, IMPORTED))
        if HOOK_CALLS:
            failures.append("the module-level __getattr__ of c07demo_hookmod ran with the peer-chosen name %r" % (HOOK_CALLS[0],))
        if IMPORTED:
            failures.append("the process imported %r" % (IMPORTED,))

        before = set(sys.modules)
        conn.root.echo(make_lure("concurrent.futures", "ProcessPoolExecutor"))
        new = sorted(set(sys.modules) - before)
        print("case 2: %d modules newly imported%s" % (len(new), (": " + ", ".join(new[:8]) + (" ..." if len(new) > 8 else "")) if new else ""))
        if new:
            failures.append("concurrent.futures' module hook imported %d modules (%s ...)" % (len(new), ", ".join(new[:4])))
    finally:
        conn.close()
    if failures:
        print("PROPERTY C07 VIOLATED (a peer message made the process run a module hook / import modules):")
        for f in failures:
            print("  -", f)
        return 1
    print("OK: the class name is looked up without running module code; nothing imported")
    return 0


if __name__ == "__main__":
    sys.exit(main())
