"""C15 demo: a callback registered while another thread publishes the reply must still run exactly once.

`add_callback` tests `_is_ready` and then appends; `__call__` sets `_is_ready` and takes the list.  When the
publication (a BgServingThread delivering the reply) falls between the test and the append, the callback lands
in a list nobody looks at again and never runs.  The window is made deterministic here: the result's callback
list is a list subclass whose `append` first lets a second thread deliver the reply (and gives it half a second:
with the repair that thread has to wait for the registration to finish, without it it is done at once).

Usage: RPYC_REPO=/path/to/rpyc/tree python demo_C15_callback_registered_during_publication_is_lost.py
Exit 0: the callback ran exactly once.  Exit 1: it never ran (or ran twice).
"""
import os
import sys
import threading

sys.path.insert(0, os.environ.get("RPYC_REPO", "/repo"))
from rpyc.core.async_ import AsyncResult  # noqa: E402


class PausingList(list):
    """append() is where add_callback is between its test and its append"""
    def __init__(self, in_between):
        list.__init__(self)
        self.in_between = in_between

    def append(self, item):
        hook, self.in_between = self.in_between, None
        if hook:
            hook()
        list.append(self, item)


def main():
    res = AsyncResult(None)
    ran = []
    publisher = threading.Thread(target=lambda: res(False, 7), name="bg-serving-thread", daemon=True)

    def in_between():
        publisher.start()          # the reply is delivered by the other thread right now ...
        publisher.join(0.5)        # ... completely, unless it has to wait for this registration to finish

    res._callbacks = PausingList(in_between)
    res.add_callback(lambda r: ran.append(r.value))
    publisher.join(5)
    print("ready: %r, value: %r, callback ran %d time(s), callbacks still stored: %d" % (
        res._is_ready, res._obj, len(ran), len(res._callbacks)))
    # re-entrant registration from inside a callback must still run at once (no lock held while callbacks run)
    res2 = AsyncResult(None)
    order = []
    res2.add_callback(lambda r: (order.append("outer"), r.add_callback(lambda r2: order.append("inner"))))
    done = threading.Thread(target=lambda: res2(False, 1), daemon=True)
    done.start()
    done.join(3)
    print("re-entrant registration: %r%s" % (order, "" if not done.is_alive() else " (delivery BLOCKED)"))
    ok = ran == [7] and not res._callbacks and order == ["outer", "inner"] and not done.is_alive()
    return 0 if ok else 1


if __name__ == "__main__":
    rc = main()
    print("OK" if rc == 0 else "PROPERTY VIOLATED: a callback registered while the reply was being published never ran")
    sys.exit(rc)
