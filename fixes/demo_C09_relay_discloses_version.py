"""C09: the version text travels only when the sender's include_local_version allows. A relay B (include_local_traceback on,
include_local_version OFF) that received an exception from a peer on another major version appends 'WARNING ... local is on
RPyC x.y.z' to _remote_tb; raised on, that text is embedded by Derived.__str__ in B's traceback text and reaches the third
party: B's version is disclosed although the switch is off."""
import sys
sys.path.insert(0, __import__("os").environ.get("RPYC_REPO", "/repo"))
from rpyc.core import vinegar
from rpyc import version
first = (("builtins", "ValueError"), ("x",), (("_remote_version", "4.1.0"),), "Traceback of A\n")
at_b = vinegar.load(first, False, False, False)
try:
    raise at_b
except ValueError:
    second = vinegar.dump(*sys.exc_info(), include_local_traceback=True, include_local_version=False)
leak = version.version_string in repr(second)
print("B withholds its version; payload to the third party contains %r: %s" % (version.version_string, leak))
print("PASS" if not leak else "FAIL")
sys.exit(1 if leak else 0)
