"""C11: a side that meets a transport failure while writing a REPLY (inside a nested serve()) must
become closed and run its disconnect hook once.  Before the fix: EOFError at the caller but
conn.closed stays False and on_disconnect never runs."""
import sys
sys.path.insert(0, "/verif/harness"); sys.path.insert(0, __import__("os").environ.get("RPYC_REPO", "/repo"))
import rpyc
from simnet import Net
hooks = []
class A(rpyc.Service):
    def on_disconnect(self, conn):
        hooks.append("A")
    def exposed_cb(self):
        return 7
class B(rpyc.Service):
    def exposed_call_back(self, f):
        return f() + 1
net = Net()
with net.installed():
    ca, cb = net.connect_pair(A(), B())
    root = ca.root
    sa = net.streams["A"]
    state = {"writes": 0}
    def fault(op, stream, arg):
        if op == "write":
            state["writes"] += 1
            if state["writes"] == 2:       # 1st write: the request; 2nd write: A's reply to B's callback
                stream.close()
                raise EOFError("injected")
    svc = ca._local_root
    call_back = root.call_back              # attribute fetched before the fault is armed
    sa.fault = fault
    try:
        call_back(svc.exposed_cb)
        print("returned?!")
    except EOFError:
        print("caller got EOFError")
    print("closed:", ca.closed, "hooks:", hooks)
    ok = ca.closed and hooks == ["A"]
    sa.fault = None
    try:
        ca.close()
    except Exception:
        pass
    ok = ok and hooks == ["A"]
    net.shutdown()
print("PASS" if ok else "FAIL")
sys.exit(0 if ok else 1)
