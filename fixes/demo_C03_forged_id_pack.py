"""C03: `get_id_pack` trusted `hasattr(obj, '____id_pack__')`, so ANY object that answers that name is taken for a proxy
and boxed under whatever it answers:
  * two instances of a class whose __getattr__ answers every name with the same tuple arrive as ONE object (the second
    silently denotes the first);
  * objects that answer every name with something unserialisable / unhashable cannot be lent at all
    (xmlrpc.client.ServerProxy, unittest.mock.call);
  * a netref CLASS cannot be lent (its `____id_pack__` is the slot descriptor).
Expected: each is an ordinary object with its own identity, reaches the peer as a reference and echoes back as itself.
Run:  RPYC_REPO=/repo /venv/bin/python /verif/fixes/demo_C03_forged_id_pack.py"""
import os
import sys
import unittest.mock
import xmlrpc.client

sys.path.insert(0, "/verif/harness")
sys.path.insert(0, os.environ.get("RPYC_REPO", "/repo"))
import rpyc                      # noqa: E402
from simnet import Net           # noqa: E402


class W(object):
    def __init__(self, v):
        self.v = v

    def __getattr__(self, name):
        if name == "____id_pack__":
            return ("m.W", 1, 2)
        raise AttributeError(name)


class S(rpyc.Service):
    def __init__(self):
        self.kept = []

    def exposed_keep(self, x):
        self.kept.append(x)
        return len(self.kept)

    def exposed_same(self, i, j):
        return self.kept[i] is self.kept[j]

    def exposed_ident(self, x):
        return x

    def exposed_v(self, i):
        return self.kept[i].v


def main():
    bad = []
    net = Net()
    with net.installed():
        sb = S()
        ca, cb = net.connect_pair(None, sb, config_a={"allow_all_attrs": True})
        a, b = W("a"), W("b")
        try:
            ca.root.keep(a)
            ca.root.keep(b)
            same = ca.root.same(0, 1)
            vb = ca.root.v(1)
            print("two W instances: arrive as the same object: %s; the second one's .v seen by the peer: %r" % (same, vb))
            if same or vb != "b":
                bad.append("an object answering ____id_pack__ through __getattr__ denotes another object")
        except Exception as ex:  # noqa
            bad.append("W instances: %s" % type(ex).__name__)
        proxy_of_list = ca.root.ident([1])
        for name, obj in (("xmlrpc.client.ServerProxy", xmlrpc.client.ServerProxy("http://localhost:1")),
                          ("unittest.mock.call", unittest.mock.call), ("a netref class", type(proxy_of_list))):
            try:
                back = ca.root.ident(obj)
                print("%-26s echo is the original: %s" % (name, back is obj))
                if back is not obj:
                    bad.append("%s did not come back as itself" % name)
            except Exception as ex:  # noqa
                print("%-26s %s: %s" % (name, type(ex).__name__, str(ex).splitlines()[0][:60]))
                bad.append("%s cannot be lent (%s)" % (name, type(ex).__name__))
        ca.close()
        net.shutdown()
    print("FAIL: " + "; ".join(bad) if bad else "PASS")
    return 1 if bad else 0


if __name__ == "__main__":
    sys.exit(main())
