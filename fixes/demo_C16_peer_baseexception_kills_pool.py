"""C16 demo: exception replies naming SystemExit must not cost a ThreadPoolServer its workers or its accept loop.

vinegar rebuilds an exception the PEER names; for builtins.SystemExit / KeyboardInterrupt / GeneratorExit that is a
BaseException, which `except Exception` does not catch.

Part 1 (workers): a client writes two small frames and leaves: an unsolicited REPLY carrying a by-reference object of an
        unknown class (unboxing it makes the worker ask the client about the class: INSPECT, seq 0) and - sent ahead - an
        EXCEPTION reply for seq 0 naming builtins.SystemExit.  The BaseException passes `_deliver_response`, `_serve_requests`
        and `_serve_clients`: the worker thread ends.  After nbThreads such clients the pool serves nobody, ever.
Part 2 (accept loop): ThreadPoolServer(ClassicService): its on_connect asks the peer for its root IN THE ACCEPT THREAD; one
        EXCEPTION frame naming SystemExit as the answer leaves `accept()`, and `start()`'s finally closes the whole server.

Expected: all workers alive, the accept thread alive, a client connected before still served, a new client served.
Exit status 0 = holds, 1 = not.  RPYC_REPO selects the tree (default /repo).
"""
import logging
import os
import socket
import struct
import sys
import threading
import time

sys.path.insert(0, os.environ.get("RPYC_REPO", "/repo"))
import rpyc                                              # noqa: E402
from rpyc.core import brine, consts as c                 # noqa: E402
from rpyc.utils.server import ThreadPoolServer           # noqa: E402

logging.disable(logging.CRITICAL)
threading.excepthook = lambda args: None


def F(o):
    d = brine.dump(o)
    return struct.pack("!LB", len(d), 0) + d + b"\n"


SYSEXIT = F((c.MSG_EXCEPTION, 0, (("builtins", "SystemExit"), (), (), "tb")))
EVIL = F((c.MSG_REPLY, 77, (c.LABEL_REMOTE_REF, ("evil.T", 1, 0)))) + SYSEXIT


def served(port, what, problems):
    try:
        conn = rpyc.connect("127.0.0.1", port, config={"sync_request_timeout": 3})
        conn.ping(timeout=3)
        return conn
    except Exception as ex:  # noqa
        problems.append("%s is not served: %s: %s" % (what, type(ex).__name__, ex))


def part1(problems):
    srv = ThreadPoolServer(rpyc.VoidService, hostname="127.0.0.1", port=0, nbThreads=2, auto_register=False)
    srv._start_in_thread()
    good = served(srv.port, "part 1: a client before the attack", problems)
    for _ in range(2):
        s = socket.create_connection(("127.0.0.1", srv.port))
        s.sendall(EVIL)
        time.sleep(0.5)
        s.close()
    time.sleep(0.5)
    alive = [w.is_alive() for w in srv.workers]
    if not all(alive):
        problems.append("part 1: workers alive after two hostile clients came and went: %r" % (alive,))
    try:
        good.ping(timeout=3)
    except Exception as ex:  # noqa
        problems.append("part 1: the client connected before is no longer served: %s: %s" % (type(ex).__name__, ex))
    served(srv.port, "part 1: a new client", problems)
    threading.Thread(target=srv.close, daemon=True).start()


def part2(problems):
    srv = ThreadPoolServer(rpyc.ClassicService, hostname="127.0.0.1", port=0, nbThreads=2, auto_register=False)
    t = srv._start_in_thread()
    good = rpyc.classic.connect("127.0.0.1", srv.port)
    good._config["sync_request_timeout"] = 3
    good.ping(timeout=3)
    s = socket.create_connection(("127.0.0.1", srv.port))
    s.sendall(SYSEXIT)
    time.sleep(1.0)
    s.close()
    if not t.is_alive() or srv._closed:
        problems.append("part 2: after one EXCEPTION frame the accept thread has ended / the server closed itself")
    try:
        good.ping(timeout=3)
    except Exception as ex:  # noqa
        problems.append("part 2: the client connected before is no longer served: %s: %s" % (type(ex).__name__, ex))
    try:
        late = rpyc.classic.connect("127.0.0.1", srv.port)
        late.ping(timeout=3)
    except Exception as ex:  # noqa
        problems.append("part 2: a new client is not served: %s: %s" % (type(ex).__name__, ex))
    threading.Thread(target=srv.close, daemon=True).start()


def main():
    problems = []
    part1(problems)
    part2(problems)
    sys.stdout.flush()
    if problems:
        print("FAIL")
        for p in problems:
            print("  " + p)
        sys.stdout.flush()
        os._exit(1)
    print("PASS: workers and accept loop survived; clients connected before are served, new ones too")
    sys.stdout.flush()
    os._exit(0)


if __name__ == "__main__":
    main()
