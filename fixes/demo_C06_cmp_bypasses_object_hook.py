"""C06 demo: an object's own `_rpyc_getattr` hook must also decide for HANDLE_CMP requests.

`Connection._handle_cmp` looks the operator up on `type(obj)`, so `_access_attr` asks the METACLASS for the
`_rpyc_getattr` hook and never the object's class: a peer that sends HANDLE_CMP with an operator name of its choice
(`__getitem__`, `__delitem__`, ...) reaches methods the object's hook refuses.  Default configuration on both sides.

    /venv/bin/python fixes/demo_C06_cmp_bypasses_object_hook.py            # against /repo
    RPYC_REPO=/tmp/repo-x /venv/bin/python fixes/demo_C06_cmp_bypasses_object_hook.py

exit 0: the hook decides (property holds); exit 1: the hook is bypassed.
"""
import os
import sys

sys.path.insert(0, os.environ.get("RPYC_REPO", "/repo"))
import rpyc  # noqa: E402
from rpyc.core import consts  # noqa: E402


class Vault(object):
    def __init__(self):
        self._secrets = {"k": "s3cret"}

    def _rpyc_getattr(self, name):
        raise AttributeError("denied by the object's own hook: %r" % (name,))

    def __getitem__(self, k):
        return self._secrets[k]

    def __delitem__(self, k):
        del self._secrets[k]


class Holder(object):
    def __init__(self):
        self.public = 1
        self.hidden = "not listed"


VAULT = Vault()
HOLDER = Holder()


class Svc(rpyc.Service):
    def exposed_vault(self):
        return VAULT

    def exposed_view(self):
        return rpyc.restricted(HOLDER, ["public"])


def attempt(what, fn):
    try:
        return ("ok", fn())
    except Exception as ex:  # noqa
        return ("raised", type(ex).__name__)


def main():
    conn = rpyc.connect_thread(remote_service=Svc)
    problems = []
    v = conn.root.vault()
    r = attempt("item access through the proxy", lambda: v["k"])
    if r[0] != "raised":
        problems.append("v['k'] through the proxy was served: %r" % (r,))
    r = attempt("HANDLE_CMP __getitem__", lambda: conn.sync_request(consts.HANDLE_CMP, v, "k", "__getitem__"))
    if r[0] == "ok":
        problems.append("HANDLE_CMP(v, 'k', '__getitem__') returned %r although the object's hook refuses every name" % (r[1],))
    r = attempt("HANDLE_CMP __delitem__", lambda: conn.sync_request(consts.HANDLE_CMP, v, "k", "__delitem__"))
    if "k" not in VAULT._secrets:
        problems.append("HANDLE_CMP(v, 'k', '__delitem__') deleted the secret (%r)" % (r,))
    view = conn.root.view()
    r = attempt("HANDLE_CMP on a restricted view", lambda: conn.sync_request(consts.HANDLE_CMP, view, "hidden", "__getattribute__"))
    if r[0] == "ok":
        problems.append("HANDLE_CMP(view, 'hidden', '__getattribute__') was served on a restricted view: %r" % (r[1],))
    # what must keep working: comparisons of ordinary objects and of hook-less services
    lst = conn.root.vault  # a bound method proxy: plain object without hooks
    if not (lst == lst):
        problems.append("comparison of a hook-less proxy with itself is no longer True")
    conn.close()
    if problems:
        print("C06 VIOLATED: an object's own attribute hook does not decide for HANDLE_CMP")
        for p in problems:
            print("  - " + p)
        return 1
    print("ok: the object's own hook decides for HANDLE_CMP too")
    return 0


if __name__ == "__main__":
    sys.exit(main())
