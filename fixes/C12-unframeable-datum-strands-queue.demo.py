"""C12 demo: an exception out of Channel.send that does NOT kill the transport strands other threads' messages.

Thread U is inside the transport write (holds the send lock).  Thread T issues a request whose serialised form
cannot be framed - 4 GiB or more: `Channel.FRAME_HEADER` ("!LB") raises struct.error - and then a small third
request; both are queued (lock busy) and T returns.  U finishes its own packet, drains T's big datum:
struct.error leaves `_send` through the `finally` (lock released) IN THREAD U, whose own request was sent
completely; the loop is not re-entered, so request 3 stays queued on a LIVE stream with every sender returned,
and T is told nothing.

  python C12-unframeable-datum-strands-queue.demo.py          # fast: a 16-bit length field stands in for the 32-bit one (70 KB datum)
  python C12-unframeable-datum-strands-queue.demo.py --real   # the real thing: 2 x 2.1 GiB payload, ~9 GiB RAM, ~1 min

exit 0: nothing left queued (property holds); exit 1: a message is stranded.  PYTHONPATH selects the tree.
"""
import sys
import threading

from rpyc.core import brine, consts
from rpyc.core.channel import Channel
from rpyc.core.protocol import Connection
from rpyc.core.service import VoidService
from rpyc.lib.compat import Struct

REAL = "--real" in sys.argv


class Stream:
    MAX_IO_CHUNK = 64000

    def __init__(self):
        self.closed, self.entered, self.go, self.n = False, threading.Event(), threading.Event(), 0
        self.packets = 0

    def write(self, data):
        self.n += 1
        if self.n == 1:
            self.entered.set()
            self.go.wait(300)
        self.packets += 1

    def close(self):
        self.closed = True


st = Stream()
conn = Connection(VoidService(), Channel(st, compress=False))
out = {}


def thread_u():
    try:
        conn._send(consts.MSG_REQUEST, 1, "u")
        out["U"] = "returned"
    except BaseException as ex:  # noqa
        out["U"] = "raised %s" % type(ex).__name__


tu = threading.Thread(target=thread_u)
tu.start()
st.entered.wait(10)
if REAL:
    half = bytes(2 ** 31 + 2 ** 27)
    big = (half, half)
else:
    Channel.FRAME_HEADER = Struct("!HB")       # 16-bit length: a 70 KB datum is what a 4 GiB one is to "!LB"
    big = bytes(70000)
try:
    conn._send(consts.MSG_REQUEST, 2, big)
    out["T(unframeable)"] = "returned"
    conn._send(consts.MSG_REQUEST, 3, "third")
    out["T(third)"] = "returned"
except BaseException as ex:  # noqa
    out["T"] = "raised %s" % type(ex).__name__
del big
st.go.set()
tu.join()
left = [brine.load(d)[1] for d in conn._send_queue]
print(out, "| left queued (seq):", left, "| stream closed:", st.closed, "| lock held:", conn._sendlock.locked())
conn._closed = True
if left:
    print("FAIL: every sender has returned, the transport is alive, and request(s) %s were never transmitted" % left)
    sys.exit(1)
print("OK: nothing left queued")
