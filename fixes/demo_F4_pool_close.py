"""C17: closing a ThreadPoolServer must terminate its clients (they observe EOF promptly, the
service's on_disconnect runs, fd_to_conn is emptied).  Before the fix the client stays connected."""
import sys, time, threading
sys.path.insert(0, __import__("os").environ.get("RPYC_REPO", "/repo"))
import rpyc
from rpyc.utils.server import ThreadPoolServer
hooks = []
class S(rpyc.Service):
    def on_disconnect(self, conn):
        hooks.append(1)
    def exposed_ping(self):
        return "pong"
srv = ThreadPoolServer(S, port=0, nbThreads=2, auto_register=False)
t = srv._start_in_thread()
c = rpyc.connect("localhost", srv.port)
assert c.root.ping() == "pong"
time.sleep(0.3)
srv.close()
t.join(5)
t0 = time.time()
try:
    c._config["sync_request_timeout"] = 3
    c.root.ping()
    outcome = "answered?!"
except EOFError:
    outcome = "EOFError"
except Exception as e:
    outcome = type(e).__name__
dt = time.time() - t0
print("client outcome:", outcome, "after %.2fs" % dt, "hooks:", hooks, "fd_to_conn:", len(srv.fd_to_conn))
ok = outcome == "EOFError" and dt < 1.0 and hooks == [1] and not srv.fd_to_conn
print("PASS" if ok else "FAIL")
sys.exit(0 if ok else 1)
