"""C11: a side that meets the failure WHILE SERVING becomes closed.
Pinned code: only the MSG_REQUEST branch of `_dispatch` closes on EOFError (70a2ffb).  A request made from inside the
delivery of a RESPONSE — `_unbox` of a first reference sends HANDLE_INSPECT, a result callback (add_callback) issues a
request — that meets the end of the transport raises EOFError out of serve() to the requester, but the side stays open:
closed False, disconnect hook not run, the callback of the response being delivered never popped.
Proposed repair: fixes/C11-close-on-eof-while-delivering-a-response.patch."""
import socket, sys
sys.path.insert(0, __import__("os").environ.get("RPYC_REPO", "/repo"))
import rpyc
from rpyc.core import consts
from rpyc.core.stream import SocketStream
from rpyc.core.channel import Channel
ok = True
class S(rpyc.Service):
    hooks = 0
    def on_disconnect(self, conn): S.hooks += 1
# (1) the peer answers GETROOT and dies: the reply carries a first reference, its class inspection meets the end
a, b = socket.socketpair()
ca = S()._connect(Channel(SocketStream(a)), {})
cb = rpyc.VoidService()._connect(Channel(SocketStream(b)), {})
ar = ca.async_request(consts.HANDLE_GETROOT)            # what conn.root does
cb.serve(1); b.close()
try:
    ar.value; print("(1) returned?!"); ok = False
except EOFError:
    print("(1) requester: EOFError")
print("    closed:", ca.closed, " hook runs:", S.hooks, " callbacks left:", len(ca._request_callbacks))
ok = ok and ca.closed and S.hooks == 1 and len(ca._request_callbacks) == 0
# (2) a result callback issues a request after the peer has died
S.hooks = 0
a, b = socket.socketpair()
ca = S()._connect(Channel(SocketStream(a)), {})
cb = rpyc.VoidService()._connect(Channel(SocketStream(b)), {})
ar = ca.async_request(consts.HANDLE_PING, 1)
ar.add_callback(lambda r: ca.sync_request(consts.HANDLE_PING, 2))
cb.serve(1); b.close()
try:
    ar.wait(); print("(2) wait returned: ready", ar.ready)
except EOFError:
    print("(2) requester: EOFError")
print("    closed:", ca.closed, " hook runs:", S.hooks)
ok = ok and ca.closed and S.hooks == 1
print("PASS" if ok else "FAIL")
sys.exit(0 if ok else 1)
