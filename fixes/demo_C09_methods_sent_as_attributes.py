"""C09: a received exception must stay usable as an exception of its class. Without the patch every method dir() lists that is
not explicitly ignored (Python >= 3.11: add_note) is sent as its repr text and set as an INSTANCE attribute at the receiver:
`e.add_note("x")` in an ordinary except clause raises TypeError ('str' object is not callable), and the text discloses a heap
address of the sender although traceback and version disclosure are off."""
import sys
sys.path.insert(0, "/verif/harness"); sys.path.insert(0, __import__("os").environ.get("RPYC_REPO", "/repo"))
import rpyc
from simnet import Net
class S(rpyc.Service):
    def exposed_boom(self):
        raise ValueError("x")
net = Net()
ok = True
with net.installed():
    ca, cb = net.connect_pair(None, S(), {}, {"include_local_traceback": False, "include_local_version": False})
    try:
        ca.root.boom()
    except ValueError as e:
        shadow = sorted(k for k, v in vars(e).items() if callable(getattr(ValueError, k, None)) and not callable(v))
        leaks = sorted(k for k, v in vars(e).items() if isinstance(v, str) and " at 0x" in v)
        print("instance attributes shadowing methods:", shadow, "| carrying an address:", leaks)
        if hasattr(e, "add_note"):
            try:
                e.add_note("context")
            except TypeError as t:
                print("e.add_note('context') ->", t)
                ok = False
        ok = ok and not shadow and not leaks
    ca.close(); net.shutdown()
print("PASS" if ok else "FAIL")
sys.exit(0 if ok else 1)
