"""C09: a remote `raise SyntaxError("m", ("f", 1, 2, 5))` (detail tuple with a non-text `text`) under the default
include_local_traceback=True must arrive with its args. Without the patch `traceback.format_exception` raises inside
vinegar.dump, so the requester gets SyntaxError('<exception arguments could not be serialized>') (the C08 fallback;
before that fallback: no reply at all)."""
import sys
sys.path.insert(0, "/verif/harness"); sys.path.insert(0, __import__("os").environ.get("RPYC_REPO", "/repo"))
import rpyc
from simnet import Net
ARGS = ("m", ("f", 1, 2, 5))
class S(rpyc.Service):
    def exposed_boom(self):
        raise SyntaxError(*ARGS)
net = Net()
ok = False
with net.installed():
    ca, cb = net.connect_pair(None, S())
    try:
        ca.root.boom()
    except SyntaxError as e:
        print("args", e.args)
        ok = e.args == ARGS
    ca.close(); net.shutdown()
print("PASS" if ok else "FAIL")
sys.exit(0 if ok else 1)
