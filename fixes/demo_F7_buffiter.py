"""C02: buffiter must yield every item (or refuse the parameters). Before the fix: chunk=0 yields nothing."""
import sys
sys.path.insert(0, "/verif/harness"); sys.path.insert(0, __import__("os").environ.get("RPYC_REPO", "/repo"))
import rpyc
from rpyc.utils.helpers import buffiter
from simnet import Net
class S(rpyc.Service):
    def exposed_lst(self):
        return list(range(25))
net = Net()
ok = True
with net.installed():
    ca, cb = net.connect_pair(None, S())
    for kw in (dict(chunk=0), dict(chunk=10, max_chunk=0), dict(chunk=-1), dict(chunk=3, max_chunk=2)):
        try:
            got = list(buffiter(ca.root.lst(), **kw))
            print(kw, "->", len(got), "items")
            ok = ok and got == list(range(25))
        except ValueError as e:
            print(kw, "-> ValueError", e)
    ca.close(); net.shutdown()
print("PASS" if ok else "FAIL")
sys.exit(0 if ok else 1)
