import os, sys, time
sys.path.insert(0, os.environ["RPYC_REPO"])
import rpyc
from rpyc.utils.helpers import BgServingThread
class S(rpyc.Service):
    def exposed_sleep(self, d): time.sleep(d); return d
    def exposed_add(self, a, b): S.calls.append((a, b)); return a + b
S.calls = []
from rpyc.utils.factory import connect_thread
c = connect_thread(remote_service=S)
f = rpyc.async_(c.root.sleep); add = c.root.add
a = f(.05)
a.add_callback(lambda r: (_ for _ in ()).throw(KeyError("callback bug")))
try:
    print("add(1,2) ->", add(1, 2))
except Exception as ex:
    print("the unrelated sync call add(1,2) raised %r; a ready: %r; server executed add: %r" % (ex, a._is_ready, S.calls))
time.sleep(0.2)
try:
    print("next call add(3,4) ->", add(3, 4), "(the reply to add(1,2) was delivered to a result nobody holds)")
except Exception as ex:
    print("next call raised", repr(ex))
# BgServingThread
c2 = connect_thread(remote_service=S)
bg = BgServingThread(c2)
g = rpyc.async_(c2.root.sleep); b = g(.05)
b.add_callback(lambda r: (_ for _ in ()).throw(KeyError("callback bug")))
time.sleep(0.5)
print("bg thread alive after the raising callback:", bg._thread.is_alive(), "; b ready:", b._is_ready)
b2 = g(.01); time.sleep(0.5)
print("a later async result becomes ready by the bg thread:", b2._is_ready)
