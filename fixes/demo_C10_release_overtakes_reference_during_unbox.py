"""C10 / C03 / C01: a release notice must not overtake a reference that is being received.
B returns `(fresh_object_of_a_class_A_has_not_seen, a_proxy_B_holds_of_A's_object)` and drops that proxy. The reply
carries REMOTE_REF(fresh) and LOCAL_REF(x); right behind it travels HANDLE_DEL(x) from the dying proxy. While A unboxes
the reply, the REMOTE_REF of an unknown class makes `_netref_factory` issue a nested HANDLE_INSPECT sync request; the
nested serve() dispatches the queued HANDLE_DEL(x) first, x leaves A's table, and the LOCAL_REF(x) that follows in the
same reply raises KeyError out of sync_request.  Expected: the caller gets (proxy, x)."""
import sys, os
sys.path.insert(0, "/verif/harness"); sys.path.insert(0, os.environ.get("RPYC_REPO", "/repo"))
import rpyc
from simnet import Net
class Fresh(object): pass
class Thing(object): pass
class S(rpyc.Service):
    def exposed_f(self, x):
        return (Fresh(), x)          # x: B's only proxy of A's object; it dies when this request is done
net = Net(); ok = True
with net.installed():
    ca, cb = net.connect_pair(None, S())
    t = Thing()
    try:
        r = ca.root.f(t)
        print("returned", type(r).__name__, "second is the object:", r[1] is t)
        ok = r[1] is t
    except Exception as e:
        print("raised", type(e).__name__, str(e)[:120]); ok = False
    ca.close(); net.shutdown()
print("PASS" if ok else "FAIL"); sys.exit(0 if ok else 1)
