"""C05 candidate: a would-block reported by os.read on a pipe is fatal in PipeStream.read.

The statement says packets arrive "whatever transient would-block or timeout conditions [the underlying socket or
pipe] reports while reading".  SocketStream.read retries on EAGAIN; PipeStream.read treats every EnvironmentError as
fatal: it closes the stream and raises EOFError, and the packet whose remaining bytes were on their way is lost.

Reachable on a real pipe only when O_NONBLOCK is set on the read end - by the application, or by any process that
shares the open file description (stdin handed down by a parent that made it non-blocking).  rpyc itself creates its
pipes blocking and never sets the flag.

Run:  PYTHONPATH=<rpyc tree> python demo_C05_pipe_wouldblock.py      exit 0 = packet delivered, 1 = packet lost
(with fixes/C05-pipe-wouldblock-retry.patch applied: exit 0)
"""
import fcntl
import os
import sys
import threading
import time

from rpyc.core.channel import Channel
from rpyc.core.stream import PipeStream


def main():
    rx, tx = PipeStream.create_pair()
    fd = rx.incoming.fileno()
    fcntl.fcntl(fd, fcntl.F_SETFL, fcntl.fcntl(fd, fcntl.F_GETFL) | os.O_NONBLOCK)
    frame = Channel.FRAME_HEADER.pack(5, 0) + b"hello" + Channel.FLUSHER
    os.write(tx.outgoing.fileno(), frame[:7])          # the header and two bytes arrive first ...

    def rest():
        time.sleep(0.2)
        os.write(tx.outgoing.fileno(), frame[7:])      # ... the rest a moment later
    threading.Thread(target=rest, daemon=True).start()
    try:
        got = Channel(rx, compress=False).recv()
    except EOFError as ex:
        print("LOST: recv raised EOFError(%s); stream.closed=%s" % (ex, rx.closed))
        return 1
    print("delivered: %r" % (got,))
    return 0 if got == b"hello" else 1


if __name__ == "__main__":
    sys.exit(main())
