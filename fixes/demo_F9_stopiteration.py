"""C09: a remote `raise StopIteration(5)` must arrive with args (5,). Before the fix: args == ()."""
import sys
sys.path.insert(0, "/verif/harness"); sys.path.insert(0, __import__("os").environ.get("RPYC_REPO", "/repo"))
import rpyc
from simnet import Net
class S(rpyc.Service):
    def exposed_stop(self):
        raise StopIteration(5)
net = Net()
with net.installed():
    ca, cb = net.connect_pair(None, S())
    try:
        ca.root.stop()
    except StopIteration as e:
        print("args", e.args)
        ok = e.args == (5,)
    ca.close(); net.shutdown()
print("PASS" if ok else "FAIL")
sys.exit(0 if ok else 1)
