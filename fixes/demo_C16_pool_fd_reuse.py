"""C16 (and C17's bookkeeping): ThreadPoolServer closes the connection of a NEW, well-behaved client when a departing
client's descriptor number is reused.

A departing client's end-of-stream makes `self.fd_to_conn[fd].poll()` -> serve() -> Connection.close(): the socket is
closed (the descriptor NUMBER is free again) and on_disconnect runs - all before `_serve_requests` gets to
`self._drop_connection(fd)`.  If the accept thread takes a new client in that window, the kernel hands out the same
(lowest free) number, `_accept_method` stores `fd_to_conn[fd] = new_conn`, and then `_drop_connection(fd)` pops and
closes the NEW client's connection.

Deterministic: the window is held open by an on_disconnect that blocks on an event; the good client connects meanwhile;
the two descriptor numbers are checked to coincide; the event is released; the good client calls.
Exit 0 = the good client is served (repaired), 1 = its connection was closed under it (pinned tree)."""
import fcntl
import logging
import os
import socket
import sys
import threading
import time

sys.path.insert(0, os.environ.get("RPYC_REPO", "/repo"))
import rpyc                                               # noqa: E402
from rpyc.utils.server import ThreadPoolServer            # noqa: E402
logging.disable(logging.CRITICAL)

entered, release = threading.Event(), threading.Event()
log = []


class S(rpyc.Service):
    def __init__(self):
        self.slow = False

    def exposed_arm(self):
        self.slow = True

    def exposed_ping(self):
        return "pong"

    def on_disconnect(self, conn):
        log.append("on_disconnect(slow=%s)" % self.slow)
        if self.slow:
            entered.set()
            release.wait(10)


def client_socket(port):
    """a CLIENT socket of this demo, moved out of the low descriptor numbers BEFORE it connects, so that - as in a real
    deployment, where clients live in other processes - the server's accepted sockets get the lowest free numbers"""
    low = socket.socket(socket.AF_INET, socket.SOCK_STREAM)
    s = socket.socket(fileno=fcntl.fcntl(low.fileno(), fcntl.F_DUPFD, 500))
    low.close()
    s.connect(("127.0.0.1", port))
    return s


def until(pred, ceiling=5.0):
    t0 = time.time()
    while time.time() - t0 < ceiling:
        if pred():
            return True
        time.sleep(0.005)
    return False


srv = ThreadPoolServer(S, hostname="127.0.0.1", port=0, nbThreads=2, auto_register=False)
thread = srv._start_in_thread()
a = rpyc.connect_stream(rpyc.SocketStream(client_socket(srv.port)))
a.root.arm()
assert until(lambda: len(srv.fd_to_conn) == 1)
fd_a = next(iter(srv.fd_to_conn))
a._channel.stream.sock.close()                  # the first client goes away
a._closed = True
assert until(entered.is_set), "the departing client's on_disconnect did not start"
# a worker is now inside on_disconnect: the connection is closed, its table entry still there
b = rpyc.connect_stream(rpyc.SocketStream(client_socket(srv.port)),
                        config=dict(sync_request_timeout=3))
assert until(lambda: any(c is not None and not c.closed for c in srv.fd_to_conn.values())), "second client not accepted"
fd_b = [fd for fd, c in srv.fd_to_conn.items() if not c.closed][0]
print("descriptor numbers: departed client %d, new client %d (%s)" % (fd_a, fd_b, "reused" if fd_a == fd_b else "distinct"))
release.set()                                   # the worker goes on to _drop_connection(fd)
time.sleep(0.3)
try:
    outcome = b.root.ping()
except Exception as ex:  # noqa
    outcome = "%s: %s" % (type(ex).__name__, ex)
print("new client's call:", outcome, "| fd_to_conn:", {fd: ("closed" if c.closed else "open") for fd, c in srv.fd_to_conn.items()},
      "|", log)
ok = outcome == "pong" and fd_a == fd_b
if fd_a != fd_b:
    print("INCONCLUSIVE: the kernel did not reuse the number")
srv.close()
thread.join(5)
print("PASS" if ok else "FAIL")
sys.exit(0 if ok else 1)
