"""C03/C10: `_unbox`'s cache hit does two lookups (`id_pack in self._proxy_cache`, then `self._proxy_cache[id_pack]`).  A proxy
that is kept alive only by a reference cycle dies when the cyclic GC happens to run — if that is between the two lookups,
the second one raises KeyError out of `_unbox`: the message is lost (KeyError at the caller or in the serving loop) and the
owner keeps a reference nobody will release.  The collection is forced here right after the membership test (what an
allocation-triggered GC run does at an arbitrary bytecode).  Expected: the object is received (by a fresh proxy).
Run:  RPYC_REPO=/repo /venv/bin/python /verif/fixes/demo_C03_cache_hit_across_gc.py"""
import gc
import os
import sys

sys.path.insert(0, "/verif/harness")
sys.path.insert(0, os.environ.get("RPYC_REPO", "/repo"))
import rpyc                                   # noqa: E402
from rpyc.core import brine                   # noqa: E402
from rpyc.lib.colls import WeakValueDict      # noqa: E402
from simnet import Net                        # noqa: E402


class CollectAfterMembership(WeakValueDict):
    """a WeakValueDict: after the `armed`-th successful `in` test from now on, the cyclic GC runs once"""
    __slots__ = ("armed",)

    def __contains__(self, key):
        found = WeakValueDict.__contains__(self, key)
        if found and getattr(self, "armed", 0):
            self.armed -= 1
            if self.armed == 0:
                gc.collect()
        return found


def main():
    net = Net(manual=True)
    with net.installed():
        ca, cb = net.connect_pair(compress=False)
        cache = CollectAfterMembership()
        cb._proxy_cache = cache
        obj = [1, 2]
        gc.disable()
        try:
            first = cb._unbox(brine.load(brine.dump(ca._box(obj))))        # B's proxy of A's list
            cycle = [first]
            cycle.append(cycle)                                            # ... kept alive by a cycle only
            del first, cycle
            ok = True
            for nth in (1, 2):             # the collection right after the 1st / the 2nd membership test of `_unbox`
                cache.armed = nth
                try:
                    again = cb._unbox(brine.load(brine.dump(ca._box(obj))))    # the object arrives again
                    print("GC after membership test %d: received again" % nth)
                    cycle = [again]
                    cycle.append(cycle)
                    del again, cycle
                except KeyError as ex:
                    print("GC after membership test %d: KeyError out of _unbox: %s" % (nth, str(ex)[:60]))
                    ok = False
            again = None
        finally:
            gc.enable()
        for _ in range(4):
            ca.poll()
            cb.poll()
        left = [v[1] for k, v in ca._local_objects._dict.items() if k[0] == "builtins.list"]
        print("owner's table before the last collection: %s" % left)
        again = None
        gc.collect()                       # the proxies kept by cycles go now; their release notices are sent
        for _ in range(6):
            ca.poll()
            cb.poll()
        left = [v[1] for k, v in ca._local_objects._dict.items() if k[0] == "builtins.list"]
        print("owner's table after everything was dropped, collected and delivered: %s" % left)
        ok = ok and not left
        ca.close()
    print("PASS" if ok else "FAIL: a cache hit that meets a cyclic-GC run loses the message and leaks the reference")
    return 0 if ok else 1


if __name__ == "__main__":
    sys.exit(main())
