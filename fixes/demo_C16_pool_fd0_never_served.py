"""C16 demo: a ThreadPoolServer client whose server-side socket happens to be descriptor 0 is never served.

`_serve_clients` takes descriptors from the queue and tests `if fd:` to skip the None that close() uses as a wake-up token; 0 is
a perfectly good descriptor number (a daemon that closed its standard input gets it for its first client).

The demo closes descriptor 0 of this process (restored afterwards), starts a pool and connects two clients: the first one's
server-side socket is descriptor 0.  Both must be served.  Exit 0 = holds, 1 = not.  RPYC_REPO selects the tree.
"""
import logging
import os
import socket
import sys
import threading

sys.path.insert(0, os.environ.get("RPYC_REPO", "/repo"))
import rpyc                                        # noqa: E402
from rpyc.core import consts                       # noqa: E402
from rpyc.utils.server import ThreadPoolServer     # noqa: E402

logging.disable(logging.CRITICAL)
threading.excepthook = lambda args: None


def client(port):
    # keep the client's own socket away from the low numbers: they are for the server side
    import fcntl
    s = socket.socket()
    hi = socket.socket(fileno=fcntl.fcntl(s.fileno(), fcntl.F_DUPFD, 300))
    s.close()
    hi.connect(("127.0.0.1", port))
    return rpyc.connect_stream(rpyc.SocketStream(hi), config={"sync_request_timeout": 3})


def main():
    srv = ThreadPoolServer(rpyc.VoidService, hostname="127.0.0.1", port=0, nbThreads=2, auto_register=False)
    srv._start_in_thread()
    saved = os.dup(0)
    os.close(0)
    problems = []
    try:
        first = client(srv.port)
        second = client(srv.port)
        for name, conn in (("first", first), ("second", second)):
            try:
                if conn.sync_request(consts.HANDLE_PING, b"x") != b"x":
                    problems.append("%s client: wrong answer" % name)
            except Exception as ex:  # noqa
                problems.append("%s client (server-side descriptors %r): %s: %s"
                                % (name, sorted(srv.fd_to_conn), type(ex).__name__, ex))
    finally:
        for c in (first, second):
            try:
                c._channel.stream.sock.close()
            except Exception:  # noqa
                pass
        t = threading.Thread(target=srv.close, daemon=True)
        t.start()
        t.join(5)
        try:
            os.dup2(saved, 0)
        finally:
            os.close(saved)
    if problems:
        print("FAIL")
        for p in problems:
            print("  " + p)
        sys.stdout.flush()
        os._exit(1)
    print("PASS: both clients served (server-side descriptors included 0)")
    sys.stdout.flush()
    os._exit(0)


if __name__ == "__main__":
    main()
