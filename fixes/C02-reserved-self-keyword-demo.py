"""C02/C01: a call through a proxy with a keyword argument named `_self` fails although the target accepts it."""
import sys
import rpyc
from rpyc.utils.factory import connect_thread


class Svc(rpyc.Service):
    def exposed_get(self):
        return target, Obj()


def target(**kw):
    return sorted(kw)


class Obj(object):
    def exposed_m(self, **kw):
        return sorted(kw)


conn = connect_thread(remote_service=Svc)
f, o = conn.root.get()
bad = []
for label, call in (("callable(_self=1)", lambda: list(f(_self=1))), ("method(_self=1)", lambda: list(o.m(_self=1)))):
    try:
        got = call()
        print(label, "->", got)
        if got != ["_self"]:
            bad.append(label)
    except Exception as ex:
        print(label, "raised", type(ex).__name__, ex)
        bad.append(label)
print("local:", target(_self=1), Obj().exposed_m(_self=1))
conn.close()
sys.exit(1 if bad else 0)
