import sys, gc, time
sys.path.insert(0, "/repo")
import rpyc
from rpyc.core import consts, netref

class Foo(object): pass
class Bar(object): pass
X = [1, 2, 3]          # B's object with a builtin class name
Y = Foo()              # B's object with a non-builtin class

class B(rpyc.Service):
    conn = None
    def on_connect(self, conn): B.conn = conn
    def exposed_x(self): return X
    def exposed_y(self): return Y
    def exposed_Bar(self): return Bar
    def exposed_dict(self): return dict

sent = []
orig_send = rpyc.core.protocol.Connection._send
def spy(self, msg, seq, args):
    if msg == consts.MSG_REQUEST and args[0] in (consts.HANDLE_DEL, consts.HANDLE_INSTANCECHECK):
        sent.append(("B->A" if self is B.conn else "A->B", args[0], args[1]))
    return orig_send(self, msg, seq, args)
rpyc.core.protocol.Connection._send = spy

a = rpyc.connect_thread(remote_service=B(), config={"allow_all_attrs": True}, remote_config={})
px, py, pBar, pdict = a.root.x(), a.root.y(), a.root.Bar(), a.root.dict()
def counts(): return dict((k[0], v[1]) for k, v in B.conn._local_objects._dict.items())
print("B's table before:", counts())
for p, cls, what in [(px, pBar, "isinstance(proxy_of_list, proxy_of_Bar)"), (px, pdict, "isinstance(proxy_of_list, proxy_of_dict)"),
                     (py, pBar, "isinstance(proxy_of_Foo, proxy_of_Bar)")]:
    del sent[:]
    for _ in range(3):
        try: r = isinstance(p, cls)
        except Exception as ex: r = "%s: %s" % (type(ex).__name__, ex)
    gc.collect(); time.sleep(0.3)
    print(what, "->", r)
    for s in sent: print("    ", s[0], "DEL" if s[1] == consts.HANDLE_DEL else "INSTANCECHECK", s[2])
    print("    B's table:", counts(), "| A's table:", dict((k[0], v[1]) for k, v in a._local_objects._dict.items()))
print("proxies still work:", len(px), type(py).__name__)
a.close()
