"""C03 probe: two messages carrying the same object of a not-yet-seen class, the second dispatched by the nested serve()
of the first one's HANDLE_INSPECT -> are there two live proxies for one remote object?"""
import sys, os
sys.path.insert(0, "/verif/harness"); sys.path.insert(0, os.environ.get("RPYC_REPO", "/repo"))
import rpyc
from rpyc.core import brine
from simnet import Net

net = Net()
with net.installed():
    ca, cb = net.connect_pair(compress=False)
    got = []
    def keep(x):                 # runs at A
        got.append(x)
        return len(got)
    def twice(keep_fn):          # runs at B: the same fresh-class object in two requests, sent back to back
        Fresh = type("Fresh", (object,), {})
        x = Fresh()
        r1 = rpyc.async_(keep_fn)(x)
        r2 = rpyc.async_(keep_fn)(x)
        hold.append((x, r1, r2))
        return None
    hold = []
    def ping(): return None
    twice_p, ping_p = [ca._unbox(brine.load(brine.dump(cb._box(f)))) for f in (twice, ping)]
    twice_p(keep)
    ping_p(); ping_p()
    print("received", len(got), "same proxy:", got[0] is got[1],
          "counts:", [object.__getattribute__(p, "____refcount__") for p in got],
          "owner stored:", [v[1] for k, v in cb._local_objects._dict.items() if k[0].endswith("Fresh")])
    ok = got[0] is got[1]
    del got[:]
    ping_p(); ping_p()
    print("owner table after drop:", [k[0] for k in cb._local_objects._dict if k[0].endswith("Fresh")])
    twice_p = ping_p = None
    net.shutdown([ca])
print("PASS" if ok else "FAIL: two live proxies for one remote object")
