"""Demo for C11-pending-results-fail-at-the-end.patch: what a PENDING AsyncResult says after its connection has ended.

    RPYC_REPO=/repo python demo_C11_pending_results_fail_at_the_end.py      (exit 1 = FAIL before the patch, 0 = PASS with it)

A request is in flight, the peer goes away (or this side closes).  `ar.wait()` / `ar.value` raise EOFError (they call
serve(), which meets the end).  But the polling idioms never learn about the end:
  * `ar.ready` / `ar.error` stay False for ever  -> `while not ar.ready: ...` spins for ever;
  * functions given to `ar.add_callback` never run.
"""
import os
import sys
import time
sys.path.insert(0, os.environ.get("RPYC_REPO", "/repo"))
import rpyc  # noqa


class Svc(rpyc.Service):
    def exposed_slow(self):
        time.sleep(30)
        return 1


def scenario(how):
    c = rpyc.connect_thread(remote_service=Svc)
    fired = []
    ar = rpyc.async_(c.root.slow)()
    ar.add_callback(lambda r: fired.append(r))
    if how == "local close":
        c.close()
    else:
        # the transport ends under this side: what a vanished peer looks like
        c._channel.stream.close()
        try:
            c.serve(0.1)
        except EOFError:
            pass
    spins = 0
    t0 = time.time()
    while not ar.ready and time.time() - t0 < 2.0:      # the idiom of the documentation; bounded here
        spins += 1
        time.sleep(0.01)
    print("%-12s closed=%s  after 2 s of `while not ar.ready`: ready=%s error=%s  callbacks run=%d  (spins %d)"
          % (how, c.closed, ar.ready, ar.error, len(fired), spins))
    try:
        ar.wait()
        w = "returned"
    except EOFError:
        w = "EOFError"
    except Exception as ex:  # noqa
        w = type(ex).__name__
    print("%-12s ar.wait() -> %s;  afterwards ready=%s error=%s callbacks run=%d" % ("", w, ar.ready, ar.error, len(fired)))
    try:
        ar.value
        v = 'a value'
    except EOFError:
        v = 'EOFError'
    except Exception as ex:  # noqa
        v = type(ex).__name__
    print('%-12s ar.value -> %s' % ('', v))
    return bool(ar.ready and ar.error and len(fired) == 1 and v == 'EOFError')


if __name__ == "__main__":
    told = [scenario("local close"), scenario("peer gone")]
    if all(told):
        print("PASS: the end of the connection completed the pending result (ready, an error; its callback ran once)")
        sys.exit(0)
    print("FAIL: a pending result is never completed by the end of its connection")
    sys.exit(1)
