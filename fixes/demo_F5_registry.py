"""C18: (a) a datagram ("RPYC", 5, ()) must not stop the registry; (b) unregister must notify only for
names the server was a member of; (c) a silent TCP client must not block the TCP registry for good."""
import sys, time, socket, threading
sys.path.insert(0, __import__("os").environ.get("RPYC_REPO", "/repo"))
from rpyc.core import brine
from rpyc.utils.registry import UDPRegistryServer, TCPRegistryServer, UDPRegistryClient, TCPRegistryClient
which = sys.argv[1] if len(sys.argv) > 1 else "all"
ok = True
if which in ("a", "b", "all"):
    removed = []
    class R(UDPRegistryServer):
        def on_service_removed(self, name, addrinfo):
            removed.append((name, addrinfo))
    srv = R(host="127.0.0.1", port=0)
    th = threading.Thread(target=srv.start, daemon=True); th.start()
    time.sleep(0.2)
    cli = UDPRegistryClient(ip="127.0.0.1", port=srv.port, timeout=1)
    cli.bcast = False if hasattr(cli, "bcast") else None
    assert cli.register(("A",), 1111, interface="127.0.0.1")
    s = socket.socket(socket.AF_INET, socket.SOCK_DGRAM); s.bind(("127.0.0.1", 0))
    def send(obj):
        s.sendto(brine.dump(obj), ("127.0.0.1", srv.port))
    if which in ("b", "all"):
        send(("RPYC", "REGISTER", (("B",), 2222)))
        time.sleep(0.2)
        cli.unregister(1111)
        time.sleep(0.2)
        print("removed notifications:", removed)
        okb = removed == [("A", ("127.0.0.1", 1111))]
        print("b:", "PASS" if okb else "FAIL"); ok = ok and okb
        assert cli.register(("A",), 1111, interface="127.0.0.1")
    if which in ("a", "all"):
        send(("RPYC", 5, ()))
        time.sleep(0.3)
        alive = th.is_alive()
        res = cli.discover("A")
        print("registry thread alive:", alive, "discover:", res)
        oka = alive and res == (("127.0.0.1", 1111),)
        print("a:", "PASS" if oka else "FAIL"); ok = ok and oka
    if th.is_alive():
        srv.close()
if which in ("c", "all"):
    srv = TCPRegistryServer(host="127.0.0.1", port=0)
    th = threading.Thread(target=srv.start, daemon=True); th.start()
    time.sleep(0.2)
    cli = TCPRegistryClient(ip="127.0.0.1", port=srv.port, timeout=2)
    assert cli.register(("A",), 1111, interface="127.0.0.1")
    silent = socket.create_connection(("127.0.0.1", srv.port))
    time.sleep(0.2)
    t0 = time.time(); answered = None
    cli2 = TCPRegistryClient(ip="127.0.0.1", port=srv.port, timeout=8)
    res = cli2.discover("A")
    dt = time.time() - t0
    print("discover with a silent client connected:", res, "after %.2fs" % dt)
    okc = res == (("127.0.0.1", 1111),) and dt <= srv.TIMEOUT + 1.5
    print("c:", "PASS" if okc else "FAIL"); ok = ok and okc
    silent.close()
    srv.close()
print("PASS" if ok else "FAIL")
sys.exit(0 if ok else 1)
