"""C02: an operation on a proxy must leave the target in the state the same operation leaves it in directly.
A FAILING attribute read through a proxy is evaluated TWICE on the target: BaseNetref.__getattribute__ forwards
HANDLE_GETATTR, the AttributeError that comes back makes Python fall back to BaseNetref.__getattr__, which forwards the
same HANDLE_GETATTR again.  A property (or __getattr__) with a side effect that ends in AttributeError therefore runs
twice; hasattr(proxy, name) likewise."""
import sys, os
sys.path.insert(0, "/verif/harness"); sys.path.insert(0, os.environ.get("RPYC_REPO", "/repo"))
import rpyc
from simnet import Net


class Counting(object):
    def __init__(self):
        self.n = 0
        self.asked = []

    @property
    def p(self):
        self.n += 1
        raise AttributeError("p is not available")

    def __getattr__(self, name):
        self.asked.append(name)
        raise AttributeError(name)


class S(rpyc.Service):
    def __init__(self):
        self.objs = []

    def exposed_get(self):
        self.objs.append(Counting())
        return self.objs[-1]


ok = True
net = Net()
with net.installed():
    cfg = dict(allow_public_attrs=True)
    svc = S()
    ca, cb = net.connect_pair(None, svc, dict(cfg), dict(cfg))
    for label, op in (("proxy.p", lambda o: o.p), ("hasattr(proxy, 'p')", lambda o: hasattr(o, "p")),
                      ("getattr(proxy, 'p', None)", lambda o: getattr(o, "p", None)),
                      ("proxy.missing", lambda o: o.missing)):
        prox = ca.root.get()
        far, twin = svc.objs[-1], Counting()
        for o in (prox, twin):
            try:
                op(o)
            except AttributeError:
                pass
        # rpyc's own identity / policy probes (`____id_pack__`, `__name__`, `____conn__`, `exposed_<name>`) are lookups of
        # OTHER names; what is compared is how often the requested attribute itself was evaluated
        want = label.split("'")[1] if "'" in label else label.split(".")[1]
        got_far, got_twin = far.asked.count(want), twin.asked.count(want)
        same = (far.n, got_far) == (twin.n, got_twin)
        ok = ok and same
        print("%-28s through the proxy: property ran %d x, __getattr__(%r) %d x   directly: %d x, %d x   %s"
              % (label, far.n, want, got_far, twin.n, got_twin, "" if same else "<-- differs"))
    ca.close(); net.shutdown()
print("PASS" if ok else "FAIL"); sys.exit(0 if ok else 1)
