"""HANDLE_DEL with a negative int count: `type(count) is int` lets it through and RefCountingColl.decref
(`if slot[1] < count: del … else: slot[1] -= count`) then RAISES the stored count, so later honest releases no longer
free the entry: the object stays in the table until the connection closes.   exit 1 if the count grew."""
import sys
sys.path.insert(0, sys.argv[1] if len(sys.argv) > 1 else "/repo")
import rpyc
from rpyc.core import consts


class Svc(rpyc.Service):
    conn = None

    def on_connect(self, conn):
        Svc.conn = conn

    def exposed_thing(self):
        return object()


c = rpyc.connect_thread(remote_service=Svc(), remote_config={})
p = c.root.thing()
key = p.____id_pack__
table = Svc.conn._local_objects._dict
print("stored count after the object was sent once:", table[key][1])
c.sync_request(consts.HANDLE_DEL, p, -5)
after = table[key][1]
print("after HANDLE_DEL(obj, -5):", after)
c.sync_request(consts.HANDLE_DEL, p, 1)          # what the proxy's own finalizer would send
print("after an honest release of 1: still in the table:", key in table, "count", table.get(key, [None, None])[1])
c.close()
sys.exit(1 if after > 0 else 0)
