"""C11, two corners of `_cleanup`:
(1) `_cleanup` can run twice in ONE close(): close() with a `before_closed` hook has to fetch the root; while it waits it
    serves the peer's HANDLE_CLOSE (already buffered: a transport that accepts a write after the peer closed), whose handler
    cleans up; close()'s own `finally: self._cleanup()` then runs again.  Pinned code: the second run raises AttributeError
    ('NoneType' object has no attribute 'on_disconnect' / `del self._HANDLERS`) out of close().
(2) `self._channel.close()` sits outside `_cleanup`'s try/finally: if the stream's close() raises (an unguarded sock.close(),
    tun.close(), incoming.close()), `closed` is True but the disconnect hook never runs and nothing is released - for good,
    since every later close() returns at once.
Proposed repair: fixes/C11-cleanup-idempotent-and-channel-close.patch."""
import sys
sys.path.insert(0, "/verif/harness"); sys.path.insert(0, "/verif/harness/props")
sys.path.insert(0, __import__("os").environ.get("RPYC_REPO", "/repo"))
import rpyc
from rpyc.core import consts
from rpyc.core.channel import Channel
import c11
ok = True
hooks = []
class A(rpyc.Service):
    def on_disconnect(self, conn): hooks.append("A")
    def exposed_cb(self): return 1
H = {}
class B(rpyc.Service):
    def exposed_close_me(self): H["cb"].close()
    def exposed_hold(self, f): self.f = f
def tables(c):
    return (len(c._local_objects._dict), len(c._proxy_cache), len(c._request_callbacks))
# (1)
net = c11.LNet(tcp_like=True)
with net.installed():
    ca, cb = net.connect_pair(A(), B(), config_a={"before_closed": lambda root: None})
    H["cb"] = cb
    root = ca.sync_request(consts.HANDLE_GETROOT)          # conn.root stays uncached
    rpyc.async_(root.close_me)()
    net.run_others("A")                                     # B closes; its HANDLE_CLOSE is buffered at A
    try:
        ca.close(); print("(1) close() returned")
    except Exception as e:
        print("(1) close() raised %s: %s" % (type(e).__name__, e)); ok = False
    print("    closed:", ca.closed, " hook runs:", hooks.count("A"), " tables:", tables(ca))
    ok = ok and ca.closed and hooks.count("A") == 1 and sum(tables(ca)) == 0
    del root
    net.shutdown()
# (2)
class BadCloseStream(c11.LStream):
    raised = False
    def close(self):
        c11.LStream.close(self)
        if not self.raised:
            self.raised = True
            raise OSError(5, "close failed")
hooks.clear()
net = c11.LNet()
with net.installed():
    sa, sb = BadCloseStream(net, "A"), c11.LStream(net, "B")
    sa.peer, sb.peer = sb, sa
    net.streams["A"], net.streams["B"] = sa, sb
    svc = A()
    ca = svc._connect(Channel(sa, False), {})
    cb = B()._connect(Channel(sb, False), {})
    net.spawn("B", cb.serve_all)
    ca.root.hold(svc.exposed_cb)                            # A holds an object for B, and a proxy, and so on
    try:
        ca.close(); print("(2) close() returned")
    except OSError as e:
        print("(2) close() raised the stream's OSError")
    print("    closed:", ca.closed, " hook runs:", hooks.count("A"), " tables:", tables(ca))
    ok = ok and ca.closed and hooks.count("A") == 1 and sum(tables(ca)) == 0
    try:
        ca.close(); print("    second close: no-op")
    except Exception as e:
        print("    second close raised", type(e).__name__); ok = False
    net.shutdown()
print("PASS" if ok else "FAIL")
sys.exit(0 if ok else 1)
