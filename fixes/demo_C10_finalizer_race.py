"""Observation next to C10 (NOT a violation of C10 as stated: its interleavings are at message level, one dispatcher per side).

Two threads serving ONE connection at the peer: thread 1 drops the last reference to a proxy, `BaseNetref.__del__`
starts (reads `____refcount__` = 1, is inside `_send`); thread 2 dispatches an incoming message that carries the same
object again.  `_unbox` finds the dying proxy in `_proxy_cache` (CPython clears weak references only AFTER `__del__`),
bumps its count to 2 and hands it to the application: the proxy is resurrected.  DEL(1) goes out; the owner keeps one
box.  When the application later drops the resurrected proxy, `__del__` is not run a second time (PEP 442), so no
release notice is ever sent: the owner's `_local_objects` keeps the object until the connection closes.

This script renders that schedule sequentially (the second thread's dispatch is called from a hook inside the first
thread's `_send`) on real connections over the manual deterministic network.  Expected last line: `t=0` (object still
in the owner's table) with `p=-` (no proxy at the peer) and both queues empty.

Run:  /venv/bin/python /verif/fixes/demo_C10_finalizer_race.py
A repair needs the cache lookup in `_unbox` and the finalizer to exclude each other (a lock, or a 'dying' mark
checked under the GIL in one bytecode), which is beyond a one-line change; no patch is proposed here.
"""
import sys, gc
sys.path.insert(0, "/verif/harness"); sys.path.insert(0, "/verif/harness/props"); sys.path.insert(0, "/repo")
import c10
w = c10.World(1)
w.op(["send", [0]]); w.op(["dO"]); w.op(["dP"])
print("1", w.snapshot("-"))
w.op(["send", [0]])            # second reference in flight to B
print("2", w.snapshot("-"))
orig_send = w.cb._send
state = {"armed": True}
def hooked(msg, seq, args):
    # what a second thread serving the same connection could do while the first is inside __del__
    if state["armed"] and msg == w.consts.MSG_REQUEST and args[0] == w.consts.HANDLE_DEL:
        state["armed"] = False
        w.cb.poll()
    return orig_send(msg, seq, args)
w.cb._send = hooked
w.op(["drop", 0])              # __del__ runs; inside it the in-flight reference is dispatched
w.cb._send = orig_send
print("3", w.snapshot("-"), "held:", sorted(w.held))
for _ in range(6):
    w.op(["dP"]); w.op(["dO"])
print("4", w.snapshot("-"))
w.op(["drop", 0]); gc.collect()
for _ in range(6):
    w.op(["dP"]); w.op(["dO"])
print("5 after the peer dropped its last proxy and everything was delivered:", w.snapshot("-"))
w.teardown()
