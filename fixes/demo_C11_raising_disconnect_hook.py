"""C11: a side that closes has released what it held for the peer and closing again is a no-op -- whatever its
disconnect hook does.  Pinned code: `_cleanup` calls `self._local_root.on_disconnect(self)` BEFORE it clears the
tables; a hook that raises (user code; e.g. one that undoes what on_connect installed, when the peer vanished before
on_connect got that far) leaves request callbacks, objects held for the peer, proxies, the root and the handler table
in place for good: `closed` is already True, so every later close() returns at once.
Proposed repair: fixes/C11-cleanup-survives-raising-hook.patch (the clearing moves into a `finally`)."""
import sys
sys.path.insert(0, "/verif/harness"); sys.path.insert(0, __import__("os").environ.get("RPYC_REPO", "/repo"))
import rpyc
from simnet import Net
runs = []
class A(rpyc.Service):
    def on_disconnect(self, conn):
        runs.append(1)
        raise KeyError("hook")
    def exposed_cb(self):
        return 1
class B(rpyc.Service):
    def exposed_hold(self, f):
        self.f = f
    def exposed_mk(self):
        return [1]
net = Net()
with net.installed():
    ca, cb = net.connect_pair(A(), B())
    root = ca.root
    root.hold(ca._local_root.exposed_cb)       # A holds an object for B
    lst = root.mk()                            # and a proxy of B's object
    pend = ca.async_request(rpyc.core.consts.HANDLE_PING, 1)
    try:
        ca.close()
        print("close returned")
    except KeyError:
        print("close raised the hook's KeyError")
    t = (len(ca._local_objects._dict), len(ca._proxy_cache), len(ca._request_callbacks))
    print("closed:", ca.closed, " hook runs:", len(runs), " (local objects, proxies, callbacks):", t)
    ok = ca.closed and len(runs) == 1 and sum(t) == 0
    try:
        ca.close(); print("second close: no-op")
    except Exception as e:
        print("second close raised", type(e).__name__); ok = False
    ok = ok and len(runs) == 1
    del lst, root
    net.shutdown()
print("PASS" if ok else "FAIL")
sys.exit(0 if ok else 1)
