"""C10: an object registered for a message that is never sent stays in the owner's table for ever.

`Connection._box` registers every by-reference object of a value in `_local_objects` (that is what keeps it alive for
the peer); `brine.dump` of the whole message runs afterwards, in `_send`, and can refuse the message (an int beyond the
interpreter's str() digit limit, a tuple nested too deep, ...).  The caller gets the exception - since 43b261a also for
a reply - but the registration stays: no proxy exists at the peer, nothing is in flight, no release notice will ever
come, and the object lives until the connection is closed.

Both directions are shown on a real pair over the deterministic network:
  reply:    B's `f()` returns (O(), 10**5000)            -> A gets ValueError, B's table keeps the O
  request:  A calls `ok(O(), 10**5000)`                   -> A gets ValueError, A's table keeps the O
Expected (the statement of C10): once nothing is held or in flight the owner's connection references none of them
and they are collectable.   Run:  RPYC_REPO=/repo /venv/bin/python /verif/fixes/demo_C10_box_then_dump_fails.py
"""
import gc
import os
import sys
import weakref

sys.path.insert(0, "/verif/harness")
sys.path.insert(0, os.environ.get("RPYC_REPO", "/repo"))
import rpyc                      # noqa: E402
from simnet import Net           # noqa: E402

BIG = 10 ** 5000


class O(object):
    pass


class S(rpyc.Service):
    def exposed_f(self):
        o = O()                                 # nobody but the connection will hold it
        self.made = weakref.ref(o)
        return (o, BIG)

    def exposed_ok(self, *args):
        return len(args)


def lent(conn):
    return sorted(k[0] for k in conn._local_objects._dict if k[0].endswith(".O"))


def main():
    bad = []
    net = Net()
    with net.installed():
        sb = S()
        ca, cb = net.connect_pair(None, sb)
        try:
            ca.root.f()
            bad.append("reply (O(), 10**5000) was delivered?")
        except ValueError as ex:
            print("reply:   caller got ValueError (%s)" % str(ex).splitlines()[0][:50])
        ca.root.ok()                                     # a round trip: everything in flight is processed
        cb._last_traceback = None      # the debugging aid that keeps the last handler exception's frames (and their locals)
        gc.collect()
        print("         B's table after the failed reply:", lent(cb), "| object alive:", sb.made() is not None)
        if lent(cb) or sb.made() is not None:
            bad.append("B keeps the object of a reply that was never sent")
        o = O()
        wr = weakref.ref(o)
        try:
            ca.root.ok(o, BIG)
            bad.append("request (O(), 10**5000) was delivered?")
        except ValueError as ex:
            print("request: caller got ValueError (%s)" % str(ex).splitlines()[0][:50])
        del o
        ca.root.ok()
        gc.collect()
        print("         A's table after the failed request:", lent(ca), "| object alive:", wr() is not None)
        if lent(ca) or wr() is not None:
            bad.append("A keeps the object of a request that was never sent")
        ca.close()
        net.shutdown()
    print("FAIL: " + "; ".join(bad) if bad else "PASS")
    return 1 if bad else 0


if __name__ == "__main__":
    sys.exit(main())
