"""C17 demo: ThreadPoolServer.close() must end all clients and return - whatever the clients are doing.

Part 1 (a worker blocked in a read): client A is connected and idle; client B has sent the first four bytes of a frame
        (ff ff ff ff: a length nobody will ever complete) and keeps its socket open, so one pool worker sits in
        stream.read.  server.close() must return within a few seconds, A and B must observe end-of-stream, the service's
        on_disconnect must have run for both, fd_to_conn must be empty.
Part 2 (a disconnect hook that raises): three idle clients of a service whose on_disconnect raises.  server.close() must
        not raise, all three clients must observe end-of-stream, the hook must have run three times.

Exit status 0 = both hold, 1 = not.  RPYC_REPO selects the tree (default /repo).
"""
import logging
import os
import socket
import sys
import threading
import time

sys.path.insert(0, os.environ.get("RPYC_REPO", "/repo"))
import rpyc                                          # noqa: E402
from rpyc.utils.server import ThreadPoolServer       # noqa: E402

logging.disable(logging.CRITICAL)
threading.excepthook = lambda args: None
DEADLINE = 5.0


def wait_for(cond, timeout):
    t_end = time.time() + timeout
    while time.time() < t_end:
        if cond():
            return True
        time.sleep(0.01)
    return cond()


def observes_eof(sock, timeout):
    sock.settimeout(timeout)
    try:
        while True:
            if sock.recv(4096) == b"":
                return True
    except socket.timeout:
        return False
    except OSError:
        return True


def close_in_thread(server):
    out = []

    def run():
        try:
            server.close()
            out.append("returned")
        except BaseException as ex:  # noqa
            out.append("raised %s: %s" % (type(ex).__name__, ex))
    t = threading.Thread(target=run, daemon=True)
    t.start()
    return out


def part1(problems):
    class Svc(rpyc.Service):
        connected = 0
        disconnected = 0

        def on_connect(self, conn):
            Svc.connected += 1

        def on_disconnect(self, conn):
            Svc.disconnected += 1

    server = ThreadPoolServer(Svc, hostname="127.0.0.1", port=0, nbThreads=2, auto_register=False)
    server._start_in_thread()
    a = socket.create_connection(("127.0.0.1", server.port))
    b = socket.create_connection(("127.0.0.1", server.port))
    if not wait_for(lambda: Svc.connected == 2, 5):
        print("setup failed")
        os._exit(2)
    b.sendall(b"\xff\xff\xff\xff")
    time.sleep(0.3)                     # a worker is now blocked reading B's frame
    out = close_in_thread(server)
    if not wait_for(lambda: bool(out), DEADLINE):
        problems.append("part 1: server.close() has not returned after %.0f s (a worker is blocked reading client B's "
                        "incomplete frame)" % DEADLINE)
    elif out[0] != "returned":
        problems.append("part 1: server.close() " + out[0])
    for name, s in (("A", a), ("B", b)):
        if not observes_eof(s, 2.0):
            problems.append("part 1: client %s did not observe end-of-stream after server.close()" % name)
    if not wait_for(lambda: Svc.disconnected == 2, 2.0):
        problems.append("part 1: on_disconnect ran for %d of 2 connections" % Svc.disconnected)
    if server.fd_to_conn:
        problems.append("part 1: fd_to_conn still holds %d connection(s)" % len(server.fd_to_conn))
    for s in (a, b):
        s.close()


def part2(problems):
    class Svc(rpyc.Service):
        connected = 0
        disconnected = 0

        def on_connect(self, conn):
            Svc.connected += 1

        def on_disconnect(self, conn):
            Svc.disconnected += 1
            raise RuntimeError("the application's disconnect hook failed")

    server = ThreadPoolServer(Svc, hostname="127.0.0.1", port=0, nbThreads=2, auto_register=False)
    server._start_in_thread()
    socks = [socket.create_connection(("127.0.0.1", server.port)) for _ in range(3)]
    if not wait_for(lambda: Svc.connected == 3, 5):
        print("setup failed")
        os._exit(2)
    out = close_in_thread(server)
    if not wait_for(lambda: bool(out), DEADLINE):
        problems.append("part 2: server.close() has not returned after %.0f s" % DEADLINE)
    elif out[0] != "returned":
        problems.append("part 2: server.close() " + out[0])
    for i, s in enumerate(socks):
        if not observes_eof(s, 2.0):
            problems.append("part 2: client %d did not observe end-of-stream after server.close()" % i)
    if Svc.disconnected != 3:
        problems.append("part 2: on_disconnect ran for %d of 3 connections" % Svc.disconnected)
    if server.fd_to_conn:
        problems.append("part 2: fd_to_conn still holds %d connection(s)" % len(server.fd_to_conn))
    for s in socks:
        s.close()


def main():
    problems = []
    part1(problems)
    part2(problems)
    sys.stdout.flush()
    if problems:
        print("FAIL")
        for p in problems:
            print("  " + p)
        sys.stdout.flush()
        os._exit(1)
    print("PASS: close() returned, every client saw end-of-stream, every disconnect hook ran, nothing left in fd_to_conn")
    sys.stdout.flush()
    os._exit(0)


if __name__ == "__main__":
    main()
