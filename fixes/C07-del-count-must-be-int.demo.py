import sys, struct, signal
sys.path.insert(0, "/repo"); sys.path.insert(0, "/verif/harness")
import rpyc
from rpyc.core import brine
from rpyc.core.channel import Channel
import simnet, handlers_world as hw

class Svc(rpyc.Service):
    def exposed_thing(self): return object()

net = simnet.Net(manual=True)
with net.installed():
    sa, sb = hw.PeerStream(net, "A"), hw.PeerStream(net, "B")
    sa.peer, sb.peer = sb, sa
    conn = Svc()._connect(Channel(sb, True), {})
    def send(v): sb.inbox += hw.frame(brine.dump(v))
    def drain():
        out = hw.Session._drain(sa); return out
    send((1, 1, (3, (1, ()))))
    conn.serve(0)
    root = drain()[0][2][1]
    send((1, 2, (8, (2, ((3, root), (1, "thing"), (1, ()))))))
    conn.serve(0)
    thing = drain()[0][2][1]
    print("held:", thing[0])
    # HANDLE_DEL(thing, count=<proxy of a builtins.int>) ; while the server asks us to compare, we send a request that uses a LOCAL_REF
    send((1, 3, (15, (2, ((3, thing), (4, ("builtins.int", 1, 1)))))))
    send((1, 4, (9, (2, ((3, root),)))))
    def alarm(*a): raise TimeoutError("serving thread stuck for 5 s of real time")
    signal.signal(signal.SIGALRM, alarm); signal.alarm(5)
    try:
        while sb.inbox: conn.serve(0)
        print("served; frames:", [ (m[0], m[1], m[2][0] if m[0]==3 else m[2], m[2][1] if m[0]==3 else "") for m in drain()])
    except TimeoutError as ex:
        import traceback; tb = traceback.extract_tb(ex.__traceback__)
        print("HANG:", ex); print("  innermost frames:", [(f.name, f.lineno) for f in tb[-6:]])
