"""C17: a client that fails authentication at a ThreadPoolServer must leave nothing behind.
`Server.accept()` adds the accepted socket to `self.clients`; `ThreadPoolServer._accept_method` clears
the set only on success, so after a failed authentication the (closed) socket object stays in
`server.clients` -- one more entry per failed attempt -- until some later client authenticates.
Before the fix: 3 entries after 3 failed attempts.  After: 0."""
import sys, time, socket, logging
sys.path.insert(0, __import__("os").environ.get("RPYC_REPO", "/repo"))
import rpyc
from rpyc.utils.server import ThreadPoolServer
from rpyc.utils.authenticators import AuthenticationError
logging.disable(logging.CRITICAL)


def auth(sock):
    if sock.recv(1) != b"A":
        raise AuthenticationError("wrong credential")
    return sock, "ok"


srv = ThreadPoolServer(rpyc.VoidService, port=0, nbThreads=2, auto_register=False, authenticator=auth)
t = srv._start_in_thread()
for _ in range(3):
    s = socket.create_connection(("localhost", srv.port))
    s.sendall(b"X")
    s.settimeout(5)
    assert s.recv(1) == b""          # rejected: end-of-stream
    s.close()
deadline = time.time() + 5
while time.time() < deadline and len(srv.clients) != 0:
    time.sleep(0.02)
n = len(srv.clients)
print("entries left in server.clients after 3 failed authentications:", n,
      [c.fileno() for c in srv.clients])
srv.close()
t.join(5)
print("PASS" if n == 0 else "FAIL")
sys.exit(0 if n == 0 else 1)
