"""C02: an unsupported operator on a proxy of a builtin instance must raise what it raises locally (TypeError).
Before the fix: `proxy_of_list | 5` raises AttributeError and callable(proxy_of_list) is True, because the cached netref
class of a builtin type also carries the methods of the metaclass `type` (type.__or__, type.__call__, ...)."""
import sys, os
sys.path.insert(0, "/verif/harness"); sys.path.insert(0, os.environ.get("RPYC_REPO", "/repo"))
import rpyc
from simnet import Net
class S(rpyc.Service):
    def exposed_lst(self): return [1, 2]
    def exposed_ba(self): return bytearray(b"ab")
net = Net(); ok = True
with net.installed():
    ca, cb = net.connect_pair(None, S())
    for name, local in (("lst", [1, 2]), ("ba", bytearray(b"ab"))):
        p = getattr(ca.root, name)()
        for label, f in (("obj | 5", lambda o: o | 5), ("5 | obj", lambda o: 5 | o), ("callable(obj)", callable)):
            def run(o):
                try: return repr(f(o))
                except Exception as e: return type(e).__name__
            a, b = run(p), run(local)
            print("%-4s %-14s proxy: %-16s local: %-16s %s" % (name, label, a, b, "" if a == b else "<-- differs"))
            ok = ok and a == b
    ca.close(); net.shutdown()
print("PASS" if ok else "FAIL"); sys.exit(0 if ok else 1)
