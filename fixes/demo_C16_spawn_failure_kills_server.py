"""C16 demo: a server must keep serving when it cannot start a thread / fork a child for ONE new client.

`Server.accept` calls `_accept_method(sock)` unguarded.  ThreadedServer's `spawn()` raises RuntimeError ("can't start new
thread") at the thread limit, ForkingServer's `os.fork()` raises OSError (EAGAIN / ENOMEM) at the process limit or when memory
is short - conditions a crowd of clients brings about, and that pass.  The exception leaves `accept()` and `start()`, whose
`finally` closes the server: a ThreadedServer disconnects every client it was serving, a ForkingServer stops listening for
good.  Besides, the socket that could not be served stays in `server.clients`.

Part 1: ThreadedServer, `spawn` made to fail once (RuntimeError).  Part 2: ForkingServer in a subprocess, `os.fork` made to
fail once (OSError EAGAIN).  Expected in both: the one client is turned away (it sees end-of-stream), nothing of it stays in
server.clients, a client connected before is still served, the next client is served.

Exit status 0 = holds, 1 = not.  RPYC_REPO selects the tree (default /repo).
"""
import errno
import logging
import os
import socket
import subprocess
import sys
import threading
import time

sys.path.insert(0, os.environ.get("RPYC_REPO", "/repo"))
import rpyc                                        # noqa: E402
import rpyc.utils.server as S                      # noqa: E402

logging.disable(logging.CRITICAL)
threading.excepthook = lambda args: None


def sees_eof(sock, timeout):
    sock.settimeout(timeout)
    try:
        return sock.recv(1) == b""
    except socket.timeout:
        return False
    except OSError:
        return True


def part1(problems):
    srv = S.ThreadedServer(rpyc.VoidService, hostname="127.0.0.1", port=0, auto_register=False)
    t = srv._start_in_thread()
    good = rpyc.connect("127.0.0.1", srv.port, config={"sync_request_timeout": 3})
    good.ping()
    real, state = S.spawn, dict(fail=1)

    def spawn(*a, **k):
        if state["fail"]:
            state["fail"] -= 1
            raise RuntimeError("can't start new thread")
        return real(*a, **k)
    S.spawn = spawn
    try:
        unlucky = socket.create_connection(("127.0.0.1", srv.port))
        if not sees_eof(unlucky, 3):
            problems.append("part 1: the client no thread could be started for was not turned away (no end-of-stream)")
        time.sleep(0.7)
        if not t.is_alive() or srv._closed:
            problems.append("part 1: after one failed spawn() the accept thread has ended / the server closed itself")
        if len(srv.clients) > 1:
            problems.append("part 1: server.clients holds %d sockets for 1 client being served" % len(srv.clients))
        try:
            good.ping()
        except Exception as ex:  # noqa
            problems.append("part 1: the client connected before is no longer served: %s: %s" % (type(ex).__name__, ex))
        try:
            rpyc.connect("127.0.0.1", srv.port, config={"sync_request_timeout": 3}).ping()
        except Exception as ex:  # noqa
            problems.append("part 1: the next client is not served: %s: %s" % (type(ex).__name__, ex))
    finally:
        S.spawn = real
        try:
            srv.close()
        except Exception:  # noqa
            pass


PART2 = r'''
import sys, os, socket, time, threading, logging, errno
sys.path.insert(0, os.environ.get("RPYC_REPO", "/repo"))
import rpyc
from rpyc.utils.server import ForkingServer
logging.disable(logging.CRITICAL)
threading.excepthook = lambda a: None
srv = ForkingServer(rpyc.VoidService, hostname="127.0.0.1", port=0, auto_register=False)
srv._listen()
port = srv.port
real, state = os.fork, dict(fail=0)
def fork():
    if state["fail"]:
        state["fail"] -= 1
        raise OSError(errno.EAGAIN, "Resource temporarily unavailable")
    return real()
os.fork = fork
out = []
def client():
    good = rpyc.connect("127.0.0.1", port, config={"sync_request_timeout": 3}); good.ping()
    state["fail"] = 1
    unlucky = socket.create_connection(("127.0.0.1", port)); unlucky.settimeout(3)
    try:
        if unlucky.recv(1) != b"": out.append("the client no child could be forked for got data?")
    except socket.timeout: out.append("the client no child could be forked for was not turned away (no end-of-stream)")
    except OSError: pass
    time.sleep(0.7)
    if srv._closed or srv.listener.fileno() == -1: out.append("after one failed fork() the server has closed its listener")
    if len(srv.clients): out.append("server.clients holds %d socket(s) with no client of the parent's to serve" % len(srv.clients))
    try: good.ping()
    except Exception as ex: out.append("the client connected before is no longer served: %s: %s" % (type(ex).__name__, ex))
    try: rpyc.connect("127.0.0.1", port, config={"sync_request_timeout": 3}).ping()
    except Exception as ex: out.append("the next client is not served: %s: %s" % (type(ex).__name__, ex))
    print("; ".join(out) if out else "OK", flush=True)
    os._exit(0)
threading.Thread(target=client, daemon=True).start()
try:
    srv.start()
except BaseException:
    pass
time.sleep(8)
os._exit(0)
'''


def part2(problems):
    import select
    import signal
    p = subprocess.Popen([sys.executable, "-c", PART2], stdout=subprocess.PIPE, stderr=subprocess.DEVNULL,
                         env=dict(os.environ), start_new_session=True)
    r, _, _ = select.select([p.stdout], [], [], 30)
    res = p.stdout.readline().decode().strip() if r else "no result within 30 s"
    try:
        os.killpg(p.pid, signal.SIGKILL)        # the server, its children
    except OSError:
        pass
    res = res or "no result"
    if res != "OK":
        problems.append("part 2 (ForkingServer, one failed fork): " + res)


def main():
    problems = []
    part1(problems)
    part2(problems)
    sys.stdout.flush()
    if problems:
        print("FAIL")
        for p in problems:
            print("  " + p)
        sys.stdout.flush()
        os._exit(1)
    print("PASS: the unlucky client was turned away, nothing of it remains, everybody else is served")
    sys.stdout.flush()
    os._exit(0)


if __name__ == "__main__":
    main()
