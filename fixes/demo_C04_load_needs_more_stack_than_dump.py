"""C04/C08: (1) a nested tuple that dump() accepts must not be undecodable for lack of stack; (2) dump of a non-dumpable value is
TypeError whatever its __repr__ does"""
import sys
from rpyc.core import brine
def nest(d, f):
    v = ()
    for _ in range(d): v = f(v)
    return v
bad = []
last_dump_ok = None
for d in range(100, 700, 10):
    v = nest(d, lambda x: (x, 1, 2, 3, 4))
    try:
        data = brine.dump(v)
    except RecursionError:
        break
    last_dump_ok = d
    try:
        brine.load(data)
    except RecursionError:
        bad.append(d)
print("deepest 5-wide tuple dump() accepts:", last_dump_ok, "| depths dump() accepts but load() cannot decode:", bad[:5], "..." if len(bad) > 5 else "")
class R:
    def __repr__(self): raise RuntimeError("boom")
try:
    brine.dump((1, R())); r = "no exception"
except TypeError: r = "TypeError"
except Exception as ex: r = type(ex).__name__
print("dumpable((1, R())) =", brine.dumpable((1, R())), "| dump raised", r)
sys.exit(1 if (len(bad) > 3 or r != "TypeError") else 0)
