"""C09: with instantiate_custom_exceptions=True and import_custom_exceptions=False no exception payload may make the receiver
import a module. Without the patch `getattr(sys.modules[modname], clsname, None)` in vinegar.load runs a module-level
`__getattr__` (PEP 562) with the peer-chosen name: naming concurrent.futures.ProcessPoolExecutor imports ~20 modules."""
import sys
sys.path.insert(0, __import__("os").environ.get("RPYC_REPO", "/repo"))
import concurrent.futures  # noqa: F401  (already imported on the receiver: the switch only forbids NEW imports)
from rpyc.core import vinegar
before = set(sys.modules)
exc = vinegar.load((("concurrent.futures", "ProcessPoolExecutor"), (), (), "tb"), False, True, False)
grown = sorted(set(sys.modules) - before)
print("received:", type(exc).__mro__[1].__name__, "| newly imported modules:", len(grown), grown[:4])
ok = not grown
print("PASS" if ok else "FAIL")
sys.exit(0 if ok else 1)
