"""C11: a closed side has released the objects it held for the peer.
Pinned code: `_box` registers a by-reference object in `_local_objects` even when the connection has
already been cleaned up, so (a) a callback that closes the connection and then returns a reference and
(b) every request with a by-reference argument issued after the end leave an object in the closed
connection's table (never released: nobody can send HANDLE_DEL any more).
Proposed repair: fixes/C11-box-after-close.patch (`_box` raises EOFError when the channel is closed)."""
import sys
sys.path.insert(0, "/verif/harness"); sys.path.insert(0, __import__("os").environ.get("RPYC_REPO", "/repo"))
import rpyc
from simnet import Net
H = {}
class A(rpyc.Service):
    def exposed_cb(self):
        H["ca"].close()
        return [1, 2]                 # boxed by reference AFTER _cleanup cleared the table
class B(rpyc.Service):
    def exposed_call_back(self, f):
        return f()
def held(c):
    return len(c._local_objects._dict)
ok = True
net = Net()
with net.installed():
    ca, cb = net.connect_pair(A(), B())
    H["ca"] = ca
    call_back = ca.root.call_back
    svc = ca._local_root
    try:
        call_back(svc.exposed_cb)
    except EOFError:
        print("(a) caller got EOFError")
    print("(a) closed:", ca.closed, " objects held for the peer:", held(ca))
    ok = ok and ca.closed and held(ca) == 0
    net.shutdown()
net = Net()
with net.installed():
    ca, cb = net.connect_pair(A(), B())
    f = ca.root.call_back
    ca.close()
    for _ in range(3):
        try:
            f([1, 2, 3])
        except EOFError:
            pass
    print("(b) closed:", ca.closed, " objects held after 3 failed requests:", held(ca))
    ok = ok and held(ca) == 0
    net.shutdown()
print("PASS" if ok else "FAIL")
sys.exit(0 if ok else 1)
