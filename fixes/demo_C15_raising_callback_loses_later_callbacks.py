"""C15 demo: every callback registered on an AsyncResult runs exactly once, in registration order, when
the reply arrives - also when an earlier callback raises.  The error of the failing callback must still
surface in the thread that serves the connection, after all callbacks have run.

Usage: RPYC_REPO=/path/to/rpyc/tree python demo_C15_raising_callback_loses_later_callbacks.py
Exit 0: all callbacks ran once, in order, and the error surfaced.  Exit 1 otherwise.
"""
import os
import sys

sys.path.insert(0, os.environ.get("RPYC_REPO", "/repo"))
import rpyc  # noqa: E402


def main():
    conn = rpyc.classic.connect_thread()
    try:
        a_int = rpyc.async_(conn.builtin.int)
        ran = []

        def first(res):
            ran.append(("first", res.value))

        def failing(res):
            ran.append(("failing", res.value))
            raise RuntimeError("this callback fails")

        def reentrant(res):
            ran.append(("reentrant", res.value))
            res.add_callback(lambda r: ran.append(("added-from-inside", r.value)))   # runs at once: result is ready

        def last(res):
            ran.append(("last", res.value))

        res = a_int("7")
        for cb in (first, failing, reentrant, last):
            res.add_callback(cb)
        surfaced = None
        try:
            res.wait()                      # serving the connection dispatches the reply and runs the callbacks
        except RuntimeError as ex:
            surfaced = ex
        print("callbacks that ran: %r" % (ran,))
        print("error surfaced in the serving thread: %r" % (surfaced,))
        print("result ready: %r, value: %r, callbacks still stored: %d" % (res.ready, res.value, len(res._callbacks)))
        expected = [("first", 7), ("failing", 7), ("reentrant", 7), ("added-from-inside", 7), ("last", 7)]
        ok = ran == expected and isinstance(surfaced, RuntimeError) and res.ready and res.value == 7 and not res._callbacks
        # and nothing runs again
        conn.poll_all(0.05)
        ok = ok and ran == expected
        if not ok:
            print("FAIL: expected %r, the error surfacing, and an empty callback list" % (expected,))
        return 0 if ok else 1
    finally:
        conn.close()


if __name__ == "__main__":
    rc = main()
    print("OK" if rc == 0 else "PROPERTY VIOLATED: a callback registered after a raising one never ran")
    sys.exit(rc)
