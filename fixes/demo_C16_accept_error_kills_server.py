"""C16 demo: a server must keep serving its well-behaved clients when accept() reports a transient error.

`Server.accept` turns every socket.error other than EINTR / EAGAIN into EOFError; `Server.start` takes that for the end of the
server and closes it - every connected client is disconnected.  accept() fails that way whenever the process is out of
descriptors (EMFILE / ENFILE: a client only has to open connections until the limit is reached), out of buffers (ENOBUFS,
ENOMEM), or when the network reports an error for a connection that was being set up (ECONNABORTED, EPROTO, ENETDOWN,
EHOSTUNREACH, ... - accept(2), "Error handling").

Part 1 (deterministic): the listener's accept() is made to raise OSError(EMFILE) once, then works again.  Expected: the
        server logs it and goes on - the accept thread is alive, the listener open, a client connected before is still
        served and a new one is accepted.
Part 2 (the real thing, in a subprocess with a low RLIMIT_NOFILE): a client opens idle connections until accept() hits
        EMFILE; a well-behaved client connected before must still be served afterwards.

Exit status 0 = holds, 1 = not.  RPYC_REPO selects the tree (default /repo).
"""
import errno
import logging
import os
import socket
import subprocess
import sys
import threading
import time

sys.path.insert(0, os.environ.get("RPYC_REPO", "/repo"))
import rpyc                                        # noqa: E402
from rpyc.utils.server import ThreadedServer       # noqa: E402

logging.disable(logging.CRITICAL)
threading.excepthook = lambda args: None


class FaultyListener(object):
    """the listener socket, whose accept() fails once on demand"""
    def __init__(self, sock):
        self._sock = sock
        self.fail_with = None

    def accept(self):
        if self.fail_with is not None:
            e, self.fail_with = self.fail_with, None
            raise OSError(e, os.strerror(e))
        return self._sock.accept()

    def __getattr__(self, name):
        return getattr(self._sock, name)


def part1(problems):
    srv = ThreadedServer(rpyc.VoidService, hostname="127.0.0.1", port=0, auto_register=False)
    srv.listener = FaultyListener(srv.listener)
    t = srv._start_in_thread()
    good = rpyc.connect("127.0.0.1", srv.port, config={"sync_request_timeout": 3})
    good.ping()
    srv.listener.fail_with = errno.EMFILE
    time.sleep(1.5)                      # the accept loop's next round meets the error (listener timeout 0.5 s)
    if not t.is_alive():
        problems.append("part 1: after one EMFILE from accept() the accept thread has ended")
    if srv._closed:
        problems.append("part 1: ... and the server has closed itself")
    try:
        good.ping()
    except Exception as ex:  # noqa
        problems.append("part 1: the client connected before is no longer served: %s: %s" % (type(ex).__name__, ex))
    try:
        late = rpyc.connect("127.0.0.1", srv.port, config={"sync_request_timeout": 3})
        late.ping()
    except Exception as ex:  # noqa
        problems.append("part 1: a new client is not served: %s: %s" % (type(ex).__name__, ex))
    try:
        srv.close()
    except Exception:  # noqa
        pass


PART2 = r'''
import sys, os, socket, time, threading, logging, resource
sys.path.insert(0, os.environ.get("RPYC_REPO", "/repo"))
import rpyc
from rpyc.utils.server import ThreadedServer
logging.disable(logging.CRITICAL)
threading.excepthook = lambda a: None
srv = ThreadedServer(rpyc.VoidService, hostname="127.0.0.1", port=0, auto_register=False)
t = srv._start_in_thread()
good = rpyc.connect("127.0.0.1", srv.port, config={"sync_request_timeout": 3}); good.ping()
nf = len(os.listdir("/proc/self/fd"))
resource.setrlimit(resource.RLIMIT_NOFILE, (nf + 20, resource.getrlimit(resource.RLIMIT_NOFILE)[1]))
held = []
try:
    for i in range(40):
        held.append(socket.create_connection(("127.0.0.1", srv.port), timeout=2)); time.sleep(0.01)
except OSError:
    pass
time.sleep(1.5)
for s in held[len(held) // 2:]:
    s.close()                      # the pressure eases
time.sleep(0.5)
out = []
if not t.is_alive(): out.append("the accept thread has ended")
if srv._closed: out.append("the server has closed itself")
try: good.ping()
except Exception as ex: out.append("the client connected before is no longer served: %s: %s" % (type(ex).__name__, ex))
print("; ".join(out) if out else "OK", flush=True)
os._exit(0)
'''


def part2(problems):
    p = subprocess.run([sys.executable, "-c", PART2], stdout=subprocess.PIPE, stderr=subprocess.DEVNULL, timeout=60,
                       env=dict(os.environ))
    res = p.stdout.decode().strip().split("\n")[-1] if p.stdout.strip() else "no result"
    if res != "OK":
        problems.append("part 2 (connections opened until the descriptor limit is hit): " + res)


def main():
    problems = []
    part1(problems)
    part2(problems)
    sys.stdout.flush()
    if problems:
        print("FAIL")
        for p in problems:
            print("  " + p)
        sys.stdout.flush()
        os._exit(1)
    print("PASS: the server survived the accept() errors; clients connected before are served, new ones accepted")
    sys.stdout.flush()
    os._exit(0)


if __name__ == "__main__":
    main()
