"""C02 demo: `isinstance(x, C)` where C is a proxy of a remote class must answer what `isinstance` answers on the
remote side.

  * an instance of a SUBCLASS (Derived(Base), OrderedDict vs dict, anything vs object) is reported as NOT an instance:
    Connection._handle_instancecheck answers False whenever the instance's class is not in a cache of netref classes;
  * a local VALUE checked against a proxy of a class that cannot be imported on this side raises
    AttributeError: 'NoneType' object has no attribute 'instance' (BaseNetref.__instancecheck__).

usage: PYTHONPATH=<rpyc tree> python demo_C02_isinstance_through_class_proxy.py     exit 0: all answers right; 1: not
"""
import sys
import rpyc

SETUP = """
import collections
class Base(object): pass
class Derived(Base): pass
d = Derived(); b = Base(); od = collections.OrderedDict()
"""


def main():
    c = rpyc.classic.connect_thread()
    c.execute(SETUP)
    ns = c.namespace
    cases = [
        ("isinstance(d, Base)", lambda: isinstance(ns["d"], ns["Base"]), True),
        ("isinstance(d, Derived)", lambda: isinstance(ns["d"], ns["Derived"]), True),
        ("isinstance(b, Derived)", lambda: isinstance(ns["b"], ns["Derived"]), False),
        ("isinstance(od, dict)", lambda: isinstance(ns["od"], c.builtins.dict), True),
        ("isinstance(d, object)", lambda: isinstance(ns["d"], c.builtins.object), True),
        ("isinstance(od, Base)", lambda: isinstance(ns["od"], ns["Base"]), False),
        ("isinstance(5, Base)", lambda: isinstance(5, ns["Base"]), False),
        ("isinstance('s', Derived)", lambda: isinstance("s", ns["Derived"]), False),
        ("isinstance(5, int)", lambda: isinstance(5, c.builtins.int), True),
    ]
    bad = 0
    for text, fn, want in cases:
        try:
            got = fn()
        except Exception as ex:  # noqa
            got = "raises %s: %s" % (type(ex).__name__, str(ex).split("\n")[0])
        ok = got == want
        bad += not ok
        print("%-28s through the proxy: %-70s on the remote side: %s   %s" % (text, got, want, "ok" if ok else "WRONG"))
    c.close()
    print("PASS" if not bad else "FAIL: %d of %d answers differ" % (bad, len(cases)))
    return 1 if bad else 0


if __name__ == "__main__":
    sys.exit(main())
