"""C18, what remains once `brine.dump(reply)` is guarded (fixes/C18-reply-dump-inside-guard.patch): a hostile REGISTER
under an existing service name, with a port nested exactly as deep as the interpreter can still load but no longer dump
inside a reply, is accepted; from then on (and for as long as it is refreshed) every QUERY for that name gets NO answer,
so the genuine servers under that name cannot be discovered.  The registry lives, but one datagram per pruning interval
stops it from answering others for a name of the attacker's choice.

Repair (fixes/C18-register-refuse-unsendable-address.patch): `cmd_register` dumps ((host, port),) first - inside `_work`'s
guard, one frame deeper than any reply is dumped - and so refuses an address no reply could carry.

The real `RegistryServer._work` runs here over scripted `_recv`/`_send`, at both stack parities, depths 488..500.
PASS = after the hostile register a query for 'calc' still lists the genuine server.  RPYC_REPO selects the tree.
"""
import os
import socket
import sys
sys.path.insert(0, os.environ.get("RPYC_REPO", "/repo"))
from rpyc.core import brine
from rpyc.utils import registry as reg


class L:
    def _n(self, *a, **k):
        pass
    debug = info = warn = warning = error = exception = _n


def run(depth, pad):
    hostile = brine.dump(("RPYC", "REGISTER", (("calc",), 7)))[:-1] + bytes([0x10]) * depth + brine.dump(7)
    q = brine.dump(("RPYC", "QUERY", ("calc",)))
    dg = [brine.dump(("RPYC", "REGISTER", (("calc",), 18812))), q, hostile, q]
    out = []

    class S(reg.RegistryServer):
        def _get_logger(self):
            return L()

        def _recv(self):
            if not dg:
                self.active = False
                raise socket.timeout()
            out.append(None)
            return dg.pop(0), ("10.0.0.1" if len(dg) != 1 else "10.6.6.6", 1)

        def _send(self, data, a):
            out[-1] = brine.load(data) if len(data) < 200 else "(%d bytes)" % len(data)

    class K:
        def getsockname(self):
            return ("", 0)
    s = S(K(), logger=L())
    s.active = True

    def go(n):
        return s._work() if n == 0 else go(n - 1)
    try:
        go(pad)
    except RecursionError:
        return out, "LOOP DIED"
    return out, "alive"


ok = True
for pad in (0, 1):
    for depth in range(488, 501):
        out, state = run(depth, pad)
        hostile_reply, last = out[2], out[3] if len(out) > 3 else None
        hidden = hostile_reply == "OK" and (last is None)
        if state != "alive" or hidden:
            ok = False
            print("parity %d depth %d: hostile REGISTER answered %r, then QUERY 'calc' answered %r (%s)"
                  % (pad, depth, hostile_reply, last, state))
print("PASS" if ok else "FAIL")
sys.exit(0 if ok else 1)
