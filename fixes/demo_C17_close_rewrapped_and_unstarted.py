"""C17 demo, two small things about close():

Part 1: a server whose authenticator returns a NEW socket object for the connection (what SSLAuthenticator's wrap_socket
        does; here: `socket.socket(fileno=sock.detach())`).  `Server.accept` put the original object into server.clients, the
        client is served on the new one: close() shuts down a detached socket and the client stays connected and served.
        Expected: after close() the client's next call fails with end-of-stream and on_disconnect has run (Threaded, OneShot).
Part 2: ThreadPoolServer.close() on a server that was never started, twice: must not raise.

Exit 0 = holds, 1 = not.  RPYC_REPO selects the tree (default /repo).
"""
import logging
import os
import socket
import sys
import threading
import time

sys.path.insert(0, os.environ.get("RPYC_REPO", "/repo"))
import rpyc                                                          # noqa: E402
from rpyc.utils.server import ThreadedServer, OneShotServer, ThreadPoolServer    # noqa: E402

logging.disable(logging.CRITICAL)
threading.excepthook = lambda args: None


def wrap_auth(sock):
    return socket.socket(fileno=sock.detach()), "creds"


def part1(cls, problems):
    gone = []

    class Svc(rpyc.Service):
        def on_disconnect(self, conn):
            gone.append(1)

    srv = cls(Svc, hostname="127.0.0.1", port=0, auto_register=False, authenticator=wrap_auth)
    srv._start_in_thread()
    conn = rpyc.connect("127.0.0.1", srv.port, config={"sync_request_timeout": 2})
    conn.ping(timeout=2)
    srv.close()
    time.sleep(1.0)
    try:
        conn.ping(timeout=2)
        problems.append("part 1 (%s): after close() the client's call was still answered; on_disconnect runs: %d; "
                        "server.clients filenos: %r" % (cls.__name__, len(gone), [c.fileno() for c in srv.clients]))
    except EOFError:
        if not gone:
            problems.append("part 1 (%s): on_disconnect did not run" % cls.__name__)
    except Exception as ex:  # noqa
        problems.append("part 1 (%s): %s: %s (expected end-of-stream)" % (cls.__name__, type(ex).__name__, ex))


def part2(problems):
    srv = ThreadPoolServer(rpyc.VoidService, hostname="127.0.0.1", port=0, auto_register=False)
    for n in ("first", "second"):
        try:
            srv.close()
        except Exception as ex:  # noqa
            problems.append("part 2: %s close() of a never-started ThreadPoolServer raised %s: %s" % (n, type(ex).__name__, ex))


def main():
    problems = []
    part1(ThreadedServer, problems)
    part1(OneShotServer, problems)
    part2(problems)
    if problems:
        print("FAIL")
        for p in problems:
            print("  " + p)
        sys.stdout.flush()
        os._exit(1)
    print("PASS")
    sys.stdout.flush()
    os._exit(0)


if __name__ == "__main__":
    main()
