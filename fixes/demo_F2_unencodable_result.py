"""C08: a request whose result cannot be encoded must be answered with an exception and the
connection must stay usable.  Before the fix: no response, serving side dies, requester gets EOFError."""
import sys
sys.path.insert(0, "/verif/harness"); sys.path.insert(0, __import__("os").environ.get("RPYC_REPO", "/repo"))
sys.set_int_max_str_digits(4300)
import rpyc
from simnet import Net
class S(rpyc.Service):
    def exposed_big(self):
        return 10 ** 5000          # str(int) refuses above 4300 digits -> brine.dump raises ValueError
    def exposed_deep(self):
        v = ()
        for _ in range(5000):
            v = (v,)
        return v                    # RecursionError while boxing/encoding
    def exposed_ok(self):
        return 42
net = Net()
ok = True
with net.installed():
    ca, cb = net.connect_pair(None, S())
    for name in ("big", "deep"):
        try:
            getattr(ca.root, name)()
            print(name, "returned?!"); ok = False
        except EOFError:
            print(name, "-> EOFError: connection died"); ok = False
            break
        except Exception as e:
            print(name, "->", type(e).__name__)
    try:
        print("ok ->", ca.root.ok())
    except Exception as e:
        print("afterwards:", type(e).__name__); ok = False
    try:
        ca.close()
    except Exception:
        pass
    net.shutdown()
print("PASS" if ok else "FAIL")
sys.exit(0 if ok else 1)
