"""C08: a request whose handler fails must be answered with an exception and the connection must stay
usable -- also when the exception ITSELF cannot be dumped or serialized (an argument whose repr() raises,
an int beyond the str() digit limit, a tuple nested deeper than the recursion limit).
Pinned code: `_dispatch_request`'s `self._send(MSG_EXCEPTION, seq, self._box_exc(t, v, tb))` raises, no
response is sent, the serving side dies and closes; the requester gets EOFError.
Proposed repair: fixes/C08-exception-payload-unserializable.patch (answer with the class and a note)."""
import sys
sys.path.insert(0, "/verif/harness"); sys.path.insert(0, __import__("os").environ.get("RPYC_REPO", "/repo"))
sys.set_int_max_str_digits(4300)
import rpyc
from simnet import Net
class BadRepr:
    def __repr__(self):
        raise RuntimeError("no repr")
class S(rpyc.Service):
    def exposed_bigexc(self):
        raise ValueError(10 ** 5000)          # brine.dump of the payload raises ValueError
    def exposed_badrepr(self):
        raise ValueError(BadRepr())           # vinegar.dump calls repr() on the argument
    def exposed_deepexc(self):
        v = ()
        for _ in range(5000):
            v = (v,)
        raise ValueError(v)                   # RecursionError in dumpable()/dump
    def exposed_ok(self):
        return 42
ok = True
for name in ("bigexc", "badrepr", "deepexc"):
    net = Net()
    with net.installed():
        ca, cb = net.connect_pair(None, S())
        try:
            getattr(ca.root, name)()
            print(name, "returned?!"); ok = False
        except EOFError:
            print(name, "-> EOFError: no response, connection died"); ok = False
        except Exception as e:
            print(name, "->", type(e).__name__)
        try:
            print("   afterwards: ok ->", ca.root.ok())
        except Exception as e:
            print("   afterwards:", type(e).__name__); ok = False
        print("   closed:", ca.closed, cb.closed)
        try:
            ca.close()
        except Exception:
            pass
        net.shutdown()
print("PASS" if ok else "FAIL")
sys.exit(0 if ok else 1)
