"""C03: a module whose name is `module` cannot be passed by reference: `get_id_pack` (rpyc/lib/__init__.py) reaches a
branch with a typo (`obj__module__`) and raises NameError while boxing.  Expected: it reaches the peer as a reference
like every other module, echoes back as the original, and is released afterwards.
Run:  RPYC_REPO=/repo /venv/bin/python /verif/fixes/demo_C03_module_named_module.py"""
import os
import sys
import types

sys.path.insert(0, "/verif/harness")
sys.path.insert(0, os.environ.get("RPYC_REPO", "/repo"))
import rpyc                      # noqa: E402
from simnet import Net           # noqa: E402


class S(rpyc.Service):
    def exposed_ident(self, x):
        return x

    def exposed_name(self, x):
        return x.__name__


def main():
    bad = []
    net = Net()
    with net.installed():
        ca, cb = net.connect_pair(None, S(), config_a={"allow_all_attrs": True})
        for name in ("module", "other"):
            m = types.ModuleType(name)
            m.answer = 42
            try:
                back = ca.root.ident(m)
                seen = ca.root.name(m)
                print("module named %-8r -> peer sees %r, echo is the original: %s" % (name, seen, back is m))
                if back is not m or seen != name:
                    bad.append("module named %r did not travel by reference" % name)
            except Exception as ex:  # noqa
                print("module named %-8r -> %s: %s" % (name, type(ex).__name__, str(ex).splitlines()[0][:70]))
                bad.append("module named %r cannot be lent (%s)" % (name, type(ex).__name__))
        ca.close()
        net.shutdown()
    print("FAIL: " + "; ".join(bad) if bad else "PASS")
    return 1 if bad else 0


if __name__ == "__main__":
    sys.exit(main())
