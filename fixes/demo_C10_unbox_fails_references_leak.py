"""C10: references in a message the receiver FAILS TO UNBOX are never released.  `_box` at the sender registered one
reference per REMOTE_REF; the receiver's `_unbox` raised before it created a proxy for (some of) them, so nothing will ever
send their release notice: the owner keeps the objects until the connection closes although the peer holds nothing.
  1. the class of one object cannot be inspected (its HANDLE_INSPECT raises at the owner): `(A(), B(), A())` -> B and the
     second A leak (the first A's proxy dies and releases it);
  2. a package with a stale LOCAL_REF: KeyError in the first pass, every REMOTE_REF of the package leaks.
Expected: after the failure and a round trip the owner's table holds none of them.
Run:  RPYC_REPO=/repo /venv/bin/python /verif/fixes/demo_C10_unbox_fails_references_leak.py"""
import gc
import os
import sys

sys.path.insert(0, "/verif/harness")
sys.path.insert(0, os.environ.get("RPYC_REPO", "/repo"))
import rpyc                      # noqa: E402
from rpyc.core import consts     # noqa: E402
from simnet import Net           # noqa: E402


class Boom(object):
    def __getattr__(self, name):
        raise RuntimeError(name)


class A(object):
    pass


class B(object):
    helper = Boom()              # get_methods() probes it: HANDLE_INSPECT of B raises at the owner


class S(rpyc.Service):
    def exposed_get(self):
        return (A(), B(), A())

    def exposed_ping(self):
        return 1


def lent(conn):
    return sorted(k[0].split(".")[-1] for k in conn._local_objects._dict if k[0].split(".")[-1] in ("A", "B", "list"))


def main():
    bad = []
    net = Net()
    with net.installed():
        ca, cb = net.connect_pair(None, S())
        try:
            ca.root.get()
            bad.append("the reply with an un-inspectable class was delivered?")
        except RuntimeError as ex:
            print("1. caller got RuntimeError(%s)" % str(ex).splitlines()[0][:30])
        ca.root.ping()
        ca.root.ping()
        cb._last_traceback = ca._last_traceback = None
        gc.collect()
        print("   owner's table afterwards:", lent(cb))
        if lent(cb):
            bad.append("objects of a reply the caller could not unbox stay in the owner's table: %s" % lent(cb))
        # 2. stale LOCAL_REF in front of fresh references (hand-made request; the references are really registered)
        objs = [[1], [2]]
        boxed = [ca._box(o) for o in objs]
        package = (consts.LABEL_TUPLE, ((consts.LABEL_LOCAL_REF, ("no.Such", 1, 2)),) + tuple(boxed))
        try:
            cb._unbox(package)
            bad.append("a package with a stale LOCAL_REF was unboxed?")
        except KeyError:
            print("2. receiver got KeyError for the stale LOCAL_REF")
        ca.root.ping()
        ca.root.ping()
        print("   owner's table afterwards:", lent(ca))
        if lent(ca):
            bad.append("references of a package refused in the first pass stay in the owner's table: %s" % lent(ca))
        ca.close()
        net.shutdown()
    print("FAIL: " + "; ".join(bad) if bad else "PASS")
    return 1 if bad else 0


if __name__ == "__main__":
    sys.exit(main())
