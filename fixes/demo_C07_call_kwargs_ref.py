"""C07: a peer must not make the server touch an attribute the policy denies.  HANDLE_CALL with a
reference (instead of a tuple) as `kwargs` makes `dict(kwargs)` call `.keys()` / `[k]` on any object the
peer holds, although `keys` is a public name the default policy denies.  After the fix: TypeError."""
import sys
sys.path.insert(0, "/verif/harness"); sys.path.insert(0, __import__("os").environ.get("RPYC_REPO", "/repo"))
import rpyc
from rpyc.core import consts
from simnet import Net
touched = []
class Vault(object):
    def keys(self):
        touched.append("keys")
        return ["secret"]
    def __getitem__(self, k):
        touched.append("getitem:" + k)
        return "s3cr3t"
class S(rpyc.Service):
    def exposed_f(self):
        return lambda **kw: sorted(kw.items())
    def exposed_vault(self):
        return Vault()
net = Net()
with net.installed():
    ca, cb = net.connect_pair(None, S())
    f, v = ca.root.f(), ca.root.vault()
    try:
        v.keys()
        print("policy did not deny keys?!")
    except AttributeError:
        print("getattr 'keys' is denied by the default policy (as expected)")
    touched.clear()
    try:
        out = ca.sync_request(consts.HANDLE_CALL, f, (), v)
        print("HANDLE_CALL with a reference as kwargs returned", out)
    except Exception as e:
        print("HANDLE_CALL with a reference as kwargs ->", type(e).__name__)
    print("touched on the server:", touched)
    ok = touched == []
    ca.close(); net.shutdown()
print("PASS" if ok else "FAIL")
sys.exit(0 if ok else 1)
