"""C08: every response is delivered to the request with that number.
Pinned code: `_dispatch` decodes the payload of a MSG_REPLY / MSG_EXCEPTION (`_unbox(args)` / `_unbox_exc(args)`) BEFORE
`_seq_request_callback` looks the waiter up.  If that decode raises — the peer's handler raised an ExceptionGroup (its class
cannot be rebuilt by `cls.__new__(cls)`), or the reply carries a LOCAL_REF the receiver no longer knows — the exception
leaves serve() at whoever happened to be serving, the response is consumed but never delivered: the requester's result
never becomes ready, its callback stays registered, reading it later times out.
Proposed repair: fixes/C08-deliver-decode-failure.patch (the decode failure is delivered to that request as its exception)."""
import sys
sys.path.insert(0, "/verif/harness"); sys.path.insert(0, __import__("os").environ.get("RPYC_REPO", "/repo"))
import rpyc
from rpyc.core import consts
from simnet import Net
class B(rpyc.Service):
    def exposed_group(self):
        raise ExceptionGroup("several", [ValueError(1), KeyError(2)])
    def exposed_echo(self, x):
        return x
    def exposed_ok(self):
        return 42
ok = True
def callbacks(c):
    return sorted(c._request_callbacks)
net = Net()
with net.installed():
    ca, cb = net.connect_pair(None, B())
    root = ca.root
    # 1. an asynchronous request whose handler raises an ExceptionGroup; another (synchronous) request is the one serving
    ar = rpyc.async_(root.group)()
    ar.set_expiry(5)
    try:
        print("ok() while the ExceptionGroup response is on its way ->", root.ok())
    except Exception as e:
        print("the UNRELATED synchronous request got", type(e).__name__, "-", str(e)[:60]); ok = False
    try:
        ar.wait()
        print("group(): ready, error =", ar.error, type(ar._obj).__name__)
    except Exception as e:
        print("group(): its requester got", type(e).__name__, "(response never delivered); callbacks left:", callbacks(ca))
        ok = False
    # 2. a reply that hands back a reference to an object of OURS that we have meanwhile dropped (stale LOCAL_REF)
    mine = [1, 2, 3]
    ar2 = rpyc.async_(root.echo)(mine)            # B will answer with LOCAL_REF(id of `mine`)
    ca._local_objects.clear()                     # ... which side A no longer knows (e.g. released by a HANDLE_DEL)
    ar2.set_expiry(5)
    try:
        ar2.wait()
        print("echo(stale): ready, error =", ar2.error, type(ar2._obj).__name__)
    except Exception as e:
        print("echo(stale): its requester got", type(e).__name__, "(response never delivered); callbacks left:", callbacks(ca))
        ok = False
    try:
        print("afterwards: ok() ->", root.ok(), " callbacks left:", callbacks(ca))
        ok = ok and not callbacks(ca)
    except Exception as e:
        print("afterwards:", type(e).__name__); ok = False
    del root
    try:
        ca.close()
    except Exception:
        pass
    net.shutdown()
print("PASS" if ok else "FAIL")
sys.exit(0 if ok else 1)
