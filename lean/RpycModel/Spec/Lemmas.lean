import RpycModel.Spec.Published
import RpycModel.Spec.Code
import RpycModel.Gen.Recorded
import RpycModel.Brine.Closed
/-
Helper lemmas for C19: the regenerated constants equal the published ones (one lemma per constant, so a
moved constant is named), the search `pick` over the form tables computes the documented length classes,
and the model of the code's encoder coincides with the reference encoder.
-/
namespace Rpyc.Spec
open Rpyc

/-! ### generated brine constants = published (each breaks by name when its constant moves) -/

theorem tag_none : Gen.tagNone = TAG_NONE := by decide
theorem tag_emptyStr : Gen.tagEmptyStr = TAG_EMPTY_STR := by decide
theorem tag_emptyTuple : Gen.tagEmptyTuple = TAG_EMPTY_TUPLE := by decide
theorem tag_true : Gen.tagTrue = TAG_TRUE := by decide
theorem tag_false : Gen.tagFalse = TAG_FALSE := by decide
theorem tag_notImplemented : Gen.tagNotImplemented = TAG_NOT_IMPLEMENTED := by decide
theorem tag_ellipsis : Gen.tagEllipsis = TAG_ELLIPSIS := by decide
theorem tag_unicode : Gen.tagUnicode = TAG_UNICODE := by decide
theorem tag_str1 : Gen.tagStr1 = TAG_STR1 := by decide
theorem tag_str2 : Gen.tagStr2 = TAG_STR2 := by decide
theorem tag_str3 : Gen.tagStr3 = TAG_STR3 := by decide
theorem tag_str4 : Gen.tagStr4 = TAG_STR4 := by decide
theorem tag_strL1 : Gen.tagStrL1 = TAG_STR_L1 := by decide
theorem tag_strL4 : Gen.tagStrL4 = TAG_STR_L4 := by decide
theorem tag_tup1 : Gen.tagTup1 = TAG_TUP1 := by decide
theorem tag_tup2 : Gen.tagTup2 = TAG_TUP2 := by decide
theorem tag_tup3 : Gen.tagTup3 = TAG_TUP3 := by decide
theorem tag_tup4 : Gen.tagTup4 = TAG_TUP4 := by decide
theorem tag_tupL1 : Gen.tagTupL1 = TAG_TUP_L1 := by decide
theorem tag_tupL4 : Gen.tagTupL4 = TAG_TUP_L4 := by decide
theorem tag_intL1 : Gen.tagIntL1 = TAG_INT_L1 := by decide
theorem tag_intL4 : Gen.tagIntL4 = TAG_INT_L4 := by decide
theorem tag_float : Gen.tagFloat = TAG_FLOAT := by decide
theorem tag_slice : Gen.tagSlice = TAG_SLICE := by decide
theorem tag_fset : Gen.tagFset = TAG_FSET := by decide
theorem tag_complex : Gen.tagComplex = TAG_COMPLEX := by decide
theorem imm_lo : Gen.immLo = IMM_LO := by decide
theorem imm_hi : Gen.immHi = IMM_HI := by decide
theorem imm_base : Gen.immBase = IMM_BASE := by decide

/-! ### `pick` computes the documented length classes -/

/-- a table of the shape both `bytesForms` and `tupleForms` have -/
def family (n0 n1 n2 n3 n4 n5 n6 : String) (t0 t1 t2 t3 t4 t5 t6 : Nat) : List Form :=
  [⟨n0, t0, .fixed 0⟩, ⟨n1, t1, .fixed 1⟩, ⟨n2, t2, .fixed 2⟩, ⟨n3, t3, .fixed 3⟩, ⟨n4, t4, .fixed 4⟩,
   ⟨n5, t5, .l1⟩, ⟨n6, t6, .l4⟩]

theorem header_family (n0 n1 n2 n3 n4 n5 n6 : String) (t0 t1 t2 t3 t4 t5 t6 n : Nat) :
    header (family n0 n1 n2 n3 n4 n5 n6 t0 t1 t2 t3 t4 t5 t6) n =
      if n = 0 then .ok [t0]
      else if n = 1 then .ok [t1]
      else if n = 2 then .ok [t2]
      else if n = 3 then .ok [t3]
      else if n = 4 then .ok [t4]
      else if n < 256 then .ok [t5, n]
      else if n < 2 ^ 32 then .ok (t6 :: beN 4 n)
      else .error .structError := by
  by_cases h0 : n = 0
  · subst h0; rfl
  by_cases h1 : n = 1
  · subst h1; rfl
  by_cases h2 : n = 2
  · subst h2; rfl
  by_cases h3 : n = 3
  · subst h3; rfl
  by_cases h4 : n = 4
  · subst h4; rfl
  by_cases h5 : n < 256
  · have h6 : n < 2 ^ 32 := by omega
    simp [header, pick, family, Form.fits, LenClass.fits, Form.cost, LenClass.width, Form.header,
      LenClass.field, h0, h1, h2, h3, h4, h5, h6]
  by_cases h6 : n < 2 ^ 32
  · simp [header, pick, family, Form.fits, LenClass.fits, Form.cost, LenClass.width, Form.header,
      LenClass.field, h0, h1, h2, h3, h4, h5, h6]
  · simp [header, pick, family, Form.fits, LenClass.fits, Form.cost, LenClass.width, Form.header,
      LenClass.field, h0, h1, h2, h3, h4, h5, h6]

theorem header_bytesForms (n : Nat) :
    header bytesForms n =
      if n = 0 then .ok [TAG_EMPTY_STR]
      else if n = 1 then .ok [TAG_STR1]
      else if n = 2 then .ok [TAG_STR2]
      else if n = 3 then .ok [TAG_STR3]
      else if n = 4 then .ok [TAG_STR4]
      else if n < 256 then .ok [TAG_STR_L1, n]
      else if n < 2 ^ 32 then .ok (TAG_STR_L4 :: beN 4 n)
      else .error .structError :=
  header_family _ _ _ _ _ _ _ _ _ _ _ _ _ _ n

theorem header_tupleForms (n : Nat) :
    header tupleForms n =
      if n = 0 then .ok [TAG_EMPTY_TUPLE]
      else if n = 1 then .ok [TAG_TUP1]
      else if n = 2 then .ok [TAG_TUP2]
      else if n = 3 then .ok [TAG_TUP3]
      else if n = 4 then .ok [TAG_TUP4]
      else if n < 256 then .ok [TAG_TUP_L1, n]
      else if n < 2 ^ 32 then .ok (TAG_TUP_L4 :: beN 4 n)
      else .error .structError :=
  header_family _ _ _ _ _ _ _ _ _ _ _ _ _ _ n

theorem header_intForms (n : Nat) :
    header intForms n =
      if n < 256 then .ok [TAG_INT_L1, n]
      else if n < 2 ^ 32 then .ok (TAG_INT_L4 :: beN 4 n)
      else .error .structError := by
  by_cases h5 : n < 256
  · have h6 : n < 2 ^ 32 := by omega
    simp [header, pick, intForms, Form.fits, LenClass.fits, Form.cost, LenClass.width, Form.header,
      LenClass.field, h5, h6]
  by_cases h6 : n < 2 ^ 32
  · simp [header, pick, intForms, Form.fits, LenClass.fits, Form.cost, LenClass.width, Form.header,
      LenClass.field, h5, h6]
  · simp [header, pick, intForms, Form.fits, LenClass.fits, Form.cost, LenClass.width, Form.header,
      LenClass.field, h5, h6]

/-! ### the code's encoder = the reference encoder -/

/-- the code's tuple header is the shortest fitting tuple form -/
theorem tupHeader_eq (n : Nat) : Brine.tupHeader n = header tupleForms n := by
  rw [header_tupleForms]
  simp only [Brine.tupHeader, tag_emptyTuple, tag_tup1, tag_tup2, tag_tup3, tag_tup4, tag_tupL1, tag_tupL4]

theorem encBytes_eq (b : Bytes) : Brine.encBytes b = specBytes b := by
  simp only [specBytes, header_bytesForms, Brine.encBytes, tag_emptyStr, tag_str1, tag_str2, tag_str3,
    tag_str4, tag_strL1, tag_strL4]
  repeat' split
  all_goals first
    | (simp [after]; done)
    | (rename_i h; simp [after, List.eq_nil_of_length_eq_zero h])

theorem encStr_eq (s : List Nat) : Brine.encStr s = specText Gen.dumpStrSurrogatePass s := by
  unfold Brine.encStr specText
  cases utf8Enc Gen.dumpStrSurrogatePass s with
  | none => rfl
  | some u =>
    simp only [encBytes_eq, tag_unicode]
    cases specBytes u <;> simp [tagged, andThen]

/-- the interpreter can render the integer as text: it is an immediate, or the interpreter has no digit
limit, or it has at most that many digits (`str(int)` raises ValueError otherwise — an interpreter
matter, not a format matter) -/
def intRenderable (i : Int) : Bool :=
  (decide (IMM_LO ≤ i) && decide (i < IMM_HI)) || Gen.intMaxStrDigits == 0
    || decide ((natDigits i.natAbs).length ≤ Gen.intMaxStrDigits)

theorem encInt_eq (i : Int) (h : intRenderable i = true) : Brine.encInt i = specInt i := by
  unfold Brine.encInt specInt
  rw [imm_lo, imm_hi, imm_base]
  by_cases himm : IMM_LO ≤ i ∧ i < IMM_HI
  · simp [himm]
  · rw [if_neg himm, if_neg himm]
    have hlim : ¬ (Gen.intMaxStrDigits ≠ 0 ∧ (natDigits i.natAbs).length > Gen.intMaxStrDigits) := by
      simp only [intRenderable, Bool.or_eq_true, Bool.and_eq_true, decide_eq_true_eq, beq_iff_eq] at h
      rcases h with (h | h) | h
      · exact absurd h himm
      · omega
      · omega
    rw [if_neg hlim, header_intForms, tag_intL1, tag_intL4]
    repeat' split
    all_goals simp [after]

mutual
/-- every integer in the value can be rendered by the interpreter -/
def Renderable : Val → Bool
  | .int i => intRenderable i
  | .tuple xs => RenderableL xs
  | .fset xs => RenderableL xs
  | .slice a b c => Renderable a && Renderable b && Renderable c
  | _ => true
def RenderableL : List Val → Bool
  | [] => true
  | x :: xs => Renderable x && RenderableL xs
end

mutual
/-- all text in the value consists of Unicode scalar values (no surrogate code points): the values
whose text the published format can express -/
def ScalarText : Val → Bool
  | .str s => s.all (fun c => !isSurrogate c)
  | .tuple xs => ScalarTextL xs
  | .fset xs => ScalarTextL xs
  | .slice a b c => ScalarText a && ScalarText b && ScalarText c
  | _ => true
def ScalarTextL : List Val → Bool
  | [] => true
  | x :: xs => ScalarText x && ScalarTextL xs
end

theorem andThen_eq_match (h body : Except Err Bytes) :
    andThen h body = (match h with
      | .error e => .error e
      | .ok hd => match body with
        | .error e => .error e
        | .ok b => .ok (hd ++ b)) := rfl

mutual
theorem enc_eq_specEncWith : ∀ (v : Val), Renderable v = true →
    Brine.enc v = specEncWith Gen.dumpStrSurrogatePass v
  | .none, _ => by simp [Brine.enc, specEncWith, tag_none]
  | .notImpl, _ => by simp [Brine.enc, specEncWith, tag_notImplemented]
  | .ellipsis, _ => by simp [Brine.enc, specEncWith, tag_ellipsis]
  | .bool true, _ => by simp [Brine.enc, specEncWith, tag_true]
  | .bool false, _ => by simp [Brine.enc, specEncWith, tag_false]
  | .int i, h => by
    simp only [Brine.enc, specEncWith]
    exact encInt_eq i (by simpa [Renderable] using h)
  | .float b, _ => by simp [Brine.enc, specEncWith, tag_float]
  | .complex r i, _ => by simp [Brine.enc, specEncWith, tag_complex]
  | .bytes b, _ => by simp only [Brine.enc, specEncWith]; exact encBytes_eq b
  | .str s, _ => by simp only [Brine.enc, specEncWith]; exact encStr_eq s
  | .tuple xs, h => by
    have ih := encL_eq_specEncList xs (by simpa [Renderable] using h)
    simp only [Brine.enc, specEncWith, tupHeader_eq, ih]
    cases header tupleForms xs.length <;> cases specEncList Gen.dumpStrSurrogatePass xs <;> rfl
  | .fset xs, h => by
    have ih := encL_eq_specEncList xs (by simpa [Renderable] using h)
    simp only [Brine.enc, specEncWith, tupHeader_eq, ih, tag_fset]
    cases header tupleForms xs.length <;> cases specEncList Gen.dumpStrSurrogatePass xs <;> rfl
  | .slice a b c, h => by
    have h' : Renderable a = true ∧ Renderable b = true ∧ Renderable c = true := by
      simp [Renderable] at h; exact ⟨h.1.1, h.1.2, h.2⟩
    have iha := enc_eq_specEncWith a h'.1
    have ihb := enc_eq_specEncWith b h'.2.1
    have ihc := enc_eq_specEncWith c h'.2.2
    have hh : header tupleForms 3 = .ok [TAG_TUP3] := by rw [header_tupleForms]; rfl
    simp only [Brine.enc, specEncWith, iha, ihb, ihc, tag_slice, tag_tup3, hh]
    cases specEncWith Gen.dumpStrSurrogatePass a <;> cases specEncWith Gen.dumpStrSurrogatePass b <;>
      cases specEncWith Gen.dumpStrSurrogatePass c <;> simp [tagged, andThen]
  | .other _, _ => rfl
theorem encL_eq_specEncList : ∀ (xs : List Val), RenderableL xs = true →
    Brine.encL xs = specEncList Gen.dumpStrSurrogatePass xs
  | [], _ => rfl
  | x :: xs, h => by
    have h' : Renderable x = true ∧ RenderableL xs = true := by simpa [RenderableL] using h
    have ihx := enc_eq_specEncWith x h'.1
    have ihxs := encL_eq_specEncList xs h'.2
    simp only [Brine.encL, specEncList, ihx, ihxs]
    cases specEncWith Gen.dumpStrSurrogatePass x <;> cases specEncList Gen.dumpStrSurrogatePass xs <;> rfl
end

/-! ### on scalar text the text rule does not matter -/

theorem utf8Enc_mode (s : List Nat) (h : s.all (fun c => !isSurrogate c) = true) (a b : Bool) :
    utf8Enc a s = utf8Enc b s := by
  induction s with
  | nil => rfl
  | cons c cs ih =>
    simp only [List.all_cons, Bool.and_eq_true, Bool.not_eq_true'] at h
    simp [utf8Enc, h.1, ih h.2]

mutual
theorem specEncWith_mode : ∀ (v : Val), ScalarText v = true → ∀ a b, specEncWith a v = specEncWith b v
  | .none, _, _, _ | .notImpl, _, _, _ | .ellipsis, _, _, _ | .bool true, _, _, _ | .bool false, _, _, _
  | .int _, _, _, _ | .float _, _, _, _ | .complex _ _, _, _, _ | .bytes _, _, _, _
  | .other _, _, _, _ => by
    simp only [specEncWith]
  | .str s, h, a, b => by
    simp only [specEncWith, specText]
    rw [utf8Enc_mode s (by simpa [ScalarText] using h) a b]
  | .tuple xs, h, a, b => by
    simp only [specEncWith, specEncList_mode xs (by simpa [ScalarText] using h) a b]
  | .fset xs, h, a, b => by
    simp only [specEncWith, specEncList_mode xs (by simpa [ScalarText] using h) a b]
  | .slice x y z, h, a, b => by
    have h' : ScalarText x = true ∧ ScalarText y = true ∧ ScalarText z = true := by
      simp [ScalarText] at h; exact ⟨h.1.1, h.1.2, h.2⟩
    simp only [specEncWith, specEncWith_mode x h'.1 a b, specEncWith_mode y h'.2.1 a b,
      specEncWith_mode z h'.2.2 a b]
theorem specEncList_mode : ∀ (xs : List Val), ScalarTextL xs = true → ∀ a b, specEncList a xs = specEncList b xs
  | [], _, _, _ => rfl
  | x :: xs, h, a, b => by
    have h' : ScalarText x = true ∧ ScalarTextL xs = true := by simpa [ScalarTextL] using h
    simp only [specEncList, specEncWith_mode x h'.1 a b, specEncList_mode xs h'.2 a b]
end

/-! ### generated protocol constants = published -/

theorem c_msgRequest : Gen.Consts.msgRequest = MSG_REQUEST := by decide
theorem c_msgReply : Gen.Consts.msgReply = MSG_REPLY := by decide
theorem c_msgException : Gen.Consts.msgException = MSG_EXCEPTION := by decide
theorem c_labelValue : Gen.Consts.labelValue = LABEL_VALUE := by decide
theorem c_labelTuple : Gen.Consts.labelTuple = LABEL_TUPLE := by decide
theorem c_labelLocalRef : Gen.Consts.labelLocalRef = LABEL_LOCAL_REF := by decide
theorem c_labelRemoteRef : Gen.Consts.labelRemoteRef = LABEL_REMOTE_REF := by decide
theorem c_excStopIteration : Gen.Consts.excStopIteration = EXC_STOP_ITERATION := by decide
theorem c_streamChunk : Gen.Consts.streamChunk = STREAM_CHUNK := by decide
theorem c_threshold : Gen.Consts.compressionThreshold = COMPRESSION_THRESHOLD := by decide
theorem c_level : Gen.Consts.compressionLevel = COMPRESSION_LEVEL := by decide
theorem c_bigEndian : Gen.Consts.frameBigEndian = true := by decide
theorem c_lenWidth : Gen.Consts.frameLenWidth = FRAME_LEN_WIDTH := by decide
theorem c_flagWidth : Gen.Consts.frameFlagWidth = FRAME_FLAG_WIDTH := by decide
theorem c_headerSize : Gen.Consts.frameHeaderSize = FRAME_HEADER_SIZE := by decide
theorem c_flusher : Gen.Consts.flusher = FLUSHER := by decide
/-- environment: the interpreter under check has zlib (otherwise nothing is ever compressed) -/
theorem c_zlib : Gen.Consts.zlibAvailable = true := by decide

/-! ### L2: the code's frame = the published frame -/

theorem packHeader_eq (len flag : Nat) :
    Code.packHeader len flag =
      if len < 2 ^ 32 ∧ flag < 256 then .ok (beN FRAME_LEN_WIDTH len ++ beN FRAME_FLAG_WIDTH flag)
      else .error .structError := by
  simp only [Code.packHeader, Code.packField, c_bigEndian, c_lenWidth, c_flagWidth, if_true]
  rfl

theorem emit_eq (flag : Nat) (data : Bytes) (hf : flag < 256) :
    Code.emit flag data = if data.length < 2 ^ 32 then .ok (frameOf flag data) else .error .structError := by
  unfold Code.emit
  rw [packHeader_eq]
  by_cases h : data.length < 2 ^ 32
  · simp [h, hf, frameOf, c_flusher]
  · simp [h]

theorem channelSend_eq (deflate : Bytes → Bytes) (compress : Bool) (data : Bytes) :
    Code.channelSend deflate compress data = sendFrame deflate compress data := by
  simp only [Code.channelSend, sendFrame, compresses, c_zlib, c_threshold, Bool.and_true,
    emit_eq 1 _ (by decide), emit_eq 0 _ (by decide)]
  rfl

theorem beN_one (n : Nat) (h : n < 256) : beN 1 n = [n] := by
  simp [beN]; omega

theorem frameOf_explicit (flag : Nat) (payload : Bytes) (hf : flag < 256) :
    frameOf flag payload = beN 4 payload.length ++ [flag] ++ payload ++ [0x0a] := by
  simp [frameOf, FRAME_LEN_WIDTH, FRAME_FLAG_WIDTH, FLUSHER, beN_one flag hf]

/-- `Channel.recv` reads back any published frame, whatever the flag and whoever compressed -/
theorem channelRecv_frameOf (inflate : Bytes → Option Bytes) (flag : Nat) (payload rest : Bytes)
    (hl : payload.length < 2 ^ 32) (hf : flag < 256) :
    Code.channelRecv inflate (frameOf flag payload ++ rest) = Code.recvResult inflate flag payload rest := by
  have hshape : frameOf flag payload ++ rest
      = beN 4 payload.length ++ ([flag] ++ (payload ++ ([10] ++ rest))) := by
    simp [frameOf, FRAME_LEN_WIDTH, FRAME_FLAG_WIDTH, FLUSHER, beN_one flag hf]
  have ht4 : (frameOf flag payload ++ rest).take 4 = beN 4 payload.length := by
    rw [hshape]; exact Brine.take_app _ _ 4 (by simp)
  have hd4 : (frameOf flag payload ++ rest).drop 4 = [flag] ++ (payload ++ ([10] ++ rest)) := by
    rw [hshape]; exact Brine.drop_app _ _ 4 (by simp)
  have hd5 : (frameOf flag payload ++ rest).drop 5 = payload ++ ([10] ++ rest) := by
    have : (frameOf flag payload ++ rest) = (beN 4 payload.length ++ [flag]) ++ (payload ++ ([10] ++ rest)) := by
      rw [hshape]; simp
    rw [this]; exact Brine.drop_app _ _ 5 (by simp)
  have hu : unbe (beN 4 payload.length) = payload.length := unbe_beN 4 _ (by simpa using hl)
  have hlen : (frameOf flag payload ++ rest).length = 5 + payload.length + 1 + rest.length := by
    rw [hshape]; simp; omega
  have htp : (payload ++ ([10] ++ rest)).take payload.length = payload := Brine.take_app _ _ _ rfl
  have hdp : (payload ++ ([10] ++ rest)).drop (payload.length + 1) = rest := by
    have : payload ++ ([10] ++ rest) = (payload ++ [10]) ++ rest := by simp
    rw [this]; exact Brine.drop_app _ _ _ (by simp)
  simp only [Code.channelRecv, Code.unpackField, c_bigEndian, c_headerSize, c_lenWidth, c_flagWidth,
    c_flusher, FRAME_HEADER_SIZE, FRAME_LEN_WIDTH, FRAME_FLAG_WIDTH, FLUSHER, if_true, ht4, hd4, hd5, hu,
    List.length_singleton, htp, hdp]
  have hflag : unbe (List.take 1 ([flag] ++ (payload ++ ([10] ++ rest)))) = flag := by simp [unbe]
  rw [hflag]
  rw [if_neg (by omega), if_neg (by simp)]

/-! ### L6: the code's messages = the published messages -/

mutual
/-- the published label tree the code's `_box` produces -/
def boxedOf : Code.Obj → Boxed
  | .plain v => .value v
  | .tup xs => .tuple (boxedOfL xs)
  | .ownProxy p => .localRef p
  | .object p => .remoteRef p
def boxedOfL : List Code.Obj → List Boxed
  | [] => []
  | x :: xs => boxedOf x :: boxedOfL xs
end

mutual
theorem box_eq : ∀ (o : Code.Obj), Code.box o = (boxedOf o).toVal
  | .plain v => by simp [Code.box, boxedOf, Boxed.toVal, c_labelValue]
  | .tup xs => by simp [Code.box, boxedOf, Boxed.toVal, c_labelTuple, boxL_eq xs]
  | .ownProxy p => by simp [Code.box, boxedOf, Boxed.toVal, c_labelLocalRef]
  | .object p => by simp [Code.box, boxedOf, Boxed.toVal, c_labelRemoteRef]
theorem boxL_eq : ∀ (xs : List Code.Obj), Code.boxL xs = Boxed.toVals (boxedOfL xs)
  | [] => rfl
  | x :: xs => by simp [Code.boxL, boxedOfL, Boxed.toVals, box_eq x, boxL_eq xs]
end

/-! ### the probes of Gen/Recorded.lean, as the model sees them -/

def probeP : Val := .tuple [.str [112, 114, 111, 98, 101, 46, 80], .int 11, .int 22]          -- ("probe.P", 11, 22)
def probeObj : Val := .tuple [.str [103, 101, 110, 95, 112, 114, 111, 116, 111, 95, 99, 111, 110, 115, 116, 115, 46, 79, 98, 106], .int 44, .int 55]   -- ("gen_proto_consts.Obj", 44, 55)
def probeQ : Val := .tuple [.str [112, 114, 111, 98, 101, 46, 81], .int 12, .int 23]          -- ("probe.Q", 12, 23)
def probeSvc : Val := .tuple [.str [103, 101, 110, 95, 112, 114, 111, 116, 111, 95, 99, 111, 110, 115, 116, 115, 46, 83, 118, 99], .int 66, .int 77]   -- ("gen_proto_consts.Svc", 66, 77)

/-- the five objects `Connection._box` was run on when the facts were recorded -/
def boxProbes : List (String × Code.Obj) :=
  [("plain", .plain (.tuple [.int 1, .str [97], .tuple [.float 0x4004000000000000, .none]])),
   ("tuple", .tup [.plain (.int 5), .object probeObj]),
   ("nested", .tup [.ownProxy probeP, .tup [.plain (.str [107]), .object probeObj], .plain (.bytes [])]),
   ("object", .object probeObj),
   ("proxy", .ownProxy probeP),
   ("foreign-proxy", .object probeQ),                       -- another connection's proxy is an object like any other
   ("tuple-with-foreign-proxy", .tup [.ownProxy probeP, .object probeQ])]

/-- the operations the generator performed on the live proxy (probe names of Gen/Recorded.lean) and the published
handler each must use for its own request.  (An operation may issue auxiliary requests as well — an INSPECT for a
new class, `__iter__` before BUFFITER, a DEL when a proxy dies: their number and order are the client's business.) -/
def probeOperations : List (String × String) :=
  [("root", "HANDLE_GETROOT"), ("root", "HANDLE_INSPECT"), ("ping", "HANDLE_PING"), ("getattr", "HANDLE_GETATTR"),
   ("setattr", "HANDLE_SETATTR"), ("delattr", "HANDLE_DELATTR"), ("call", "HANDLE_CALL"), ("call-kw", "HANDLE_CALL"),
   ("callattr-special", "HANDLE_CALLATTR"), ("callattr-kw", "HANDLE_CALLATTR"), ("cmp-eq", "HANDLE_CMP"),
   ("cmp-lt", "HANDLE_CMP"), ("hash", "HANDLE_HASH"), ("str", "HANDLE_STR"), ("repr", "HANDLE_REPR"),
   ("dir", "HANDLE_DIR"), ("ctxexit", "HANDLE_CTXEXIT"), ("pickle", "HANDLE_PICKLE"),
   ("oldslicing", "HANDLE_OLDSLICING"), ("buffiter", "HANDLE_BUFFITER"), ("class-proxy", "HANDLE_INSPECT"),
   ("instancecheck", "HANDLE_INSTANCECHECK"),
   ("del-class", "HANDLE_DEL"), ("call-with-object", "HANDLE_CALL"), ("async-call-kw", "HANDLE_CALL"),
   ("timed-call-kw", "HANDLE_CALL"), ("call-with-foreign-proxy", "HANDLE_CALL"), ("del", "HANDLE_DEL"),
   ("close", "HANDLE_CLOSE")]

/-- did the probe emit a request with that published handler -/
def probeUsed (recorded : List (String × List Val)) (op : String × String) : Bool :=
  match recorded.lookup op.1, handlerTable.lookup op.2 with
  | some vs, some h => (vs.map (fun v => match Msg.ofVal? v with
      | some (.request _ h' _) => h' == h
      | _ => false)).any id
  | _, _ => false

/-- `(handler, boxed args)` of a recorded request, whatever its sequence number -/
def requestBodies (vs : List Val) : List Val :=
  vs.filterMap (fun v => match v with
    | .tuple [_, _, body] => some body
    | _ => none)

/-- did the probe emit a request with exactly this `(handler, boxed args)` -/
def probeEmitted (recorded : List (String × List Val)) (name : String) (handler : String) (args : Code.Obj) : Bool :=
  match recorded.lookup name, handlerTable.lookup handler with
  | some vs, some h => (requestBodies vs).any (fun b => Val.beq b (.tuple [.int (h : Nat), Code.box args]))
  | _, _ => false

def conformingMessage (v : Val) : Bool :=
  match Msg.ofVal? v with
  | some m => m.conforms
  | none => false

/-- the response `_dispatch_request` sent is a single published message of the right kind and sequence number -/
def answeredWith (kind : Nat) (entry : Val × List Val) : Bool :=
  match entry.1, entry.2 with
  | .tuple [_, seq, _], [.tuple [k, seq', body]] =>
    Val.beq k (.int (kind : Nat)) && Val.beq seq seq' && conformingMessage (.tuple [k, seq', body])
  | _, _ => false

/-- the single response recorded for the request with sequence number `seq` -/
def responseTo (served : List (Val × List Val)) (seq : Int) : Option Val :=
  match served.find? (fun e => match e.1 with
      | .tuple [_, .int s, _] => s == seq
      | _ => false) with
  | some (_, [r]) => some r
  | _ => none

def isResponse (expected : Val) (r : Option Val) : Bool :=
  match r with
  | some v => Val.beq v expected
  | none => false

/-- a recorded reply has the shape published for the handler of its request -/
def replyShapeOk (entry : Val × List Val) : Bool :=
  match Msg.ofVal? entry.1, entry.2 with
  | some (.request _ h _), [r] =>
    (match Msg.ofVal? r with
      | some (.reply _ b) => replyConforms h b
      | some (.exception _ _) => true
      | _ => false)
  | _, _ => false

/-- `((module, name), args, attrs, tb)`: does the dumped exception name that class, carry those arguments, that
attribute, `_remote_version`, and a traceback text starting with `tbPrefix` -/
def dumpedIs (modName clsName : List Nat) (args : Val) (attr : Option Val) (tbPrefix : List Nat) : Option Val → Bool
  | some (.tuple [_, _, .tuple [.tuple [.str m, .str c], a, .tuple attrs, .str tb]]) =>
    m == modName && c == clsName && Val.beq a args
      && (match attr with
          | some x => attrs.any (Val.beq x)
          | none => true)
      && attrs.any (fun x => match x with
          | .tuple [.str n, _] => n == [95, 114, 101, 109, 111, 116, 101, 95, 118, 101, 114, 115, 105, 111, 110]
          | _ => false)
      && tbPrefix.isPrefixOf tb
  | _ => false

end Rpyc.Spec
