import RpycModel.Gen.Consts
import RpycModel.Brine.Model
/-
What the CODE does at L2 and L6 as far as byte layout is concerned, following the source branch for
branch over the regenerated constants (`Rpyc.Gen.Consts`, `Rpyc.Gen` for brine):

  rpyc/core/channel.py   `Channel.send`, `Channel.recv`
  rpyc/core/protocol.py  `Connection._send` (`brine.dump((msg, seq, args))`), `_box`,
                         `_async_request` (`(handler, self._box(args))`), `_dispatch_request`
                         (`MSG_REPLY, seq, self._box(res)` / `MSG_EXCEPTION, seq, self._box_exc(..)`),
                         `_dispatch` / `_unbox` (reading side)
  rpyc/core/vinegar.py   `dump`'s fast path `EXC_STOP_ITERATION`

zlib is a parameter (`deflate`, `inflate`).  The queueing in `_send` is C12's subject, the stream below
`Channel` is C05's; here only "which bytes" matters.  Tied to the code by the C19 correspondence: real
`Channel.send` output, real frames of real conversations.
-/
namespace Rpyc.Spec.Code
open Rpyc

/-! ### L2 -/

/-- `struct.pack` of one unsigned field of `w` bytes in the header's byte order -/
def packField (w n : Nat) : Bytes :=
  if Gen.Consts.frameBigEndian then beN w n else (beN w n).reverse

/-- `FRAME_HEADER.pack(data_size, compressed)`; `struct.error` when a field does not fit -/
def packHeader (len flag : Nat) : Except Err Bytes :=
  if len < 256 ^ Gen.Consts.frameLenWidth ∧ flag < 256 ^ Gen.Consts.frameFlagWidth then
    .ok (packField Gen.Consts.frameLenWidth len ++ packField Gen.Consts.frameFlagWidth flag)
  else .error .structError

/-- `header + data + FLUSHER` (the three-write variant writes the same bytes) -/
def emit (flag : Nat) (data : Bytes) : Except Err Bytes :=
  match packHeader data.length flag with
  | .error e => .error e
  | .ok h => .ok (h ++ data ++ Gen.Consts.flusher)

/-- `Channel.send`: `if self.compress and len(data) > self.COMPRESSION_THRESHOLD` (with
`Channel.__init__`'s `if not zlib: compress = False`) -/
def channelSend (deflate : Bytes → Bytes) (compress : Bool) (data : Bytes) : Except Err Bytes :=
  if (compress && Gen.Consts.zlibAvailable) && decide (data.length > Gen.Consts.compressionThreshold) then
    emit 1 (deflate data)
  else emit 0 data

/-- value of a header field -/
def unpackField (bs : Bytes) : Nat :=
  if Gen.Consts.frameBigEndian then unbe bs else unbe bs.reverse

/-- the tail of `Channel.recv`: `if compressed: data = zlib.decompress(data)` -/
def recvResult (inflate : Bytes → Option Bytes) (flag : Nat) (payload rest : Bytes) : Except Err (Bytes × Bytes) :=
  if flag ≠ 0 then
    match inflate payload with
    | none => .error .zlibError
    | some d => .ok (d, rest)
  else .ok (payload, rest)

/-- `Channel.recv` on the bytes the stream will deliver (a complete frame is available; short streams
are C05's subject and answer `eofError` here): header, `length + len(FLUSHER)` more bytes, the last
`len(FLUSHER)` of which are dropped unchecked; `inflate` when the flag is non-zero.  Returns the packet
and the rest of the stream. -/
def channelRecv (inflate : Bytes → Option Bytes) (stream : Bytes) : Except Err (Bytes × Bytes) :=
  if stream.length < Gen.Consts.frameHeaderSize then .error .eofError
  else if (stream.drop Gen.Consts.frameHeaderSize).length
      < unpackField (stream.take Gen.Consts.frameLenWidth) + Gen.Consts.flusher.length then .error .eofError
  else recvResult inflate
    (unpackField ((stream.drop Gen.Consts.frameLenWidth).take Gen.Consts.frameFlagWidth))
    ((stream.drop Gen.Consts.frameHeaderSize).take (unpackField (stream.take Gen.Consts.frameLenWidth)))
    ((stream.drop Gen.Consts.frameHeaderSize).drop
      (unpackField (stream.take Gen.Consts.frameLenWidth) + Gen.Consts.flusher.length))

/-! ### L6 -/

/-- the objects `_box` distinguishes -/
inductive Obj where
  /-- `brine.dumpable(obj)` holds -/
  | plain (v : Val)
  /-- `type(obj) is tuple` and it is not dumpable as a whole -/
  | tup (xs : List Obj)
  /-- a netref whose `____conn__` is this connection; `idPack` is its `____id_pack__` -/
  | ownProxy (idPack : Val)
  /-- anything else; `idPack = get_id_pack(obj)` (the object is also added to `_local_objects`) -/
  | object (idPack : Val)

mutual
/-- `Connection._box` -/
def box : Obj → Val
  | .plain v => .tuple [.int (Gen.Consts.labelValue : Nat), v]
  | .tup xs => .tuple [.int (Gen.Consts.labelTuple : Nat), .tuple (boxL xs)]
  | .ownProxy p => .tuple [.int (Gen.Consts.labelLocalRef : Nat), p]
  | .object p => .tuple [.int (Gen.Consts.labelRemoteRef : Nat), p]
def boxL : List Obj → List Val
  | [] => []
  | x :: xs => box x :: boxL xs
end

/-- the tuple `_send` hands to `brine.dump`: `(msg, seq, args)` -/
def msgVal (msg : Nat) (seq : Int) (args : Val) : Val := .tuple [.int (msg : Nat), .int seq, args]

/-- `Connection._send`: the packet payload -/
def send (msg : Nat) (seq : Int) (args : Val) : Except Err Bytes := Brine.dump (msgVal msg seq args)

/-- `_async_request`: `self._send(consts.MSG_REQUEST, seq, (handler, self._box(args)))` -/
def requestVal (seq : Int) (handler : Nat) (args : Obj) : Val :=
  msgVal Gen.Consts.msgRequest seq (.tuple [.int (handler : Nat), box args])

/-- `_dispatch_request`: `self._send(consts.MSG_REPLY, seq, self._box(res))` -/
def replyVal (seq : Int) (res : Obj) : Val := msgVal Gen.Consts.msgReply seq (box res)

/-- `_dispatch_request`: `self._send(consts.MSG_EXCEPTION, seq, self._box_exc(t, v, tb))`; `dumped` is
what `vinegar.dump` returned -/
def exceptionVal (seq : Int) (dumped : Val) : Val := msgVal Gen.Consts.msgException seq dumped

/-- `vinegar.dump`'s fast path for a `StopIteration` without arguments -/
def dumpedStopIteration : Val := .int (Gen.Consts.excStopIteration : Nat)

def asyncRequest (seq : Int) (handler : Nat) (args : Obj) : Except Err Bytes := Brine.dump (requestVal seq handler args)
def sendReply (seq : Int) (res : Obj) : Except Err Bytes := Brine.dump (replyVal seq res)
def sendException (seq : Int) (dumped : Val) : Except Err Bytes := Brine.dump (exceptionVal seq dumped)

/-! ### the reading side: `_dispatch` and the label walk of `_unbox` -/

/-- bit patterns of the doubles 0.0 … 4.0 -/
def smallFloat : Nat → Option Nat
  | 0 => some 0
  | 1 => some 0x3FF0000000000000
  | 2 => some 0x4000000000000000
  | 3 => some 0x4008000000000000
  | 4 => some 0x4010000000000000
  | _ => none

/-- Python's `v == n` for a loaded value and a small constant (`True == 1`, `1.0 == 1`, `(1+0j) == 1`) -/
def numEq (v : Val) (n : Nat) : Bool :=
  match v with
  | .int i => i == (n : Int)
  | .bool b => (if b then 1 else 0) == n
  | .float bits => smallFloat n == some bits || (n == 0 && bits == 0x8000000000000000)
  | .complex re im =>
    (smallFloat n == some re || (n == 0 && re == 0x8000000000000000)) && (im == 0 || im == 0x8000000000000000)
  | _ => false

inductive Unpacked where
  | three (a b c : Val)
  /-- an iterable of another length: ValueError -/
  | wrongLength
  /-- not iterable: TypeError -/
  | notIterable
  /-- a 3-element frozenset: the order is the interpreter's -/
  | unordered

/-- `msg, seq, args = brine.load(data)` -/
def unpack3 : Val → Unpacked
  | .tuple [a, b, c] => .three a b c
  | .tuple _ => .wrongLength
  | .bytes [a, b, c] => .three (.int (a : Nat)) (.int (b : Nat)) (.int (c : Nat))
  | .bytes _ => .wrongLength
  | .str [a, b, c] => .three (.str [a]) (.str [b]) (.str [c])
  | .str _ => .wrongLength
  | .fset [_, _, _] => .unordered
  | .fset _ => .wrongLength
  | _ => .notIterable

/-- what `_dispatch` makes of a loaded payload -/
inductive Incoming where
  /-- `MSG_REQUEST`: goes to `_dispatch_request(seq, args)` -/
  | request (seq : Val) (rawArgs : Val)
  /-- `MSG_REPLY`: `_unbox(args)` goes to the callback registered under `seq` -/
  | reply (seq : Val) (boxed : Val)
  /-- `MSG_EXCEPTION`: `_unbox_exc(args)` goes to the callback registered under `seq` -/
  | exception (seq : Val) (dumped : Val)

/-- `msg, seq, args = brine.load(data)` then the `if msg == consts.MSG_…` chain (Python `==`: a bool, float or
complex kind equal to the number matches); `valueError` is "invalid message type" or a failed unpacking. -/
def dispatch (v : Val) : Except Err Incoming :=
  match unpack3 v with
  | .three msg seq args =>
    if numEq msg Gen.Consts.msgRequest then .ok (.request seq args)
    else if numEq msg Gen.Consts.msgReply then .ok (.reply seq args)
    else if numEq msg Gen.Consts.msgException then .ok (.exception seq args)
    else .error .valueError
  | .wrongLength => .error .valueError
  | .notIterable => .error .typeError
  | .unordered => .error .notModelled

/-- which of `_dispatch_request` / `_seq_request_callback` is reached, or the exception raised -/
def dispatchOutcome (v : Val) : String :=
  match dispatch v with
  | .ok (.request _ _) => "request"
  | .ok (.reply _ _) => "reply"
  | .ok (.exception _ _) => "exception"
  | .error e => "err " ++ e.name

/-- `handler, args = raw_args` at the top of `_dispatch_request` (a failure here is answered with MSG_EXCEPTION) -/
def requestParts : Val → Except Err (Val × Val)
  | .tuple [h, a] => .ok (h, a)
  | .tuple _ => .error .valueError
  | .bytes [h, a] => .ok (.int (h : Nat), .int (a : Nat))
  | .bytes _ => .error .valueError
  | .str [h, a] => .ok (.str [h], .str [a])
  | .str _ => .error .valueError
  | .fset _ => .error .notModelled
  | _ => .error .typeError

/-- what `_unbox` sees at one node: `label, value = package` and the `if label == consts.LABEL_…` chain -/
inductive Node where
  | value (v : Val) | tuple (items : List Val) | localRef (key : Val) | remoteRef (idPack : Val)

/-- `label, value = package` -/
def unpack2 : Val → Unpacked
  | .tuple [a, b] => .three a b .none
  | .tuple _ => .wrongLength
  | .bytes [a, b] => .three (.int (a : Nat)) (.int (b : Nat)) .none
  | .bytes _ => .wrongLength
  | .str [a, b] => .three (.str [a]) (.str [b]) .none
  | .str _ => .wrongLength
  | .fset [_, _] => .unordered
  | .fset _ => .wrongLength
  | _ => .notIterable

/-- one step of `_unbox` (labels compared with Python `==`); a `LABEL_TUPLE` whose payload is not a tuple is iterated
by Python whatever it is — not modelled -/
def unboxNode (v : Val) : Except Err Node :=
  match unpack2 v with
  | .three label value _ =>
    if numEq label Gen.Consts.labelValue then .ok (.value value)
    else if numEq label Gen.Consts.labelTuple then
      match value with
      | .tuple xs => .ok (.tuple xs)
      | _ => .error .notModelled
    else if numEq label Gen.Consts.labelLocalRef then .ok (.localRef value)
    else if numEq label Gen.Consts.labelRemoteRef then .ok (.remoteRef value)
    else .error .valueError
  | .wrongLength => .error .valueError
  | .notIterable => .error .typeError
  | .unordered => .error .notModelled

/-- a plain value, described: `value`, or the tuple of its members' descriptions -/
def describePlain : Nat → Val → String
  | 0, _ => "value"
  | fuel+1, .tuple xs => "(" ++ " ".intercalate (xs.map (describePlain fuel)) ++ ")"
  | _+1, _ => "value"

/-- `_unbox` of a whole boxed value, described: what each leaf becomes.  `locals k` = the description of
`self._local_objects[k]` (`none`: KeyError); `proxies p` = the description of the proxy the reference resolves to
(cache hit or a new proxy).  Fuel bounds the nesting (callers pass the size of the value). -/
def unboxDescr (locals proxies : Val → Option String) : Nat → Val → Except Err String
  | 0, _ => .error .recursionError
  | fuel+1, v =>
    match unboxNode v with
    | .error e => .error e
    | .ok (.value x) => .ok (describePlain (fuel+1) x)
    | .ok (.localRef k) => match locals k with
      | some d => .ok d
      | none => .error .keyError
    | .ok (.remoteRef p) => match proxies p with
      | some d => .ok d
      | none => .ok "new-proxy"
    | .ok (.tuple xs) =>
      match xs.mapM (unboxDescr locals proxies fuel) with
      | .error e => .error e
      | .ok ds => .ok ("(" ++ " ".intercalate ds ++ ")")

def showDescr : Except Err String → String
  | .ok d => d
  | .error e => "err " ++ e.name

end Rpyc.Spec.Code
