import RpycModel.Spec.Lemmas
import RpycModel.Wire.Model
/-
C19's model of `Channel.send` (Spec/Code.lean, over Gen/Consts.lean) and C05's (Wire/Model.lean, over
Gen/Wire.lean) were written independently; they define the same bytes, hence C05's frames are the
published frames too.
-/
namespace Rpyc.Spec
open Rpyc

theorem channelSend_eq_wire_frame (z : Wire.ZlibFns) (compress : Bool) (data : Bytes) :
    Code.channelSend z.compress compress data = Wire.frame z compress data := by
  cases compress <;> by_cases hl : data.length > 3000 <;>
    simp [Code.channelSend, Code.emit, Code.packHeader, Code.packField, Wire.frame, Wire.packHeader,
      Wire.headerBytes, Wire.payload, Wire.flag, Wire.useCompression, Gen.Consts.frameBigEndian,
      Gen.Consts.zlibAvailable, Gen.zlibAvailable, Gen.Consts.compressionThreshold, Gen.compressionThreshold,
      Gen.Consts.frameLenWidth, Gen.frameLenWidth, Gen.Consts.frameFlagWidth, Gen.frameFlagWidth,
      Gen.Consts.flusher, Gen.flusher, hl] <;>
    split <;> simp_all

/-- C05's frame is the published frame -/
theorem wire_frame_published (z : Wire.ZlibFns) (compress : Bool) (data : Bytes) :
    Wire.frame z compress data = sendFrame z.compress compress data := by
  rw [← channelSend_eq_wire_frame, channelSend_eq]

end Rpyc.Spec
