import RpycModel.Base.Py
/-
The PUBLISHED rpyc 5.x wire format, transcribed BY HAND from the 5.0.x release (rpyc/core/brine.py,
rpyc/core/channel.py, rpyc/core/consts.py, rpyc/core/protocol.py, rpyc/core/vinegar.py as released).
Nothing in this file is generated and nothing in it refers to `Rpyc.Gen`: it is the fixed point the
regenerated constants and the hand-written model of the code are compared against (Props/C19.lean).

Contents: the brine tag table, the immediate-integer window, the length classes and the forms built
from them, the reference encoder `specEnc` ("the shortest form that fits", chosen by searching the form
table — not by the `if` ladder of the code), the grammar `Denotes` (every legal form, shortest or not),
the frame layout, and the message layout (message kinds, boxing labels, handler numbers).
-/
namespace Rpyc.Spec
open Rpyc

instance {ε α : Type} [DecidableEq ε] [DecidableEq α] : DecidableEq (Except ε α)
  | .ok a, .ok b => if h : a = b then isTrue (h ▸ rfl) else isFalse (fun h' => h (Except.ok.inj h'))
  | .error a, .error b => if h : a = b then isTrue (h ▸ rfl) else isFalse (fun h' => h (Except.error.inj h'))
  | .ok _, .error _ => isFalse (fun h => by cases h)
  | .error _, .ok _ => isFalse (fun h => by cases h)

/-! ### L1: the brine tag table -/

def TAG_NONE : Nat := 0x00
def TAG_EMPTY_STR : Nat := 0x01
def TAG_EMPTY_TUPLE : Nat := 0x02
def TAG_TRUE : Nat := 0x03
def TAG_FALSE : Nat := 0x04
def TAG_NOT_IMPLEMENTED : Nat := 0x05
def TAG_ELLIPSIS : Nat := 0x06
-- 0x07 unused
def TAG_UNICODE : Nat := 0x08
-- 0x09 was TAG_LONG (Python 2), unused in 5.x
def TAG_STR1 : Nat := 0x0a
def TAG_STR2 : Nat := 0x0b
def TAG_STR3 : Nat := 0x0c
def TAG_STR4 : Nat := 0x0d
def TAG_STR_L1 : Nat := 0x0e
def TAG_STR_L4 : Nat := 0x0f
def TAG_TUP1 : Nat := 0x10
def TAG_TUP2 : Nat := 0x11
def TAG_TUP3 : Nat := 0x12
def TAG_TUP4 : Nat := 0x13
def TAG_TUP_L1 : Nat := 0x14
def TAG_TUP_L4 : Nat := 0x15
def TAG_INT_L1 : Nat := 0x16
def TAG_INT_L4 : Nat := 0x17
def TAG_FLOAT : Nat := 0x18
def TAG_SLICE : Nat := 0x19
def TAG_FSET : Nat := 0x1a
def TAG_COMPLEX : Nat := 0x1b

/-- the documented tag table -/
def tagTable : List (String × Nat) :=
  [("TAG_NONE", TAG_NONE), ("TAG_EMPTY_STR", TAG_EMPTY_STR), ("TAG_EMPTY_TUPLE", TAG_EMPTY_TUPLE), ("TAG_TRUE", TAG_TRUE),
   ("TAG_FALSE", TAG_FALSE), ("TAG_NOT_IMPLEMENTED", TAG_NOT_IMPLEMENTED), ("TAG_ELLIPSIS", TAG_ELLIPSIS), ("TAG_UNICODE", TAG_UNICODE),
   ("TAG_STR1", TAG_STR1), ("TAG_STR2", TAG_STR2), ("TAG_STR3", TAG_STR3), ("TAG_STR4", TAG_STR4),
   ("TAG_STR_L1", TAG_STR_L1), ("TAG_STR_L4", TAG_STR_L4), ("TAG_TUP1", TAG_TUP1), ("TAG_TUP2", TAG_TUP2),
   ("TAG_TUP3", TAG_TUP3), ("TAG_TUP4", TAG_TUP4), ("TAG_TUP_L1", TAG_TUP_L1), ("TAG_TUP_L4", TAG_TUP_L4),
   ("TAG_INT_L1", TAG_INT_L1), ("TAG_INT_L4", TAG_INT_L4), ("TAG_FLOAT", TAG_FLOAT), ("TAG_SLICE", TAG_SLICE),
   ("TAG_FSET", TAG_FSET), ("TAG_COMPLEX", TAG_COMPLEX)]

/-- Integers `IMM_LO ≤ i < IMM_HI` travel as the single byte `i + IMM_BASE` (0x20 … 0xEF). -/
def IMM_LO : Int := -0x30
def IMM_HI : Int := 0xa0
def IMM_BASE : Int := 0x50

/-! ### length classes and forms -/

/-- how a form states the length of what follows its tag -/
inductive LenClass where
  /-- the tag itself says the length is exactly `n` (no length field) -/
  | fixed (n : Nat)
  /-- one unsigned length byte (`!B`) -/
  | l1
  /-- four length bytes, unsigned big-endian (`!L`) -/
  | l4
  deriving DecidableEq, Repr

def LenClass.fits : LenClass → Nat → Bool
  | .fixed k, n => n == k
  | .l1, n => decide (n < 256)
  | .l4, n => decide (n < 2 ^ 32)

/-- width of the length field -/
def LenClass.width : LenClass → Nat
  | .fixed _ => 0
  | .l1 => 1
  | .l4 => 4

/-- the length field -/
def LenClass.field : LenClass → Nat → Bytes
  | .fixed _, _ => []
  | .l1, n => [n]
  | .l4, n => beN 4 n

/-- one row of the format: a tag and the length class it carries -/
structure Form where
  name : String
  tag : Nat
  cls : LenClass
  deriving DecidableEq, Repr

def Form.fits (f : Form) (n : Nat) : Bool := f.cls.fits n
/-- bytes a form spends before the content: tag + length field -/
def Form.cost (f : Form) : Nat := 1 + f.cls.width
def Form.header (f : Form) (n : Nat) : Bytes := f.tag :: f.cls.field n

/-- forms of a byte string -/
def bytesForms : List Form :=
  [⟨"TAG_EMPTY_STR", TAG_EMPTY_STR, .fixed 0⟩, ⟨"TAG_STR1", TAG_STR1, .fixed 1⟩, ⟨"TAG_STR2", TAG_STR2, .fixed 2⟩,
   ⟨"TAG_STR3", TAG_STR3, .fixed 3⟩, ⟨"TAG_STR4", TAG_STR4, .fixed 4⟩, ⟨"TAG_STR_L1", TAG_STR_L1, .l1⟩,
   ⟨"TAG_STR_L4", TAG_STR_L4, .l4⟩]

/-- forms of a tuple header (the items follow, each in its own encoding) -/
def tupleForms : List Form :=
  [⟨"TAG_EMPTY_TUPLE", TAG_EMPTY_TUPLE, .fixed 0⟩, ⟨"TAG_TUP1", TAG_TUP1, .fixed 1⟩, ⟨"TAG_TUP2", TAG_TUP2, .fixed 2⟩,
   ⟨"TAG_TUP3", TAG_TUP3, .fixed 3⟩, ⟨"TAG_TUP4", TAG_TUP4, .fixed 4⟩, ⟨"TAG_TUP_L1", TAG_TUP_L1, .l1⟩,
   ⟨"TAG_TUP_L4", TAG_TUP_L4, .l4⟩]

/-- forms of an integer written as decimal text -/
def intForms : List Form := [⟨"TAG_INT_L1", TAG_INT_L1, .l1⟩, ⟨"TAG_INT_L4", TAG_INT_L4, .l4⟩]

/-- **Shortest form that fits**: among the forms of the table whose length class can state `n`, one
with the fewest header bytes (`none`: no form can state `n`, the value is not encodable). -/
def pick : List Form → Nat → Option Form
  | [], _ => none
  | f :: fs, n =>
    match pick fs n with
    | none => if f.fits n then some f else none
    | some g => if f.fits n && decide (f.cost ≤ g.cost) then some f else some g

/-- the header of the shortest fitting form; an unencodable length is the packer's `struct.error` -/
def header (forms : List Form) (n : Nat) : Except Err Bytes :=
  match pick forms n with
  | some f => .ok (f.header n)
  | none => .error .structError

/-! ### the reference encoder -/

def after (h : Except Err Bytes) (body : Bytes) : Except Err Bytes :=
  match h with
  | .error e => .error e
  | .ok hd => .ok (hd ++ body)

def andThen (h : Except Err Bytes) (body : Except Err Bytes) : Except Err Bytes :=
  match h with
  | .error e => .error e
  | .ok hd => match body with
    | .error e => .error e
    | .ok b => .ok (hd ++ b)

def tagged (t : Nat) (r : Except Err Bytes) : Except Err Bytes := andThen (.ok [t]) r

/-- an integer: its single immediate byte if it is in the window, else its decimal text
(`-` and digits, no leading zeros) after the shortest fitting text form -/
def specInt (i : Int) : Except Err Bytes :=
  if IMM_LO ≤ i ∧ i < IMM_HI then .ok [(i + IMM_BASE).toNat]
  else after (header intForms (intRepr i).length) (intRepr i)

/-- a byte string: the shortest fitting form, then the bytes -/
def specBytes (b : Bytes) : Except Err Bytes := after (header bytesForms b.length) b

/-- text: TAG_UNICODE, then its UTF-8 bytes encoded as a byte string.  `sp = false` is the published
rule (text is a sequence of Unicode scalar values; a surrogate code point has no UTF-8 form);
`sp = true` additionally writes a surrogate code point in the generalized three-byte form. -/
def specText (sp : Bool) (s : List Nat) : Except Err Bytes :=
  match utf8Enc sp s with
  | none => .error .unicodeEncodeError
  | some u => tagged TAG_UNICODE (specBytes u)

mutual
/-- the reference encoder, parameterised by the text rule -/
def specEncWith (sp : Bool) : Val → Except Err Bytes
  | .none => .ok [TAG_NONE]
  | .notImpl => .ok [TAG_NOT_IMPLEMENTED]
  | .ellipsis => .ok [TAG_ELLIPSIS]
  | .bool true => .ok [TAG_TRUE]
  | .bool false => .ok [TAG_FALSE]
  | .int i => specInt i
  | .float b => .ok (TAG_FLOAT :: beN 8 b)
  | .complex r i => .ok (TAG_COMPLEX :: (beN 8 r ++ beN 8 i))
  | .bytes b => specBytes b
  | .str s => specText sp s
  | .tuple xs => andThen (header tupleForms xs.length) (specEncList sp xs)
  | .fset xs => tagged TAG_FSET (andThen (header tupleForms xs.length) (specEncList sp xs))
  | .slice a b c =>
    tagged TAG_SLICE (andThen (header tupleForms 3)
      (andThen (specEncWith sp a) (andThen (specEncWith sp b) (specEncWith sp c))))
  | .other _ => .error .typeError
/-- the items of a sequence, one after the other -/
def specEncList (sp : Bool) : List Val → Except Err Bytes
  | [] => .ok []
  | x :: xs => andThen (specEncWith sp x) (specEncList sp xs)
end

/-- **The published encoder**: strict UTF-8 text. -/
def specEnc (v : Val) : Except Err Bytes := specEncWith false v

/-! ### the grammar: every byte string that denotes a value (any fitting form, shortest or not) -/

mutual
inductive Denotes : Bytes → Val → Prop where
  | none : Denotes [TAG_NONE] .none
  | notImpl : Denotes [TAG_NOT_IMPLEMENTED] .notImpl
  | ellipsis : Denotes [TAG_ELLIPSIS] .ellipsis
  | true_ : Denotes [TAG_TRUE] (.bool true)
  | false_ : Denotes [TAG_FALSE] (.bool false)
  | imm (i : Int) : IMM_LO ≤ i → i < IMM_HI → Denotes [(i + IMM_BASE).toNat] (.int i)
  | intText (i : Int) (f : Form) : f ∈ intForms → f.fits (intRepr i).length = true →
      Denotes (f.header (intRepr i).length ++ intRepr i) (.int i)
  | float (b : Nat) : b < 2 ^ 64 → Denotes (TAG_FLOAT :: beN 8 b) (.float b)
  | complex (r i : Nat) : r < 2 ^ 64 → i < 2 ^ 64 → Denotes (TAG_COMPLEX :: (beN 8 r ++ beN 8 i)) (.complex r i)
  | bytes (b : Bytes) (f : Form) : f ∈ bytesForms → f.fits b.length = true →
      Denotes (f.header b.length ++ b) (.bytes b)
  | text (s : List Nat) (u bs : Bytes) : (∀ c ∈ s, c < 0x110000) → utf8Enc false s = some u →
      Denotes bs (.bytes u) → Denotes (TAG_UNICODE :: bs) (.str s)
  | tuple (xs : List Val) (f : Form) (body : Bytes) : f ∈ tupleForms → f.fits xs.length = true →
      DenotesL body xs → Denotes (f.header xs.length ++ body) (.tuple xs)
  | fset (xs : List Val) (bs : Bytes) : Denotes bs (.tuple xs) → Denotes (TAG_FSET :: bs) (.fset xs)
  | slice (a b c : Val) (bs : Bytes) : Denotes bs (.tuple [a, b, c]) → Denotes (TAG_SLICE :: bs) (.slice a b c)
inductive DenotesL : Bytes → List Val → Prop where
  | nil : DenotesL [] []
  | cons (x : Val) (xs : List Val) (bx bxs : Bytes) : Denotes bx x → DenotesL bxs xs →
      DenotesL (bx ++ bxs) (x :: xs)
end

/-! ### L2: the frame -/

def FRAME_LEN_WIDTH : Nat := 4
def FRAME_FLAG_WIDTH : Nat := 1
def FRAME_HEADER_SIZE : Nat := 5
/-- the trailing newline (makes line-buffered transports flush) -/
def FLUSHER : Bytes := [0x0a]
def COMPRESSION_THRESHOLD : Nat := 3000
def COMPRESSION_LEVEL : Int := 1
def STREAM_CHUNK : Nat := 64000

/-- a packet on the wire: 4-byte big-endian length of the payload, one compression-flag byte, the
payload, a newline -/
def frameOf (flag : Nat) (payload : Bytes) : Bytes :=
  beN FRAME_LEN_WIDTH payload.length ++ beN FRAME_FLAG_WIDTH flag ++ payload ++ FLUSHER

/-- is zlib applied to `data`: only above the threshold, and only when the sender compresses at all -/
def compresses (compress : Bool) (data : Bytes) : Bool :=
  compress && decide (data.length > COMPRESSION_THRESHOLD)

/-- what a sender emits for `data` (`deflate` stands for zlib at the sender's level).  A payload whose
length does not fit the 4-byte field cannot be framed. -/
def sendFrame (deflate : Bytes → Bytes) (compress : Bool) (data : Bytes) : Except Err Bytes :=
  if compresses compress data then
    if (deflate data).length < 2 ^ 32 then .ok (frameOf 1 (deflate data)) else .error .structError
  else
    if data.length < 2 ^ 32 then .ok (frameOf 0 data) else .error .structError

/-! ### L6: messages, boxing labels, handlers -/

def MSG_REQUEST : Nat := 1
def MSG_REPLY : Nat := 2
def MSG_EXCEPTION : Nat := 3

def LABEL_VALUE : Nat := 1
def LABEL_TUPLE : Nat := 2
def LABEL_LOCAL_REF : Nat := 3
def LABEL_REMOTE_REF : Nat := 4

def EXC_STOP_ITERATION : Nat := 1

def msgTable : List (String × Nat) :=
  [("MSG_REQUEST", MSG_REQUEST), ("MSG_REPLY", MSG_REPLY), ("MSG_EXCEPTION", MSG_EXCEPTION)]
def labelTable : List (String × Nat) :=
  [("LABEL_VALUE", LABEL_VALUE), ("LABEL_TUPLE", LABEL_TUPLE), ("LABEL_LOCAL_REF", LABEL_LOCAL_REF),
   ("LABEL_REMOTE_REF", LABEL_REMOTE_REF)]
def excTable : List (String × Nat) := [("EXC_STOP_ITERATION", EXC_STOP_ITERATION)]
def otherTable : List (String × Int) := [("STREAM_CHUNK", (STREAM_CHUNK : Nat))]

def handlerTable : List (String × Nat) :=
  [("HANDLE_PING", 1), ("HANDLE_CLOSE", 2), ("HANDLE_GETROOT", 3), ("HANDLE_GETATTR", 4),
   ("HANDLE_DELATTR", 5), ("HANDLE_SETATTR", 6), ("HANDLE_CALL", 7), ("HANDLE_CALLATTR", 8),
   ("HANDLE_REPR", 9), ("HANDLE_STR", 10), ("HANDLE_CMP", 11), ("HANDLE_HASH", 12),
   ("HANDLE_DIR", 13), ("HANDLE_PICKLE", 14), ("HANDLE_DEL", 15), ("HANDLE_INSPECT", 16),
   ("HANDLE_BUFFITER", 17), ("HANDLE_OLDSLICING", 18), ("HANDLE_CTXEXIT", 19),
   ("HANDLE_INSTANCECHECK", 20)]

/-- what each handler number means: the operation the receiving connection performs -/
def handlerMeaning : List (Nat × String) :=
  [(1, "_handle_ping"), (2, "_handle_close"), (3, "_handle_getroot"), (4, "_handle_getattr"),
   (5, "_handle_delattr"), (6, "_handle_setattr"), (7, "_handle_call"), (8, "_handle_callattr"),
   (9, "_handle_repr"), (10, "_handle_str"), (11, "_handle_cmp"), (12, "_handle_hash"),
   (13, "_handle_dir"), (14, "_handle_pickle"), (15, "_handle_del"), (16, "_handle_inspect"),
   (17, "_handle_buffiter"), (18, "_handle_oldslicing"), (19, "_handle_ctxexit"),
   (20, "_handle_instancecheck")]

/-- a boxed value: by value, a tuple of boxed values, a reference to an object of the RECEIVER
(the receiver lent it earlier), or a reference to an object of the SENDER (`idPack` = (name, class id,
instance id)) -/
inductive Boxed where
  | value (v : Val)
  | tuple (xs : List Boxed)
  | localRef (idPack : Val)
  | remoteRef (idPack : Val)
  deriving Inhabited

mutual
/-- the label tree as the brine value that travels: `(1, v) | (2, (…)) | (3, id) | (4, id_pack)` -/
def Boxed.toVal : Boxed → Val
  | .value v => .tuple [.int (LABEL_VALUE : Nat), v]
  | .tuple xs => .tuple [.int (LABEL_TUPLE : Nat), .tuple (Boxed.toVals xs)]
  | .localRef p => .tuple [.int (LABEL_LOCAL_REF : Nat), p]
  | .remoteRef p => .tuple [.int (LABEL_REMOTE_REF : Nat), p]
def Boxed.toVals : List Boxed → List Val
  | [] => []
  | x :: xs => x.toVal :: Boxed.toVals xs
end

/-- the three messages -/
inductive Msg where
  /-- ask the peer to run handler `handler` on `args` -/
  | request (seq : Int) (handler : Nat) (args : Boxed)
  /-- the result of request `seq` -/
  | reply (seq : Int) (result : Boxed)
  /-- request `seq` raised; `dumped` is the exception as vinegar wrote it (a plain brine value:
  `EXC_STOP_ITERATION`, or `((module, name), args, attrs, traceback text)`) -/
  | exception (seq : Int) (dumped : Val)

/-- a message as the brine value that travels: `(kind, seq, args)` -/
def Msg.toVal : Msg → Val
  | .request seq h args => .tuple [.int (MSG_REQUEST : Nat), .int seq, .tuple [.int (h : Nat), args.toVal]]
  | .reply seq res => .tuple [.int (MSG_REPLY : Nat), .int seq, res.toVal]
  | .exception seq d => .tuple [.int (MSG_EXCEPTION : Nat), .int seq, d]

/-- the payload of the packet that carries a message -/
def Msg.wire (m : Msg) : Except Err Bytes := specEnc m.toVal

/-! ### per-handler argument layouts, reply shapes, the dumped-exception tuple -/

/-- what may stand at one argument position of a request -/
inductive Slot where
  /-- the object operated on: any boxed value (a reference to an object of the receiver in practice) -/
  | obj
  /-- any boxed value -/
  | any
  /-- an attribute / method / comparison-method name: text by value (a byte string is accepted and decoded) -/
  | name
  /-- positional arguments: a tuple — by value as a whole, or boxed item by item -/
  | args
  /-- keyword arguments: a tuple of `(name, value)` pairs, names being text -/
  | kwargs
  /-- an integer by value -/
  | count
  /-- `(type name, class id, instance id)` by value; instance id 0 denotes a class -/
  | idPack
  deriving DecidableEq, Repr

/-- handler number ↦ (required arguments, optional trailing arguments) -/
def handlerArgs : List (Nat × List Slot × List Slot) :=
  [(1, [.any], []),                                   -- ping(data)
   (2, [], []),                                       -- close()
   (3, [], []),                                       -- getroot()
   (4, [.obj, .name], []),                            -- getattr(obj, name)
   (5, [.obj, .name], []),                            -- delattr(obj, name)
   (6, [.obj, .name, .any], []),                      -- setattr(obj, name, value)
   (7, [.obj, .args], [.kwargs]),                     -- call(obj, args, kwargs=())
   (8, [.obj, .name, .args], [.kwargs]),              -- callattr(obj, name, args, kwargs=())
   (9, [.obj], []),                                   -- repr(obj)
   (10, [.obj], []),                                  -- str(obj)
   (11, [.obj, .any], [.name]),                       -- cmp(obj, other, op='__cmp__')
   (12, [.obj], []),                                  -- hash(obj)
   (13, [.obj], []),                                  -- dir(obj)
   (14, [.obj, .count], []),                          -- pickle(obj, proto)
   (15, [.obj], [.count]),                            -- del(obj, count=1)
   (16, [.idPack], []),                               -- inspect(id_pack)
   (17, [.obj, .count], []),                          -- buffiter(obj, count)
   (18, [.obj, .name, .name, .any, .any, .args], []), -- oldslicing(obj, attempt, fallback, start, stop, args)
   (19, [.obj, .any], []),                            -- ctxexit(obj, exc)
   (20, [.obj, .idPack], [])]                         -- instancecheck(obj, other_id_pack)

/-- handler number ↦ (number of required, number of optional arguments) -/
def handlerArity : List (Nat × Nat × Nat) := handlerArgs.map (fun e => (e.1, e.2.1.length, e.2.2.length))

def isText : Val → Bool
  | .str _ => true
  | .bytes _ => true
  | _ => false

/-- `(name, class id, instance id)` -/
def isIdPack : Val → Bool
  | .tuple [.str _, .int _, .int _] => true
  | _ => false

def isPairWithName : Val → Bool
  | .tuple [.str _, _] => true
  | _ => false

/-- keyword arguments by value: a tuple of `(name, value)` pairs -/
def isKwPairs : Val → Bool
  | .tuple xs => xs.all isPairWithName
  | _ => false

def isBoxedKwPair : Boxed → Bool
  | .value v => isPairWithName v
  | .tuple [.value (.str _), _] => true
  | _ => false

def Slot.admits : Slot → Boxed → Bool
  | .obj, _ => true
  | .any, _ => true
  | .name, .value v => isText v
  | .count, .value (.int _) => true
  | .idPack, .value v => isIdPack v
  | .args, .value (.tuple _) => true
  | .args, .tuple _ => true
  | .kwargs, .value v => isKwPairs v
  | .kwargs, .tuple bs => bs.all isBoxedKwPair
  | _, _ => false

/-- the argument list of a request: by value as one tuple, or boxed item by item -/
def Boxed.slots : Boxed → Option (List Boxed)
  | .value (.tuple vs) => some (vs.map Boxed.value)
  | .tuple bs => some bs
  | _ => none

/-- all required positions present and admitted, then any prefix of the optional ones, nothing more -/
def slotsConform : List Slot → List Slot → List Boxed → Bool
  | [], [], bs => bs.isEmpty
  | [], _ :: _, [] => true
  | [], o :: os, b :: bs => o.admits b && slotsConform [] os bs
  | _ :: _, _, [] => false
  | r :: rs, os, b :: bs => r.admits b && slotsConform rs os bs

/-- `(name, value)` pairs of a dumped exception's attributes -/
def isAttrPairs : Val → Bool
  | .tuple xs => xs.all isPairWithName
  | _ => false

/-- what vinegar writes for an exception: the marker `EXC_STOP_ITERATION`, a bare string (deprecated string
exceptions), or `((module name, class name), args, ((attribute name, value), …), traceback text)` -/
def isDumpedException : Val → Bool
  | .int i => i == (EXC_STOP_ITERATION : Nat)
  | .str _ => true
  | .tuple [.tuple [.str _, .str _], .tuple _, attrs, .str _] => isAttrPairs attrs
  | _ => false

/-- does the message have the published layout below `(kind, seq, args)`: a request's arguments fit its
handler's layout, an exception carries a dumped exception (a reply's shape depends on its request: `replyConforms`) -/
def Msg.conforms : Msg → Bool
  | .request _ h args =>
    match handlerArgs.lookup h, args.slots with
    | some (req, opt), some bs => slotsConform req opt bs
    | _, _ => false
  | .reply _ _ => true
  | .exception _ d => isDumpedException d

def isMethodEntry : Val → Bool
  | .tuple [.str _, .str _] => true
  | .tuple [.str _, .none] => true
  | _ => false

def isNameEntry : Val → Bool
  | .str _ => true
  | _ => false

/-- shapes of the replies that are fixed by the handler -/
inductive ReplyShape where
  | text | int | bytes
  /-- a tuple of names -/
  | names
  /-- a tuple of `(method name, docstring or None)` -/
  | methods
  /-- a tuple, by value or boxed item by item -/
  | seq
  deriving DecidableEq, Repr

/-- repr/str: text; hash: an integer; dir: names; pickle: a byte string; inspect: the methods of the class;
buffiter: the next items.  Every other handler's reply is whatever the operation returned. -/
def replyShape : List (Nat × ReplyShape) :=
  [(9, .text), (10, .text), (12, .int), (13, .names), (14, .bytes), (16, .methods), (17, .seq)]

def ReplyShape.admits : ReplyShape → Boxed → Bool
  | .text, .value (.str _) => true
  | .int, .value (.int _) => true
  | .bytes, .value (.bytes _) => true
  | .names, .value (.tuple xs) => xs.all isNameEntry
  | .methods, .value (.tuple xs) => xs.all isMethodEntry
  | .seq, .value (.tuple _) => true
  | .seq, .tuple _ => true
  | _, _ => false

def replyConforms (handler : Nat) (b : Boxed) : Bool :=
  match replyShape.lookup handler with
  | none => true
  | some sh => sh.admits b

/-! ### reading a received value back as a message (what a receiver does with the decoded payload) -/

mutual
def valSize : Val → Nat
  | .tuple xs => 1 + valSizeL xs
  | .fset xs => 1 + valSizeL xs
  | .slice a b c => 1 + valSize a + valSize b + valSize c
  | _ => 1
def valSizeL : List Val → Nat
  | [] => 0
  | x :: xs => 1 + valSize x + valSizeL xs
end

/-- the label tree of a received value; fuel bounds the nesting depth (callers pass the value's size) -/
def Boxed.ofVal? : Nat → Val → Option Boxed
  | 0, _ => none
  | fuel+1, .tuple [.int k, p] =>
    if k = (LABEL_VALUE : Nat) then some (.value p)
    else if k = (LABEL_TUPLE : Nat) then
      match p with
      | .tuple xs => (xs.mapM (Boxed.ofVal? fuel)).map Boxed.tuple
      | _ => none
    else if k = (LABEL_LOCAL_REF : Nat) then some (.localRef p)
    else if k = (LABEL_REMOTE_REF : Nat) then some (.remoteRef p)
    else none
  | _+1, _ => none

def Msg.ofVal? : Val → Option Msg
  | .tuple [.int k, .int seq, a] =>
    if k = (MSG_REQUEST : Nat) then
      match a with
      | .tuple [.int h, b] => if h < 0 then none else (Boxed.ofVal? (valSize b + 1) b).map (Msg.request seq h.toNat)
      | _ => none
    else if k = (MSG_REPLY : Nat) then (Boxed.ofVal? (valSize a + 1) a).map (Msg.reply seq)
    else if k = (MSG_EXCEPTION : Nat) then some (.exception seq a)
    else none
  | _ => none

def Msg.kind : Msg → String
  | .request .. => "request"
  | .reply .. => "reply"
  | .exception .. => "exception"

/-! ### published sample (the example in the docstring of rpyc/core/brine.py) -/

/-- `("he", 7, u"llo", 8, (), 900, None, True, Ellipsis, 18.2, 18.2j + 13, slice(1,2,3),
frozenset([5,6,7]), NotImplemented)` with `"he"` a byte string -/
def docSample : Val :=
  .tuple [.bytes [0x68, 0x65], .int 7, .str [0x6c, 0x6c, 0x6f], .int 8, .tuple [], .int 900, .none,
          .bool true, .ellipsis, .float 0x4032333333333333, .complex 0x402a000000000000 0x4032333333333333,
          .slice (.int 1) (.int 2) (.int 3), .fset [.int 5, .int 6, .int 7], .notImpl]

/-- its published encoding
`140e0b686557080c6c6c6f580216033930300003061840323333333333331b402a000000000000403233333333333319125152531a1255565705` -/
def docSampleBytes : Bytes :=
  [0x14, 0x0e, 0x0b, 0x68, 0x65, 0x57, 0x08, 0x0c, 0x6c, 0x6c, 0x6f, 0x58, 0x02, 0x16, 0x03, 0x39,
   0x30, 0x30, 0x00, 0x03, 0x06, 0x18, 0x40, 0x32, 0x33, 0x33, 0x33, 0x33, 0x33, 0x33, 0x1b, 0x40,
   0x2a, 0x00, 0x00, 0x00, 0x00, 0x00, 0x00, 0x40, 0x32, 0x33, 0x33, 0x33, 0x33, 0x33, 0x33, 0x19,
   0x12, 0x51, 0x52, 0x53, 0x1a, 0x12, 0x55, 0x56, 0x57, 0x05]

end Rpyc.Spec
