import RpycModel.Spec.Lemmas
/-
The grammar `Denotes` against the model of the real decoder and against the encoders:
every sentence of the grammar — any fitting form, shortest or not — is decoded by `Brine.dec` to the
value it denotes (`dec_denotes`), and no sentence is shorter than what the reference encoder emits
(`specEnc_shortest`).
-/
namespace Rpyc.Spec
open Rpyc

/-! ### integers the interpreter's `int()` accepts -/

def intParsable (i : Int) : Bool :=
  Gen.intMaxStrDigits == 0 || decide ((natDigits i.natAbs).length ≤ Gen.intMaxStrDigits)

mutual
/-- every integer in the value has no more digits than the interpreter's `int()` accepts -/
def Parsable : Val → Bool
  | .int i => intParsable i
  | .tuple xs => ParsableL xs
  | .fset xs => ParsableL xs
  | .slice a b c => Parsable a && Parsable b && Parsable c
  | _ => true
def ParsableL : List Val → Bool
  | [] => true
  | x :: xs => Parsable x && ParsableL xs
end

/-! ### forms under the decoder -/

theorem mem_bytesForms (f : Form) (h : f ∈ bytesForms) :
    f = ⟨"TAG_EMPTY_STR", TAG_EMPTY_STR, .fixed 0⟩ ∨ f = ⟨"TAG_STR1", TAG_STR1, .fixed 1⟩
    ∨ f = ⟨"TAG_STR2", TAG_STR2, .fixed 2⟩ ∨ f = ⟨"TAG_STR3", TAG_STR3, .fixed 3⟩
    ∨ f = ⟨"TAG_STR4", TAG_STR4, .fixed 4⟩ ∨ f = ⟨"TAG_STR_L1", TAG_STR_L1, .l1⟩
    ∨ f = ⟨"TAG_STR_L4", TAG_STR_L4, .l4⟩ := by
  simpa [bytesForms] using h

theorem mem_tupleForms (f : Form) (h : f ∈ tupleForms) :
    f = ⟨"TAG_EMPTY_TUPLE", TAG_EMPTY_TUPLE, .fixed 0⟩ ∨ f = ⟨"TAG_TUP1", TAG_TUP1, .fixed 1⟩
    ∨ f = ⟨"TAG_TUP2", TAG_TUP2, .fixed 2⟩ ∨ f = ⟨"TAG_TUP3", TAG_TUP3, .fixed 3⟩
    ∨ f = ⟨"TAG_TUP4", TAG_TUP4, .fixed 4⟩ ∨ f = ⟨"TAG_TUP_L1", TAG_TUP_L1, .l1⟩
    ∨ f = ⟨"TAG_TUP_L4", TAG_TUP_L4, .l4⟩ := by
  simpa [tupleForms] using h

theorem mem_intForms (f : Form) (h : f ∈ intForms) :
    f = ⟨"TAG_INT_L1", TAG_INT_L1, .l1⟩ ∨ f = ⟨"TAG_INT_L4", TAG_INT_L4, .l4⟩ := by
  simpa [intForms] using h

/-- a byte string in any fitting form is read back -/
theorem dec_bytesForm (f : Form) (hf : f ∈ bytesForms) (b : Bytes) (hfit : f.fits b.length = true)
    (fuel : Nat) (tail : Bytes) :
    Brine.dec (fuel+1) (f.header b.length ++ b ++ tail) = .ok (.bytes b, tail) := by
  rcases mem_bytesForms f hf with rfl | rfl | rfl | rfl | rfl | rfl | rfl
  · have h0 : b.length = 0 := by simpa [Form.fits, LenClass.fits] using hfit
    have : b = [] := List.eq_nil_of_length_eq_zero h0
    subst this
    simp [Form.header, LenClass.field, ← tag_emptyStr, Brine.dec_tag_emptyStr]
  · have h1 : b.length = 1 := by simpa [Form.fits, LenClass.fits] using hfit
    simp [Form.header, LenClass.field, ← tag_str1, Brine.dec_tag_str1, Brine.take_app b tail 1 h1,
      Brine.drop_app b tail 1 h1]
  · have h1 : b.length = 2 := by simpa [Form.fits, LenClass.fits] using hfit
    simp [Form.header, LenClass.field, ← tag_str2, Brine.dec_tag_str2, Brine.take_app b tail 2 h1,
      Brine.drop_app b tail 2 h1]
  · have h1 : b.length = 3 := by simpa [Form.fits, LenClass.fits] using hfit
    simp [Form.header, LenClass.field, ← tag_str3, Brine.dec_tag_str3, Brine.take_app b tail 3 h1,
      Brine.drop_app b tail 3 h1]
  · have h1 : b.length = 4 := by simpa [Form.fits, LenClass.fits] using hfit
    simp [Form.header, LenClass.field, ← tag_str4, Brine.dec_tag_str4, Brine.take_app b tail 4 h1,
      Brine.drop_app b tail 4 h1]
  · simp [Form.header, LenClass.field, ← tag_strL1, Brine.dec_tag_strL1, Brine.decStrL1]
  · have hlt : b.length < 2 ^ 32 := by simpa [Form.fits, LenClass.fits] using hfit
    have ht : (beN 4 b.length ++ (b ++ tail)).take 4 = beN 4 b.length := Brine.take_app _ _ 4 (by simp)
    have hd : (beN 4 b.length ++ (b ++ tail)).drop 4 = b ++ tail := Brine.drop_app _ _ 4 (by simp)
    have hu : unbe (beN 4 b.length) = b.length := unbe_beN 4 _ (by simpa using hlt)
    simp only [Form.header, LenClass.field, ← tag_strL4, List.cons_append, List.append_assoc,
      Brine.dec_tag_strL4]
    rw [if_neg (by simp), ht, hd, hu]
    simp

/-- a tuple header in any fitting form announces its item count -/
theorem dec_tupleForm (f : Form) (hf : f ∈ tupleForms) (n : Nat) (hfit : f.fits n = true)
    (fuel : Nat) (rest : Bytes) :
    Brine.dec (fuel+1) (f.header n ++ rest) = Brine.decTup fuel n rest := by
  rcases mem_tupleForms f hf with rfl | rfl | rfl | rfl | rfl | rfl | rfl
  · have h0 : n = 0 := by simpa [Form.fits, LenClass.fits] using hfit
    subst h0
    simp [Form.header, LenClass.field, ← tag_emptyTuple, Brine.dec_tag_emptyTuple, Brine.decTup, Brine.decN]
  · have h0 : n = 1 := by simpa [Form.fits, LenClass.fits] using hfit
    subst h0; simp [Form.header, LenClass.field, ← tag_tup1, Brine.dec_tag_tup1]
  · have h0 : n = 2 := by simpa [Form.fits, LenClass.fits] using hfit
    subst h0; simp [Form.header, LenClass.field, ← tag_tup2, Brine.dec_tag_tup2]
  · have h0 : n = 3 := by simpa [Form.fits, LenClass.fits] using hfit
    subst h0; simp [Form.header, LenClass.field, ← tag_tup3, Brine.dec_tag_tup3]
  · have h0 : n = 4 := by simpa [Form.fits, LenClass.fits] using hfit
    subst h0; simp [Form.header, LenClass.field, ← tag_tup4, Brine.dec_tag_tup4]
  · simp [Form.header, LenClass.field, ← tag_tupL1, Brine.dec_tag_tupL1]
  · have hlt : n < 2 ^ 32 := by simpa [Form.fits, LenClass.fits] using hfit
    have ht : (beN 4 n ++ rest).take 4 = beN 4 n := Brine.take_app _ _ 4 (by simp)
    have hd : (beN 4 n ++ rest).drop 4 = rest := Brine.drop_app _ _ 4 (by simp)
    have hu : unbe (beN 4 n) = n := unbe_beN 4 _ (by simpa using hlt)
    simp only [Form.header, LenClass.field, ← tag_tupL4, List.cons_append, Brine.dec_tag_tupL4]
    rw [if_neg (by simp), ht, hd, hu]

/-- integer text in any fitting form is read back -/
theorem dec_intForm (f : Form) (hf : f ∈ intForms) (i : Int) (hfit : f.fits (intRepr i).length = true)
    (hp : intParsable i = true) (fuel : Nat) (tail : Bytes) :
    Brine.dec (fuel+1) (f.header (intRepr i).length ++ intRepr i ++ tail) = .ok (.int i, tail) := by
  have hlim : Gen.intMaxStrDigits = 0 ∨ (natDigits i.natAbs).length ≤ Gen.intMaxStrDigits := by
    simpa [intParsable] using hp
  have hparse := parseInt_intRepr Gen.intMaxStrDigits i hlim
  rcases mem_intForms f hf with rfl | rfl
  · simp [Form.header, LenClass.field, ← tag_intL1, Brine.dec_tag_intL1, Brine.decIntL1, Brine.decIntAt,
      Brine.decInt, hparse]
  · have hlt : (intRepr i).length < 2 ^ 32 := by simpa [Form.fits, LenClass.fits] using hfit
    have ht : (beN 4 (intRepr i).length ++ (intRepr i ++ tail)).take 4 = beN 4 (intRepr i).length :=
      Brine.take_app _ _ 4 (by simp)
    have hd : (beN 4 (intRepr i).length ++ (intRepr i ++ tail)).drop 4 = intRepr i ++ tail :=
      Brine.drop_app _ _ 4 (by simp)
    have hu : unbe (beN 4 (intRepr i).length) = (intRepr i).length := unbe_beN 4 _ (by simpa using hlt)
    simp only [Form.header, LenClass.field, ← tag_intL4, List.cons_append, List.append_assoc,
      Brine.dec_tag_intL4]
    rw [if_neg (by simp), ht, hd, hu]
    simp [Brine.decIntAt, Brine.decInt, hparse]

/-! ### every sentence of the grammar is decoded to the value it denotes -/

theorem utf8Enc_strict_any (s : List Nat) (u : Bytes) (h : utf8Enc false s = some u) (sp : Bool) :
    utf8Enc sp s = some u := by
  induction s generalizing u with
  | nil => simpa [utf8Enc] using h
  | cons c cs ih =>
    obtain ⟨hs, r, hr, rfl⟩ := utf8Enc_cons_some false c cs u h
    have hc : isSurrogate c = false := by rcases hs with hs | hs <;> simp_all
    simp [utf8Enc, hc, ih r hr]

mutual
theorem dec_denotes : ∀ {bs : Bytes} {v : Val}, Denotes bs v → Parsable v = true →
    ∀ (fuel : Nat) (tail : Bytes), Brine.need v ≤ fuel → Brine.dec fuel (bs ++ tail) = .ok (v, tail)
  | _, _, .none, _, fuel, tail, hf => by
    obtain ⟨f, rfl⟩ : ∃ f, fuel = f + 1 := ⟨fuel - 1, by simp [Brine.need] at hf; omega⟩
    simp [← tag_none, Brine.dec_tag_none]
  | _, _, .notImpl, _, fuel, tail, hf => by
    obtain ⟨f, rfl⟩ : ∃ f, fuel = f + 1 := ⟨fuel - 1, by simp [Brine.need] at hf; omega⟩
    simp [← tag_notImplemented, Brine.dec_tag_notImpl]
  | _, _, .ellipsis, _, fuel, tail, hf => by
    obtain ⟨f, rfl⟩ : ∃ f, fuel = f + 1 := ⟨fuel - 1, by simp [Brine.need] at hf; omega⟩
    simp [← tag_ellipsis, Brine.dec_tag_ellipsis]
  | _, _, .true_, _, fuel, tail, hf => by
    obtain ⟨f, rfl⟩ : ∃ f, fuel = f + 1 := ⟨fuel - 1, by simp [Brine.need] at hf; omega⟩
    simp [← tag_true, Brine.dec_tag_true]
  | _, _, .false_, _, fuel, tail, hf => by
    obtain ⟨f, rfl⟩ : ∃ f, fuel = f + 1 := ⟨fuel - 1, by simp [Brine.need] at hf; omega⟩
    simp [← tag_false, Brine.dec_tag_false]
  | _, _, .imm i hlo hhi, _, fuel, tail, hf => by
    obtain ⟨f, rfl⟩ : ∃ f, fuel = f + 1 := ⟨fuel - 1, by simp [Brine.need] at hf; omega⟩
    have := Brine.dec_imm f tail i (by rw [imm_lo, imm_hi]; exact ⟨hlo, hhi⟩)
    rw [imm_base] at this
    simpa using this
  | _, _, .intText i fm hfm hfit, hp, fuel, tail, hf => by
    obtain ⟨f, rfl⟩ : ∃ f, fuel = f + 1 := ⟨fuel - 1, by simp [Brine.need] at hf; omega⟩
    exact dec_intForm fm hfm i hfit (by simpa [Parsable] using hp) f tail
  | _, _, .float b hb, _, fuel, tail, hf => by
    obtain ⟨f, rfl⟩ : ∃ f, fuel = f + 1 := ⟨fuel - 1, by simp [Brine.need] at hf; omega⟩
    have ht : (beN 8 b ++ tail).take 8 = beN 8 b := Brine.take_app _ _ 8 (by simp)
    have hd : (beN 8 b ++ tail).drop 8 = tail := Brine.drop_app _ _ 8 (by simp)
    simp only [← tag_float, List.cons_append, Brine.dec_tag_float]
    rw [if_neg (by simp), ht, hd, unbe_beN 8 b (by simpa using hb)]
  | _, _, .complex r i hr hi, _, fuel, tail, hf => by
    obtain ⟨f, rfl⟩ : ∃ f, fuel = f + 1 := ⟨fuel - 1, by simp [Brine.need] at hf; omega⟩
    have ht : (beN 8 r ++ (beN 8 i ++ tail)).take 8 = beN 8 r := Brine.take_app _ _ 8 (by simp)
    have hd : (beN 8 r ++ (beN 8 i ++ tail)).drop 8 = beN 8 i ++ tail := Brine.drop_app _ _ 8 (by simp)
    have ht2 : (beN 8 i ++ tail).take 8 = beN 8 i := Brine.take_app _ _ 8 (by simp)
    have hd16 : (beN 8 r ++ (beN 8 i ++ tail)).drop 16 = tail := by
      have : (beN 8 r ++ (beN 8 i ++ tail)) = (beN 8 r ++ beN 8 i) ++ tail := by simp
      rw [this]; exact Brine.drop_app _ _ 16 (by simp)
    simp only [← tag_complex, List.cons_append, List.append_assoc, Brine.dec_tag_complex]
    rw [if_neg (by simp; omega), ht, hd, ht2, hd16, unbe_beN 8 r (by simpa using hr),
      unbe_beN 8 i (by simpa using hi)]
  | _, _, .bytes b fm hfm hfit, _, fuel, tail, hf => by
    obtain ⟨f, rfl⟩ : ∃ f, fuel = f + 1 := ⟨fuel - 1, by simp [Brine.need] at hf; omega⟩
    exact dec_bytesForm fm hfm b hfit f tail
  | _, _, .text s u bs hcp hu hb, _, fuel, tail, hf => by
    obtain ⟨f, rfl⟩ : ∃ f, fuel = f + 2 := ⟨fuel - 2, by simp [Brine.need] at hf; omega⟩
    have ih := dec_denotes hb (by simp [Parsable]) (f+1) tail (by simp [Brine.need])
    have hdec := utf8Dec_enc false Gen.loadStrSurrogatePass (by intro h; cases h) s u hcp hu
    simp only [← tag_unicode, List.cons_append, Brine.dec_tag_unicode, ih]
    simp [Brine.thenMap, Brine.decodeText, hdec]
  | _, _, .tuple xs fm body hfm hfit hbody, hp, fuel, tail, hf => by
    obtain ⟨f, rfl⟩ : ∃ f, fuel = f + 2 := ⟨fuel - 2, by simp [Brine.need] at hf; omega⟩
    have ih := decN_denotesL hbody (by simpa [Parsable] using hp) (f+1) tail (by simp [Brine.need] at hf; omega)
    rw [List.append_assoc, dec_tupleForm fm hfm xs.length hfit (f+1) (body ++ tail)]
    simp [Brine.decTup, ih]
  | _, _, .fset xs bs hb, hp, fuel, tail, hf => by
    obtain ⟨f, rfl⟩ : ∃ f, fuel = f + 3 := ⟨fuel - 3, by simp [Brine.need] at hf; omega⟩
    have ih := dec_denotes hb (by simpa [Parsable] using hp) (f+2) tail (by simp [Brine.need] at hf ⊢; omega)
    simp only [← tag_fset, List.cons_append, Brine.dec_tag_fset, ih]
    simp [Brine.thenMap, Brine.fsetOf, Brine.iterate]
  | _, _, .slice a b c bs hb, hp, fuel, tail, hf => by
    obtain ⟨f, rfl⟩ : ∃ f, fuel = f + 3 := ⟨fuel - 3, by simp [Brine.need] at hf; omega⟩
    have hp' : Parsable (.tuple [a, b, c]) = true := by
      simp [Parsable] at hp; simp [Parsable, ParsableL, hp]
    have ih := dec_denotes hb hp' (f+2) tail (by simp [Brine.need, Brine.needL] at hf ⊢; omega)
    simp only [← tag_slice, List.cons_append, Brine.dec_tag_slice, ih]
    simp [Brine.thenMap, Brine.sliceOf, Brine.unpack3]
theorem decN_denotesL : ∀ {bs : Bytes} {xs : List Val}, DenotesL bs xs → ParsableL xs = true →
    ∀ (fuel : Nat) (tail : Bytes), Brine.needL xs + 1 ≤ fuel →
      Brine.decN fuel xs.length (bs ++ tail) = .ok (xs, tail)
  | _, _, .nil, _, fuel, tail, _ => by simp [Brine.decN]
  | _, _, .cons x xs bx bxs hx hxs, hp, fuel, tail, hf => by
    obtain ⟨f, rfl⟩ : ∃ f, fuel = f + 1 := ⟨fuel - 1, by omega⟩
    have hp' : Parsable x = true ∧ ParsableL xs = true := by simpa [ParsableL] using hp
    have hfx : Brine.need x ≤ f ∧ Brine.needL xs + 1 ≤ f + 1 := by simp [Brine.needL] at hf; omega
    have ihx := dec_denotes hx hp'.1 f (bxs ++ tail) hfx.1
    have ihxs := decN_denotesL hxs hp'.2 (f+1) tail hfx.2
    simp [Brine.decN, List.append_assoc, ihx, ihxs]
end

/-! ### fuel: `load`'s fuel always suffices for a sentence -/

theorem header_length (f : Form) (n : Nat) : (f.header n).length = f.cost := by
  cases f with
  | mk name tag cls => cases cls <;> simp [Form.header, Form.cost, LenClass.field, LenClass.width]

mutual
theorem need_le_denotes : ∀ {bs : Bytes} {v : Val}, Denotes bs v →
    Brine.need v ≤ 2 * bs.length ∧ 1 ≤ bs.length
  | _, _, .none | _, _, .notImpl | _, _, .ellipsis | _, _, .true_ | _, _, .false_ => by simp [Brine.need]
  | _, _, .imm _ _ _ => by simp [Brine.need]
  | _, _, .intText i fm _ _ => by
    have := header_length fm (intRepr i).length
    simp [Brine.need, Form.cost] at *; omega
  | _, _, .float _ _ => by simp [Brine.need]
  | _, _, .complex _ _ _ _ => by simp [Brine.need]
  | _, _, .bytes b fm _ _ => by
    have := header_length fm b.length
    simp [Brine.need, Form.cost] at *; omega
  | _, _, .text s u bs _ _ hb => by
    have := need_le_denotes hb
    simp [Brine.need] at *; omega
  | _, _, .tuple xs fm body _ _ hbody => by
    have h1 := header_length fm xs.length
    have h2 := needL_le_denotesL hbody
    simp [Brine.need, Form.cost] at *; omega
  | _, _, .fset xs bs hb => by
    have := need_le_denotes hb
    simp [Brine.need] at *; omega
  | _, _, .slice a b c bs hb => by
    have := need_le_denotes hb
    simp [Brine.need, Brine.needL] at *; omega
theorem needL_le_denotesL : ∀ {bs : Bytes} {xs : List Val}, DenotesL bs xs → Brine.needL xs ≤ 2 * bs.length
  | _, _, .nil => by simp [Brine.needL]
  | _, _, .cons x xs bx bxs hx hxs => by
    have h1 := need_le_denotes hx
    have h2 := needL_le_denotesL hxs
    simp [Brine.needL]; omega
end

/-! ### the reference encoder emits a shortest sentence -/

/-- `pick` returns a fitting form of the table … -/
theorem pick_sound (forms : List Form) (n : Nat) (g : Form) (h : pick forms n = some g) :
    g ∈ forms ∧ g.fits n = true := by
  induction forms generalizing g with
  | nil => simp [pick] at h
  | cons f fs ih =>
    simp only [pick] at h
    cases hp : pick fs n with
    | none =>
      rw [hp] at h
      by_cases hf : f.fits n = true
      · simp [hf] at h; subst h; exact ⟨by simp, hf⟩
      · simp [hf] at h
    | some g' =>
      rw [hp] at h
      simp only at h
      by_cases hc : (f.fits n && decide (f.cost ≤ g'.cost)) = true
      · rw [if_pos hc] at h
        injection h with h; subst h
        simp only [Bool.and_eq_true] at hc
        exact ⟨by simp, hc.1⟩
      · rw [if_neg hc] at h
        injection h with h; subst h
        have := ih g' hp
        exact ⟨by simp [this.1], this.2⟩

/-- … and none of the fitting forms of the table has a shorter header -/
theorem pick_min (forms : List Form) (n : Nat) (f : Form) (hf : f ∈ forms) (hfit : f.fits n = true) :
    ∃ g, pick forms n = some g ∧ g.cost ≤ f.cost := by
  induction forms with
  | nil => simp at hf
  | cons f0 fs ih =>
    simp only [pick]
    rcases List.mem_cons.mp hf with rfl | hmem
    · cases hp : pick fs n with
      | none => exact ⟨f, by simp [hfit], Nat.le_refl _⟩
      | some g' =>
        by_cases hc : f.cost ≤ g'.cost
        · exact ⟨f, by simp [hfit, hc], Nat.le_refl _⟩
        · exact ⟨g', by simp [hc], by omega⟩
    · obtain ⟨g', hg', hle⟩ := ih hmem
      rw [hg']
      by_cases hc : (f0.fits n && decide (f0.cost ≤ g'.cost)) = true
      · refine ⟨f0, by simp only [hc, if_true], ?_⟩
        simp only [Bool.and_eq_true, decide_eq_true_eq] at hc
        omega
      · exact ⟨g', by simp only [hc]; rfl, hle⟩

theorem header_ok_le (forms : List Form) (n : Nat) (f : Form) (hf : f ∈ forms) (hfit : f.fits n = true)
    (h : Bytes) (hh : header forms n = .ok h) : h.length ≤ (f.header n).length := by
  obtain ⟨g, hg, hle⟩ := pick_min forms n f hf hfit
  simp only [header, hg] at hh
  injection hh with hh; subst hh
  rw [header_length, header_length]; exact hle

theorem after_ok (h : Except Err Bytes) (body e : Bytes) (he : after h body = .ok e) :
    ∃ hd, h = .ok hd ∧ e = hd ++ body := by
  cases h with
  | error _ => simp [after] at he
  | ok hd => simp [after] at he; exact ⟨hd, rfl, he.symm⟩

theorem andThen_ok (h b : Except Err Bytes) (e : Bytes) (he : andThen h b = .ok e) :
    ∃ hd bd, h = .ok hd ∧ b = .ok bd ∧ e = hd ++ bd := by
  cases h with
  | error _ => simp [andThen] at he
  | ok hd =>
    cases b with
    | error _ => simp [andThen] at he
    | ok bd => simp [andThen] at he; exact ⟨hd, bd, rfl, rfl, he.symm⟩

theorem tagged_ok (t : Nat) (r : Except Err Bytes) (e : Bytes) (he : tagged t r = .ok e) :
    ∃ e', r = .ok e' ∧ e = t :: e' := by
  obtain ⟨hd, bd, h1, h2, h3⟩ := andThen_ok _ _ _ he
  injection h1 with h1; subst h1
  exact ⟨bd, h2, by simpa using h3⟩

theorem specEncWith_fset (sp : Bool) (xs : List Val) :
    specEncWith sp (.fset xs) = tagged TAG_FSET (specEncWith sp (.tuple xs)) := by
  simp only [specEncWith]

theorem andThen_nil (r : Except Err Bytes) : andThen r (.ok []) = r := by
  cases r <;> simp [andThen]

theorem specEncWith_slice (sp : Bool) (a b c : Val) :
    specEncWith sp (.slice a b c) = tagged TAG_SLICE (specEncWith sp (.tuple [a, b, c])) := by
  simp only [specEncWith, specEncList, andThen_nil]
  rfl

mutual
/-- no sentence denoting `v` is shorter than the reference encoding of `v` -/
theorem specEncWith_shortest : ∀ {bs : Bytes} {v : Val}, Denotes bs v → ∀ (sp : Bool) (e : Bytes),
    specEncWith sp v = .ok e → e.length ≤ bs.length
  | _, _, .none, _, e, h | _, _, .notImpl, _, e, h | _, _, .ellipsis, _, e, h | _, _, .true_, _, e, h
  | _, _, .false_, _, e, h => by
    simp only [specEncWith] at h; injection h with h; subst h; simp
  | _, _, .imm i hlo hhi, _, e, h => by
    simp only [specEncWith, specInt, hlo, hhi, and_self, if_true] at h
    injection h with h; subst h; simp
  | _, _, .intText i fm hfm hfit, _, e, h => by
    simp only [specEncWith, specInt] at h
    split at h
    · injection h with h; subst h
      have := header_length fm (intRepr i).length
      simp [Form.cost] at *; omega
    · obtain ⟨hd, hh, rfl⟩ := after_ok _ _ _ h
      have := header_ok_le intForms _ fm hfm hfit hd hh
      simp; omega
  | _, _, .float b _, _, e, h => by
    simp only [specEncWith] at h; injection h with h; subst h; simp
  | _, _, .complex r i _ _, _, e, h => by
    simp only [specEncWith] at h; injection h with h; subst h; simp
  | _, _, .bytes b fm hfm hfit, _, e, h => by
    simp only [specEncWith, specBytes] at h
    obtain ⟨hd, hh, rfl⟩ := after_ok _ _ _ h
    have := header_ok_le bytesForms _ fm hfm hfit hd hh
    simp; omega
  | _, _, .text s u bs _ hu hb, sp, e, h => by
    simp only [specEncWith, specText, utf8Enc_strict_any s u hu sp] at h
    obtain ⟨e', he', rfl⟩ := tagged_ok _ _ _ h
    have := specEncWith_shortest hb sp e' (by simpa [specEncWith] using he')
    simp; omega
  | _, _, .tuple xs fm body hfm hfit hbody, sp, e, h => by
    simp only [specEncWith] at h
    obtain ⟨hd, bd, hh, hb, rfl⟩ := andThen_ok _ _ _ h
    have h1 := header_ok_le tupleForms _ fm hfm hfit hd hh
    have h2 := specEncList_shortest hbody sp bd hb
    simp; omega
  | _, _, .fset xs bs hb, sp, e, h => by
    rw [specEncWith_fset] at h
    obtain ⟨e', he', rfl⟩ := tagged_ok _ _ _ h
    have := specEncWith_shortest hb sp e' he'
    simp; omega
  | _, _, .slice a b c bs hb, sp, e, h => by
    rw [specEncWith_slice] at h
    obtain ⟨e', he', rfl⟩ := tagged_ok _ _ _ h
    have := specEncWith_shortest hb sp e' he'
    simp; omega
theorem specEncList_shortest : ∀ {bs : Bytes} {xs : List Val}, DenotesL bs xs → ∀ (sp : Bool) (e : Bytes),
    specEncList sp xs = .ok e → e.length ≤ bs.length
  | _, _, .nil, _, e, h => by simp only [specEncList] at h; injection h with h; subst h; simp
  | _, _, .cons x xs bx bxs hx hxs, sp, e, h => by
    simp only [specEncList] at h
    obtain ⟨ex, exs, h1, h2, rfl⟩ := andThen_ok _ _ _ h
    have := specEncWith_shortest hx sp ex h1
    have := specEncList_shortest hxs sp exs h2
    simp; omega
end

/-! ### what the reference encoder emits is a sentence of the grammar -/

theorem header_ok_form (forms : List Form) (n : Nat) (hd : Bytes) (h : header forms n = .ok hd) :
    ∃ g, g ∈ forms ∧ g.fits n = true ∧ hd = g.header n := by
  unfold header at h
  cases hp : pick forms n with
  | none => simp [hp] at h
  | some g =>
    simp [hp] at h
    exact ⟨g, (pick_sound forms n g hp).1, (pick_sound forms n g hp).2, h.symm⟩

theorem specBytes_denotes (b e : Bytes) (h : specBytes b = .ok e) : Denotes e (.bytes b) := by
  obtain ⟨hd, hh, rfl⟩ := after_ok _ _ _ h
  obtain ⟨g, hg, hfit, rfl⟩ := header_ok_form _ _ _ hh
  exact .bytes b g hg hfit

theorem tuple_denotes (xs : List Val) (e : Bytes)
    (hl : ∀ body, specEncList false xs = .ok body → DenotesL body xs)
    (h : andThen (header tupleForms xs.length) (specEncList false xs) = .ok e) : Denotes e (.tuple xs) := by
  obtain ⟨hd, bd, hh, hb, rfl⟩ := andThen_ok _ _ _ h
  obtain ⟨g, hg, hfit, rfl⟩ := header_ok_form _ _ _ hh
  exact .tuple xs g bd hg hfit (hl bd hb)

mutual
theorem specEnc_denotes : ∀ (v : Val) (e : Bytes), v.wf = true → specEncWith false v = .ok e → Denotes e v
  | .none, e, _, h => by simp only [specEncWith] at h; injection h with h; subst h; exact .none
  | .notImpl, e, _, h => by simp only [specEncWith] at h; injection h with h; subst h; exact .notImpl
  | .ellipsis, e, _, h => by simp only [specEncWith] at h; injection h with h; subst h; exact .ellipsis
  | .bool true, e, _, h => by simp only [specEncWith] at h; injection h with h; subst h; exact .true_
  | .bool false, e, _, h => by simp only [specEncWith] at h; injection h with h; subst h; exact .false_
  | .int i, e, _, h => by
    simp only [specEncWith, specInt] at h
    split at h
    · rename_i hw
      injection h with h; subst h; exact .imm i hw.1 hw.2
    · obtain ⟨hd, hh, rfl⟩ := after_ok _ _ _ h
      obtain ⟨g, hg, hfit, rfl⟩ := header_ok_form _ _ _ hh
      exact .intText i g hg hfit
  | .float b, e, hw, h => by
    simp only [specEncWith] at h; injection h with h; subst h
    exact .float b (by simpa [Val.wf] using hw)
  | .complex r i, e, hw, h => by
    simp only [specEncWith] at h; injection h with h; subst h
    have : r < 2 ^ 64 ∧ i < 2 ^ 64 := by simpa [Val.wf] using hw
    exact .complex r i this.1 this.2
  | .bytes b, e, _, h => by simp only [specEncWith] at h; exact specBytes_denotes b e h
  | .str s, e, hw, h => by
    simp only [specEncWith, specText] at h
    cases hu : utf8Enc false s with
    | none => simp [hu] at h
    | some u =>
      simp only [hu] at h
      obtain ⟨e', he', rfl⟩ := tagged_ok _ _ _ h
      exact .text s u e' (by simpa [Val.wf] using hw) hu (specBytes_denotes u e' he')
  | .tuple xs, e, hw, h => by
    simp only [specEncWith] at h
    exact tuple_denotes xs e (fun body hb => specEncList_denotes xs body (by simpa [Val.wf] using hw) hb) h
  | .fset xs, e, hw, h => by
    simp only [specEncWith] at h
    obtain ⟨e', he', rfl⟩ := tagged_ok _ _ _ h
    exact .fset xs e' (tuple_denotes xs e'
      (fun body hb => specEncList_denotes xs body (by simpa [Val.wf] using hw) hb) he')
  | .slice a b c, e, hw, h => by
    simp only [specEncWith] at h
    obtain ⟨e', he', rfl⟩ := tagged_ok _ _ _ h
    obtain ⟨hd, bd, hh, hb, rfl⟩ := andThen_ok _ _ _ he'
    obtain ⟨ea, r1, h1, hr1, rfl⟩ := andThen_ok _ _ _ hb
    obtain ⟨eb, ec, h2, h3, rfl⟩ := andThen_ok _ _ _ hr1
    obtain ⟨g, hg, hfit, rfl⟩ := header_ok_form _ _ _ hh
    have hw' : a.wf = true ∧ b.wf = true ∧ c.wf = true := by
      simp [Val.wf] at hw; exact ⟨hw.1.1, hw.1.2, hw.2⟩
    have hl : DenotesL (ea ++ (eb ++ (ec ++ []))) [a, b, c] :=
      .cons a [b, c] ea _ (specEnc_denotes a ea hw'.1 h1)
        (.cons b [c] eb _ (specEnc_denotes b eb hw'.2.1 h2)
          (.cons c [] ec [] (specEnc_denotes c ec hw'.2.2 h3) .nil))
    rw [List.append_nil] at hl
    exact .slice a b c _ (.tuple [a, b, c] g _ hg hfit hl)
  | .other _, e, _, h => by simp [specEncWith] at h
theorem specEncList_denotes : ∀ (xs : List Val) (e : Bytes), Val.wfL xs = true →
    specEncList false xs = .ok e → DenotesL e xs
  | [], e, _, h => by simp only [specEncList] at h; injection h with h; subst h; exact .nil
  | x :: xs, e, hw, h => by
    simp only [specEncList] at h
    obtain ⟨ex, exs, h1, h2, rfl⟩ := andThen_ok _ _ _ h
    have hw' : x.wf = true ∧ Val.wfL xs = true := by simpa [Val.wfL] using hw
    exact .cons x xs ex exs (specEnc_denotes x ex hw'.1 h1) (specEncList_denotes xs exs hw'.2 h2)
end

/-! ### facts about the published tables alone (no tie to the code; kept out of the property theorems) -/

/-- the documented table is usable as a code: tags pairwise distinct and outside the immediate bytes -/
theorem tag_table_unambiguous :
    (tagTable.map (·.2)).Nodup
    ∧ (tagTable.map (·.2)).all (fun t => decide (((t : Nat) : Int) < IMM_LO + IMM_BASE)) = true := by decide

/-- the layout tables are usable: every handler number has exactly one layout -/
theorem handler_args_total :
    handlerArgs.map (·.1) = handlerTable.map (·.2) ∧ (replyShape.map (·.1)).all (fun h => (handlerArgs.lookup h).isSome) = true := by
  decide

/-- the search over the form table returns a fitting form with a minimal header -/
theorem pick_is_shortest_fitting (forms : List Form) (n : Nat) (f : Form) (hf : f ∈ forms)
    (hfit : f.fits n = true) : ∃ g, pick forms n = some g ∧ g ∈ forms ∧ g.fits n = true ∧ g.cost ≤ f.cost := by
  obtain ⟨g, hg, hle⟩ := pick_min forms n f hf hfit
  exact ⟨g, hg, (pick_sound forms n g hg).1, (pick_sound forms n g hg).2, hle⟩

/-- the small integer 5 written as decimal text (legal, not shortest) -/
theorem five_as_text : Denotes [0x16, 1, 0x35] (.int 5) := by
  have h5 : intRepr 5 = [0x35] := by simp [intRepr, natDigits]
  have := Denotes.intText 5 ⟨"TAG_INT_L1", TAG_INT_L1, .l1⟩ (by decide) (by rw [h5]; decide)
  rw [h5] at this
  exact this
/-- a pair announced with TAG_TUP_L1 whose first member is 5 as text -/
theorem pair_in_long_form : Denotes [0x14, 2, 0x16, 1, 0x35, 0x00] (.tuple [.int 5, .none]) :=
  Denotes.tuple [.int 5, .none] ⟨"TAG_TUP_L1", TAG_TUP_L1, .l1⟩ [0x16, 1, 0x35, 0x00] (by decide) (by decide)
    (DenotesL.cons (.int 5) [.none] [0x16, 1, 0x35] [0x00] five_as_text
      (DenotesL.cons .none [] [0x00] [] Denotes.none DenotesL.nil))

end Rpyc.Spec
