import RpycModel.Gen.Brine
import RpycModel.Base.Py
/-
L1 — rpyc/core/brine.py.  `enc` follows the `_dump_*` functions branch for branch over the
generated tag table; `dec` follows `_load` and the `_load_*` functions including their leniencies:
short reads (`BytesIO.read` returns what is left), the `int()` grammar, `TAG_UNICODE` followed by
any value, `TAG_SLICE`/`TAG_FSET` applied to any iterable, an unknown or missing tag calling `None`.

Not modelled: Python's recursion limit (the model nests without bound), and `TAG_SLICE` applied to a
frozenset (needs CPython's iteration order; the decoder answers `notModelled`).
-/
namespace Rpyc.Brine
open Rpyc

/-! ### encoding -/

/-- `_dump_int` -/
def encInt (i : Int) : Except Err Bytes :=
  if Gen.immLo ≤ i ∧ i < Gen.immHi then .ok [(i + Gen.immBase).toNat]
  -- `str(obj)` refuses above the interpreter's digit limit (digits, not counting the sign)
  else if Gen.intMaxStrDigits ≠ 0 ∧ (natDigits i.natAbs).length > Gen.intMaxStrDigits then .error .valueError
  else if (intRepr i).length < 256 then .ok (Gen.tagIntL1 :: (intRepr i).length :: intRepr i)
  else if (intRepr i).length < 2 ^ 32 then .ok (Gen.tagIntL4 :: (beN 4 (intRepr i).length ++ intRepr i))
  else .error .structError

/-- `_dump_bytes` -/
def encBytes (b : Bytes) : Except Err Bytes :=
  if b.length = 0 then .ok [Gen.tagEmptyStr]
  else if b.length = 1 then .ok (Gen.tagStr1 :: b)
  else if b.length = 2 then .ok (Gen.tagStr2 :: b)
  else if b.length = 3 then .ok (Gen.tagStr3 :: b)
  else if b.length = 4 then .ok (Gen.tagStr4 :: b)
  else if b.length < 256 then .ok (Gen.tagStrL1 :: b.length :: b)
  else if b.length < 2 ^ 32 then .ok (Gen.tagStrL4 :: (beN 4 b.length ++ b))
  else .error .structError

/-- `_dump_str` -/
def encStr (s : List Nat) : Except Err Bytes :=
  match utf8Enc Gen.dumpStrSurrogatePass s with
  | none => .error .unicodeEncodeError
  | some u => match encBytes u with
    | .error e => .error e
    | .ok b => .ok (Gen.tagUnicode :: b)

/-- the header `_dump_tuple` emits before the items -/
def tupHeader (n : Nat) : Except Err Bytes :=
  if n = 0 then .ok [Gen.tagEmptyTuple]
  else if n = 1 then .ok [Gen.tagTup1]
  else if n = 2 then .ok [Gen.tagTup2]
  else if n = 3 then .ok [Gen.tagTup3]
  else if n = 4 then .ok [Gen.tagTup4]
  else if n < 256 then .ok [Gen.tagTupL1, n]
  else if n < 2 ^ 32 then .ok (Gen.tagTupL4 :: beN 4 n)
  else .error .structError

mutual
/-- `_dump` -/
def enc : Val → Except Err Bytes
  | .none => .ok [Gen.tagNone]
  | .notImpl => .ok [Gen.tagNotImplemented]
  | .ellipsis => .ok [Gen.tagEllipsis]
  | .bool true => .ok [Gen.tagTrue]
  | .bool false => .ok [Gen.tagFalse]
  | .int i => encInt i
  | .float b => .ok (Gen.tagFloat :: beN 8 b)
  | .complex r i => .ok (Gen.tagComplex :: (beN 8 r ++ beN 8 i))
  | .bytes b => encBytes b
  | .str s => encStr s
  | .tuple xs =>
    match tupHeader xs.length with
    | .error e => .error e
    | .ok h => match encL xs with
      | .error e => .error e
      | .ok body => .ok (h ++ body)
  | .fset xs =>
    match tupHeader xs.length with
    | .error e => .error e
    | .ok h => match encL xs with
      | .error e => .error e
      | .ok body => .ok (Gen.tagFset :: (h ++ body))
  | .slice a b c =>
    match enc a with
    | .error e => .error e
    | .ok ea => match enc b with
      | .error e => .error e
      | .ok eb => match enc c with
        | .error e => .error e
        | .ok ec => .ok (Gen.tagSlice :: Gen.tagTup3 :: (ea ++ (eb ++ ec)))
  | .other _ => .error .typeError
def encL : List Val → Except Err Bytes
  | [] => .ok []
  | x :: xs =>
    match enc x with
    | .error e => .error e
    | .ok a => match encL xs with
      | .error e => .error e
      | .ok b => .ok (a ++ b)
end

/-! ### decoding -/

/-- is the tag byte a key of `IMM_INTS_LOADER` -/
def isImm (t : Nat) : Bool := Gen.immLo + Gen.immBase ≤ (t : Int) && (t : Int) < Gen.immHi + Gen.immBase

/-- Python's `a, b, c = v` for a decoded value -/
def unpack3 : Val → Except Err (Val × Val × Val)
  | .tuple [a, b, c] => .ok (a, b, c)
  | .tuple _ => .error .valueError
  | .bytes [a, b, c] => .ok (.int (a : Nat), .int (b : Nat), .int (c : Nat))
  | .bytes _ => .error .valueError
  | .str [a, b, c] => .ok (.str [a], .str [b], .str [c])
  | .str _ => .error .valueError
  | .fset _ => .error .notModelled
  | _ => .error .typeError

/-- Python's `iter(v)` for a decoded value, as a list -/
def iterate : Val → Except Err (List Val)
  | .tuple xs => .ok xs
  | .fset xs => .ok xs
  | .bytes b => .ok (b.map (fun x => .int (x : Nat)))
  | .str s => .ok (s.map (fun c => .str [c]))
  | _ => .error .typeError

/-- `int(stream.read(l))` -/
def decInt (raw : Bytes) : Except Err Val :=
  match parseInt Gen.intMaxStrDigits raw with
  | none => .error .valueError
  | some i => .ok (.int i)

/-- `_load_unicode`'s `obj.decode("utf-8", ...)` on whatever value was loaded -/
def decodeText : Val → Except Err Val
  | .bytes b => match utf8Dec Gen.loadStrSurrogatePass b with
    | none => .error .unicodeDecodeError
    | some s => .ok (.str s)
  | _ => .error .attributeError

/-- `_load_str_l1` -/
def decStrL1 : Bytes → Except Err (Val × Bytes)
  | [] => .error .structError
  | l :: r => .ok (.bytes (r.take l), r.drop l)

def decIntAt (raw r : Bytes) : Except Err (Val × Bytes) :=
  match decInt raw with
  | .error e => .error e
  | .ok v => .ok (v, r)

/-- `_load_int_l1` -/
def decIntL1 : Bytes → Except Err (Val × Bytes)
  | [] => .error .structError
  | l :: r => decIntAt (r.take l) (r.drop l)

/-- apply a post-processing step to a loaded value, keeping the stream position -/
def thenMap (r : Except Err (Val × Bytes)) (f : Val → Except Err Val) : Except Err (Val × Bytes) :=
  match r with
  | .error e => .error e
  | .ok (v, rest) => match f v with
    | .error e => .error e
    | .ok w => .ok (w, rest)

/-- `_load_slice` after the inner `_load` -/
def sliceOf (v : Val) : Except Err Val :=
  match unpack3 v with
  | .error e => .error e
  | .ok (a, b, c) => .ok (.slice a b c)

/-- `_load_frozenset` after the inner `_load` -/
def fsetOf (v : Val) : Except Err Val :=
  match iterate v with
  | .error e => .error e
  | .ok xs => .ok (.fset xs)

/-- the kinds of leading byte `_load` distinguishes -/
inductive Tag where
  | imm | none | notImpl | ellipsis | true_ | false_ | emptyTuple | emptyStr | float | complex
  | str1 | str2 | str3 | str4 | strL1 | strL4 | unicode
  | tup1 | tup2 | tup3 | tup4 | tupL1 | tupL4 | slice | fset | intL1 | intL4
  deriving DecidableEq, Repr

/-- `tag in IMM_INTS_LOADER` first, then `_load_registry.get(tag)`; `none` = no entry (`None(stream)`:
TypeError).  When two entries share a byte the first one listed here shadows the other, and the
`dec_tag_*` lemma of the shadowed one fails. -/
def classify (t : Nat) : Option Tag :=
  if isImm t then some .imm
  else if t = Gen.tagNone then some .none
  else if t = Gen.tagNotImplemented then some .notImpl
  else if t = Gen.tagEllipsis then some .ellipsis
  else if t = Gen.tagTrue then some .true_
  else if t = Gen.tagFalse then some .false_
  else if t = Gen.tagEmptyTuple then some .emptyTuple
  else if t = Gen.tagEmptyStr then some .emptyStr
  else if t = Gen.tagFloat then some .float
  else if t = Gen.tagComplex then some .complex
  else if t = Gen.tagStr1 then some .str1
  else if t = Gen.tagStr2 then some .str2
  else if t = Gen.tagStr3 then some .str3
  else if t = Gen.tagStr4 then some .str4
  else if t = Gen.tagStrL1 then some .strL1
  else if t = Gen.tagStrL4 then some .strL4
  else if t = Gen.tagUnicode then some .unicode
  else if t = Gen.tagTup1 then some .tup1
  else if t = Gen.tagTup2 then some .tup2
  else if t = Gen.tagTup3 then some .tup3
  else if t = Gen.tagTup4 then some .tup4
  else if t = Gen.tagTupL1 then some .tupL1
  else if t = Gen.tagTupL4 then some .tupL4
  else if t = Gen.tagSlice then some .slice
  else if t = Gen.tagFset then some .fset
  else if t = Gen.tagIntL1 then some .intL1
  else if t = Gen.tagIntL4 then some .intL4
  else none

mutual
/-- `_load` on the remaining bytes of the stream; fuel bounds the nesting depth -/
def dec : Nat → Bytes → Except Err (Val × Bytes)
  | 0, _ => .error .recursionError
  | _+1, [] => .error .typeError
  | fuel+1, t :: rest =>
    match classify t with
    | none => .error .typeError
    | some .imm => .ok (.int ((t : Int) - Gen.immBase), rest)
    | some .none => .ok (.none, rest)
    | some .notImpl => .ok (.notImpl, rest)
    | some .ellipsis => .ok (.ellipsis, rest)
    | some .true_ => .ok (.bool true, rest)
    | some .false_ => .ok (.bool false, rest)
    | some .emptyTuple => .ok (.tuple [], rest)
    | some .emptyStr => .ok (.bytes [], rest)
    | some .float =>
      if rest.length < 8 then .error .structError
      else .ok (.float (unbe (rest.take 8)), rest.drop 8)
    | some .complex =>
      if rest.length < 16 then .error .structError
      else .ok (.complex (unbe (rest.take 8)) (unbe ((rest.drop 8).take 8)), rest.drop 16)
    | some .str1 => .ok (.bytes (rest.take 1), rest.drop 1)
    | some .str2 => .ok (.bytes (rest.take 2), rest.drop 2)
    | some .str3 => .ok (.bytes (rest.take 3), rest.drop 3)
    | some .str4 => .ok (.bytes (rest.take 4), rest.drop 4)
    | some .strL1 => decStrL1 rest
    | some .strL4 =>
      if rest.length < 4 then .error .structError
      else .ok (.bytes ((rest.drop 4).take (unbe (rest.take 4))), (rest.drop 4).drop (unbe (rest.take 4)))
    | some .unicode => thenMap (dec fuel rest) decodeText
    | some .tup1 => decTup fuel 1 rest
    | some .tup2 => decTup fuel 2 rest
    | some .tup3 => decTup fuel 3 rest
    | some .tup4 => decTup fuel 4 rest
    | some .tupL1 =>
      if rest.length < 1 then .error .structError
      else decTup fuel (rest.headD 0) rest.tail
    | some .tupL4 =>
      if rest.length < 4 then .error .structError
      else decTup fuel (unbe (rest.take 4)) (rest.drop 4)
    | some .slice => thenMap (dec fuel rest) sliceOf
    | some .fset => thenMap (dec fuel rest) fsetOf
    | some .intL1 => decIntL1 rest
    | some .intL4 =>
      if rest.length < 4 then .error .structError
      else decIntAt ((rest.drop 4).take (unbe (rest.take 4))) ((rest.drop 4).drop (unbe (rest.take 4)))
/-- `tuple(_load(stream) for i in range(n))` -/
def decTup : Nat → Nat → Bytes → Except Err (Val × Bytes)
  | fuel, n, bs => match decN fuel n bs with
    | .error e => .error e
    | .ok (xs, r) => .ok (.tuple xs, r)
def decN : Nat → Nat → Bytes → Except Err (List Val × Bytes)
  | _, 0, bs => .ok ([], bs)
  | 0, _+1, _ => .error .recursionError
  | fuel+1, n+1, bs =>
    match dec fuel bs with
    | .error e => .error e
    | .ok (x, r) => match decN (fuel+1) n r with
      | .error e => .error e
      | .ok (xs, r') => .ok (x :: xs, r')
end

/-- `brine.dump` -/
def dump (v : Val) : Except Err Bytes := enc v

/-- `brine.load`: the nesting depth of any encoding is at most its length and a level costs at most two units of fuel, so fuel is never
the reason for a failure -/
def load (bs : Bytes) : Except Err Val :=
  match dec (2 * bs.length + 2) bs with
  | .error e => .error e
  | .ok (v, _) => .ok v


/-- calls a `_load_*` body may make: they cannot import, execute, or look attributes up on loaded data (builtins by name,
methods as `.name`; `_load` is the recursive descent).  Hand-written here; `Gen.loaderCalls` (read from the source) is
checked against it in `Props/C04.lean`. -/
def loaderCallsAllowed : List String :=
  ["_load", "abs", "bool", "bytes", "complex", "divmod", "enumerate", "float", "frozenset", "int", "isinstance", "iter",
   "len", "max", "min", "next", "range", "reversed", "slice", "tuple", "type", "zip",
   ".append", ".decode", ".from_bytes", ".get", ".join", ".read", ".unpack", ".unpack_from"]

end Rpyc.Brine
