import RpycModel.Brine.Lemmas
/-
The brine round trip: `dec (enc v ++ rest) = (v, rest)` for every well-formed value, by mutual
structural induction over values and value lists — unbounded sizes and nesting.
-/
namespace Rpyc.Brine
open Rpyc

/-- `_dump_str` and `_load_unicode` use compatible error handlers: whatever the encoder lets through,
the decoder accepts.  (A generated fact: breaks if only the dump side is given `surrogatepass`.) -/
theorem codec_modes : Gen.dumpStrSurrogatePass = true → Gen.loadStrSurrogatePass = true := by decide

mutual
/-- fuel that `dec` needs for the encoding of a value -/
def need : Val → Nat
  | .str _ => 2
  | .tuple xs => 2 + needL xs
  | .fset xs => 3 + needL xs
  | .slice a b c => 3 + max (need a) (max (need b) (need c))
  | _ => 1
def needL : List Val → Nat
  | [] => 0
  | x :: xs => max (need x) (needL xs)
end

theorem need_pos (v : Val) : 1 ≤ need v := by
  cases v <;> simp [need] <;> omega

theorem dec_encBytes (b e : Bytes) (h : encBytes b = .ok e) (fuel : Nat) (tail : Bytes) :
    dec (fuel+1) (e ++ tail) = .ok (.bytes b, tail) := by
  unfold encBytes at h
  split at h
  · rename_i h0
    have : b = [] := List.eq_nil_of_length_eq_zero h0
    subst this; injection h with h; subst h
    simp [dec_tag_emptyStr]
  split at h
  · rename_i _ h1
    injection h with h; subst h
    simp [dec_tag_str1, take_app b tail 1 h1, drop_app b tail 1 h1]
  split at h
  · rename_i _ _ h1
    injection h with h; subst h
    simp [dec_tag_str2, take_app b tail 2 h1, drop_app b tail 2 h1]
  split at h
  · rename_i _ _ _ h1
    injection h with h; subst h
    simp [dec_tag_str3, take_app b tail 3 h1, drop_app b tail 3 h1]
  split at h
  · rename_i _ _ _ _ h1
    injection h with h; subst h
    simp [dec_tag_str4, take_app b tail 4 h1, drop_app b tail 4 h1]
  split at h
  · injection h with h; subst h
    simp [dec_tag_strL1, decStrL1]
  split at h
  · rename_i hlt
    injection h with h; subst h
    have hlen : (beN 4 b.length ++ (b ++ tail)).length ≥ 4 := by simp
    have ht : (beN 4 b.length ++ (b ++ tail)).take 4 = beN 4 b.length := take_app _ _ 4 (by simp)
    have hd : (beN 4 b.length ++ (b ++ tail)).drop 4 = b ++ tail := drop_app _ _ 4 (by simp)
    have hu : unbe (beN 4 b.length) = b.length := unbe_beN 4 _ (by simpa using hlt)
    simp only [List.cons_append, List.append_assoc, dec_tag_strL4]
    rw [if_neg (by omega), ht, hd, hu]
    simp
  · simp at h

theorem dec_encInt (i : Int) (e : Bytes) (h : encInt i = .ok e) (fuel : Nat) (tail : Bytes) :
    dec (fuel+1) (e ++ tail) = .ok (.int i, tail) := by
  unfold encInt at h
  split at h
  · rename_i himm
    injection h with h; subst h
    simpa using dec_imm fuel tail i himm
  · split at h
    · simp at h
    · rename_i _ hlim
      have hlim' : Gen.intMaxStrDigits = 0 ∨ (natDigits i.natAbs).length ≤ Gen.intMaxStrDigits := by
        by_cases h0 : Gen.intMaxStrDigits = 0
        · exact Or.inl h0
        · right; simp only [not_and, Nat.not_lt] at hlim; exact Nat.le_of_not_lt (fun hh => by
            have := hlim h0; omega)
      have hp := parseInt_intRepr Gen.intMaxStrDigits i hlim'
      split at h
      · injection h with h; subst h
        simp [dec_tag_intL1, decIntL1, decIntAt, decInt, hp]
      · split at h
        · rename_i hlt
          injection h with h; subst h
          have ht : (beN 4 (intRepr i).length ++ (intRepr i ++ tail)).take 4 = beN 4 (intRepr i).length :=
            take_app _ _ 4 (by simp)
          have hd : (beN 4 (intRepr i).length ++ (intRepr i ++ tail)).drop 4 = intRepr i ++ tail :=
            drop_app _ _ 4 (by simp)
          have hu : unbe (beN 4 (intRepr i).length) = (intRepr i).length := unbe_beN 4 _ (by simpa using hlt)
          simp only [List.cons_append, List.append_assoc, dec_tag_intL4]
          rw [if_neg (by simp), ht, hd, hu]
          simp [decIntAt, decInt, hp]
        · simp at h

theorem dec_tupHeader (n : Nat) (hd : Bytes) (h : tupHeader n = .ok hd) (fuel : Nat) (tail : Bytes) :
    dec (fuel+1) (hd ++ tail) = decTup fuel n tail := by
  unfold tupHeader at h
  split at h
  · rename_i h0; subst h0; injection h with h; subst h
    simp [dec_tag_emptyTuple, decTup, decN]
  split at h
  · rename_i _ h1; subst h1; injection h with h; subst h; simp [dec_tag_tup1]
  split at h
  · rename_i _ _ h1; subst h1; injection h with h; subst h; simp [dec_tag_tup2]
  split at h
  · rename_i _ _ _ h1; subst h1; injection h with h; subst h; simp [dec_tag_tup3]
  split at h
  · rename_i _ _ _ _ h1; subst h1; injection h with h; subst h; simp [dec_tag_tup4]
  split at h
  · injection h with h; subst h
    simp [dec_tag_tupL1]
  split at h
  · rename_i hlt
    injection h with h; subst h
    have ht : (beN 4 n ++ tail).take 4 = beN 4 n := take_app _ _ 4 (by simp)
    have hdr : (beN 4 n ++ tail).drop 4 = tail := drop_app _ _ 4 (by simp)
    have hu : unbe (beN 4 n) = n := unbe_beN 4 _ (by simpa using hlt)
    simp only [List.cons_append, dec_tag_tupL4]
    rw [if_neg (by simp), ht, hdr, hu]
  · simp at h

theorem dec_encStr (s : List Nat) (e : Bytes) (hwf : ∀ c ∈ s, c < 0x110000) (h : encStr s = .ok e)
    (fuel : Nat) (tail : Bytes) : dec (fuel+2) (e ++ tail) = .ok (.str s, tail) := by
  unfold encStr at h
  split at h
  · simp at h
  · rename_i u hu
    split at h
    · simp at h
    · rename_i eb heb
      injection h with h; subst h
      have hdec := utf8Dec_enc _ _ codec_modes s u hwf hu
      simp [dec_tag_unicode, dec_encBytes u eb heb fuel tail, thenMap, decodeText, hdec]

theorem wfL_cons (x : Val) (xs : List Val) : Val.wfL (x :: xs) = (x.wf && Val.wfL xs) := by
  simp [Val.wfL]

mutual
theorem dec_enc : ∀ (v : Val) (e : Bytes), v.wf = true → enc v = .ok e →
    ∀ (fuel : Nat) (tail : Bytes), need v ≤ fuel → dec fuel (e ++ tail) = .ok (v, tail)
  | .none, e, _, h, fuel, tail, hf => by
    obtain ⟨f, rfl⟩ : ∃ f, fuel = f + 1 := ⟨fuel - 1, by simp [need] at hf; omega⟩
    simp [enc] at h; subst h; simp [dec_tag_none]
  | .notImpl, e, _, h, fuel, tail, hf => by
    obtain ⟨f, rfl⟩ : ∃ f, fuel = f + 1 := ⟨fuel - 1, by simp [need] at hf; omega⟩
    simp [enc] at h; subst h; simp [dec_tag_notImpl]
  | .ellipsis, e, _, h, fuel, tail, hf => by
    obtain ⟨f, rfl⟩ : ∃ f, fuel = f + 1 := ⟨fuel - 1, by simp [need] at hf; omega⟩
    simp [enc] at h; subst h; simp [dec_tag_ellipsis]
  | .bool true, e, _, h, fuel, tail, hf => by
    obtain ⟨f, rfl⟩ : ∃ f, fuel = f + 1 := ⟨fuel - 1, by simp [need] at hf; omega⟩
    simp [enc] at h; subst h; simp [dec_tag_true]
  | .bool false, e, _, h, fuel, tail, hf => by
    obtain ⟨f, rfl⟩ : ∃ f, fuel = f + 1 := ⟨fuel - 1, by simp [need] at hf; omega⟩
    simp [enc] at h; subst h; simp [dec_tag_false]
  | .int i, e, _, h, fuel, tail, hf => by
    obtain ⟨f, rfl⟩ : ∃ f, fuel = f + 1 := ⟨fuel - 1, by simp [need] at hf; omega⟩
    simp only [enc] at h
    exact dec_encInt i e h f tail
  | .float b, e, hw, h, fuel, tail, hf => by
    obtain ⟨f, rfl⟩ : ∃ f, fuel = f + 1 := ⟨fuel - 1, by simp [need] at hf; omega⟩
    simp [enc] at h; subst h
    have hb : b < 256 ^ 8 := by simpa [Val.wf] using hw
    have ht : (beN 8 b ++ tail).take 8 = beN 8 b := take_app _ _ 8 (by simp)
    have hd : (beN 8 b ++ tail).drop 8 = tail := drop_app _ _ 8 (by simp)
    simp only [List.cons_append, dec_tag_float]
    rw [if_neg (by simp), ht, hd, unbe_beN 8 b hb]
  | .complex r i, e, hw, h, fuel, tail, hf => by
    obtain ⟨f, rfl⟩ : ∃ f, fuel = f + 1 := ⟨fuel - 1, by simp [need] at hf; omega⟩
    simp [enc] at h; subst h
    have hb : r < 256 ^ 8 ∧ i < 256 ^ 8 := by simpa [Val.wf] using hw
    have ht : (beN 8 r ++ (beN 8 i ++ tail)).take 8 = beN 8 r := take_app _ _ 8 (by simp)
    have hd : (beN 8 r ++ (beN 8 i ++ tail)).drop 8 = beN 8 i ++ tail := drop_app _ _ 8 (by simp)
    have ht2 : (beN 8 i ++ tail).take 8 = beN 8 i := take_app _ _ 8 (by simp)
    have hd16 : (beN 8 r ++ (beN 8 i ++ tail)).drop 16 = tail := by
      have : (beN 8 r ++ (beN 8 i ++ tail)) = (beN 8 r ++ beN 8 i) ++ tail := by simp
      rw [this]; exact drop_app _ _ 16 (by simp)
    simp only [List.cons_append, List.append_assoc, dec_tag_complex]
    rw [if_neg (by simp; omega), ht, hd, ht2, hd16, unbe_beN 8 r hb.1, unbe_beN 8 i hb.2]
  | .bytes b, e, _, h, fuel, tail, hf => by
    obtain ⟨f, rfl⟩ : ∃ f, fuel = f + 1 := ⟨fuel - 1, by simp [need] at hf; omega⟩
    simp only [enc] at h
    exact dec_encBytes b e h f tail
  | .str s, e, hw, h, fuel, tail, hf => by
    obtain ⟨f, rfl⟩ : ∃ f, fuel = f + 2 := ⟨fuel - 2, by simp [need] at hf; omega⟩
    simp only [enc] at h
    exact dec_encStr s e (by simpa [Val.wf] using hw) h f tail
  | .tuple xs, e, hw, h, fuel, tail, hf => by
    obtain ⟨f, rfl⟩ : ∃ f, fuel = f + 2 := ⟨fuel - 2, by simp [need] at hf; omega⟩
    simp only [enc] at h
    split at h
    · simp at h
    · rename_i hd hhd
      split at h
      · simp at h
      · rename_i body hbody
        injection h with h; subst h
        have hN := decN_encL xs body (by simpa [Val.wf] using hw) hbody (f+1) tail
          (by simp [need] at hf; omega)
        rw [List.append_assoc, dec_tupHeader xs.length hd hhd (f+1) (body ++ tail)]
        simp [decTup, hN]
  | .fset xs, e, hw, h, fuel, tail, hf => by
    obtain ⟨f, rfl⟩ : ∃ f, fuel = f + 3 := ⟨fuel - 3, by simp [need] at hf; omega⟩
    simp only [enc] at h
    split at h
    · simp at h
    · rename_i hd hhd
      split at h
      · simp at h
      · rename_i body hbody
        injection h with h; subst h
        have hN := decN_encL xs body (by simpa [Val.wf] using hw) hbody (f+1) tail
          (by simp [need] at hf; omega)
        have hin : dec (f+2) (hd ++ (body ++ tail)) = .ok (.tuple xs, tail) := by
          rw [dec_tupHeader xs.length hd hhd (f+1) (body ++ tail)]
          simp [decTup, hN]
        simp only [List.cons_append, List.append_assoc, dec_tag_fset, hin]
        simp [thenMap, fsetOf, iterate]
  | .slice a b c, e, hw, h, fuel, tail, hf => by
    obtain ⟨f, rfl⟩ : ∃ f, fuel = f + 3 := ⟨fuel - 3, by simp [need] at hf; omega⟩
    simp only [enc] at h
    split at h
    · simp at h
    · rename_i ea hea
      split at h
      · simp at h
      · rename_i eb heb
        split at h
        · simp at h
        · rename_i ec hec
          injection h with h; subst h
          have hw' : a.wf = true ∧ b.wf = true ∧ c.wf = true := by
            simp [Val.wf] at hw; exact ⟨hw.1.1, hw.1.2, hw.2⟩
          have hfa : need a ≤ f ∧ need b ≤ f ∧ need c ≤ f := by simp [need] at hf; omega
          have ha := dec_enc a ea hw'.1 hea f (eb ++ (ec ++ tail)) hfa.1
          have hb := dec_enc b eb hw'.2.1 heb f (ec ++ tail) hfa.2.1
          have hc := dec_enc c ec hw'.2.2 hec f tail hfa.2.2
          have hin : dec (f+2) (Gen.tagTup3 :: (ea ++ (eb ++ (ec ++ tail)))) = .ok (.tuple [a, b, c], tail) := by
            rw [dec_tag_tup3]
            simp [decTup, decN, ha, hb, hc]
          simp only [List.cons_append, List.append_assoc, dec_tag_slice, hin]
          simp [thenMap, sliceOf, unpack3]
  | .other k, e, _, h, _, _, _ => by simp [enc] at h
theorem decN_encL : ∀ (xs : List Val) (e : Bytes), Val.wfL xs = true → encL xs = .ok e →
    ∀ (fuel : Nat) (tail : Bytes), needL xs + 1 ≤ fuel → decN fuel xs.length (e ++ tail) = .ok (xs, tail)
  | [], e, _, h, fuel, tail, _ => by
    simp [encL] at h; subst h; simp [decN]
  | x :: xs, e, hw, h, fuel, tail, hf => by
    obtain ⟨f, rfl⟩ : ∃ f, fuel = f + 1 := ⟨fuel - 1, by omega⟩
    simp only [encL] at h
    split at h
    · simp at h
    · rename_i ex hex
      split at h
      · simp at h
      · rename_i exs hexs
        injection h with h; subst h
        have hw' : x.wf = true ∧ Val.wfL xs = true := by simpa [Val.wfL] using hw
        have hfx : need x ≤ f ∧ needL xs + 1 ≤ f + 1 := by simp [needL] at hf; omega
        have hx := dec_enc x ex hw'.1 hex f (exs ++ tail) hfx.1
        have hxs := decN_encL xs exs hw'.2 hexs (f+1) tail hfx.2
        simp [decN, List.append_assoc, hx, hxs]
end

end Rpyc.Brine
