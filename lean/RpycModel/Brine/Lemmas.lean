import RpycModel.Brine.Model
/-
Helper lemmas for the brine round trip.  The `dec_tag_*` lemmas are where the generated tag table is
used: each one needs its tag to be outside the immediate-int window and different from every tag
tested before it in `dec`, so a collision introduced in rpyc/core/brine.py breaks the lemma of the
shadowed tag by name.
-/
namespace Rpyc.Brine
open Rpyc

theorem take_app {α} (l₁ l₂ : List α) (n : Nat) (h : l₁.length = n) : (l₁ ++ l₂).take n = l₁ := by
  subst h; simp

theorem drop_app {α} (l₁ l₂ : List α) (n : Nat) (h : l₁.length = n) : (l₁ ++ l₂).drop n = l₂ := by
  subst h; simp

section tags
variable (fuel : Nat) (rest : Bytes)

theorem dec_tag_none : dec (fuel+1) (Gen.tagNone :: rest) = .ok (.none, rest) := by
  simp [dec, classify, isImm, Gen.immLo, Gen.immHi, Gen.immBase, Gen.tagNone]
theorem dec_tag_notImpl : dec (fuel+1) (Gen.tagNotImplemented :: rest) = .ok (.notImpl, rest) := by
  simp [dec, classify, isImm, Gen.immLo, Gen.immHi, Gen.immBase, Gen.tagNone, Gen.tagNotImplemented]
theorem dec_tag_ellipsis : dec (fuel+1) (Gen.tagEllipsis :: rest) = .ok (.ellipsis, rest) := by
  simp [dec, classify, isImm, Gen.immLo, Gen.immHi, Gen.immBase, Gen.tagNone, Gen.tagNotImplemented, Gen.tagEllipsis]
theorem dec_tag_true : dec (fuel+1) (Gen.tagTrue :: rest) = .ok (.bool true, rest) := by
  simp [dec, classify, isImm, Gen.immLo, Gen.immHi, Gen.immBase, Gen.tagNone, Gen.tagNotImplemented, Gen.tagEllipsis,
    Gen.tagTrue]
theorem dec_tag_false : dec (fuel+1) (Gen.tagFalse :: rest) = .ok (.bool false, rest) := by
  simp [dec, classify, isImm, Gen.immLo, Gen.immHi, Gen.immBase, Gen.tagNone, Gen.tagNotImplemented, Gen.tagEllipsis,
    Gen.tagTrue, Gen.tagFalse]
theorem dec_tag_emptyTuple : dec (fuel+1) (Gen.tagEmptyTuple :: rest) = .ok (.tuple [], rest) := by
  simp [dec, classify, isImm, Gen.immLo, Gen.immHi, Gen.immBase, Gen.tagNone, Gen.tagNotImplemented, Gen.tagEllipsis,
    Gen.tagTrue, Gen.tagFalse, Gen.tagEmptyTuple]
theorem dec_tag_emptyStr : dec (fuel+1) (Gen.tagEmptyStr :: rest) = .ok (.bytes [], rest) := by
  simp [dec, classify, isImm, Gen.immLo, Gen.immHi, Gen.immBase, Gen.tagNone, Gen.tagNotImplemented, Gen.tagEllipsis,
    Gen.tagTrue, Gen.tagFalse, Gen.tagEmptyTuple, Gen.tagEmptyStr]
theorem dec_tag_float : dec (fuel+1) (Gen.tagFloat :: rest) =
    if rest.length < 8 then .error .structError
    else .ok (.float (unbe (rest.take 8)), rest.drop 8) := by
  simp [dec, classify, isImm, Gen.immLo, Gen.immHi, Gen.immBase, Gen.tagNone, Gen.tagNotImplemented, Gen.tagEllipsis,
    Gen.tagTrue, Gen.tagFalse, Gen.tagEmptyTuple, Gen.tagEmptyStr, Gen.tagFloat]
theorem dec_tag_complex : dec (fuel+1) (Gen.tagComplex :: rest) =
    if rest.length < 16 then .error .structError
    else .ok (.complex (unbe (rest.take 8)) (unbe ((rest.drop 8).take 8)), rest.drop 16) := by
  simp [dec, classify, isImm, Gen.immLo, Gen.immHi, Gen.immBase, Gen.tagNone, Gen.tagNotImplemented, Gen.tagEllipsis,
    Gen.tagTrue, Gen.tagFalse, Gen.tagEmptyTuple, Gen.tagEmptyStr, Gen.tagFloat, Gen.tagComplex]

/-- the tags tested before the string tags -/
theorem dec_tag_str1 : dec (fuel+1) (Gen.tagStr1 :: rest) = .ok (.bytes (rest.take 1), rest.drop 1) := by
  simp [dec, classify, isImm, Gen.immLo, Gen.immHi, Gen.immBase, Gen.tagNone, Gen.tagNotImplemented, Gen.tagEllipsis,
    Gen.tagTrue, Gen.tagFalse, Gen.tagEmptyTuple, Gen.tagEmptyStr, Gen.tagFloat, Gen.tagComplex, Gen.tagStr1]
theorem dec_tag_str2 : dec (fuel+1) (Gen.tagStr2 :: rest) = .ok (.bytes (rest.take 2), rest.drop 2) := by
  simp [dec, classify, isImm, Gen.immLo, Gen.immHi, Gen.immBase, Gen.tagNone, Gen.tagNotImplemented, Gen.tagEllipsis,
    Gen.tagTrue, Gen.tagFalse, Gen.tagEmptyTuple, Gen.tagEmptyStr, Gen.tagFloat, Gen.tagComplex, Gen.tagStr1,
    Gen.tagStr2]
theorem dec_tag_str3 : dec (fuel+1) (Gen.tagStr3 :: rest) = .ok (.bytes (rest.take 3), rest.drop 3) := by
  simp [dec, classify, isImm, Gen.immLo, Gen.immHi, Gen.immBase, Gen.tagNone, Gen.tagNotImplemented, Gen.tagEllipsis,
    Gen.tagTrue, Gen.tagFalse, Gen.tagEmptyTuple, Gen.tagEmptyStr, Gen.tagFloat, Gen.tagComplex, Gen.tagStr1,
    Gen.tagStr2, Gen.tagStr3]
theorem dec_tag_str4 : dec (fuel+1) (Gen.tagStr4 :: rest) = .ok (.bytes (rest.take 4), rest.drop 4) := by
  simp [dec, classify, isImm, Gen.immLo, Gen.immHi, Gen.immBase, Gen.tagNone, Gen.tagNotImplemented, Gen.tagEllipsis,
    Gen.tagTrue, Gen.tagFalse, Gen.tagEmptyTuple, Gen.tagEmptyStr, Gen.tagFloat, Gen.tagComplex, Gen.tagStr1,
    Gen.tagStr2, Gen.tagStr3, Gen.tagStr4]
theorem dec_tag_strL1 : dec (fuel+1) (Gen.tagStrL1 :: rest) = decStrL1 rest := by
  simp [dec, classify, isImm, Gen.immLo, Gen.immHi, Gen.immBase, Gen.tagNone, Gen.tagNotImplemented, Gen.tagEllipsis,
    Gen.tagTrue, Gen.tagFalse, Gen.tagEmptyTuple, Gen.tagEmptyStr, Gen.tagFloat, Gen.tagComplex, Gen.tagStr1,
    Gen.tagStr2, Gen.tagStr3, Gen.tagStr4, Gen.tagStrL1]
theorem dec_tag_strL4 : dec (fuel+1) (Gen.tagStrL4 :: rest) =
    if rest.length < 4 then .error .structError
    else .ok (.bytes ((rest.drop 4).take (unbe (rest.take 4))), (rest.drop 4).drop (unbe (rest.take 4))) := by
  simp [dec, classify, isImm, Gen.immLo, Gen.immHi, Gen.immBase, Gen.tagNone, Gen.tagNotImplemented, Gen.tagEllipsis,
    Gen.tagTrue, Gen.tagFalse, Gen.tagEmptyTuple, Gen.tagEmptyStr, Gen.tagFloat, Gen.tagComplex, Gen.tagStr1,
    Gen.tagStr2, Gen.tagStr3, Gen.tagStr4, Gen.tagStrL1, Gen.tagStrL4]
theorem dec_tag_unicode : dec (fuel+1) (Gen.tagUnicode :: rest) = thenMap (dec fuel rest) decodeText := by
  simp [dec, classify, isImm, Gen.immLo, Gen.immHi, Gen.immBase, Gen.tagNone, Gen.tagNotImplemented, Gen.tagEllipsis,
    Gen.tagTrue, Gen.tagFalse, Gen.tagEmptyTuple, Gen.tagEmptyStr, Gen.tagFloat, Gen.tagComplex, Gen.tagStr1,
    Gen.tagStr2, Gen.tagStr3, Gen.tagStr4, Gen.tagStrL1, Gen.tagStrL4, Gen.tagUnicode]
theorem dec_tag_tup1 : dec (fuel+1) (Gen.tagTup1 :: rest) = decTup fuel 1 rest := by
  simp [dec, classify, isImm, Gen.immLo, Gen.immHi, Gen.immBase, Gen.tagNone, Gen.tagNotImplemented, Gen.tagEllipsis,
    Gen.tagTrue, Gen.tagFalse, Gen.tagEmptyTuple, Gen.tagEmptyStr, Gen.tagFloat, Gen.tagComplex, Gen.tagStr1,
    Gen.tagStr2, Gen.tagStr3, Gen.tagStr4, Gen.tagStrL1, Gen.tagStrL4, Gen.tagUnicode, Gen.tagTup1]
theorem dec_tag_tup2 : dec (fuel+1) (Gen.tagTup2 :: rest) = decTup fuel 2 rest := by
  simp [dec, classify, isImm, Gen.immLo, Gen.immHi, Gen.immBase, Gen.tagNone, Gen.tagNotImplemented, Gen.tagEllipsis,
    Gen.tagTrue, Gen.tagFalse, Gen.tagEmptyTuple, Gen.tagEmptyStr, Gen.tagFloat, Gen.tagComplex, Gen.tagStr1,
    Gen.tagStr2, Gen.tagStr3, Gen.tagStr4, Gen.tagStrL1, Gen.tagStrL4, Gen.tagUnicode, Gen.tagTup1, Gen.tagTup2]
theorem dec_tag_tup3 : dec (fuel+1) (Gen.tagTup3 :: rest) = decTup fuel 3 rest := by
  simp [dec, classify, isImm, Gen.immLo, Gen.immHi, Gen.immBase, Gen.tagNone, Gen.tagNotImplemented, Gen.tagEllipsis,
    Gen.tagTrue, Gen.tagFalse, Gen.tagEmptyTuple, Gen.tagEmptyStr, Gen.tagFloat, Gen.tagComplex, Gen.tagStr1,
    Gen.tagStr2, Gen.tagStr3, Gen.tagStr4, Gen.tagStrL1, Gen.tagStrL4, Gen.tagUnicode, Gen.tagTup1, Gen.tagTup2,
    Gen.tagTup3]
theorem dec_tag_tup4 : dec (fuel+1) (Gen.tagTup4 :: rest) = decTup fuel 4 rest := by
  simp [dec, classify, isImm, Gen.immLo, Gen.immHi, Gen.immBase, Gen.tagNone, Gen.tagNotImplemented, Gen.tagEllipsis,
    Gen.tagTrue, Gen.tagFalse, Gen.tagEmptyTuple, Gen.tagEmptyStr, Gen.tagFloat, Gen.tagComplex, Gen.tagStr1,
    Gen.tagStr2, Gen.tagStr3, Gen.tagStr4, Gen.tagStrL1, Gen.tagStrL4, Gen.tagUnicode, Gen.tagTup1, Gen.tagTup2,
    Gen.tagTup3, Gen.tagTup4]
theorem dec_tag_tupL1 : dec (fuel+1) (Gen.tagTupL1 :: rest) =
    if rest.length < 1 then .error .structError else decTup fuel (rest.headD 0) rest.tail := by
  simp [dec, classify, isImm, Gen.immLo, Gen.immHi, Gen.immBase, Gen.tagNone, Gen.tagNotImplemented, Gen.tagEllipsis,
    Gen.tagTrue, Gen.tagFalse, Gen.tagEmptyTuple, Gen.tagEmptyStr, Gen.tagFloat, Gen.tagComplex, Gen.tagStr1,
    Gen.tagStr2, Gen.tagStr3, Gen.tagStr4, Gen.tagStrL1, Gen.tagStrL4, Gen.tagUnicode, Gen.tagTup1, Gen.tagTup2,
    Gen.tagTup3, Gen.tagTup4, Gen.tagTupL1]
theorem dec_tag_tupL4 : dec (fuel+1) (Gen.tagTupL4 :: rest) =
    if rest.length < 4 then .error .structError
    else decTup fuel (unbe (rest.take 4)) (rest.drop 4) := by
  simp [dec, classify, isImm, Gen.immLo, Gen.immHi, Gen.immBase, Gen.tagNone, Gen.tagNotImplemented, Gen.tagEllipsis,
    Gen.tagTrue, Gen.tagFalse, Gen.tagEmptyTuple, Gen.tagEmptyStr, Gen.tagFloat, Gen.tagComplex, Gen.tagStr1,
    Gen.tagStr2, Gen.tagStr3, Gen.tagStr4, Gen.tagStrL1, Gen.tagStrL4, Gen.tagUnicode, Gen.tagTup1, Gen.tagTup2,
    Gen.tagTup3, Gen.tagTup4, Gen.tagTupL1, Gen.tagTupL4]
theorem dec_tag_slice : dec (fuel+1) (Gen.tagSlice :: rest) = thenMap (dec fuel rest) sliceOf := by
  simp [dec, classify, isImm, Gen.immLo, Gen.immHi, Gen.immBase, Gen.tagNone, Gen.tagNotImplemented, Gen.tagEllipsis,
    Gen.tagTrue, Gen.tagFalse, Gen.tagEmptyTuple, Gen.tagEmptyStr, Gen.tagFloat, Gen.tagComplex, Gen.tagStr1,
    Gen.tagStr2, Gen.tagStr3, Gen.tagStr4, Gen.tagStrL1, Gen.tagStrL4, Gen.tagUnicode, Gen.tagTup1, Gen.tagTup2,
    Gen.tagTup3, Gen.tagTup4, Gen.tagTupL1, Gen.tagTupL4, Gen.tagSlice]
theorem dec_tag_fset : dec (fuel+1) (Gen.tagFset :: rest) = thenMap (dec fuel rest) fsetOf := by
  simp [dec, classify, isImm, Gen.immLo, Gen.immHi, Gen.immBase, Gen.tagNone, Gen.tagNotImplemented, Gen.tagEllipsis,
    Gen.tagTrue, Gen.tagFalse, Gen.tagEmptyTuple, Gen.tagEmptyStr, Gen.tagFloat, Gen.tagComplex, Gen.tagStr1,
    Gen.tagStr2, Gen.tagStr3, Gen.tagStr4, Gen.tagStrL1, Gen.tagStrL4, Gen.tagUnicode, Gen.tagTup1, Gen.tagTup2,
    Gen.tagTup3, Gen.tagTup4, Gen.tagTupL1, Gen.tagTupL4, Gen.tagSlice, Gen.tagFset]
theorem dec_tag_intL1 : dec (fuel+1) (Gen.tagIntL1 :: rest) = decIntL1 rest := by
  simp [dec, classify, isImm, Gen.immLo, Gen.immHi, Gen.immBase, Gen.tagNone, Gen.tagNotImplemented, Gen.tagEllipsis,
    Gen.tagTrue, Gen.tagFalse, Gen.tagEmptyTuple, Gen.tagEmptyStr, Gen.tagFloat, Gen.tagComplex, Gen.tagStr1,
    Gen.tagStr2, Gen.tagStr3, Gen.tagStr4, Gen.tagStrL1, Gen.tagStrL4, Gen.tagUnicode, Gen.tagTup1, Gen.tagTup2,
    Gen.tagTup3, Gen.tagTup4, Gen.tagTupL1, Gen.tagTupL4, Gen.tagSlice, Gen.tagFset, Gen.tagIntL1]
theorem dec_tag_intL4 : dec (fuel+1) (Gen.tagIntL4 :: rest) =
    if rest.length < 4 then .error .structError
    else decIntAt ((rest.drop 4).take (unbe (rest.take 4))) ((rest.drop 4).drop (unbe (rest.take 4))) := by
  simp [dec, classify, isImm, Gen.immLo, Gen.immHi, Gen.immBase, Gen.tagNone, Gen.tagNotImplemented, Gen.tagEllipsis,
    Gen.tagTrue, Gen.tagFalse, Gen.tagEmptyTuple, Gen.tagEmptyStr, Gen.tagFloat, Gen.tagComplex, Gen.tagStr1,
    Gen.tagStr2, Gen.tagStr3, Gen.tagStr4, Gen.tagStrL1, Gen.tagStrL4, Gen.tagUnicode, Gen.tagTup1, Gen.tagTup2,
    Gen.tagTup3, Gen.tagTup4, Gen.tagTupL1, Gen.tagTupL4, Gen.tagSlice, Gen.tagFset, Gen.tagIntL1, Gen.tagIntL4]

/-- an immediate-int byte decodes to its integer -/
theorem dec_imm (i : Int) (h : Gen.immLo ≤ i ∧ i < Gen.immHi) :
    dec (fuel+1) ((i + Gen.immBase).toNat :: rest) = .ok (.int i, rest) := by
  have h0 : 0 ≤ i + Gen.immBase := by simp [Gen.immLo, Gen.immBase] at *; omega
  have h1 : ((i + Gen.immBase).toNat : Int) = i + Gen.immBase := Int.toNat_of_nonneg h0
  have h2 : isImm (i + Gen.immBase).toNat = true := by
    simp only [isImm, h1]; simp; omega
  simp only [dec, classify, h2, if_true, h1]
  have : i + Gen.immBase - Gen.immBase = i := by omega
  rw [this]
end tags

end Rpyc.Brine
