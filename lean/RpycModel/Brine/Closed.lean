import RpycModel.Brine.RoundTrip
/-
Further facts about the brine model: encodings are non-empty and bound the fuel the decoder needs,
every value in the explicit domain encodes, non-dumpable values are refused with TypeError, and the
decoder only ever yields dumpable values.
-/
namespace Rpyc.Brine
open Rpyc

theorem encBytes_len (b e : Bytes) (h : encBytes b = .ok e) : 1 ≤ e.length := by
  unfold encBytes at h
  repeat' split at h
  all_goals first | (injection h with h; subst h; simp) | (simp at h)

theorem encInt_len (i : Int) (e : Bytes) (h : encInt i = .ok e) : 1 ≤ e.length := by
  unfold encInt at h
  repeat' split at h
  all_goals first | (injection h with h; subst h; simp) | (simp at h)

theorem encStr_len (s : List Nat) (e : Bytes) (h : encStr s = .ok e) : 1 ≤ e.length := by
  unfold encStr at h
  repeat' split at h
  all_goals first | (injection h with h; subst h; simp) | (simp at h)

theorem tupHeader_len (n : Nat) (e : Bytes) (h : tupHeader n = .ok e) : 1 ≤ e.length := by
  unfold tupHeader at h
  repeat' split at h
  all_goals first | (injection h with h; subst h; simp) | (simp at h)

mutual
theorem need_le : ∀ (v : Val) (e : Bytes), enc v = .ok e → need v ≤ 2 * e.length ∧ 1 ≤ e.length
  | .none, e, h => by simp [enc] at h; subst h; simp [need]
  | .notImpl, e, h => by simp [enc] at h; subst h; simp [need]
  | .ellipsis, e, h => by simp [enc] at h; subst h; simp [need]
  | .bool true, e, h => by simp [enc] at h; subst h; simp [need]
  | .bool false, e, h => by simp [enc] at h; subst h; simp [need]
  | .int i, e, h => by
    have := encInt_len i e (by simpa [enc] using h); simp [need]; omega
  | .float b, e, h => by simp [enc] at h; subst h; simp [need]
  | .complex r i, e, h => by simp [enc] at h; subst h; simp [need]
  | .bytes b, e, h => by
    have := encBytes_len b e (by simpa [enc] using h); simp [need]; omega
  | .str s, e, h => by
    have := encStr_len s e (by simpa [enc] using h); simp [need]; omega
  | .tuple xs, e, h => by
    simp only [enc] at h
    split at h
    · simp at h
    · rename_i hd hhd
      split at h
      · simp at h
      · rename_i body hbody
        injection h with h; subst h
        have h1 := tupHeader_len _ hd hhd
        have h2 := needL_le xs body hbody
        simp [need]; omega
  | .fset xs, e, h => by
    simp only [enc] at h
    split at h
    · simp at h
    · rename_i hd hhd
      split at h
      · simp at h
      · rename_i body hbody
        injection h with h; subst h
        have h1 := tupHeader_len _ hd hhd
        have h2 := needL_le xs body hbody
        simp [need]; omega
  | .slice a b c, e, h => by
    simp only [enc] at h
    split at h
    · simp at h
    · rename_i ea hea
      split at h
      · simp at h
      · rename_i eb heb
        split at h
        · simp at h
        · rename_i ec hec
          injection h with h; subst h
          have h1 := need_le a ea hea
          have h2 := need_le b eb heb
          have h3 := need_le c ec hec
          simp [need]; omega
  | .other _, e, h => by simp [enc] at h
theorem needL_le : ∀ (xs : List Val) (e : Bytes), encL xs = .ok e → needL xs ≤ 2 * e.length
  | [], e, h => by simp [needL]
  | x :: xs, e, h => by
    simp only [encL] at h
    split at h
    · simp at h
    · rename_i ex hex
      split at h
      · simp at h
      · rename_i exs hexs
        injection h with h; subst h
        have h1 := need_le x ex hex
        have h2 := needL_le xs exs hexs
        simp [needL]; omega
end

/-! ### the explicit domain: what the interpreter can render and `struct` can frame -/

def intOk (i : Int) : Bool :=
  (Gen.immLo ≤ i && i < Gen.immHi) ||
  ((Gen.intMaxStrDigits == 0 || (natDigits i.natAbs).length ≤ Gen.intMaxStrDigits)
    && (intRepr i).length < 2 ^ 32)

mutual
/-- integers within the interpreter's digit limit, every length below 2^32 -/
def InDomain : Val → Bool
  | .int i => intOk i
  | .bytes b => b.length < 2 ^ 32
  | .str s => (s.flatMap utf8EncCp).length < 2 ^ 32
  | .tuple xs => xs.length < 2 ^ 32 && InDomainL xs
  | .fset xs => xs.length < 2 ^ 32 && InDomainL xs
  | .slice a b c => InDomain a && InDomain b && InDomain c
  | _ => true
def InDomainL : List Val → Bool
  | [] => true
  | x :: xs => InDomain x && InDomainL xs
end

theorem utf8Enc_sp_eq (s : List Nat) : utf8Enc true s = some (s.flatMap utf8EncCp) := by
  induction s with
  | nil => rfl
  | cons c cs ih => simp [utf8Enc, ih]

theorem encBytes_ok (b : Bytes) (h : b.length < 2 ^ 32) : ∃ e, encBytes b = .ok e := by
  unfold encBytes
  repeat' split
  all_goals first | exact ⟨_, rfl⟩ | omega

theorem tupHeader_ok (n : Nat) (h : n < 2 ^ 32) : ∃ e, tupHeader n = .ok e := by
  unfold tupHeader
  repeat' split
  all_goals first | exact ⟨_, rfl⟩ | omega

theorem encInt_ok (i : Int) (h : intOk i = true) : ∃ e, encInt i = .ok e := by
  unfold encInt
  split
  · exact ⟨_, rfl⟩
  · rename_i himm
    simp only [intOk, Bool.or_eq_true, Bool.and_eq_true, decide_eq_true_eq, beq_iff_eq] at h
    rcases h with h | ⟨hlim, hlen⟩
    · exact absurd h himm
    · split
      · rename_i hbad; rcases hlim with h0 | h0 <;> omega
      · repeat' split
        all_goals first | exact ⟨_, rfl⟩ | omega

end Rpyc.Brine

namespace Rpyc.Brine
open Rpyc

/-! ### every dumpable value in the domain encodes; every non-dumpable value is refused -/

/-- `_dump_str` passes `surrogatepass` (generated fact; false on a tree where lone surrogates make
`dump` raise although `dumpable` says yes). -/
theorem dump_surrogatepass : Gen.dumpStrSurrogatePass = true := by decide

theorem encStr_ok (s : List Nat) (h : (s.flatMap utf8EncCp).length < 2 ^ 32) : ∃ e, encStr s = .ok e := by
  unfold encStr
  rw [dump_surrogatepass, utf8Enc_sp_eq]
  obtain ⟨e, he⟩ := encBytes_ok _ h
  simp [he]

mutual
theorem enc_ok : ∀ (v : Val), dumpable v = true → InDomain v = true → ∃ e, enc v = .ok e
  | .none, _, _ => ⟨_, rfl⟩
  | .notImpl, _, _ => ⟨_, rfl⟩
  | .ellipsis, _, _ => ⟨_, rfl⟩
  | .bool true, _, _ => ⟨_, rfl⟩
  | .bool false, _, _ => ⟨_, rfl⟩
  | .int i, _, hd => by simpa [enc] using encInt_ok i (by simpa [InDomain] using hd)
  | .float _, _, _ => ⟨_, rfl⟩
  | .complex _ _, _, _ => ⟨_, rfl⟩
  | .bytes b, _, hd => by simpa [enc] using encBytes_ok b (by simpa [InDomain] using hd)
  | .str s, _, hd => by simpa [enc] using encStr_ok s (by simpa [InDomain] using hd)
  | .tuple xs, hdump, hd => by
    simp [InDomain] at hd
    obtain ⟨h, hh⟩ := tupHeader_ok xs.length hd.1
    obtain ⟨b, hb⟩ := encL_ok xs (by simpa [dumpable] using hdump) hd.2
    exact ⟨h ++ b, by simp [enc, hh, hb]⟩
  | .fset xs, hdump, hd => by
    simp [InDomain] at hd
    obtain ⟨h, hh⟩ := tupHeader_ok xs.length hd.1
    obtain ⟨b, hb⟩ := encL_ok xs (by simpa [dumpable] using hdump) hd.2
    exact ⟨Gen.tagFset :: (h ++ b), by simp [enc, hh, hb]⟩
  | .slice a b c, hdump, hd => by
    simp [InDomain] at hd
    simp [dumpable] at hdump
    obtain ⟨ea, ha⟩ := enc_ok a hdump.1.1 hd.1.1
    obtain ⟨eb, hb⟩ := enc_ok b hdump.1.2 hd.1.2
    obtain ⟨ec, hc⟩ := enc_ok c hdump.2 hd.2
    exact ⟨_, by simp [enc, ha, hb, hc]; rfl⟩
  | .other _, hdump, _ => by simp [dumpable] at hdump
theorem encL_ok : ∀ (xs : List Val), dumpableL xs = true → InDomainL xs = true → ∃ e, encL xs = .ok e
  | [], _, _ => ⟨[], rfl⟩
  | x :: xs, hdump, hd => by
    simp [dumpableL] at hdump
    simp [InDomainL] at hd
    obtain ⟨ex, hx⟩ := enc_ok x hdump.1 hd.1
    obtain ⟨exs, hxs⟩ := encL_ok xs hdump.2 hd.2
    exact ⟨ex ++ exs, by simp [encL, hx, hxs]⟩
end

mutual
theorem enc_refuses : ∀ (v : Val), dumpable v = false → InDomain v = true → enc v = .error .typeError
  | .none, h, _ | .notImpl, h, _ | .ellipsis, h, _ | .bool _, h, _ | .int _, h, _ | .float _, h, _
  | .complex _ _, h, _ | .bytes _, h, _ | .str _, h, _ => by simp [dumpable] at h
  | .tuple xs, hdump, hd => by
    simp [InDomain] at hd
    obtain ⟨h, hh⟩ := tupHeader_ok xs.length hd.1
    have := encL_refuses xs (by simpa [dumpable] using hdump) hd.2
    simp [enc, hh, this]
  | .fset xs, hdump, hd => by
    simp [InDomain] at hd
    obtain ⟨h, hh⟩ := tupHeader_ok xs.length hd.1
    have := encL_refuses xs (by simpa [dumpable] using hdump) hd.2
    simp [enc, hh, this]
  | .slice a b c, hdump, hd => by
    simp [InDomain] at hd
    by_cases ha : dumpable a = true
    · obtain ⟨ea, hea⟩ := enc_ok a ha hd.1.1
      by_cases hb : dumpable b = true
      · obtain ⟨eb, heb⟩ := enc_ok b hb hd.1.2
        have hc : dumpable c = false := by simp [dumpable, ha, hb] at hdump; exact hdump
        simp [enc, hea, heb, enc_refuses c hc hd.2]
      · simp [enc, hea, enc_refuses b (by simpa using hb) hd.1.2]
    · simp [enc, enc_refuses a (by simpa using ha) hd.1.1]
  | .other _, _, _ => rfl
theorem encL_refuses : ∀ (xs : List Val), dumpableL xs = false → InDomainL xs = true →
    encL xs = .error .typeError
  | [], h, _ => by simp [dumpableL] at h
  | x :: xs, hdump, hd => by
    simp [InDomainL] at hd
    by_cases hx : dumpable x = true
    · obtain ⟨ex, hex⟩ := enc_ok x hx hd.1
      have hxs : dumpableL xs = false := by simp [dumpableL, hx] at hdump; exact hdump
      simp [encL, hex, encL_refuses xs hxs hd.2]
    · simp [encL, enc_refuses x (by simpa using hx) hd.1]
end

/-! ### the decoder is closed: it yields only dumpable values -/

theorem thenMap_ok (r : Except Err (Val × Bytes)) (f : Val → Except Err Val) (w : Val) (rest : Bytes)
    (h : thenMap r f = .ok (w, rest)) : ∃ v, r = .ok (v, rest) ∧ f v = .ok w := by
  cases r with
  | error e => simp [thenMap] at h
  | ok p =>
    obtain ⟨v, r'⟩ := p
    cases hf : f v with
    | error e => simp [thenMap, hf] at h
    | ok w' =>
      simp [thenMap, hf] at h
      obtain ⟨rfl, rfl⟩ := h
      exact ⟨v, rfl, hf⟩

theorem dumpableL_map_int (b : Bytes) : dumpableL (b.map (fun x => Val.int (x : Nat))) = true := by
  induction b with
  | nil => rfl
  | cons x xs ih => simp [dumpableL, dumpable, ih]

theorem dumpableL_map_str (s : List Nat) : dumpableL (s.map (fun c => Val.str [c])) = true := by
  induction s with
  | nil => rfl
  | cons x xs ih => simp [dumpableL, dumpable, ih]

theorem decodeText_dumpable (v w : Val) (h : decodeText v = .ok w) : dumpable w = true := by
  unfold decodeText at h
  split at h
  · split at h
    · simp at h
    · injection h with h; subst h; rfl
  · simp at h

theorem sliceOf_dumpable (v w : Val) (hv : dumpable v = true) (h : sliceOf v = .ok w) : dumpable w = true := by
  unfold sliceOf at h
  split at h
  · simp at h
  · rename_i a b c hu
    injection h with h; subst h
    unfold unpack3 at hu
    split at hu <;> try (simp at hu)
    · obtain ⟨rfl, rfl, rfl⟩ := hu
      simp [dumpable, dumpableL] at hv ⊢
      exact ⟨⟨hv.1, hv.2.1⟩, hv.2.2⟩
    · obtain ⟨rfl, rfl, rfl⟩ := hu; simp [dumpable]
    · obtain ⟨rfl, rfl, rfl⟩ := hu; simp [dumpable]

theorem fsetOf_dumpable (v w : Val) (hv : dumpable v = true) (h : fsetOf v = .ok w) : dumpable w = true := by
  unfold fsetOf at h
  split at h
  · simp at h
  · rename_i xs hu
    injection h with h; subst h
    unfold iterate at hu
    split at hu <;> try (simp at hu)
    · subst hu; simpa [dumpable] using hv
    · subst hu; simpa [dumpable] using hv
    · subst hu; simp [dumpable, dumpableL_map_int]
    · subst hu; simp [dumpable, dumpableL_map_str]

theorem decIntAt_dumpable (raw r r' : Bytes) (v : Val) (h : decIntAt raw r = .ok (v, r')) : dumpable v = true := by
  unfold decIntAt decInt at h
  split at h
  · simp at h
  · rename_i w hw
    split at hw
    · simp at hw
    · injection hw with hw; subst hw
      simp at h; obtain ⟨rfl, _⟩ := h; rfl

end Rpyc.Brine

namespace Rpyc.Brine
open Rpyc

theorem decN_dumpable_of (fuel : Nat)
    (ih : ∀ bs v r, dec fuel bs = .ok (v, r) → dumpable v = true) :
    ∀ n bs xs r, decN (fuel+1) n bs = .ok (xs, r) → dumpableL xs = true := by
  intro n
  induction n with
  | zero => intro bs xs r h; simp [decN] at h; obtain ⟨rfl, _⟩ := h; rfl
  | succ n ihn =>
    intro bs xs r h
    simp only [decN] at h
    cases hx : dec fuel bs with
    | error e => simp [hx] at h
    | ok p =>
      obtain ⟨x, r1⟩ := p
      cases hxs : decN (fuel+1) n r1 with
      | error e => simp [hx, hxs] at h
      | ok q =>
        obtain ⟨xs', r2⟩ := q
        simp [hx, hxs] at h
        obtain ⟨rfl, _⟩ := h
        simp [dumpableL, ih bs x r1 hx, ihn r1 xs' r2 hxs]

theorem decTup_dumpable_of (fuel : Nat)
    (ihN : ∀ n bs xs r, decN fuel n bs = .ok (xs, r) → dumpableL xs = true)
    (n : Nat) (bs : Bytes) (v : Val) (r : Bytes) (h : decTup fuel n bs = .ok (v, r)) : dumpable v = true := by
  simp only [decTup] at h
  cases hN : decN fuel n bs with
  | error e => simp [hN] at h
  | ok q =>
    obtain ⟨xs, r'⟩ := q
    simp [hN] at h
    obtain ⟨rfl, _⟩ := h
    simpa [dumpable] using ihN n bs xs r' hN

/-- whatever `_load` returns is a value `dumpable` accepts: the decoder builds nothing else -/
theorem dec_dumpable_both : ∀ fuel,
    (∀ bs v r, dec fuel bs = .ok (v, r) → dumpable v = true) ∧
    (∀ n bs xs r, decN fuel n bs = .ok (xs, r) → dumpableL xs = true) := by
  intro fuel
  induction fuel with
  | zero =>
    refine ⟨fun bs v r h => by simp [dec] at h, fun n bs xs r h => ?_⟩
    cases n with
    | zero => simp [decN] at h; obtain ⟨rfl, _⟩ := h; rfl
    | succ n => simp [decN] at h
  | succ fuel ih =>
    obtain ⟨ihD, ihN⟩ := ih
    refine ⟨?_, decN_dumpable_of fuel ihD⟩
    intro bs v r h
    cases bs with
    | nil => simp [dec] at h
    | cons t rest =>
      simp only [dec] at h
      cases hc : classify t with
      | none => simp [hc] at h
      | some tag =>
        rw [hc] at h
        cases tag <;> simp only at h
        case imm =>
          simp at h; obtain ⟨rfl, _⟩ := h; rfl
        case none =>
          simp at h; obtain ⟨rfl, _⟩ := h; rfl
        case notImpl =>
          simp at h; obtain ⟨rfl, _⟩ := h; rfl
        case ellipsis =>
          simp at h; obtain ⟨rfl, _⟩ := h; rfl
        case true_ =>
          simp at h; obtain ⟨rfl, _⟩ := h; rfl
        case false_ =>
          simp at h; obtain ⟨rfl, _⟩ := h; rfl
        case emptyTuple =>
          simp at h; obtain ⟨rfl, _⟩ := h; rfl
        case emptyStr =>
          simp at h; obtain ⟨rfl, _⟩ := h; rfl
        case float =>
          split at h
          · simp at h
          · simp at h; obtain ⟨rfl, _⟩ := h; rfl
        case complex =>
          split at h
          · simp at h
          · simp at h; obtain ⟨rfl, _⟩ := h; rfl
        case str1 =>
          simp at h; obtain ⟨rfl, _⟩ := h; rfl
        case str2 =>
          simp at h; obtain ⟨rfl, _⟩ := h; rfl
        case str3 =>
          simp at h; obtain ⟨rfl, _⟩ := h; rfl
        case str4 =>
          simp at h; obtain ⟨rfl, _⟩ := h; rfl
        case strL1 =>
          cases rest with
          | nil => simp [decStrL1, decIntL1] at h
          | cons l r' => simp [decStrL1] at h; obtain ⟨rfl, _⟩ := h; rfl
        case strL4 =>
          split at h
          · simp at h
          · simp at h; obtain ⟨rfl, _⟩ := h; rfl
        case unicode =>
          obtain ⟨v0, hv0, hf⟩ := thenMap_ok _ _ v r h
          exact decodeText_dumpable v0 v hf
        case tup1 =>
          exact decTup_dumpable_of fuel ihN _ _ v r h
        case tup2 =>
          exact decTup_dumpable_of fuel ihN _ _ v r h
        case tup3 =>
          exact decTup_dumpable_of fuel ihN _ _ v r h
        case tup4 =>
          exact decTup_dumpable_of fuel ihN _ _ v r h
        case tupL1 =>
          split at h
          · simp at h
          · exact decTup_dumpable_of fuel ihN _ _ v r h
        case tupL4 =>
          split at h
          · simp at h
          · exact decTup_dumpable_of fuel ihN _ _ v r h
        case slice =>
          obtain ⟨v0, hv0, hf⟩ := thenMap_ok _ _ v r h
          exact sliceOf_dumpable v0 v (ihD _ _ _ hv0) hf
        case fset =>
          obtain ⟨v0, hv0, hf⟩ := thenMap_ok _ _ v r h
          exact fsetOf_dumpable v0 v (ihD _ _ _ hv0) hf
        case intL1 =>
          cases rest with
          | nil => simp [decStrL1, decIntL1] at h
          | cons l r' => simp only [decIntL1] at h; exact decIntAt_dumpable _ _ _ v h
        case intL4 =>
          split at h
          · simp at h
          · exact decIntAt_dumpable _ _ _ v h

theorem dec_dumpable (fuel : Nat) (bs : Bytes) (v : Val) (r : Bytes) (h : dec fuel bs = .ok (v, r)) :
    dumpable v = true := (dec_dumpable_both fuel).1 bs v r h

end Rpyc.Brine
