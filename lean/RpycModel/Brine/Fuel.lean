import RpycModel.Brine.Closed
/-
The fuel `load` gives the decoder is adequate for EVERY byte string: `recursionError` (the model's
"out of fuel") is never the outcome.  So the model's `load` is a total function that fails only where
the transcription of `_load` fails.
-/
namespace Rpyc.Brine
open Rpyc

theorem decIntAt_ne_rec (raw r : Bytes) : decIntAt raw r ≠ .error .recursionError := by
  unfold decIntAt decInt
  cases parseInt Gen.intMaxStrDigits raw <;> simp

theorem decIntAt_rest (raw r r' : Bytes) (v : Val) (h : decIntAt raw r = .ok (v, r')) : r' = r := by
  unfold decIntAt at h
  cases hd : decInt raw with
  | error e => simp [hd] at h
  | ok w => simp [hd] at h; exact h.2.symm

theorem decodeText_ne_rec (v : Val) : decodeText v ≠ .error .recursionError := by
  unfold decodeText
  split
  · split <;> simp
  · simp

theorem sliceOf_ne_rec (v : Val) : sliceOf v ≠ .error .recursionError := by
  unfold sliceOf
  cases h : unpack3 v with
  | ok p => simp
  | error e =>
    simp
    unfold unpack3 at h
    split at h <;> simp at h <;> (subst h; simp)

theorem fsetOf_ne_rec (v : Val) : fsetOf v ≠ .error .recursionError := by
  unfold fsetOf
  cases h : iterate v with
  | ok p => simp
  | error e =>
    simp
    unfold iterate at h
    split at h <;> simp at h
    subst h; simp

theorem thenMap_ne_rec (r : Except Err (Val × Bytes)) (f : Val → Except Err Val)
    (hr : r ≠ .error .recursionError) (hf : ∀ v, f v ≠ .error .recursionError) :
    thenMap r f ≠ .error .recursionError := by
  cases r with
  | error e => simp [thenMap]; intro h; subst h; exact hr rfl
  | ok p =>
    obtain ⟨v, rest⟩ := p
    cases h : f v with
    | error e => simp [thenMap, h]; intro he; subst he; exact hf v h
    | ok w => simp [thenMap, h]

theorem thenMap_rest (r : Except Err (Val × Bytes)) (f : Val → Except Err Val) (w : Val) (rest : Bytes)
    (h : thenMap r f = .ok (w, rest)) : ∃ v, r = .ok (v, rest) := by
  obtain ⟨v, hv, _⟩ := thenMap_ok r f w rest h
  exact ⟨v, hv⟩

/-- a successful `_load` consumes at least one byte; loading `n` items never yields more bytes -/
theorem dec_consumes_both : ∀ fuel,
    (∀ bs v r, dec fuel bs = .ok (v, r) → r.length < bs.length) ∧
    (∀ n bs xs r, decN fuel n bs = .ok (xs, r) → r.length ≤ bs.length) := by
  intro fuel
  induction fuel with
  | zero =>
    refine ⟨fun bs v r h => by simp [dec] at h, fun n bs xs r h => ?_⟩
    cases n with
    | zero => simp [decN] at h; obtain ⟨_, rfl⟩ := h; exact Nat.le_refl _
    | succ n => simp [decN] at h
  | succ fuel ih =>
    obtain ⟨ihD, ihN⟩ := ih
    have hN : ∀ n bs xs r, decN (fuel+1) n bs = .ok (xs, r) → r.length ≤ bs.length := by
      intro n
      induction n with
      | zero => intro bs xs r h; simp [decN] at h; obtain ⟨_, rfl⟩ := h; exact Nat.le_refl _
      | succ n ihn =>
        intro bs xs r h
        simp only [decN] at h
        cases hx : dec fuel bs with
        | error e => simp [hx] at h
        | ok p =>
          obtain ⟨x, r1⟩ := p
          cases hxs : decN (fuel+1) n r1 with
          | error e => simp [hx, hxs] at h
          | ok q =>
            obtain ⟨xs', r2⟩ := q
            simp [hx, hxs] at h
            obtain ⟨_, rfl⟩ := h
            have := ihD bs x r1 hx
            have := ihn r1 xs' r2 hxs
            omega
    refine ⟨?_, hN⟩
    have hTup : ∀ n bs v r, decTup fuel n bs = .ok (v, r) → r.length ≤ bs.length := by
      intro n bs v r h
      simp only [decTup] at h
      cases hd : decN fuel n bs with
      | error e => simp [hd] at h
      | ok q =>
        obtain ⟨xs, r'⟩ := q
        simp [hd] at h
        obtain ⟨_, rfl⟩ := h
        exact ihN n bs xs r' hd
    intro bs v r h
    cases bs with
    | nil => simp [dec] at h
    | cons t rest =>
      simp only [dec] at h
      cases hc : classify t with
      | none => simp [hc] at h
      | some tag =>
        rw [hc] at h
        cases tag <;> simp only at h
        case imm => simp at h; obtain ⟨_, rfl⟩ := h; simp
        case none => simp at h; obtain ⟨_, rfl⟩ := h; simp
        case notImpl => simp at h; obtain ⟨_, rfl⟩ := h; simp
        case ellipsis => simp at h; obtain ⟨_, rfl⟩ := h; simp
        case true_ => simp at h; obtain ⟨_, rfl⟩ := h; simp
        case false_ => simp at h; obtain ⟨_, rfl⟩ := h; simp
        case emptyTuple => simp at h; obtain ⟨_, rfl⟩ := h; simp
        case emptyStr => simp at h; obtain ⟨_, rfl⟩ := h; simp
        case float =>
          split at h
          · simp at h
          · simp at h; obtain ⟨_, rfl⟩ := h; simp; omega
        case complex =>
          split at h
          · simp at h
          · simp at h; obtain ⟨_, rfl⟩ := h; simp; omega
        case str1 => simp at h; obtain ⟨_, rfl⟩ := h; simp; omega
        case str2 => simp at h; obtain ⟨_, rfl⟩ := h; simp; omega
        case str3 => simp at h; obtain ⟨_, rfl⟩ := h; simp; omega
        case str4 => simp at h; obtain ⟨_, rfl⟩ := h; simp; omega
        case strL1 =>
          cases rest with
          | nil => simp [decStrL1] at h
          | cons l r' => simp [decStrL1] at h; obtain ⟨_, rfl⟩ := h; simp; omega
        case strL4 =>
          split at h
          · simp at h
          · simp at h; obtain ⟨_, rfl⟩ := h; simp; omega
        case unicode =>
          obtain ⟨v0, hv0⟩ := thenMap_rest _ _ v r h
          have := ihD _ _ _ hv0; simp; omega
        case tup1 => have := hTup _ _ _ _ h; simp; omega
        case tup2 => have := hTup _ _ _ _ h; simp; omega
        case tup3 => have := hTup _ _ _ _ h; simp; omega
        case tup4 => have := hTup _ _ _ _ h; simp; omega
        case tupL1 =>
          split at h
          · simp at h
          · have := hTup _ _ _ _ h; simp at this ⊢; omega
        case tupL4 =>
          split at h
          · simp at h
          · have := hTup _ _ _ _ h; simp at this ⊢; omega
        case slice =>
          obtain ⟨v0, hv0⟩ := thenMap_rest _ _ v r h
          have := ihD _ _ _ hv0; simp; omega
        case fset =>
          obtain ⟨v0, hv0⟩ := thenMap_rest _ _ v r h
          have := ihD _ _ _ hv0; simp; omega
        case intL1 =>
          cases rest with
          | nil => simp [decIntL1] at h
          | cons l r' =>
            simp only [decIntL1] at h
            have := decIntAt_rest _ _ _ _ h; subst this; simp; omega
        case intL4 =>
          split at h
          · simp at h
          · have := decIntAt_rest _ _ _ _ h; subst this; simp; omega

/-- with the fuel `load` supplies, running out of fuel is impossible, for every byte string -/
theorem dec_fuel_ok_both : ∀ fuel,
    (∀ bs, 2 * bs.length + 2 ≤ fuel → dec fuel bs ≠ .error .recursionError) ∧
    (∀ n bs, 2 * bs.length + 3 ≤ fuel → decN fuel n bs ≠ .error .recursionError) := by
  intro fuel
  induction fuel with
  | zero => exact ⟨fun bs h => by omega, fun n bs h => by omega⟩
  | succ fuel ih =>
    obtain ⟨ihD, ihN⟩ := ih
    have hN : ∀ n bs, 2 * bs.length + 3 ≤ fuel + 1 → decN (fuel+1) n bs ≠ .error .recursionError := by
      intro n
      induction n with
      | zero => intro bs _; simp [decN]
      | succ n ihn =>
        intro bs hb
        simp only [decN]
        cases hx : dec fuel bs with
        | error e =>
          simp
          intro he; subst he
          exact ihD bs (by omega) hx
        | ok p =>
          obtain ⟨x, r1⟩ := p
          have hlt := (dec_consumes_both fuel).1 bs x r1 hx
          dsimp only
          cases hxs : decN (fuel+1) n r1 with
          | error e =>
            simp
            intro he; subst he
            exact ihn r1 (by omega) hxs
          | ok q => simp
    refine ⟨?_, hN⟩
    have hTup : ∀ n bs, 2 * bs.length + 3 ≤ fuel → decTup fuel n bs ≠ .error .recursionError := by
      intro n bs hb
      simp only [decTup]
      cases hd : decN fuel n bs with
      | error e => simp; intro he; subst he; exact ihN n bs hb hd
      | ok q => simp
    intro bs hb
    cases bs with
    | nil => simp [dec]
    | cons t rest =>
      simp only [List.length_cons] at hb
      simp only [dec]
      cases hc : classify t with
      | none => simp
      | some tag =>
        cases tag <;> simp only
        case imm | none | notImpl | ellipsis | true_ | false_ | emptyTuple | emptyStr | str1 | str2 | str3 | str4 => simp
        case float => split <;> simp
        case complex => split <;> simp
        case strL1 => cases rest <;> simp [decStrL1]
        case strL4 => split <;> simp
        case unicode => exact thenMap_ne_rec _ _ (ihD rest (by omega)) decodeText_ne_rec
        case tup1 => exact hTup _ _ (by omega)
        case tup2 => exact hTup _ _ (by omega)
        case tup3 => exact hTup _ _ (by omega)
        case tup4 => exact hTup _ _ (by omega)
        case tupL1 =>
          split
          · simp
          · exact hTup _ _ (by simp; omega)
        case tupL4 =>
          split
          · simp
          · exact hTup _ _ (by simp; omega)
        case slice => exact thenMap_ne_rec _ _ (ihD rest (by omega)) sliceOf_ne_rec
        case fset => exact thenMap_ne_rec _ _ (ihD rest (by omega)) fsetOf_ne_rec
        case intL1 =>
          cases rest with
          | nil => simp [decIntL1]
          | cons l r' => simp only [decIntL1]; exact decIntAt_ne_rec _ _
        case intL4 =>
          split
          · simp
          · exact decIntAt_ne_rec _ _

theorem load_never_out_of_fuel (bs : Bytes) : load bs ≠ .error .recursionError := by
  unfold load
  cases h : dec (2 * bs.length + 2) bs with
  | error e =>
    simp
    intro he; subst he
    exact (dec_fuel_ok_both _).1 bs (Nat.le_refl _) h
  | ok p => simp

end Rpyc.Brine
