import RpycModel.Proto.Handlers
import RpycModel.Policy.Model
import RpycModel.Vinegar.Model
/-
Ties between L6 `Proto/Handlers` (which carries its own transcription of `_check_attr` / `_access_attr` and of the
loader's gates, so that it could be written and proved independently) and the layers that own those functions:
L4 `Policy` (property C06) and L5 `Vinegar` (property C09).  If one side is changed and the other is not, this file
stops building.
-/
namespace Rpyc.Handlers.Bridge
open Rpyc Rpyc.Handlers

def toOp : Op → Policy.Op
  | .get => .get
  | .set => .set
  | .del => .del

/-- the policy part of this layer's configuration record, as the policy layer's record -/
def toPolicy (c : Config) (oldstyle : Bool) : Policy.Config :=
  { allowSafe := c.allowSafe, allowExposed := c.allowExposed, allowPublic := c.allowPublic, allowAll := c.allowAll,
    allowGet := c.allowGet, allowSet := c.allowSet, allowDel := c.allowDel, exposedPrefix := c.exposedPrefix,
    safe := c.safe, allowPickle := c.allowPickle, importCustomExc := c.importCustomExc,
    instantiateCustomExc := c.instantiateCustomExc, instantiateOldstyleExc := oldstyle }

theorem perm_eq (c : Config) (o : Bool) (op : Op) : c.perm op = (toPolicy c o).perm (toOp op) := by
  cases op <;> rfl

theorem prefixTruthy_eq (c : Config) (o : Bool) : prefixTruthy c = Policy.prefixTruthy (toPolicy c o) := rfl
theorem twin_eq (c : Config) (o : Bool) (n : PyStr) : twin c n = Policy.twin (toPolicy c o) n := rfl
theorem plainAllowed_eq (c : Config) (o : Bool) (n : PyStr) : plainAllowed c n = Policy.plainAllowed (toPolicy c o) n := rfl
theorem hasExposed_eq (c : Config) (o : Bool) (has : PyStr → Bool) (n : PyStr) :
    hasExposed c has n = Policy.hasExposed (toPolicy c o) has n := rfl

/-- `_check_attr` here is `_check_attr` there, for every configuration, `hasattr`, name and operation -/
theorem checkAttr_eq (c : Config) (o : Bool) (has : PyStr → Bool) (n : PyStr) (op : Op) :
    checkAttr c has n op = Policy.checkAttr (toPolicy c o) has n (toOp op) := by
  unfold checkAttr Policy.checkAttr
  rw [perm_eq c o op]
  rfl

/-- the generated defaults the two layers read are the same values -/
theorem defaultConfig_eq :
    toPolicy defaultConfig Gen.Policy.cfgInstantiateOldstyleExceptions = Policy.defaultConfig := by decide

/-- name typing of `_access_attr`: text as is, bytes through strict UTF-8, anything else `TypeError` -/
theorem decodeName_text (s : PyStr) : decodeName (.imm (.str s)) = Policy.decodeName (.text s) := rfl
theorem decodeName_bytes (b : Bytes) : decodeName (.imm (.bytes b)) = Policy.decodeName (.bytes b) := rfl
theorem decodeName_other : decodeName (.obj 0) = Policy.decodeName .other ∧ decodeName (.imm (.int 1)) = Policy.decodeName .other
    ∧ decodeName (.imm .none) = Policy.decodeName .other := ⟨rfl, rfl, rfl⟩

/-! ### the exception loader's gates (L5) -/

def toRecv (c : Config) (oldstyle : Bool) : Vinegar.RecvCfg :=
  { importCustom := c.importCustomExc, instCustom := c.instantiateCustomExc, instOldstyle := oldstyle }

/-- an import is attempted here (`importGate`: the switch is on and `modname not in sys.modules`) exactly when the
loader model says so -/
theorem importGate_eq (c : Config) (o : Bool) (env : Vinegar.Env) (m : Val) :
    (c.importCustomExc && !env.loaded m) = Vinegar.importAttempted (toRecv c o) env m := rfl

/-- `modname == "builtins"` as this layer evaluates it (`pyEq`) is the loader model's test -/
theorem builtinsName_eq (m : Val) : pyEq m (.str (cp "builtins")) = Vinegar.isBuiltinsName m := by
  have h : cp "builtins" = Gen.Vinegar.exceptionsModule := by decide
  cases m <;> simp [pyEq, leafEq, numVal, Vinegar.isBuiltinsName, h]

end Rpyc.Handlers.Bridge
