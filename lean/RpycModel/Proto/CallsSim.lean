import RpycModel.Proto.CallsLemmas
/-
The simulation behind C01: for every fuel, the distributed evaluator and the one-process evaluator, started on the
same well-formed program with equal counters, end with equal outcomes (exceptions up to the normalisation a crossing
applies), equal counters, tables that only grew, and values the current side may hold.  Induction on fuel; the
remote-call case is the marshalling lemmas of CallsLemmas.lean.
-/
namespace Rpyc.Calls
open Rpyc Rpyc.Brine

/-- the values of an outcome may be held by side `s` in state `st`; an exception is serializable -/
def OutOk (st : St) (s : Side) : Outcome → Prop
  | .norm vars => ∀ v ∈ vars.map (·.2), OkVal st s v
  | .ret v => OkVal st s v
  | .exc e => GoodExc e
  | .stuck _ => True

/-- the distributed result `rd` (started in `sd`) and the one-process result `rl` agree -/
structure Sim (R : Params) (s : Side) (sd : St) (rd rl : Outcome × St) : Prop where
  out : rd.1.normalize R = rl.1.normalize R
  cnt : rd.2.count = rl.2.count
  mono : sd.le rd.2
  ok : OutOk rd.2 s rd.1

theorem Sim.same (R : Params) (s : Side) (sd sl : St) (o : Outcome) (hc : sd.count = sl.count)
    (hok : OutOk sd s o) : Sim R s sd (o, sd) (o, sl) := ⟨rfl, hc, St.le_refl _, hok⟩

theorem Sim.weaken {R : Params} {s : Side} {sd sd' : St} {rd rl : Outcome × St} (h : Sim R s sd' rd rl)
    (hle : sd.le sd') : Sim R s sd rd rl := ⟨h.out, h.cnt, St.le_trans hle h.mono, h.ok⟩

theorem cls_of_normalize {R : Params} {e e' : Exc} (h : e.normalize R = e'.normalize R) : e.cls = e'.cls := by
  simpa [Exc.normalize] using congrArg Exc.cls h

theorem normalize_cases (R : Params) (od ol : Outcome) (h : od.normalize R = ol.normalize R) :
    (∃ v, od = .norm v ∧ ol = .norm v) ∨ (∃ v, od = .ret v ∧ ol = .ret v) ∨
    (∃ e e', od = .exc e ∧ ol = .exc e' ∧ e.normalize R = e'.normalize R) ∨ (∃ x, od = .stuck x ∧ ol = .stuck x) := by
  cases od <;> cases ol <;> simp [Outcome.normalize] at h ⊢ <;> first | exact h | exact h.symm

theorem okVal_none (st : St) (s : Side) : OkVal st s (.imm .none) := ⟨by simp [PyVal.good], rfl⟩

section
variable (R : Params) (P : Prog) (st0 : St)

def BlockClaim (f : Nat) : Prop :=
  ∀ (s : Side) (blk : List Stmt) (env : Env) (sd sl : St),
    wfBlock s (st0.tbl s.other) blk = true → st0.le sd → EnvOk sd s env → sd.count = sl.count →
    Sim R s sd (evalBlock .dist R P f s blk env sd) (evalBlock .loc R P f s blk env sl)

def StmtClaim (f : Nat) : Prop :=
  ∀ (s : Side) (c : Stmt) (env : Env) (sd sl : St),
    c.wf s (st0.tbl s.other) = true → st0.le sd → EnvOk sd s env → sd.count = sl.count →
    Sim R s sd (evalStmt .dist R P f s c env sd) (evalStmt .loc R P f s c env sl)

def CallClaim (f : Nat) : Prop :=
  ∀ (s : Side) (callee : PyVal) (args : List PyVal) (kws : List (Name × PyVal)) (sd sl : St),
    CallOk sd s callee args kws → st0.le sd → sd.count = sl.count →
    Sim R s sd (callFn .dist R P f s callee args kws sd) (callFn .loc R P f s callee args kws sl)

theorem block_step (f : Nat) (hS : StmtClaim R P st0 f) (hB : BlockClaim R P st0 f) : BlockClaim R P st0 (f + 1) := by
  intro s blk env sd sl hw hm he hc
  cases blk with
  | nil =>
    simp only [evalBlock]
    exact Sim.same R s sd sl _ hc (fun v hv => he v (by simp [Env.vals] at hv ⊢; simp [hv]))
  | cons c cs =>
    simp only [wfBlock, Bool.and_eq_true] at hw
    have h1 := hS s c env sd sl hw.1 hm he hc
    rcases hd : evalStmt .dist R P f s c env sd with ⟨od, sd'⟩
    rcases hl : evalStmt .loc R P f s c env sl with ⟨ol, sl'⟩
    rw [hd, hl] at h1
    rcases normalize_cases R od ol h1.out with ⟨v, rfl, rfl⟩ | ⟨v, rfl, rfl⟩ | ⟨e, e', rfl, rfl, _⟩ | ⟨x, rfl, rfl⟩
    · simp only [evalBlock, hd, hl]
      have henv : EnvOk sd' s { env with vars := v } := by
        intro u hu
        simp only [Env.vals, List.mem_append] at hu
        rcases hu with (hu | hu) | hu
        · exact (he u (by simp [Env.vals, hu])).mono h1.mono
        · exact (he u (by simp [Env.vals, hu])).mono h1.mono
        · exact h1.ok u hu
      exact (hB s cs _ sd' sl' hw.2 (St.le_trans hm h1.mono) henv h1.cnt).weaken h1.mono
    · simpa only [evalBlock, hd, hl] using h1
    · simpa only [evalBlock, hd, hl] using h1
    · simpa only [evalBlock, hd, hl] using h1

theorem stmt_step (f : Nat) (hB : BlockClaim R P st0 f) (hC : CallClaim R P st0 f) : StmtClaim R P st0 (f + 1) := by
  intro s c env sd sl hw hm he hc
  cases c with
  | ret e =>
    simp only [Stmt.wf] at hw
    have h := evalExpr_ok st0 sd s env hm he e hw
    simp only [evalStmt]
    cases hv : evalExpr env e with
    | ok v => exact Sim.same R s sd sl _ hc (h.1 v hv)
    | error x => exact Sim.same R s sd sl _ hc (h.2 x hv)
  | raise cls es =>
    simp only [Stmt.wf, Bool.and_eq_true, decide_eq_true_eq] at hw
    have h := evalExprs_ok st0 sd s env hm he es hw.1.2
    simp only [evalStmt]
    cases hv : evalExprs env es with
    | ok vs =>
      obtain ⟨hall, hlen⟩ := h.1 vs hv
      exact Sim.same R s sd sl _ hc
        ⟨hw.1.1, (goodL_iff _).2 (fun v hv => (hall v hv).1), by show vs.length < 2 ^ 32; omega⟩
    | error x => exact Sim.same R s sd sl _ hc (h.2 x hv)
  | try_ body pat handler =>
    simp only [Stmt.wf, Bool.and_eq_true] at hw
    have h1 := hB s body env sd sl hw.1 hm he hc
    rcases hd : evalBlock .dist R P f s body env sd with ⟨od, sd'⟩
    rcases hl : evalBlock .loc R P f s body env sl with ⟨ol, sl'⟩
    rw [hd, hl] at h1
    rcases normalize_cases R od ol h1.out with ⟨v, rfl, rfl⟩ | ⟨v, rfl, rfl⟩ | ⟨e, e', rfl, rfl, hee⟩ | ⟨x, rfl, rfl⟩
    · simpa only [evalStmt, hd, hl] using h1
    · simpa only [evalStmt, hd, hl] using h1
    · simp only [evalStmt, hd, hl, ← cls_of_normalize hee]
      by_cases hcatch : catches pat e.cls = true
      · simp only [hcatch, if_true]
        exact (hB s handler env sd' sl' hw.2 (St.le_trans hm h1.mono) (he.mono h1.mono) h1.cnt).weaken h1.mono
      · simp only [hcatch]
        exact h1
    · simpa only [evalStmt, hd, hl] using h1
  | call x fe aes kes =>
    have h := evalCallArgs_ok st0 sd s env hm he x fe aes kes hw
    simp only [evalStmt]
    cases hv : evalCallArgs env fe aes kes with
    | error e => exact Sim.same R s sd sl _ hc (h.2 e hv)
    | ok r =>
      obtain ⟨callee, args, kws⟩ := r
      have hok := h.1 callee args kws hv
      have h1 := hC s callee args kws sd sl hok hm hc
      rcases hd : callFn .dist R P f s callee args kws sd with ⟨od, sd'⟩
      rcases hl : callFn .loc R P f s callee args kws sl with ⟨ol, sl'⟩
      rw [hd, hl] at h1
      rcases normalize_cases R od ol h1.out with ⟨v, rfl, rfl⟩ | ⟨v, rfl, rfl⟩ | ⟨e, e', rfl, rfl, _⟩ | ⟨y, rfl, rfl⟩
      all_goals simp only [hd, hl]
      · exact h1
      · refine ⟨rfl, h1.cnt, h1.mono, ?_⟩
        intro u hu
        simp only [List.map_cons, List.mem_cons] at hu
        rcases hu with rfl | hu
        · exact h1.ok
        · exact (he u (by simp [Env.vals, hu])).mono h1.mono
      · exact h1
      · exact h1

theorem sim_finish {s : Side} {sd : St} {rd rl : Outcome × St} (h : Sim R s sd rd rl) :
    Sim R s sd (finish rd) (finish rl) := by
  obtain ⟨od, sd'⟩ := rd
  obtain ⟨ol, sl'⟩ := rl
  rcases normalize_cases R od ol h.out with ⟨v, rfl, rfl⟩ | ⟨v, rfl, rfl⟩ | ⟨e, e', rfl, rfl, _⟩ | ⟨x, rfl, rfl⟩
  · exact ⟨rfl, h.cnt, h.mono, okVal_none _ _⟩
  · exact h
  · exact h
  · exact h

theorem mem_of_target {callee : PyVal} {fid : Nat} {fn : Fn} (h : target P callee = some (fid, fn)) :
    fn ∈ P ∧ ∃ o, callee = .ref o fid ∧ fn.owner = o := by
  cases callee with
  | imm v => simp [target] at h
  | tup xs => simp [target] at h
  | ref o k =>
    simp only [target] at h
    split at h
    · rename_i fn' hget
      split at h
      · rename_i hown
        simp only [Option.some.injEq, Prod.mk.injEq] at h
        obtain ⟨rfl, rfl⟩ := h
        exact ⟨List.mem_of_getElem? hget, o, rfl, hown⟩
      · simp at h
    · simp at h

theorem call_step (hR : ReprOk R) (hP : Prog.wf P st0 = true) (f : Nat) (hB : BlockClaim R P st0 f) :
    CallClaim R P st0 (f + 1) := by
  intro s callee args kws sd sl hok hm hc
  simp only [callFn]
  cases ht : target P callee with
  | none => exact Sim.same R s sd sl _ hc (goodExc_internal _ nameOk_of_decide.2.2.1)
  | some r =>
    obtain ⟨fid, fn⟩ := r
    obtain ⟨hmem, o, rfl, hown⟩ := mem_of_target P ht
    have hwf : wfBlock fn.owner (st0.tbl fn.owner.other) fn.body = true := by
      simp only [Prog.wf, List.all_eq_true] at hP
      exact hP fn hmem
    have hcnt : (sd.bump fid).count = (sl.bump fid).count := by simp [St.bump, hc]
    simp only [true_or, if_true]
    by_cases hloc : fn.owner = s
    · -- the callee lives on the caller's side: a direct call in both runs
      simp only [hloc, or_true, if_true]
      have henv : EnvOk (sd.bump fid) s ⟨args, kws, []⟩ := by
        intro u hu
        simp only [Env.vals, List.map_nil, List.append_nil, List.mem_append, List.mem_map] at hu
        rcases hu with hu | ⟨kv, hkv, rfl⟩
        · exact (hok.hargs u hu).mono (le_bump sd fid)
        · exact ((hok.hkws kv hkv).2).mono (le_bump sd fid)
      have h1 := hB s fn.body ⟨args, kws, []⟩ (sd.bump fid) (sl.bump fid) (hloc ▸ hwf)
        (St.le_trans hm (le_bump sd fid)) henv hcnt
      exact (sim_finish R h1).weaken (le_bump sd fid)
    · -- the callee lives on the other side: the request, the callee's run, the reply
      have hoth : fn.owner = s.other := Side.eq_other_of_ne hloc
      have hcs : (Mode.dist = Mode.loc ∨ fn.owner = s) = False := by simp [hloc]
      simp only [hcs, if_false]
      have hargs : ArgsOk args := ⟨(goodL_iff _).2 (fun a ha => (hok.hargs a ha).1), hok.hnargs⟩
      have hkw : KwOk kws := ⟨fun kv hkv => ⟨(hok.hkws kv hkv).1, (hok.hkws kv hkv).2.1⟩, hok.hnkws, hok.hnodup⟩
      have hval : (requestArgs (.ref o fid) args kws).valid s (sd.tbl s.other) = true :=
        requestArgs_valid s _ _ args kws hok.hcallee.2 ((validL_iff _ _ _).2 (fun a ha => (hok.hargs a ha).2))
          (fun kv hkv => (hok.hkws kv hkv).2.2)
      rw [sendRequest_ok P s sd (.ref o fid) args kws fid fn hok.hcallee.1 hargs hkw hval ht hoth]
      simp only []
      -- the state in which the callee starts
      generalize hL : lent s (requestArgs (.ref o fid) args kws) = L
      have hvalX : (requestArgs (.ref o fid) args kws).valid s.other ((sd.lend s L).tbl s) = true :=
        valid_of_lent s _ _ (fun k hk => by simp [← hL, hk])
      obtain ⟨hva, hvk⟩ := valid_of_requestArgs _ _ _ args kws hvalX
      have henv : EnvOk ((sd.lend s L).bump fid) fn.owner ⟨args, kws, []⟩ := by
        rw [hoth]
        intro u hu
        simp only [Env.vals, List.map_nil, List.append_nil, List.mem_append, List.mem_map] at hu
        rcases hu with hu | ⟨kv, hkv, rfl⟩
        · exact ⟨(hok.hargs u hu).1, by simpa using (validL_iff _ _ _).1 hva u hu⟩
        · exact ⟨(hok.hkws kv hkv).2.1, by simpa using hvk kv hkv⟩
      have hle1 : sd.le ((sd.lend s L).bump fid) := St.le_trans (le_lend sd s L) (le_bump _ fid)
      have hcnt1 : ((sd.lend s L).bump fid).count = (sl.bump fid).count := by simp [St.bump, hc]
      have h1 := hB fn.owner fn.body ⟨args, kws, []⟩ ((sd.lend s L).bump fid) (sl.bump fid) hwf
        (St.le_trans hm hle1) henv hcnt1
      rcases hd : evalBlock .dist R P f fn.owner fn.body ⟨args, kws, []⟩ ((sd.lend s L).bump fid) with ⟨od, sd'⟩
      rcases hl : evalBlock .loc R P f fn.owner fn.body ⟨args, kws, []⟩ (sl.bump fid) with ⟨ol, sl'⟩
      rw [hd, hl] at h1
      have hso : s = fn.owner.other := by rw [hoth]; simp
      rcases normalize_cases R od ol h1.out with ⟨v, rfl, rfl⟩ | ⟨v, rfl, rfl⟩ | ⟨e, e', rfl, rfl, hee⟩ | ⟨x, rfl, rfl⟩
      · -- fell off the end: `None`
        have hn : OkVal sd' fn.owner (.imm .none) := okVal_none _ _
        simp only [finish]
        rw [deliverReply_ret R fn.owner s hso (.imm .none) sd' hn.1 rfl]
        exact ⟨rfl, by simpa using h1.cnt, St.le_trans hle1 (St.le_trans h1.mono (le_lend _ _ _)), okVal_none _ _⟩
      · -- returned a value
        have hv : OkVal sd' fn.owner v := h1.ok
        simp only [finish]
        rw [deliverReply_ret R fn.owner s hso v sd' hv.1 (by rw [hso]; exact hv.2)]
        refine ⟨rfl, by simpa using h1.cnt, St.le_trans hle1 (St.le_trans h1.mono (le_lend _ _ _)), hv.1, ?_⟩
        have := valid_of_lent fn.owner ((sd'.lend fn.owner (lent fn.owner v)).tbl fn.owner) v
          (fun k hk => by simp [hk])
        rw [hso]
        simpa using this
      · -- raised
        have he : GoodExc e := h1.ok
        simp only [finish, deliverReply]
        rw [deliverExc_ok R hR e he]
        refine ⟨?_, h1.cnt, St.le_trans hle1 h1.mono, goodExc_normalize R hR e he⟩
        simp only [Outcome.normalize, Exc.normalize_idem, hee]
      · simp only [finish, deliverReply]
        exact ⟨rfl, h1.cnt, St.le_trans hle1 h1.mono, trivial⟩

/-- the three claims for every fuel -/
theorem sim_all (hR : ReprOk R) (hP : Prog.wf P st0 = true) :
    ∀ f, BlockClaim R P st0 f ∧ StmtClaim R P st0 f ∧ CallClaim R P st0 f := by
  intro f
  induction f with
  | zero =>
    refine ⟨?_, ?_, ?_⟩
    · intro s blk env sd sl _ _ _ hc
      simp only [evalBlock]
      exact Sim.same R s sd sl _ hc trivial
    · intro s c env sd sl _ _ _ hc
      simp only [evalStmt]
      exact Sim.same R s sd sl _ hc trivial
    · intro s callee args kws sd sl _ _ hc
      simp only [callFn]
      exact Sim.same R s sd sl _ hc trivial
  | succ f ih =>
    exact ⟨block_step R P st0 f ih.2.1 ih.1, stmt_step R P st0 f ih.1 ih.2.2, call_step R P st0 hR hP f ih.1⟩

end

end Rpyc.Calls
