import RpycModel.Proto.Life
/-
Invariants of the lifecycle automaton (helper lemmas for `Props/C11.lean`).
-/
namespace Rpyc.Proto.Life

/-- the flag part of the invariant -/
structure Flags (l : Life) : Prop where
  /-- the hook has run once iff `_cleanup` has completed, and never twice -/
  hook : l.hookRuns = if l.cleaned then 1 else 0
  cl : l.cleaned = true → l.closed = true ∧ l.chanClosed = true ∧ l.tablesCleared = true
  /-- outside a `close()` call, closed means cleaned up -/
  done : l.closed = true → l.inClose = false → l.cleaned = true
  inc : l.inClose = true → l.closed = true
  tab : l.tablesCleared = true → l.cleaned = true

theorem flags_init : Flags Life.init := by
  constructor <;> simp [Life.init]

theorem cleanup_flags (l : Life) (hhook : l.hookRuns = if l.cleaned then 1 else 0)
    (htab : l.cleaned = true → l.tablesCleared = true) :
    (cleanup l).1.cleaned = true ∧ (cleanup l).1.closed = true ∧ (cleanup l).1.chanClosed = true
    ∧ (cleanup l).1.tablesCleared = true ∧ (cleanup l).1.hookRuns = 1 ∧ (cleanup l).1.inClose = l.inClose
    ∧ ((cleanup l).2 = true ↔ l.cleaned = true) := by
  unfold cleanup
  by_cases hc : l.cleaned = true
  · have := htab hc
    have hh := hhook
    simp [hc] at hh ⊢
    exact ⟨this, hh⟩
  · have hh := hhook
    simp [hc] at hh ⊢
    omega

theorem cleanup_lists (l : Life) :
    (cleanup l).1.outcomes = l.outcomes ∧ (cleanup l).1.fromPeer = l.fromPeer ∧ (cleanup l).1.pending = l.pending
    ∧ (cleanup l).1.blocked = l.blocked ∧ (cleanup l).1.issued = l.issued := by
  unfold cleanup
  split <;> simp

theorem flags_of_cleaned (l : Life) (hc : l.cleaned = true) (hcl : l.closed = true) (hch : l.chanClosed = true)
    (ht : l.tablesCleared = true) (hh : l.hookRuns = 1) (hi : l.inClose = true → l.closed = true) : Flags l := by
  constructor
  · simp [hc, hh]
  · intro _; exact ⟨hcl, hch, ht⟩
  · intro _ _; exact hc
  · exact hi
  · intro _; exact hc

theorem finishClose_flags (r : TryRes) (l : Life) (hhook : l.hookRuns = if l.cleaned then 1 else 0)
    (htab : l.cleaned = true → l.tablesCleared = true) :
    Flags (finishClose r l).1 ∧ (finishClose r l).1.cleaned = true ∧ (finishClose r l).1.closed = true
    ∧ (finishClose r l).1.inClose = false ∧ (finishClose r l).1.hookRuns = 1
    ∧ (finishClose r l).1.tablesCleared = true ∧ (finishClose r l).1.chanClosed = true := by
  have hc := cleanup_flags l hhook htab
  unfold finishClose
  rcases hcu : cleanup l with ⟨l', b⟩
  rw [hcu] at hc
  obtain ⟨h1, h2, h3, h4, h5, _, _⟩ := hc
  cases b with
  | true => exact ⟨flags_of_cleaned _ h1 h2 h3 h4 h5 (fun _ => h2), h1, h2, rfl, h5, h4, h3⟩
  | false =>
    cases r with
    | sent => exact ⟨flags_of_cleaned _ h1 h2 h3 h4 h5 (fun _ => h2), h1, h2, rfl, h5, h4, h3⟩
    | eof => exact ⟨flags_of_cleaned _ h1 h2 h3 h4 h5 (fun _ => h2), h1, h2, rfl, h5, h4, h3⟩
    | hookRaised c =>
      cases c <;> exact ⟨flags_of_cleaned _ h1 h2 h3 h4 h5 (fun _ => h2), h1, h2, rfl, h5, h4, h3⟩

theorem finishClose_lists (r : TryRes) (l : Life) :
    (finishClose r l).1.outcomes = l.outcomes ∧ (finishClose r l).1.fromPeer = l.fromPeer
    ∧ (finishClose r l).1.pending = l.pending ∧ (finishClose r l).1.blocked = l.blocked
    ∧ (finishClose r l).1.issued = l.issued := by
  have hl := cleanup_lists l
  unfold finishClose
  rcases hcu : cleanup l with ⟨l', b⟩
  rw [hcu] at hl
  cases b with
  | true => simpa using hl
  | false =>
    cases r with
    | sent => simpa using hl
    | eof => simpa using hl
    | hookRaised c => cases c <;> simpa using hl

/-- a `close()` the connection calls itself: afterwards the side is closed; outside another `close()` call it
is also cleaned up -/
theorem closeCall_flags (r : TryRes) (l : Life) (h : Flags l) :
    Flags (closeCall r l).1 ∧ (closeCall r l).1.closed = true ∧ (closeCall r l).1.inClose = l.inClose
    ∧ (l.chanClosed = true → (closeCall r l).1.chanClosed = true) := by
  unfold closeCall
  by_cases hc : l.closed = true
  · simp [hc, h]
  · have hnc : l.cleaned = false := by
      cases hcl : l.cleaned with
      | false => rfl
      | true => exact absurd (h.cl hcl).1 hc
    have hni : l.inClose = false := by
      cases hi : l.inClose with
      | false => rfl
      | true => exact absurd (h.inc hi) hc
    have hnt : l.tablesCleared = false := by
      cases ht : l.tablesCleared with
      | false => rfl
      | true => rw [h.tab ht] at hnc; cases hnc
    have := finishClose_flags r { l with closed := true } h.hook (fun hcl => by simp [hnc] at hcl)
    simp only [hc, Bool.false_eq_true, if_false]
    exact ⟨this.1, this.2.2.1, by rw [this.2.2.2.1, hni], fun _ => this.2.2.2.2.2.2⟩

theorem closeCall_lists (r : TryRes) (l : Life) :
    (closeCall r l).1.outcomes = l.outcomes ∧ (closeCall r l).1.fromPeer = l.fromPeer
    ∧ (closeCall r l).1.pending = l.pending ∧ (closeCall r l).1.blocked = l.blocked
    ∧ (closeCall r l).1.issued = l.issued := by
  unfold closeCall
  split
  · simp
  · simpa using finishClose_lists r { l with closed := true }

theorem closeCall_cleaned (r : TryRes) (l : Life) (h : Flags l) (hi : l.inClose = false) :
    (closeCall r l).1.cleaned = true := by
  have := closeCall_flags r l h
  exact this.1.done this.2.1 (by rw [this.2.2.1, hi])

/-- flags survive a change of the request lists only -/
theorem Flags.congr {l l' : Life} (h : Flags l) (h1 : l'.closed = l.closed) (h2 : l'.inClose = l.inClose)
    (h3 : l'.chanClosed = l.chanClosed) (h4 : l'.hookRuns = l.hookRuns) (h5 : l'.cleaned = l.cleaned)
    (h6 : l'.tablesCleared = l.tablesCleared) : Flags l' := by
  constructor
  · rw [h4, h5]; exact h.hook
  · rw [h5, h1, h3, h6]; exact h.cl
  · rw [h1, h2, h5]; exact h.done
  · rw [h2, h1]; exact h.inc
  · rw [h6, h5]; exact h.tab

theorem resolveBlocked_flags (res : Res) (l : Life) (h : Flags l) : Flags (resolveBlocked res l) :=
  h.congr rfl rfl rfl rfl rfl rfl

theorem resolveOne_flags (s : Nat) (res : Res) (l : Life) (h : Flags l) : Flags (resolveOne s res l) :=
  h.congr rfl rfl rfl rfl rfl rfl

theorem step_flags (l l' : Life) (e : Ev) (hs : step l e = some l') (h : Flags l) : Flags l' := by
  cases e with
  | closeBegin =>
    simp only [step] at hs
    split at hs
    · simp only [Option.some.injEq] at hs; subst hs; exact h
    · rename_i hc
      simp only [Option.some.injEq] at hs; subst hs
      have hnc : l.cleaned = false := by
        cases hcl : l.cleaned with
        | false => rfl
        | true => exact absurd (h.cl hcl).1 hc
      have hnt : l.tablesCleared = false := by
        cases ht : l.tablesCleared with
        | false => rfl
        | true => rw [h.tab ht] at hnc; cases hnc
      constructor
      · simpa using h.hook
      · intro hcl; simp [hnc] at hcl
      · intro _ hi; simp at hi
      · intro _; rfl
      · intro ht; simp [hnt] at ht
  | closeEnd r =>
    simp only [step] at hs
    split at hs
    · simp only [Option.some.injEq] at hs; subst hs
      exact (finishClose_flags r l h.hook (fun hc => (h.cl hc).2.2)).1
    · cases hs
  | recvClose =>
    simp only [step] at hs
    split at hs
    · cases hs
    · simp only [Option.some.injEq] at hs; subst hs
      apply resolveBlocked_flags
      have := cleanup_flags l h.hook (fun hc => (h.cl hc).2.2)
      exact flags_of_cleaned _ this.1 this.2.1 this.2.2.1 this.2.2.2.1 this.2.2.2.2.1
        (fun _ => this.2.1)
  | eofInServe r =>
    simp only [step] at hs
    simp only [Option.some.injEq] at hs; subst hs
    apply resolveBlocked_flags
    have h' : Flags { l with chanClosed := true } := by
      constructor
      · exact h.hook
      · intro hc; exact ⟨(h.cl hc).1, rfl, (h.cl hc).2.2⟩
      · exact h.done
      · exact h.inc
      · exact h.tab
    exact (closeCall_flags r _ h').1
  | failSendRequest s =>
    simp only [step] at hs
    split at hs
    · cases hs
    · simp only [Option.some.injEq] at hs; subst hs
      constructor
      · exact h.hook
      · intro hc; exact ⟨(h.cl hc).1, rfl, (h.cl hc).2.2⟩
      · exact h.done
      · exact h.inc
      · exact h.tab
  | failSendReply ref r =>
    simp only [step] at hs
    simp only [Option.some.injEq] at hs; subst hs
    apply resolveBlocked_flags
    have h' : Flags { l with chanClosed := true,
                             tablesCleared := l.tablesCleared && !boxRegisters l.chanClosed ref } := by
      constructor
      · exact h.hook
      · intro hc
        have := h.cl hc
        refine ⟨this.1, rfl, ?_⟩
        simp [this.2.1, this.2.2, boxRegisters, boxRefusesOnClosedChannel]
      · exact h.done
      · exact h.inc
      · intro ht
        simp only [Bool.and_eq_true] at ht
        exact h.tab ht.1
    exact (closeCall_flags r _ h').1
  | serveAllExit r =>
    simp only [step, Option.some.injEq] at hs; subst hs
    exact (closeCall_flags r l h).1
  | issue s refArg =>
    simp only [step] at hs
    split at hs
    · cases hs
    · split at hs
      · rename_i hch
        simp only [Option.some.injEq] at hs; subst hs
        constructor
        · exact h.hook
        · intro hc
          have := h.cl hc
          refine ⟨this.1, this.2.1, ?_⟩
          simp [this.2.2, boxRegisters, boxRefusesOnClosedChannel]
        · exact h.done
        · exact h.inc
        · intro ht
          simp only [Bool.and_eq_true] at ht
          exact h.tab ht.1
      · rename_i hch
        simp only [Option.some.injEq] at hs; subst hs
        constructor
        · exact h.hook
        · intro hc; exact absurd (h.cl hc).2.1 hch
        · exact h.done
        · exact h.inc
        · intro ht; simp at ht
  | wait s expired r =>
    simp only [step] at hs
    split at hs
    · simp only [Option.some.injEq] at hs; subst hs; exact h
    · split at hs
      · cases hs
      · split at hs
        · simp only [Option.some.injEq] at hs; subst hs; exact resolveOne_flags _ _ _ h
        · split at hs
          · simp only [Option.some.injEq] at hs; subst hs
            exact resolveOne_flags _ _ _ (closeCall_flags r l h).1
          · simp only [Option.some.injEq] at hs; subst hs
            exact h.congr rfl rfl rfl rfl rfl rfl
  | reply s v =>
    simp only [step] at hs
    split at hs
    · cases hs
    · simp only [Option.some.injEq] at hs; subst hs
      exact resolveOne_flags _ _ _ (h.congr rfl rfl rfl rfl rfl rfl)
  | timeout =>
    simp only [step] at hs
    split at hs
    · cases hs
    · simp only [Option.some.injEq] at hs; subst hs
      exact resolveOne_flags _ _ _ h

end Rpyc.Proto.Life
