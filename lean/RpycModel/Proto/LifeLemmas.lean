import RpycModel.Proto.Life
/-
Invariants of the lifecycle automaton (helper lemmas for `Props/C11.lean`).
-/
namespace Rpyc.Proto.Life

/-- the flag part of the invariant -/
structure Flags (l : Life) : Prop where
  /-- the hook has run once iff `_cleanup` has completed, and never twice -/
  hook : l.hookRuns = if l.cleaned then 1 else 0
  cl : l.cleaned = true → l.closed = true ∧ l.chanClosed = true ∧ l.tablesCleared = true
  /-- outside a `close()` call, closed means cleaned up -/
  done : l.closed = true → l.inClose = false → l.cleaned = true
  inc : l.inClose = true → l.closed = true
  tab : l.tablesCleared = true → l.cleaned = true

theorem flags_initWith (hr cr : Bool) : Flags (Life.initWith hr cr) := by
  constructor <;> simp [Life.initWith]

theorem flags_init : Flags Life.init := flags_initWith false false

/-- **obligation on the code** (measured on the live `Connection._cleanup`): when the stream's own close() raises,
the disconnect hook still runs and everything is still released -/
theorem cleanup_survives_channel_close_error : Gen.Proto.cleanupSurvivesChannelCloseError = true := by decide

/-- **obligation on the code** (measured on the live `Connection._dispatch`): a request made from inside the delivery of
a response that meets the end of the transport closes the connection -/
theorem dispatch_closes_on_eof : Gen.Proto.dispatchClosesOnEof = true := by decide

/-- obligation on the code (measured, `gen_proto.measure_cleanup_fails_pending`): `_cleanup` completes every request still
waiting for its answer with EOFError (result ready, an error, callbacks run; a failing callback stops nothing).  False = the
callbacks are dropped unfired and `ready` stays False for ever (`while not ar.ready:` never ends). -/
theorem cleanup_fails_pending : Gen.Proto.cleanupFailsPending = true := by decide

/-- obligation on the code (measured, `gen_proto.measure_box_refuses_on_closed_channel`): boxing by reference on a closed
channel raises EOFError and registers nothing.  False = the object would be held for a peer that can never release it. -/
theorem box_refuses_on_closed_channel : boxRefusesOnClosedChannel = true := by decide

/-- **obligation on the code** (measured): a second `_cleanup` on the same connection returns quietly -/
theorem cleanup_idempotent : Gen.Proto.cleanupIdempotent = true := by decide

theorem cleanup_flags (l : Life) (hhook : l.hookRuns = if l.cleaned then 1 else 0)
    (htab : l.cleaned = true → l.tablesCleared = true) :
    (cleanup l).1.cleaned = true ∧ (cleanup l).1.closed = true ∧ (cleanup l).1.chanClosed = true
    ∧ (cleanup l).1.tablesCleared = true ∧ (cleanup l).1.hookRuns = 1 ∧ (cleanup l).1.inClose = l.inClose := by
  unfold cleanup
  simp only [cleanup_survives_channel_close_error, Bool.not_true, Bool.and_false, Bool.false_eq_true, if_false]
  by_cases hc : l.cleaned = true
  · have := htab hc
    have hh := hhook
    simp [hc] at hh ⊢
    exact ⟨this, hh⟩
  · have hh := hhook
    simp [hc] at hh ⊢
    omega

theorem cleanup_lists (l : Life) :
    (cleanup l).1.outcomes = l.outcomes ∧ (cleanup l).1.fromPeer = l.fromPeer ∧ (cleanup l).1.pending = l.pending
    ∧ (cleanup l).1.blocked = l.blocked ∧ (cleanup l).1.issued = l.issued
    ∧ (cleanup l).1.closeRaised = l.closeRaised := by
  unfold cleanup
  split
  · simp
  · split <;> simp

/-- a second `_cleanup` never raises AttributeError -/
theorem cleanup_no_attribute_error (l : Life) : (cleanup l).2 ≠ some .attributeError := by
  unfold cleanup
  simp only [cleanup_idempotent, if_true]
  split
  · simp
  · split
    · simp
    · split
      · simp
      · split <;> simp

theorem flags_of_cleaned (l : Life) (hc : l.cleaned = true) (hcl : l.closed = true) (hch : l.chanClosed = true)
    (ht : l.tablesCleared = true) (hh : l.hookRuns = 1) (hi : l.inClose = true → l.closed = true) : Flags l := by
  constructor
  · simp [hc, hh]
  · intro _; exact ⟨hcl, hch, ht⟩
  · intro _ _; exact hc
  · exact hi
  · intro _; exact hc

theorem finishClose_fst (r : TryRes) (l : Life) : (finishClose r l).1 = { (cleanup l).1 with inClose := false } := by
  unfold finishClose
  rcases hcu : cleanup l with ⟨l', e⟩
  cases e with
  | some e => rfl
  | none =>
    cases r with
    | sent => rfl
    | eof => rfl
    | hookRaised c => cases c <;> rfl

theorem finishClose_flags (r : TryRes) (l : Life) (hhook : l.hookRuns = if l.cleaned then 1 else 0)
    (htab : l.cleaned = true → l.tablesCleared = true) :
    Flags (finishClose r l).1 ∧ (finishClose r l).1.cleaned = true ∧ (finishClose r l).1.closed = true
    ∧ (finishClose r l).1.inClose = false ∧ (finishClose r l).1.hookRuns = 1
    ∧ (finishClose r l).1.tablesCleared = true ∧ (finishClose r l).1.chanClosed = true := by
  obtain ⟨h1, h2, h3, h4, h5, _⟩ := cleanup_flags l hhook htab
  rw [finishClose_fst]
  exact ⟨flags_of_cleaned _ h1 h2 h3 h4 h5 (fun _ => h2), h1, h2, rfl, h5, h4, h3⟩

theorem finishClose_lists (r : TryRes) (l : Life) :
    (finishClose r l).1.outcomes = l.outcomes ∧ (finishClose r l).1.fromPeer = l.fromPeer
    ∧ (finishClose r l).1.pending = l.pending ∧ (finishClose r l).1.blocked = l.blocked
    ∧ (finishClose r l).1.issued = l.issued := by
  have hl := cleanup_lists l
  rw [finishClose_fst]
  exact ⟨hl.1, hl.2.1, hl.2.2.1, hl.2.2.2.1, hl.2.2.2.2.1⟩

/-- `close()` never raises AttributeError -/
theorem finishClose_no_attribute_error (r : TryRes) (l : Life) : (finishClose r l).2 ≠ some .attributeError := by
  have h := cleanup_no_attribute_error l
  unfold finishClose
  rcases hcu : cleanup l with ⟨l', e⟩
  rw [hcu] at h
  cases e with
  | some e => simpa using h
  | none =>
    cases r with
    | sent => simp
    | eof => simp
    | hookRaised c => cases c <;> simp

/-- a `close()` the connection calls itself: afterwards the side is closed; outside another `close()` call it
is also cleaned up -/
theorem closeCall_flags (r : TryRes) (l : Life) (h : Flags l) :
    Flags (closeCall r l).1 ∧ (closeCall r l).1.closed = true ∧ (closeCall r l).1.inClose = l.inClose
    ∧ (l.chanClosed = true → (closeCall r l).1.chanClosed = true) := by
  unfold closeCall
  by_cases hc : l.closed = true
  · simp [hc, h]
  · have hnc : l.cleaned = false := by
      cases hcl : l.cleaned with
      | false => rfl
      | true => exact absurd (h.cl hcl).1 hc
    have hni : l.inClose = false := by
      cases hi : l.inClose with
      | false => rfl
      | true => exact absurd (h.inc hi) hc
    have hnt : l.tablesCleared = false := by
      cases ht : l.tablesCleared with
      | false => rfl
      | true => rw [h.tab ht] at hnc; cases hnc
    have := finishClose_flags r { l with closed := true } h.hook (fun hcl => by simp [hnc] at hcl)
    simp only [hc, Bool.false_eq_true, if_false]
    exact ⟨this.1, this.2.2.1, by rw [this.2.2.2.1, hni], fun _ => this.2.2.2.2.2.2⟩

theorem closeCall_lists (r : TryRes) (l : Life) :
    (closeCall r l).1.outcomes = l.outcomes ∧ (closeCall r l).1.fromPeer = l.fromPeer
    ∧ (closeCall r l).1.pending = l.pending ∧ (closeCall r l).1.blocked = l.blocked
    ∧ (closeCall r l).1.issued = l.issued := by
  unfold closeCall
  split
  · simp
  · simpa using finishClose_lists r { l with closed := true }

theorem closeCall_cleaned (r : TryRes) (l : Life) (h : Flags l) (hi : l.inClose = false) :
    (closeCall r l).1.cleaned = true := by
  have := closeCall_flags r l h
  exact this.1.done this.2.1 (by rw [this.2.2.1, hi])

/-- flags survive a change of the request lists only -/
theorem Flags.congr {l l' : Life} (h : Flags l) (h1 : l'.closed = l.closed) (h2 : l'.inClose = l.inClose)
    (h3 : l'.chanClosed = l.chanClosed) (h4 : l'.hookRuns = l.hookRuns) (h5 : l'.cleaned = l.cleaned)
    (h6 : l'.tablesCleared = l.tablesCleared) : Flags l' := by
  constructor
  · rw [h4, h5]; exact h.hook
  · rw [h5, h1, h3, h6]; exact h.cl
  · rw [h1, h2, h5]; exact h.done
  · rw [h2, h1]; exact h.inc
  · rw [h6, h5]; exact h.tab

theorem resolveBlocked_flags (res : Res) (l : Life) (h : Flags l) : Flags (resolveBlocked res l) :=
  h.congr rfl rfl rfl rfl rfl rfl

theorem resolveOne_flags (s : Nat) (res : Res) (l : Life) (h : Flags l) : Flags (resolveOne s res l) :=
  h.congr rfl rfl rfl rfl rfl rfl

theorem step_flags (l l' : Life) (e : Ev) (hs : step l e = some l') (h : Flags l) : Flags l' := by
  cases e with
  | closeBegin =>
    simp only [step] at hs
    split at hs
    · simp only [Option.some.injEq] at hs; subst hs; exact h
    · rename_i hc
      simp only [Option.some.injEq] at hs; subst hs
      have hnc : l.cleaned = false := by
        cases hcl : l.cleaned with
        | false => rfl
        | true => exact absurd (h.cl hcl).1 hc
      have hnt : l.tablesCleared = false := by
        cases ht : l.tablesCleared with
        | false => rfl
        | true => rw [h.tab ht] at hnc; cases hnc
      constructor
      · simpa using h.hook
      · intro hcl; simp [hnc] at hcl
      · intro _ hi; simp at hi
      · intro _; rfl
      · intro ht; simp [hnt] at ht
  | closeEnd r =>
    simp only [step] at hs
    split at hs
    · simp only [Option.some.injEq] at hs; subst hs
      exact (finishClose_flags r l h.hook (fun hc => (h.cl hc).2.2)).1.congr rfl rfl rfl rfl rfl rfl
    · cases hs
  | recvClose =>
    simp only [step] at hs
    split at hs
    · cases hs
    · simp only [Option.some.injEq] at hs; subst hs
      apply resolveBlocked_flags
      have := cleanup_flags l h.hook (fun hc => (h.cl hc).2.2)
      exact flags_of_cleaned _ this.1 this.2.1 this.2.2.1 this.2.2.2.1 this.2.2.2.2.1
        (fun _ => this.2.1)
  | eofInServe r =>
    simp only [step] at hs
    simp only [Option.some.injEq] at hs; subst hs
    apply resolveBlocked_flags
    have h' : Flags { l with chanClosed := true } := by
      constructor
      · exact h.hook
      · intro hc; exact ⟨(h.cl hc).1, rfl, (h.cl hc).2.2⟩
      · exact h.done
      · exact h.inc
      · exact h.tab
    exact (closeCall_flags r _ h').1
  | failSendRequest s =>
    simp only [step] at hs
    split at hs
    · cases hs
    · simp only [Option.some.injEq] at hs; subst hs
      constructor
      · exact h.hook
      · intro hc; exact ⟨(h.cl hc).1, rfl, (h.cl hc).2.2⟩
      · exact h.done
      · exact h.inc
      · exact h.tab
  | failSendNested s r =>
    simp only [step, dispatch_closes_on_eof, if_true] at hs
    split at hs
    · cases hs
    · simp only [Option.some.injEq] at hs; subst hs
      apply resolveBlocked_flags
      have h' : Flags { l with issued := l.issued ++ [s], chanClosed := true, outcomes := l.outcomes ++ [(s, .eof)] } := by
        constructor
        · exact h.hook
        · intro hc; exact ⟨(h.cl hc).1, rfl, (h.cl hc).2.2⟩
        · exact h.done
        · exact h.inc
        · exact h.tab
      exact (closeCall_flags r _ h').1
  | failSendReply ref r =>
    simp only [step] at hs
    simp only [Option.some.injEq] at hs; subst hs
    apply resolveBlocked_flags
    have h' : Flags { l with chanClosed := true,
                             tablesCleared := l.tablesCleared && !boxRegisters l.chanClosed ref } := by
      constructor
      · exact h.hook
      · intro hc
        have := h.cl hc
        refine ⟨this.1, rfl, ?_⟩
        simp [this.2.1, this.2.2, boxRegisters, box_refuses_on_closed_channel]
      · exact h.done
      · exact h.inc
      · intro ht
        simp only [Bool.and_eq_true] at ht
        exact h.tab ht.1
    exact (closeCall_flags r _ h').1
  | serveAllExit r =>
    simp only [step, Option.some.injEq] at hs; subst hs
    exact (closeCall_flags r l h).1
  | issue s refArg =>
    simp only [step] at hs
    split at hs
    · cases hs
    · split at hs
      · rename_i hch
        simp only [Option.some.injEq] at hs; subst hs
        constructor
        · exact h.hook
        · intro hc
          have := h.cl hc
          refine ⟨this.1, this.2.1, ?_⟩
          simp [this.2.2, boxRegisters, box_refuses_on_closed_channel]
        · exact h.done
        · exact h.inc
        · intro ht
          simp only [Bool.and_eq_true] at ht
          exact h.tab ht.1
      · rename_i hch
        simp only [Option.some.injEq] at hs; subst hs
        constructor
        · exact h.hook
        · intro hc; exact absurd (h.cl hc).2.1 hch
        · exact h.done
        · exact h.inc
        · intro ht; simp at ht
  | wait s expired r =>
    simp only [step] at hs
    split at hs
    · simp only [Option.some.injEq] at hs; subst hs; exact h
    · split at hs
      · cases hs
      · split at hs
        · simp only [Option.some.injEq] at hs; subst hs; exact resolveOne_flags _ _ _ h
        · split at hs
          · simp only [Option.some.injEq] at hs; subst hs
            exact resolveOne_flags _ _ _ (closeCall_flags r l h).1
          · simp only [Option.some.injEq] at hs; subst hs
            exact h.congr rfl rfl rfl rfl rfl rfl
  | reply s v =>
    simp only [step] at hs
    split at hs
    · cases hs
    · simp only [Option.some.injEq] at hs; subst hs
      exact resolveOne_flags _ _ _ (h.congr rfl rfl rfl rfl rfl rfl)
  | timeout =>
    simp only [step] at hs
    split at hs
    · cases hs
    · simp only [Option.some.injEq] at hs; subst hs
      exact resolveOne_flags _ _ _ h

/-! ### values come only from the peer -/

/-- every value a requester was given is a response received from the peer for that very request -/
def Vals (l : Life) : Prop := ∀ s v, (s, Res.value v) ∈ l.outcomes → (s, v) ∈ l.fromPeer

/-- the step gave nobody a value -/
def NoNewValues (l l' : Life) : Prop :=
  l'.fromPeer = l.fromPeer ∧ ∀ s v, (s, Res.value v) ∈ l'.outcomes → (s, Res.value v) ∈ l.outcomes

theorem excRes_not_value (b : Bool) (v : Nat) : excRes b ≠ Res.value v := by
  cases b <;> simp [excRes]

theorem excRes_isValue (b : Bool) : (excRes b).isValue = false := by
  cases b <;> rfl

theorem resolveBlocked_nnv (res : Res) (l : Life) (hres : ∀ v, res ≠ Res.value v) :
    NoNewValues l (resolveBlocked res l) := by
  refine ⟨rfl, ?_⟩
  intro s v hm
  simp only [resolveBlocked, List.mem_append] at hm
  rcases hm with hm | hm
  · exact hm
  · exfalso
    cases hb : l.blocked with
    | nil => rw [hb] at hm; simp [releaseAll] at hm
    | cons t rest =>
      rw [hb] at hm
      simp only [releaseAll, List.mem_cons, List.mem_map, Prod.mk.injEq] at hm
      rcases hm with ⟨_, h2⟩ | ⟨u, _, _, h2⟩
      · exact hres v h2.symm
      · cases h2

theorem resolveOne_nnv (t : Nat) (res : Res) (l : Life) (hres : ∀ v, res ≠ Res.value v) :
    NoNewValues l (resolveOne t res l) := by
  refine ⟨rfl, ?_⟩
  intro s v hm
  simp only [resolveOne, List.mem_append, List.mem_singleton, Prod.mk.injEq] at hm
  rcases hm with hm | hm
  · exact hm
  · exact absurd hm.2.symm (hres v)

theorem NoNewValues.trans {a b c : Life} (h1 : NoNewValues a b) (h2 : NoNewValues b c) : NoNewValues a c :=
  ⟨h2.1.trans h1.1, fun s v hm => h1.2 s v (h2.2 s v hm)⟩

theorem nnv_of_lists {l l' : Life} (h1 : l'.outcomes = l.outcomes) (h2 : l'.fromPeer = l.fromPeer) :
    NoNewValues l l' := ⟨h2, fun s v hm => by rw [h1] at hm; exact hm⟩

theorem closeCall_nnv (r : TryRes) (l : Life) : NoNewValues l (closeCall r l).1 :=
  nnv_of_lists (closeCall_lists r l).1 (closeCall_lists r l).2.1

theorem nnv_close_resolve (r : TryRes) (l0 l1 : Life) (h : NoNewValues l0 l1) :
    NoNewValues l0 (resolveBlocked (excRes (closeCall r l1).2) (closeCall r l1).1) :=
  (h.trans (closeCall_nnv r l1)).trans (resolveBlocked_nnv _ _ (excRes_not_value _))

/-- only the receipt of a response gives a requester a value -/
theorem step_nnv (l l' : Life) (e : Ev) (hs : step l e = some l') (hne : ∀ s v, e ≠ .reply s v) :
    NoNewValues l l' := by
  cases e with
  | closeBegin =>
    simp only [step] at hs
    split at hs <;> (simp only [Option.some.injEq] at hs; subst hs; exact nnv_of_lists rfl rfl)
  | closeEnd r =>
    simp only [step] at hs
    split at hs
    · simp only [Option.some.injEq] at hs; subst hs
      exact nnv_of_lists (l' := { (finishClose r l).1 with
          closeRaised := (finishClose r l).1.closeRaised ++ (finishClose r l).2.toList })
        (finishClose_lists r l).1 (finishClose_lists r l).2.1
    · cases hs
  | recvClose =>
    simp only [step] at hs
    split at hs
    · cases hs
    · simp only [Option.some.injEq] at hs; subst hs
      exact (nnv_of_lists (cleanup_lists l).1 (cleanup_lists l).2.1).trans
        (resolveBlocked_nnv _ _ (by intro v; simp))
  | eofInServe r =>
    simp only [step, Option.some.injEq] at hs; subst hs
    exact nnv_close_resolve r l _ (nnv_of_lists rfl rfl)
  | failSendRequest s =>
    simp only [step] at hs
    split at hs
    · cases hs
    · simp only [Option.some.injEq] at hs; subst hs
      refine ⟨rfl, ?_⟩
      intro t v hm
      simp only [List.mem_append, List.mem_singleton, Prod.mk.injEq] at hm
      rcases hm with hm | hm
      · exact hm
      · cases hm.2
  | failSendNested s r =>
    simp only [step, dispatch_closes_on_eof, if_true] at hs
    split at hs
    · cases hs
    · simp only [Option.some.injEq] at hs; subst hs
      refine nnv_close_resolve r l _ ⟨rfl, ?_⟩
      intro t v hm
      simp only [List.mem_append, List.mem_singleton, Prod.mk.injEq] at hm
      rcases hm with hm | hm
      · exact hm
      · cases hm.2
  | failSendReply ref r =>
    simp only [step, Option.some.injEq] at hs; subst hs
    exact nnv_close_resolve r l _ (nnv_of_lists rfl rfl)
  | serveAllExit r =>
    simp only [step, Option.some.injEq] at hs; subst hs
    exact closeCall_nnv r l
  | issue s refArg =>
    simp only [step] at hs
    split at hs
    · cases hs
    · split at hs
      · simp only [Option.some.injEq] at hs; subst hs
        refine ⟨rfl, ?_⟩
        intro t v hm
        simp only [List.mem_append, List.mem_singleton, Prod.mk.injEq] at hm
        rcases hm with hm | hm
        · exact hm
        · cases hm.2
      · simp only [Option.some.injEq] at hs; subst hs
        exact nnv_of_lists rfl rfl
  | wait s expired r =>
    simp only [step] at hs
    split at hs
    · simp only [Option.some.injEq] at hs; subst hs; exact nnv_of_lists rfl rfl
    · split at hs
      · cases hs
      · split at hs
        · simp only [Option.some.injEq] at hs; subst hs
          exact resolveOne_nnv _ _ _ (by intro v; simp)
        · split at hs
          · simp only [Option.some.injEq] at hs; subst hs
            exact (closeCall_nnv r l).trans (resolveOne_nnv _ _ _ (excRes_not_value _))
          · simp only [Option.some.injEq] at hs; subst hs
            exact nnv_of_lists rfl rfl
  | reply s v => exact absurd rfl (hne s v)
  | timeout =>
    simp only [step] at hs
    split at hs
    · cases hs
    · simp only [Option.some.injEq] at hs; subst hs
      exact resolveOne_nnv _ _ _ (by intro v; simp)

theorem step_vals (l l' : Life) (e : Ev) (hs : step l e = some l') (h : Vals l) : Vals l' := by
  by_cases hr : ∃ s v, e = .reply s v
  · obtain ⟨s, v, rfl⟩ := hr
    simp only [step] at hs
    split at hs
    · cases hs
    · simp only [Option.some.injEq] at hs; subst hs
      intro t w hm
      simp only [resolveOne, List.mem_append, List.mem_singleton, Prod.mk.injEq] at hm ⊢
      rcases hm with hm | hm
      · exact Or.inl (h t w hm)
      · have : w = v := by injection hm.2
        exact Or.inr ⟨hm.1, this⟩
  · have hn := step_nnv l l' e hs (fun s v he => hr ⟨s, v, he⟩)
    intro t w hm
    rw [hn.1]
    exact h t w (hn.2 t w hm)

/-! ### reachable states -/

structure Inv (l : Life) : Prop where
  flags : Flags l
  vals : Vals l

theorem inv_initWith (hr cr : Bool) : Inv (Life.initWith hr cr) :=
  ⟨flags_initWith hr cr, by intro s v hm; simp [Life.initWith] at hm⟩

theorem inv_init : Inv Life.init := inv_initWith false false

theorem step_inv (l l' : Life) (e : Ev) (hs : step l e = some l') (h : Inv l) : Inv l' :=
  ⟨step_flags l l' e hs h.flags, step_vals l l' e hs h.vals⟩

theorem run_inv (es : List Ev) : ∀ (l l' : Life), run l es = some l' → Inv l → Inv l' := by
  induction es with
  | nil => intro l l' h hi; simp only [run, Option.some.injEq] at h; subst h; exact hi
  | cons e es ih =>
    intro l l' h hi
    simp only [run] at h
    split at h
    · rename_i l1 hl1
      exact ih l1 l' h (step_inv l l1 e hl1 hi)
    · cases h

/-- reachable from the initial state — whether this side's disconnect hook returns or raises, whether its stream closes
quietly or its close() raises -/
def Reach (l : Life) : Prop := ∃ hookRaises chanCloseRaises es, run (Life.initWith hookRaises chanCloseRaises) es = some l

theorem Reach.inv {l : Life} (h : Reach l) : Inv l := by
  obtain ⟨hk, ck, es, hr⟩ := h
  exact run_inv es _ _ hr (inv_initWith hk ck)

/-! ### nobody stays blocked -/

/-- every waiter that was blocked has been released — the innermost with `res`, the enclosing ones with `res` or
EOFError — and nobody is blocked any more -/
def Released (res : Res) (l l' : Life) : Prop :=
  l'.blocked = [] ∧ ∀ s, s ∈ l.blocked → ((s, res) ∈ l'.outcomes ∨ (s, Res.eof) ∈ l'.outcomes) ∧ s ∉ l'.pending

theorem mem_releaseAll (res : Res) (bl : List Nat) (s : Nat) (hs : s ∈ bl) :
    (s, res) ∈ releaseAll res bl ∨ (s, Res.eof) ∈ releaseAll res bl := by
  cases bl with
  | nil => cases hs
  | cons t rest =>
    simp only [List.mem_cons] at hs
    rcases hs with rfl | hs
    · exact Or.inl (by simp [releaseAll])
    · refine Or.inr ?_
      simp only [releaseAll, List.mem_cons, List.mem_map]
      exact Or.inr ⟨s, hs, rfl⟩

theorem resolveBlocked_released (res : Res) (l : Life) : Released res l (resolveBlocked res l) := by
  refine ⟨rfl, ?_⟩
  intro s hs
  constructor
  · rcases mem_releaseAll res l.blocked s hs with h | h
    · exact Or.inl (by simp only [resolveBlocked, List.mem_append]; exact Or.inr h)
    · exact Or.inr (by simp only [resolveBlocked, List.mem_append]; exact Or.inr h)
  · simp only [resolveBlocked, List.mem_filter, not_and]
    intro _
    simp [hs]

theorem released_of_blocked_eq {res : Res} {l0 l1 l' : Life} (hb : l1.blocked = l0.blocked)
    (h : Released res l1 l') : Released res l0 l' :=
  ⟨h.1, fun s hs => h.2 s (by rw [hb]; exact hs)⟩

theorem close_resolve_released (r : TryRes) (l0 l1 : Life) (hb : l1.blocked = l0.blocked) :
    Released (excRes (closeCall r l1).2) l0 (resolveBlocked (excRes (closeCall r l1).2) (closeCall r l1).1) :=
  released_of_blocked_eq ((closeCall_lists r l1).2.2.2.1.trans hb) (resolveBlocked_released _ _)

theorem step_chanClosed (l l' : Life) (e : Ev) (hs : step l e = some l') (hi : Flags l) (hc : l.chanClosed = true) :
    l'.chanClosed = true := by
  cases e with
  | closeBegin =>
    simp only [step] at hs
    split at hs <;> (simp only [Option.some.injEq] at hs; subst hs; exact hc)
  | closeEnd r =>
    simp only [step] at hs
    split at hs
    · simp only [Option.some.injEq] at hs; subst hs
      exact (finishClose_flags r l hi.hook (fun h => (hi.cl h).2.2)).2.2.2.2.2.2
    · cases hs
  | recvClose =>
    simp only [step, hc, Bool.true_or, if_true] at hs
    cases hs
  | eofInServe r =>
    simp only [step, Option.some.injEq] at hs; subst hs
    have h' : Flags { l with chanClosed := true } := hi.congr rfl rfl (by simp [hc]) rfl rfl rfl
    exact (closeCall_flags r _ h').2.2.2 rfl
  | failSendRequest s =>
    simp only [step] at hs
    split at hs
    · cases hs
    · simp only [Option.some.injEq] at hs; subst hs; rfl
  | failSendNested s r =>
    simp only [step, dispatch_closes_on_eof, if_true] at hs
    split at hs
    · cases hs
    · simp only [Option.some.injEq] at hs; subst hs
      have h' : Flags { l with issued := l.issued ++ [s], chanClosed := true, outcomes := l.outcomes ++ [(s, .eof)] } :=
        hi.congr rfl rfl (by simp [hc]) rfl rfl rfl
      exact (closeCall_flags r _ h').2.2.2 rfl
  | failSendReply ref r =>
    simp only [step, Option.some.injEq] at hs; subst hs
    have h' : Flags { l with chanClosed := true, tablesCleared := l.tablesCleared && !boxRegisters l.chanClosed ref } := by
      refine hi.congr rfl rfl ?_ rfl rfl ?_
      · simp [hc]
      · simp [hc, boxRegisters, box_refuses_on_closed_channel]
    exact (closeCall_flags r _ h').2.2.2 rfl
  | serveAllExit r =>
    simp only [step, Option.some.injEq] at hs; subst hs
    exact (closeCall_flags r l hi).2.2.2 hc
  | issue s refArg =>
    simp only [step] at hs
    split at hs
    · cases hs
    · simp only [Option.some.injEq] at hs; subst hs; exact hc
  | wait s expired r =>
    simp only [step] at hs
    split at hs
    · simp only [Option.some.injEq] at hs; subst hs; exact hc
    · split at hs
      · cases hs
      · split at hs
        · simp only [Option.some.injEq] at hs; subst hs; exact hc
        · simp only [Option.some.injEq] at hs; subst hs
          exact (closeCall_flags r l hi).2.2.2 hc
  | reply s v =>
    simp only [step, hc, Bool.true_or, if_true] at hs
    cases hs
  | timeout =>
    simp only [step] at hs
    split at hs
    · cases hs
    · simp only [Option.some.injEq] at hs; subst hs; exact hc

theorem filter_length_le (p : Nat → Bool) (xs : List Nat) : (xs.filter p).length ≤ xs.length :=
  List.length_filter_le p xs

/-- once the channel is closed no event makes anybody block -/
theorem step_no_new_block (l l' : Life) (e : Ev) (hs : step l e = some l') (hc : l.chanClosed = true) :
    l'.blocked.length ≤ l.blocked.length := by
  cases e with
  | closeBegin =>
    simp only [step] at hs
    split at hs <;> (simp only [Option.some.injEq] at hs; subst hs; exact Nat.le_refl _)
  | closeEnd r =>
    simp only [step] at hs
    split at hs
    · simp only [Option.some.injEq] at hs; subst hs
      show (finishClose r l).1.blocked.length ≤ l.blocked.length
      rw [(finishClose_lists r l).2.2.2.1]; exact Nat.le_refl _
    · cases hs
  | recvClose =>
    simp only [step, hc, Bool.true_or, if_true] at hs
    cases hs
  | eofInServe r =>
    simp only [step, Option.some.injEq] at hs; subst hs
    simp [resolveBlocked]
  | failSendRequest s =>
    simp only [step] at hs
    split at hs
    · cases hs
    · simp only [Option.some.injEq] at hs; subst hs; exact Nat.le_refl _
  | failSendNested s r =>
    simp only [step, dispatch_closes_on_eof, if_true] at hs
    split at hs
    · cases hs
    · simp only [Option.some.injEq] at hs; subst hs
      simp [resolveBlocked]
  | failSendReply ref r =>
    simp only [step, Option.some.injEq] at hs; subst hs
    simp [resolveBlocked]
  | serveAllExit r =>
    simp only [step, Option.some.injEq] at hs; subst hs
    rw [(closeCall_lists r l).2.2.2.1]; exact Nat.le_refl _
  | issue s refArg =>
    simp only [step] at hs
    split at hs
    · cases hs
    · simp only [Option.some.injEq] at hs; subst hs; exact Nat.le_refl _
  | wait s expired r =>
    simp only [step] at hs
    split at hs
    · simp only [Option.some.injEq] at hs; subst hs; exact Nat.le_refl _
    · split at hs
      · cases hs
      · split at hs
        · simp only [Option.some.injEq] at hs; subst hs
          exact filter_length_le _ _
        · simp only [Option.some.injEq] at hs; subst hs
          simp only [resolveOne]
          rw [(closeCall_lists r l).2.2.2.1]
          exact filter_length_le _ _
  | reply s v =>
    simp only [step, hc, Bool.true_or, if_true] at hs
    cases hs
  | timeout =>
    simp only [step] at hs
    split at hs
    · cases hs
    · simp only [Option.some.injEq] at hs; subst hs
      exact filter_length_le _ _

/-- what "cleanly closed" means -/
structure Clean (l : Life) : Prop where
  closed : l.closed = true
  notInClose : l.inClose = false
  hookOnce : l.hookRuns = 1
  tables : l.tablesCleared = true
  channel : l.chanClosed = true

theorem reach_step {l l' : Life} {e : Ev} (h : Reach l) (hs : step l e = some l') : Reach l' := by
  obtain ⟨hk, ck, es, hr⟩ := h
  refine ⟨hk, ck, es ++ [e], ?_⟩
  have key : ∀ (es : List Ev) (t : Life), run t es = some l → run t (es ++ [e]) = some l' := by
    intro es
    induction es with
    | nil => intro t ht; simp only [run, Option.some.injEq] at ht; subst ht; simp [run, hs]
    | cons e' es ih =>
      intro t ht
      simp only [run, List.cons_append] at ht ⊢
      split at ht
      · rename_i t1 ht1
        first | rw [ht1] | skip
        exact ih t1 ht
      · cases ht
  exact key es _ hr

end Rpyc.Proto.Life
