import RpycModel.Gen.Netref
import RpycModel.Brine.Model
/-
L6 `Calls` — a remote call computes what a local call would (C01).

A *call-tree language*: a program is a table of functions, each owned by side A or side B.  A body is a
block of statements

    x ← call f(args, kwargs)   |   try block catch cls block   |   return e   |   raise cls(args)

over expressions (constants, local variables, positional / keyword parameters, tuple construction) whose
values are `PyVal`s: an immutable value (`imm`, a brine value), a tuple holding at least one non-value
(`tup`), or a reference to an object that lives on one side (`ref owner id`; the functions of the program
are the objects `ref owner index`, every other reference is an opaque non-callable object such as a list).
Every function bumps its own invocation counter when it is entered.

One evaluator, two modes.  `Mode.loc` is the program run in ONE process: every call is a direct call.
`Mode.dist` is the program spread over the two peers of a connection: a call to a function owned by the
current side is a direct call, a call to a function owned by the other side takes the path of the code:

  netref `__call__`            `syncreq(_self, HANDLE_CALL, args, tuple(kwargs.items()))`
  `Connection._async_request`  `_box((proxy, args, kwargs))`, `_send(MSG_REQUEST, seq, (handler, boxed))`
  `brine.dump` / `brine.load`  (the model of C04: `Rpyc.Brine.dump/load`)
  `Connection._dispatch`       `msg, seq, args = load(data)`; `_dispatch_request`: `handler, args = raw_args`,
                               `_unbox(args)` (two passes: `_resolve_local_refs` looks up every LOCAL_REF of the
                               package first, then proxies are created), `self._HANDLERS[handler](self, *args)`
  `Connection._handle_call`    `obj(*args, **dict(kwargs))`
  reply                        `_send(MSG_REPLY, seq, _box(res))`, or — the handler raised, or the result
                               cannot be serialized — `_send(MSG_EXCEPTION, seq, vinegar.dump(...))`
  requester                    `_unbox(args)` / `vinegar.load(args)` and raise

nested to any depth in both directions (the callee may call back into the caller while the caller waits).

What is abstracted: sequence numbers and the routing of replies to waiters (C08's ledger; the big-step
structure pairs a request with its reply, the `seq` slot of a message holds 0); the proxy cache and reference
counts (C10/C03: the owner's table only grows here — "monotone tables"); `get_id_pack` (an object is its
`Nat` key; class part of the id pack is a constant); of an exception only class name and `args` travel
(attributes, traceback text, version: C09), a non-serializable member of `args` is replaced by `repr`,
supplied as the parameter `Params.reprOf`; a connection that is already closed (`_box` then raises EOFError
instead of lending an object) is C11's.
-/
namespace Rpyc.Calls
open Rpyc Rpyc.Brine



inductive Side where
  | A | B
  deriving DecidableEq, Repr, Inhabited

def Side.other : Side → Side
  | .A => .B
  | .B => .A

/-- Python `str` as code points -/
abbrev Name := List Nat

/-- what a Python object is to the protocol: a brine value, a tuple holding some non-value, or an object
that lives on `owner`'s side (a proxy of it on the other side denotes the same `ref`) -/
inductive PyVal where
  | imm (v : Val)
  | tup (xs : List PyVal)
  | ref (owner : Side) (id : Nat)
  deriving Repr, Inhabited

/-- the brine values of a list all of whose members are values (`brine.dumpable` of a tuple) -/
def allImm? : List PyVal → Option (List Val)
  | [] => some []
  | .imm v :: xs => match allImm? xs with
    | some vs => some (v :: vs)
    | none => none
  | _ :: _ => none

/-- the Python tuple of these members: a value if every member is one -/
def mkTup (xs : List PyVal) : PyVal :=
  match allImm? xs with
  | some vs => .imm (.tuple vs)
  | none => .tup xs

/-! ### constants of the wire protocol (generated) -/

def lblValue : Int := Gen.Netref.labelValue
def lblTuple : Int := Gen.Netref.labelTuple
def lblLocalRef : Int := Gen.Netref.labelLocalRef
def lblRemoteRef : Int := Gen.Netref.labelRemoteRef
def msgRequest : Int := Gen.Netref.msgRequest
def msgReply : Int := Gen.Netref.msgReply
def msgException : Int := Gen.Netref.msgException
def hCall : Int := Gen.Netref.handleCall
def excStopIteration : Int := Gen.Netref.excStopIteration

inductive Label where
  | value | tuple | localRef | remoteRef
  deriving DecidableEq, Repr

/-- `label == consts.LABEL_*`, in `_unbox`'s order -/
def labelOf : Val → Option Label
  | .int i =>
    if i = lblValue then some .value
    else if i = lblTuple then some .tuple
    else if i = lblLocalRef then some .localRef
    else if i = lblRemoteRef then some .remoteRef
    else none
  | _ => none

inductive MsgType where
  | request | reply | exception
  deriving DecidableEq, Repr

/-- `msg == consts.MSG_*`, in `_dispatch`'s order -/
def msgTypeOf : Val → Option MsgType
  | .int i =>
    if i = msgRequest then some .request
    else if i = msgReply then some .reply
    else if i = msgException then some .exception
    else none
  | _ => none

/-! ### boxing (`Connection._box` / `_unbox`) -/

/-- `get_id_pack(obj)` = (name pack, class id, instance id); only the instance key is modelled -/
def idPack (k : Nat) : Val := .tuple [.str [], .int 0, .int (k : Int)]

/-- the instance key of an id pack: `value[2]` -/
def unIdPack : Val → Option Nat
  | .tuple [_, _, .int i] => if 0 ≤ i then some i.toNat else none
  | _ => none

mutual
/-- `_box` at side `s`: `brine.dumpable` → VALUE; exact tuple → TUPLE of boxed members; a proxy of the
peer's object (`owner ≠ s`) → LOCAL_REF; any other object → REMOTE_REF (and it enters `s`'s table: `lent`) -/
def box (s : Side) : PyVal → Val
  | .imm v => .tuple [.int lblValue, v]
  | .tup xs => match allImm? xs with
    | some vs => .tuple [.int lblValue, .tuple vs]
    | none => .tuple [.int lblTuple, .tuple (boxL s xs)]
  | .ref o k => if o = s then .tuple [.int lblRemoteRef, idPack k] else .tuple [.int lblLocalRef, idPack k]
def boxL (s : Side) : List PyVal → List Val
  | [] => []
  | x :: xs => box s x :: boxL s xs
end

mutual
/-- the keys `_box` at side `s` adds to `s`'s `_local_objects` (in boxing order) -/
def lent (s : Side) : PyVal → List Nat
  | .imm _ => []
  | .tup xs => lentL s xs
  | .ref o k => if o = s then [k] else []
def lentL (s : Side) : List PyVal → List Nat
  | [] => []
  | x :: xs => lent s x ++ lentL s xs
end

/-- a package after `_resolve_local_refs`: every LOCAL_REF replaced by the object it names, TUPLE packages rebuilt
member by member, every other package (VALUE, REMOTE_REF, an unknown label) returned as it came -/
inductive Pkg where
  | raw (v : Val)
  | tup (ps : List Pkg)
  | resolved (x : PyVal)
  deriving Repr, Inhabited

mutual
/-- `_resolve_local_refs` at side `me` whose `_local_objects` holds the keys `tbl`: the first pass of `_unbox`.
No proxy is created here, so nothing is sent and no other message is served while the local references of the
package are looked up (`self._local_objects[value]`: KeyError).
`label, value = package`: ValueError for a tuple of another length, TypeError for a non-iterable. -/
def resolveLocalRefs (me : Side) (tbl : List Nat) : Val → Except Err Pkg
  | .tuple [l, v] =>
    match labelOf l with
    | some .tuple =>
      match v with
      | .tuple items =>
        match resolveLocalRefsL me tbl items with
        | .ok ps => .ok (.tup ps)
        | .error e => .error e
      | _ => .error .typeError
    | some .localRef =>
      match unIdPack v with
      | some k => if tbl.contains k then .ok (.resolved (.ref me k)) else .error .keyError
      | none => .error .keyError
    | _ => .ok (.raw (.tuple [l, v]))
  | .tuple _ => .error .valueError
  | _ => .error .typeError
def resolveLocalRefsL (me : Side) (tbl : List Nat) : List Val → Except Err (List Pkg)
  | [] => .ok []
  | x :: xs =>
    match resolveLocalRefs me tbl x with
    | .error e => .error e
    | .ok y =>
      match resolveLocalRefsL me tbl xs with
      | .error e => .error e
      | .ok ys => .ok (y :: ys)
end

/-- the second pass on a package that was returned as it came: VALUE → the value; REMOTE_REF → a proxy of the peer's
object; anything else: `ValueError("invalid label")` (TUPLE and LOCAL_REF cannot come here: the first pass rebuilt /
replaced them) -/
def unboxRaw (me : Side) : Val → Except Err PyVal
  | .tuple [l, v] =>
    match labelOf l with
    | some .value => .ok (.imm v)
    | some .remoteRef =>
      match unIdPack v with
      | some k => .ok (.ref me.other k)
      | none => .error .typeError
    | some .tuple => .error .notModelled
    | some .localRef => .error .notModelled
    | none => .error .valueError
  | _ => .error .notModelled

mutual
/-- the second pass of `_unbox`: values, the tuples, and proxies for the peer's objects -/
def unboxPkg (me : Side) : Pkg → Except Err PyVal
  | .resolved x => .ok x
  | .tup ps =>
    match unboxPkgL me ps with
    | .ok xs => .ok (mkTup xs)
    | .error e => .error e
  | .raw v => unboxRaw me v
def unboxPkgL (me : Side) : List Pkg → Except Err (List PyVal)
  | [] => .ok []
  | p :: ps =>
    match unboxPkg me p with
    | .error e => .error e
    | .ok y =>
      match unboxPkgL me ps with
      | .error e => .error e
      | .ok ys => .ok (y :: ys)
end

/-- `_unbox`: first every local reference of the package is resolved, then proxies are created -/
def unbox (me : Side) (tbl : List Nat) (v : Val) : Except Err PyVal :=
  match resolveLocalRefs me tbl v with
  | .error e => .error e
  | .ok p => unboxPkg me p

/-! ### exceptions -/

structure Exc where
  cls : Name
  args : List PyVal
  deriving Repr, Inhabited

def nameOf (s : String) : Name := s.toList.map Char.toNat

/-- the exception a failing model step stands for (class only; messages are not compared) -/
def ofErr (e : Err) : Exc := ⟨nameOf e.name, []⟩

def stopIterationName : Name := nameOf "StopIteration"
def builtinsName : Name := nameOf "builtins"
def typeErrorName : Name := nameOf "TypeError"
def indexErrorName : Name := nameOf "IndexError"
def keyErrorName : Name := nameOf "KeyError"
def nameErrorName : Name := nameOf "NameError"

/-- environment facts the model does not compute -/
structure Params where
  /-- `repr(obj)` of a non-serializable exception argument -/
  reprOf : PyVal → Name
  /-- the texts `_send_exception` puts in place of arguments and traceback when an exception's own payload cannot
  be serialized -/
  excNote : Name := []
  tbNote : Name := []

/-- `vinegar.dump`'s treatment of one member of `args`: `a if brine.dumpable(a) else repr(a)` -/
def normArg (R : Params) : PyVal → Val
  | .imm v => if dumpable v then v else .str (R.reprOf (.imm v))
  | x => .str (R.reprOf x)

/-- `vinegar.dump`: the marker for a `StopIteration` without arguments, else
`((module, name), args, attrs, traceback text)`; attributes and traceback are C09's and left empty -/
def dumpExc (R : Params) (e : Exc) : Val :=
  if e.cls = stopIterationName ∧ e.args.isEmpty then .int excStopIteration
  else .tuple [.tuple [.str builtinsName, .str e.cls], .tuple (e.args.map (normArg R)), .tuple [], .str []]

/-- `vinegar.load` for built-in classes (a class of another module arrives as the generic `mod.cls`) -/
def loadExc : Val → Except Err Exc
  | .int i => if i = excStopIteration then .ok ⟨stopIterationName, []⟩ else .error .typeError
  | .tuple [.tuple [.str m, .str c], .tuple args, _, _] =>
    if m = builtinsName then .ok ⟨c, args.map .imm⟩ else .ok ⟨m ++ [46] ++ c, args.map .imm⟩
  | .tuple [_, _, _, _] => .error .typeError
  | .tuple _ => .error .valueError
  | _ => .error .typeError

/-- what an exception looks like after it crossed the connection (class kept, `args` normalised) -/
def Exc.normalize (R : Params) (e : Exc) : Exc := ⟨e.cls, e.args.map (fun a => .imm (normArg R a))⟩

/-! ### the language -/

inductive Expr where
  | const (v : PyVal)
  | var (x : Nat)
  | arg (i : Nat)
  | kw (k : Name)
  | tuple (es : List Expr)
  deriving Repr, Inhabited

inductive Stmt where
  /-- `x = f(*args, **kwargs)` -/
  | call (x : Nat) (f : Expr) (args : List Expr) (kwargs : List (Name × Expr))
  /-- `try: body / except cls: handler` (`none`: `except Exception`); the handler and what follows a caught
  exception see the variables as they were before the `try` -/
  | try_ (body : List Stmt) (pat : Option Name) (handler : List Stmt)
  | ret (e : Expr)
  /-- `raise cls(*args)` -/
  | raise (cls : Name) (args : List Expr)
  deriving Repr, Inhabited

structure Fn where
  owner : Side
  body : List Stmt
  deriving Repr, Inhabited

abbrev Prog := List Fn

structure Env where
  args : List PyVal
  kwargs : List (Name × PyVal)
  vars : List (Nat × PyVal)

def lookupVar (x : Nat) : List (Nat × PyVal) → Option PyVal
  | [] => none
  | (y, v) :: rest => if x = y then some v else lookupVar x rest

def lookupKw (k : Name) : List (Name × PyVal) → Option PyVal
  | [] => none
  | (j, v) :: rest => if k = j then some v else lookupKw k rest

mutual
def evalExpr (env : Env) : Expr → Except Exc PyVal
  | .const v => .ok v
  | .var x => match lookupVar x env.vars with
    | some v => .ok v
    | none => .error ⟨nameErrorName, []⟩
  | .arg i => match env.args[i]? with
    | some v => .ok v
    | none => .error ⟨indexErrorName, []⟩
  | .kw k => match lookupKw k env.kwargs with
    | some v => .ok v
    | none => .error ⟨keyErrorName, []⟩
  | .tuple es => match evalExprs env es with
    | .ok vs => .ok (mkTup vs)
    | .error e => .error e
def evalExprs (env : Env) : List Expr → Except Exc (List PyVal)
  | [] => .ok []
  | e :: es => match evalExpr env e with
    | .error x => .error x
    | .ok v => match evalExprs env es with
      | .error x => .error x
      | .ok vs => .ok (v :: vs)
end

def evalKwExprs (env : Env) : List (Name × Expr) → Except Exc (List (Name × PyVal))
  | [] => .ok []
  | (k, e) :: rest => match evalExpr env e with
    | .error x => .error x
    | .ok v => match evalKwExprs env rest with
      | .error x => .error x
      | .ok kvs => .ok ((k, v) :: kvs)

/-- callee, positional and keyword arguments of a call statement, evaluated left to right -/
def evalCallArgs (env : Env) (f : Expr) (args : List Expr) (kwargs : List (Name × Expr)) :
    Except Exc (PyVal × List PyVal × List (Name × PyVal)) :=
  match evalExpr env f with
  | .error x => .error x
  | .ok c => match evalExprs env args with
    | .error x => .error x
    | .ok as => match evalKwExprs env kwargs with
      | .error x => .error x
      | .ok kws => .ok (c, as, kws)

/-- the function an object is, if it is one -/
def target (P : Prog) : PyVal → Option (Nat × Fn)
  | .ref o k => match P[k]? with
    | some fn => if fn.owner = o then some (k, fn) else none
    | none => none
  | _ => none

/-- classes the language can raise that derive from `BaseException` but not from `Exception` (a generator's
`GeneratorExit`, `asyncio.CancelledError`, a user class `Boom(BaseException)`): `except Exception` lets them pass.
(`SystemExit` / `KeyboardInterrupt` are not in the language: whether they are reported to the requester at all is a
configuration matter, `propagate_*_locally`.) -/
def baseOnlyClasses : List Name := [nameOf "GeneratorExit", nameOf "CancelledError", nameOf "Boom"]

def baseExceptionName : Name := nameOf "BaseException"

/-- `except pat:` — `none` is `except Exception`, `some "BaseException"` catches everything, any other class
catches exactly itself (the classes of the language are pairwise unrelated otherwise) -/
def catches : Option Name → Name → Bool
  | none, d => !baseOnlyClasses.contains d
  | some c, d => c == d || c == baseExceptionName

/-! ### state: invocation counters, and each side's `_local_objects` keys -/

structure St where
  count : Nat → Nat
  tblA : List Nat
  tblB : List Nat

def St.tbl (st : St) : Side → List Nat
  | .A => st.tblA
  | .B => st.tblB

/-- `_local_objects.add` for every key boxed by reference -/
def St.lend (st : St) (s : Side) (ks : List Nat) : St :=
  match s with
  | .A => { st with tblA := st.tblA ++ ks }
  | .B => { st with tblB := st.tblB ++ ks }

def St.bump (st : St) (fid : Nat) : St :=
  { st with count := fun i => if i = fid then st.count i + 1 else st.count i }

inductive Outcome where
  /-- the block ran to its end; the local variables -/
  | norm (vars : List (Nat × PyVal))
  | ret (v : PyVal)
  | exc (e : Exc)
  /-- outside the language: out of fuel (`recursionError`), or the connection was lost because a frame could
  not be decoded / an exception reply could not be written (`eofError`) -/
  | stuck (e : Err)

def Outcome.normalize (R : Params) : Outcome → Outcome
  | .exc e => .exc (e.normalize R)
  | o => o

/-- leaving a function: falling off the end returns `None` -/
def finish : Outcome × St → Outcome × St
  | (.norm _, st) => (.ret (.imm .none), st)
  | r => r

/-! ### one remote call, piece by piece -/

/-- `tuple(kwargs.items())` -/
def kwTuple (kwargs : List (Name × PyVal)) : PyVal :=
  mkTup (kwargs.map (fun kv => mkTup [.imm (.str kv.1), kv.2]))

/-- the arguments of `sync_request(HANDLE_CALL, proxy, args, kwargs)` as one tuple -/
def requestArgs (callee : PyVal) (args : List PyVal) (kwargs : List (Name × PyVal)) : PyVal :=
  mkTup [callee, mkTup args, kwTuple kwargs]

/-- `(MSG_REQUEST, seq, (HANDLE_CALL, boxed))` -/
def mkRequest (boxed : Val) : Val := .tuple [.int msgRequest, .int 0, .tuple [.int hCall, boxed]]
/-- `(MSG_REPLY, seq, boxed)` -/
def mkReply (boxed : Val) : Val := .tuple [.int msgReply, .int 0, boxed]
/-- `(MSG_EXCEPTION, seq, vinegar.dump(...))` -/
def mkExcMsg (payload : Val) : Val := .tuple [.int msgException, .int 0, payload]

/-- `msg, seq, args = brine.load(data)` -/
def splitMsg : Val → Option (MsgType × Val)
  | .tuple [t, _, payload] => match msgTypeOf t with
    | some mt => some (mt, payload)
    | none => none
  | _ => none

/-- iterating a tuple (`*args`, `dict(kwargs)`); anything else the request builder never sends -/
def itemsOf : PyVal → Except Err (List PyVal)
  | .imm (.tuple vs) => .ok (vs.map .imm)
  | .tup xs => .ok xs
  | _ => .error .typeError

/-- one `(key, value)` member of `kwargs` -/
def kwItem : PyVal → Except Err (Name × PyVal)
  | .imm (.tuple [.str k, v]) => .ok (k, .imm v)
  | .tup [.imm (.str k), v] => .ok (k, v)
  | .imm (.tuple [_, _]) => .error .typeError     -- keywords must be strings
  | .tup [_, _] => .error .typeError
  | .imm (.tuple _) => .error .valueError         -- dictionary update sequence element has length ≠ 2
  | .tup _ => .error .valueError
  | _ => .error .typeError

/-- `d[k] = v` on an insertion-ordered dict -/
def dictInsert (k : Name) (v : PyVal) : List (Name × PyVal) → List (Name × PyVal)
  | [] => [(k, v)]
  | (j, w) :: rest => if k = j then (j, v) :: rest else (j, w) :: dictInsert k v rest

def dictOfItems : List (Name × PyVal) → List (Name × PyVal) → List (Name × PyVal)
  | acc, [] => acc
  | acc, (k, v) :: rest => dictOfItems (dictInsert k v acc) rest

def kwItems : List PyVal → Except Err (List (Name × PyVal))
  | [] => .ok []
  | x :: xs => match kwItem x with
    | .error e => .error e
    | .ok kv => match kwItems xs with
      | .error e => .error e
      | .ok kvs => .ok (kv :: kvs)

/-- `dict(kwargs)` -/
def dictOf (kw : PyVal) : Except Err (List (Name × PyVal)) :=
  match itemsOf kw with
  | .error e => .error e
  | .ok items => match kwItems items with
    | .error e => .error e
    | .ok kvs => .ok (dictOfItems [] kvs)

/-- `_handle_call(obj, args, kwargs)`: `obj(*args, **dict(kwargs))` up to the point where `obj` starts running -/
def applyCall (P : Prog) (r : Side) (obj a kw : PyVal) :
    Except Err (Nat × Fn × List PyVal × List (Name × PyVal)) :=
  match itemsOf a with
  | .error e => .error e
  | .ok args => match dictOf kw with
    | .error e => .error e
    | .ok kwargs => match target P obj with
      | none => .error .typeError                       -- not callable
      | some (fid, fn) => if fn.owner = r then .ok (fid, fn, args, kwargs) else .error .notModelled

def knownHandler (h : Int) : Bool := Gen.Netref.handlerTable.any (fun p => (p.1 : Int) == h)

/-- `_dispatch_request` at side `r` up to the point where the callee starts running:
`handler, args = raw_args; args = self._unbox(args); self._HANDLERS[handler](self, *args)` -/
def parseCall (P : Prog) (r : Side) (tbl : List Nat) : Val →
    Except Err (Nat × Fn × List PyVal × List (Name × PyVal))
  | .tuple [h, boxed] =>
    match unbox r tbl boxed with
    | .error e => .error e
    | .ok x =>
      match h with
      | .int hi =>
        if hi = hCall then
          match itemsOf x with
          | .error e => .error e
          | .ok [obj, a, kw] => applyCall P r obj a kw
          | .ok [obj, a] => applyCall P r obj a (.imm (.tuple []))
          | .ok _ => .error .typeError
        else if knownHandler hi then .error .notModelled
        else .error .keyError
      | _ => .error .keyError
  | .tuple _ => .error .valueError
  | _ => .error .typeError

/-- what became of a request -/
inductive Sent where
  /-- `_send` raised at the caller (the request cannot be serialized); nothing was sent -/
  | failed (e : Exc) (st : St)
  /-- the peer could not decode the frame: its `serve()` ends, the connection is lost -/
  | lost (st : St)
  /-- the peer's `_dispatch_request` caught `e` before the callee ran: it answers with an exception -/
  | refused (e : Exc) (st : St)
  /-- the callee starts with these arguments -/
  | dispatch (fid : Nat) (fn : Fn) (args : List PyVal) (kwargs : List (Name × PyVal)) (st : St)

/-- caller at side `s`: box, send, and the peer's decode / unbox / dispatch -/
def sendRequest (P : Prog) (s : Side) (st : St) (callee : PyVal) (args : List PyVal)
    (kwargs : List (Name × PyVal)) : Sent :=
  match dump (mkRequest (box s (requestArgs callee args kwargs))) with
  | .error e => .failed (ofErr e) (st.lend s (lent s (requestArgs callee args kwargs)))
  | .ok bs =>
    match load bs with
    | .error _ => .lost (st.lend s (lent s (requestArgs callee args kwargs)))
    | .ok m =>
      match splitMsg m with
      | some (.request, payload) =>
        match parseCall P s.other ((st.lend s (lent s (requestArgs callee args kwargs))).tbl s.other) payload with
        | .error e => .refused (ofErr e) (st.lend s (lent s (requestArgs callee args kwargs)))
        | .ok (fid, fn, args', kwargs') =>
          .dispatch fid fn args' kwargs' (st.lend s (lent s (requestArgs callee args kwargs)))
      | _ => .lost (st.lend s (lent s (requestArgs callee args kwargs)))

/-- an exception frame arrives at the requester: `_unbox_exc` and raise (a frame that cannot be decoded ends the
requester's `serve()`: the connection is lost) -/
def receiveExc (bs : Bytes) (st : St) : Outcome × St :=
  match load bs with
  | .error _ => (.stuck .eofError, st)
  | .ok m =>
    match splitMsg m with
    | some (.exception, payload) =>
      match loadExc payload with
      | .ok e' => (.exc e', st)
      | .error err => (.exc (ofErr err), st)
    | _ => (.stuck .eofError, st)

/-- `_send_exception` at the callee: `_send(MSG_EXCEPTION, seq, _box_exc(...))`; if that payload cannot be
serialized, the class name with a note instead of the arguments; if even that fails the exception leaves
`_dispatch_request` and the connection is lost -/
def deliverExc (R : Params) (e : Exc) (st : St) : Outcome × St :=
  match dump (mkExcMsg (dumpExc R e)) with
  | .ok bs => receiveExc bs st
  | .error _ =>
    match dump (mkExcMsg (.tuple [.tuple [.str builtinsName, .str e.cls], .tuple [.str R.excNote], .tuple [],
                                   .str R.tbNote])) with
    | .ok bs => receiveExc bs st
    | .error _ => (.stuck .eofError, st)

/-- the callee at side `o` answers the requester at side `s` -/
def deliverReply (R : Params) (o s : Side) : Outcome × St → Outcome × St
  | (.ret v, st) =>
    match dump (mkReply (box o v)) with
    | .error e => deliverExc R (ofErr e) (st.lend o (lent o v))   -- the result cannot be serialized: answer with that
    | .ok bs =>
      match load bs with
      | .error _ => (.stuck .eofError, st.lend o (lent o v))
      | .ok m =>
        match splitMsg m with
        | some (.reply, payload) =>
          match unbox s ((st.lend o (lent o v)).tbl s) payload with
          | .ok v' => (.ret v', st.lend o (lent o v))
          | .error e => (.exc (ofErr e), st.lend o (lent o v))
        | _ => (.stuck .eofError, st.lend o (lent o v))
  | (.exc e, st) => deliverExc R e st
  | (.norm _, st) => (.stuck .notModelled, st)
  | (.stuck e, st) => (.stuck e, st)

/-! ### the evaluator -/

inductive Mode where
  /-- one process -/
  | loc
  /-- two peers of a connection -/
  | dist
  deriving DecidableEq, Repr

mutual
def evalBlock (m : Mode) (R : Params) (P : Prog) : Nat → Side → List Stmt → Env → St → Outcome × St
  | 0, _, _, _, st => (.stuck .recursionError, st)
  | _+1, _, [], env, st => (.norm env.vars, st)
  | f+1, s, c :: cs, env, st =>
    match evalStmt m R P f s c env st with
    | (.norm vars, st') => evalBlock m R P f s cs { env with vars := vars } st'
    | r => r
def evalStmt (m : Mode) (R : Params) (P : Prog) : Nat → Side → Stmt → Env → St → Outcome × St
  | 0, _, _, _, st => (.stuck .recursionError, st)
  | _+1, _, .ret e, env, st =>
    match evalExpr env e with
    | .ok v => (.ret v, st)
    | .error x => (.exc x, st)
  | _+1, _, .raise cls es, env, st =>
    match evalExprs env es with
    | .ok vs => (.exc ⟨cls, vs⟩, st)
    | .error x => (.exc x, st)
  | f+1, s, .try_ body pat handler, env, st =>
    match evalBlock m R P f s body env st with
    | (.exc e, st') => if catches pat e.cls then evalBlock m R P f s handler env st' else (.exc e, st')
    | r => r
  | f+1, s, .call x fe aes kes, env, st =>
    match evalCallArgs env fe aes kes with
    | .error e => (.exc e, st)
    | .ok (callee, args, kwargs) =>
      match callFn m R P f s callee args kwargs st with
      | (.ret v, st') => (.norm ((x, v) :: env.vars), st')
      | r => r
/-- a call made by code running at side `s` -/
def callFn (m : Mode) (R : Params) (P : Prog) : Nat → Side → PyVal → List PyVal → List (Name × PyVal) →
    St → Outcome × St
  | 0, _, _, _, _, st => (.stuck .recursionError, st)
  | f+1, s, callee, args, kwargs, st =>
    match target P callee with
    | none => (.exc ⟨typeErrorName, []⟩, st)     -- not callable (a proxy of such an object has no `__call__`)
    | some (fid, fn) =>
      if m = .loc ∨ fn.owner = s then
        finish (evalBlock m R P f fn.owner fn.body ⟨args, kwargs, []⟩ (st.bump fid))
      else
        match sendRequest P s st callee args kwargs with
        | .failed e st1 => (.exc e, st1)
        | .lost st1 => (.stuck .eofError, st1)
        | .refused e st1 => deliverExc R e st1
        | .dispatch fid' fn' args' kwargs' st1 =>
          deliverReply R fn'.owner s
            (finish (evalBlock m R P f fn'.owner fn'.body ⟨args', kwargs', []⟩ (st1.bump fid')))
end

/-- the program run in one process -/
def evalLocal (R : Params) (P : Prog) (fuel : Nat) (s : Side) (callee : PyVal) (args : List PyVal)
    (kwargs : List (Name × PyVal)) (st : St) : Outcome × St :=
  callFn .loc R P fuel s callee args kwargs st

/-- the program spread over the two peers, the entry call made by code at side `s` -/
def evalDist (R : Params) (P : Prog) (fuel : Nat) (s : Side) (callee : PyVal) (args : List PyVal)
    (kwargs : List (Name × PyVal)) (st : St) : Outcome × St :=
  callFn .dist R P fuel s callee args kwargs st

end Rpyc.Calls
