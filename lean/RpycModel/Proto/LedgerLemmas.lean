import RpycModel.Proto.Ledger
/-
Invariants of the ledger machine (helper lemmas for `Props/C08.lean`).

`Dir x rq rs w` is everything that is true of the requests travelling from side `x` (state `rq`, the
requester) to its peer (state `rs`, the responder) and of the responses travelling back; the invariant of a
state is `Dir` in both directions.
-/
namespace Rpyc.Proto.Ledger

/-! ### counting -/

def isReq (r : Nat) : Msg → Bool
  | .req s => s == r
  | .resp _ _ _ => false

def isResp (r : Nat) : Msg → Bool
  | .req _ => false
  | .resp _ s _ => s == r

def isHand (r : Nat) : Frame → Bool
  | .handling s => s == r
  | .waiting _ => false

/-- requests `r` waiting in an inbox -/
def nReq (r : Nat) (l : List Msg) : Nat := l.countP (isReq r)
/-- responses bearing `r` waiting in an inbox -/
def nResp (r : Nat) (l : List Msg) : Nat := l.countP (isResp r)
/-- `handling r` frames on a stack -/
def nHand (r : Nat) (l : List Frame) : Nat := l.countP (isHand r)
/-- entries keyed `r` in an association list (waiter table, answered / results / injected logs) -/
def nKey {α : Type} (r : Nat) (l : List (Nat × α)) : Nat := l.countP (fun e => e.1 == r)
/-- occurrences of `r` in a list of sequence numbers -/
def nSeq (r : Nat) (l : List Nat) : Nat := l.countP (fun s => s == r)

def reqOf (x : Side) (e : Side × Msg) : Option Nat :=
  if e.1 = x then (match e.2 with
    | .req r => some r
    | .resp _ _ _ => none) else none

/-- response frames bearing `r` that side `x` put on the wire -/
def nWireResp (x : Side) (r : Nat) (w : Wire) : Nat := w.countP (fun e => e.1 == x && isResp r e.2)

@[simp] theorem Side.peer_peer (x : Side) : x.peer.peer = x := by cases x <;> rfl
@[simp] theorem Side.peer_ne (x : Side) : x.peer ≠ x := by cases x <;> decide
@[simp] theorem Side.ne_peer (x : Side) : x ≠ x.peer := by cases x <;> decide
@[simp] theorem Side.peer_beq (x : Side) : (x.peer == x) = false := by cases x <;> rfl
@[simp] theorem Side.beq_peer (x : Side) : (x == x.peer) = false := by cases x <;> rfl

@[simp] theorem nReq_nil (r : Nat) : nReq r [] = 0 := rfl
@[simp] theorem nResp_nil (r : Nat) : nResp r [] = 0 := rfl
@[simp] theorem nHand_nil (r : Nat) : nHand r [] = 0 := rfl
@[simp] theorem nKey_nil {α : Type} (r : Nat) : nKey r ([] : List (Nat × α)) = 0 := rfl
@[simp] theorem nSeq_nil (r : Nat) : nSeq r [] = 0 := rfl
@[simp] theorem nWireResp_nil (x : Side) (r : Nat) : nWireResp x r [] = 0 := rfl

@[simp] theorem nReq_append (r : Nat) (l m : List Msg) : nReq r (l ++ m) = nReq r l + nReq r m := by
  simp [nReq]
@[simp] theorem nResp_append (r : Nat) (l m : List Msg) : nResp r (l ++ m) = nResp r l + nResp r m := by
  simp [nResp]
@[simp] theorem nHand_append (r : Nat) (l m : List Frame) : nHand r (l ++ m) = nHand r l + nHand r m := by
  simp [nHand]
@[simp] theorem nKey_append {α : Type} (r : Nat) (l m : List (Nat × α)) : nKey r (l ++ m) = nKey r l + nKey r m := by
  simp [nKey]
@[simp] theorem nSeq_append (r : Nat) (l m : List Nat) : nSeq r (l ++ m) = nSeq r l + nSeq r m := by
  simp [nSeq]
@[simp] theorem nWireResp_append (x : Side) (r : Nat) (l m : Wire) :
    nWireResp x r (l ++ m) = nWireResp x r l + nWireResp x r m := by
  simp [nWireResp]

@[simp] theorem nReq_cons_req (r s : Nat) (l : List Msg) :
    nReq r (.req s :: l) = nReq r l + (if s = r then 1 else 0) := by
  simp [nReq, List.countP_cons, isReq]
@[simp] theorem nReq_cons_resp (r s v : Nat) (k : RKind) (l : List Msg) : nReq r (.resp k s v :: l) = nReq r l := by
  simp [nReq, isReq]
@[simp] theorem nResp_cons_req (r s : Nat) (l : List Msg) : nResp r (.req s :: l) = nResp r l := by
  simp [nResp, isResp]
@[simp] theorem nResp_cons_resp (r s v : Nat) (k : RKind) (l : List Msg) :
    nResp r (.resp k s v :: l) = nResp r l + (if s = r then 1 else 0) := by
  simp [nResp, List.countP_cons, isResp]
@[simp] theorem nHand_cons_handling (r s : Nat) (l : List Frame) :
    nHand r (.handling s :: l) = nHand r l + (if s = r then 1 else 0) := by
  simp [nHand, List.countP_cons, isHand]
@[simp] theorem nHand_cons_waiting (r s : Nat) (l : List Frame) : nHand r (.waiting s :: l) = nHand r l := by
  simp [nHand, isHand]
@[simp] theorem nKey_cons {α : Type} (r s : Nat) (a : α) (l : List (Nat × α)) :
    nKey r ((s, a) :: l) = nKey r l + (if s = r then 1 else 0) := by
  simp [nKey, List.countP_cons]
@[simp] theorem nSeq_cons (r s : Nat) (l : List Nat) : nSeq r (s :: l) = nSeq r l + (if s = r then 1 else 0) := by
  simp [nSeq, List.countP_cons]
@[simp] theorem nWireResp_cons (x y : Side) (r : Nat) (m : Msg) (l : Wire) :
    nWireResp x r ((y, m) :: l) = nWireResp x r l + (if y = x ∧ isResp r m = true then 1 else 0) := by
  simp [nWireResp, List.countP_cons]

@[simp] theorem isResp_req (r s : Nat) : isResp r (.req s) = false := rfl
@[simp] theorem isResp_resp (r s v : Nat) (k : RKind) : isResp r (.resp k s v) = (s == r) := rfl

theorem nSeq_pos_iff (r : Nat) (l : List Nat) : 0 < nSeq r l ↔ r ∈ l := by
  simp [nSeq, List.countP_pos_iff]

theorem nSeq_eq_zero (r : Nat) (l : List Nat) (h : r ∉ l) : nSeq r l = 0 := by
  have h2 : ¬ 0 < nSeq r l := fun hp => h ((nSeq_pos_iff r l).mp hp)
  omega

theorem nKey_pos_of_mem {α : Type} (s : Nat) (a : α) (l : List (Nat × α)) (h : (s, a) ∈ l) : 0 < nKey s l := by
  simp only [nKey, List.countP_pos_iff]
  exact ⟨(s, a), h, by simp⟩

theorem nResp_pos_of_mem (k : RKind) (s v : Nat) (l : List Msg) (h : Msg.resp k s v ∈ l) : 0 < nResp s l := by
  simp only [nResp, List.countP_pos_iff]
  exact ⟨_, h, by simp⟩

theorem nHand_pos_of_mem (r : Nat) (l : List Frame) (h : Frame.handling r ∈ l) : 0 < nHand r l := by
  simp only [nHand, List.countP_pos_iff]
  exact ⟨_, h, by simp [isHand]⟩

theorem nReq_pos_of_mem (r : Nat) (l : List Msg) (h : Msg.req r ∈ l) : 0 < nReq r l := by
  simp only [nReq, List.countP_pos_iff]
  exact ⟨_, h, by simp [isReq]⟩

/-! ### the waiter table -/

theorem registered_iff (cb : List (Nat × Kind)) (s : Nat) : registered cb s = true ↔ 0 < nKey s cb := by
  simp [registered, nKey, List.countP_pos_iff]

theorem not_registered_iff (cb : List (Nat × Kind)) (s : Nat) : registered cb s = false ↔ nKey s cb = 0 := by
  have := registered_iff cb s
  cases h : registered cb s <;> simp_all <;> omega

@[simp] theorem nKey_register (r s : Nat) (k : Kind) (cb : List (Nat × Kind)) :
    nKey r (register s k cb) = nKey r cb + (if s = r then 1 else 0) := by
  simp [register]

theorem nKey_unregister (r s : Nat) (cb : List (Nat × Kind)) :
    nKey r (unregister s cb) = if s = r then 0 else nKey r cb := by
  induction cb with
  | nil => simp [unregister]
  | cons e cb ih =>
    obtain ⟨t, k⟩ := e
    simp only [unregister, nKey] at ih ⊢
    by_cases hts : t = s
    · subst hts
      simp only [List.filter_cons, beq_self_eq_true, Bool.not_true, Bool.false_eq_true, if_false]
      rw [ih]
      by_cases hr : t = r
      · simp [hr]
      · simp [hr]
    · have : (t == s) = false := by simp [hts]
      simp only [List.filter_cons, this, Bool.not_false, if_true, List.countP_cons]
      rw [ih]
      by_cases hr : s = r
      · subst hr
        simp [hts]
      · simp [hr]

/-- the send-failure path of `_async_request`: registering under a fresh number and popping it again
leaves the table as it was -/
theorem unregister_register_fresh (s : Nat) (k : Kind) (cb : List (Nat × Kind)) (h : nKey s cb = 0) :
    unregister s (register s k cb) = cb := by
  simp only [nKey, List.countP_eq_zero] at h
  simp only [unregister, register, List.filter_append, List.filter_cons, beq_self_eq_true, Bool.not_true,
    Bool.false_eq_true, if_false, List.filter_nil, List.append_nil]
  apply List.filter_eq_self.mpr
  intro e he
  have := h e he
  simpa using this

theorem nHand_unwind (r : Nat) (cb : List (Nat × Kind)) (st : List Frame) : nHand r (unwind cb st) = nHand r st := by
  induction st with
  | nil => simp [unwind]
  | cons f st ih =>
    cases f with
    | handling s => simp [unwind]
    | waiting s =>
      simp only [unwind]
      split
      · rfl
      · simpa using ih

theorem nSeq_filterMap_handlingSeq (r : Nat) (st : List Frame) : nSeq r (st.filterMap handlingSeq) = nHand r st := by
  induction st with
  | nil => rfl
  | cons f st ih =>
    cases f with
    | handling s => simp [handlingSeq, ih]
    | waiting s => simp [List.filterMap_cons, handlingSeq, ih]

@[simp] theorem reqOf_self_req (x : Side) (r : Nat) : reqOf x (x, .req r) = some r := by simp [reqOf]
@[simp] theorem reqOf_resp (x y : Side) (k : RKind) (s v : Nat) : reqOf x (y, .resp k s v) = none := by
  simp [reqOf]
@[simp] theorem reqOf_peer_req (x : Side) (r : Nat) : reqOf x.peer (x, .req r) = none := by simp [reqOf]

/-- **obligation on the code** (measured by the constants generator on the live `Connection._dispatch`): a response
whose payload cannot be decoded is still delivered to its waiter, as an error, instead of leaving `_dispatch` -/
theorem decode_guarded : Gen.Proto.responseDecodeGuarded = true := by decide

/-! ### the invariant -/

structure Dir (x : Side) (rq rs : SideSt) (w : Wire) : Prop where
  /-- the counting invariant: an issued request is in exactly one place -/
  count : ∀ r, nSeq r rq.issued = nReq r rs.inbox + nHand r rs.stack + nKey r rs.answered + nSeq r rs.abandoned
  /-- at the requester: still registered, or given exactly one outcome -/
  waiter : ∀ r, nSeq r rq.issued = nKey r rq.callbacks + nKey r rq.results
  below : ∀ r, r ∈ rq.issued → r < rq.seq
  sorted : rq.issued.Pairwise (· < ·)
  once : ∀ r, nSeq r rq.issued ≤ 1
  wireReq : w.filterMap (reqOf x) = rq.issued
  /-- every response produced or injected is in the requester's inbox, or was delivered, or was dropped -/
  flow : ∀ r, nKey r rs.answered + nKey r rq.injected = nResp r rq.inbox + nKey r rq.results + nSeq r rq.dropped
  provRes : ∀ e, e ∈ rq.results → e ∈ rs.answered ∨ e ∈ rq.injected
  provInbox : ∀ k s v, Msg.resp k s v ∈ rq.inbox → (s, k, v) ∈ rs.answered ∨ (s, k, v) ∈ rq.injected
  wireResp : ∀ r, nWireResp x.peer r w = nKey r rs.answered + nKey r rq.injected
  exec : ∀ r, nSeq r rs.executed ≤ nKey r rs.answered + nSeq r rs.abandoned
  honest : rq.injected = [] → rq.dropped = []

/-- the invariant of a state -/
structure Inv (s : St) : Prop where
  ab : Dir .A s.a s.b s.wire
  ba : Dir .B s.b s.a s.wire

theorem dir_init (x : Side) (sa sb : Nat) : Dir x (.init sa) (.init sb) [] := by
  constructor <;> simp [SideSt.init]

theorem inv_init (sa sb : Nat) : Inv (St.init sa sb) := ⟨dir_init _ _ _, dir_init _ _ _⟩

end Rpyc.Proto.Ledger
