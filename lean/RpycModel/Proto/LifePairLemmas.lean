import RpycModel.Proto.LifePair
/-
Invariant and progress of the two-sided machine (helper lemmas for `Props/C11.lean`).
-/
namespace Rpyc.Proto.Life

@[simp] theorem PSide.peer_peer (x : PSide) : x.peer.peer = x := by cases x <;> rfl

@[simp] theorem Pair.set_get_self (p : Pair) (x : PSide) (l : Life) : (p.set x l).get x = l := by cases x <;> rfl
@[simp] theorem Pair.set_get_peer (p : Pair) (x : PSide) (l : Life) : (p.set x l).get x.peer = p.get x.peer := by
  cases x <;> rfl
@[simp] theorem Pair.set_to (p : Pair) (x y : PSide) (l : Life) : (p.set x l).to y = p.to y := by
  cases x <;> cases y <;> rfl
@[simp] theorem Pair.set_sentTo (p : Pair) (x y : PSide) (l : Life) : (p.set x l).sentTo y = p.sentTo y := by
  cases x <;> cases y <;> rfl
@[simp] theorem Pair.setTo_get (p : Pair) (x y : PSide) (fs : List Frm) : (p.setTo x fs).get y = p.get y := by
  cases x <;> cases y <;> rfl
@[simp] theorem Pair.setTo_to_self (p : Pair) (x : PSide) (fs : List Frm) : (p.setTo x fs).to x = fs := by
  cases x <;> rfl
@[simp] theorem Pair.setTo_to_peer (p : Pair) (x : PSide) (fs : List Frm) : (p.setTo x.peer fs).to x = p.to x := by
  cases x <;> rfl
@[simp] theorem Pair.setTo_to_peer' (p : Pair) (x : PSide) (fs : List Frm) : (p.setTo x fs).to x.peer = p.to x.peer := by
  cases x <;> rfl
@[simp] theorem Pair.setTo_sentTo (p : Pair) (x y : PSide) (fs : List Frm) : (p.setTo x fs).sentTo y = p.sentTo y := by
  cases x <;> cases y <;> rfl
@[simp] theorem Pair.noteSent_get (p : Pair) (x y : PSide) (s v : Nat) : (p.noteSent x s v).get y = p.get y := by
  cases x <;> cases y <;> rfl
@[simp] theorem Pair.noteSent_to (p : Pair) (x y : PSide) (s v : Nat) : (p.noteSent x s v).to y = p.to y := by
  cases x <;> cases y <;> rfl
@[simp] theorem Pair.noteSent_sentTo_self (p : Pair) (x : PSide) (s v : Nat) :
    (p.noteSent x s v).sentTo x = p.sentTo x ++ [(s, v)] := by cases x <;> rfl
@[simp] theorem Pair.noteSent_sentTo_peer (p : Pair) (x : PSide) (s v : Nat) :
    (p.noteSent x.peer s v).sentTo x = p.sentTo x := by cases x <;> rfl

/-- what is true of side `x` inside the pair: its own invariant, and whatever it holds as received from the peer —
or has in flight towards it — the peer has really written -/
structure PSideInv (p : Pair) (x : PSide) : Prop where
  inv : Inv (p.get x)
  got : ∀ s v, (s, v) ∈ (p.get x).fromPeer → (s, v) ∈ p.sentTo x
  flying : ∀ s v, Frm.resp s v ∈ p.to x → (s, v) ∈ p.sentTo x

structure PInv (p : Pair) : Prop where
  a : PSideInv p .A
  b : PSideInv p .B

theorem PInv.side {p : Pair} (h : PInv p) (x : PSide) : PSideInv p x := by
  cases x
  · exact h.a
  · exact h.b

theorem PInv.mk' {p : Pair} (x : PSide) (h1 : PSideInv p x) (h2 : PSideInv p x.peer) : PInv p := by
  cases x
  · exact ⟨h1, h2⟩
  · exact ⟨h2, h1⟩

theorem pinv_init (ha ca hb cb : Bool) : PInv (Pair.init ha ca hb cb) := by
  constructor
  · exact ⟨inv_initWith ha ca, by intro s v h; simp [Pair.init, Pair.get, Life.initWith] at h,
      by intro s v h; simp [Pair.init, Pair.to] at h⟩
  · exact ⟨inv_initWith hb cb, by intro s v h; simp [Pair.init, Pair.get, Life.initWith] at h,
      by intro s v h; simp [Pair.init, Pair.to] at h⟩

/-- an event of one side that is not the receipt of a response leaves `fromPeer` as it was -/
theorem step_fromPeer (l l' : Life) (e : Ev) (hs : step l e = some l') (hne : ∀ s v, e ≠ .reply s v) :
    l'.fromPeer = l.fromPeer := (step_nnv l l' e hs hne).1

theorem step_reply_fromPeer (l l' : Life) (s v : Nat) (hs : step l (.reply s v) = some l') :
    l'.fromPeer = l.fromPeer ++ [(s, v)] := by
  simp only [step] at hs
  split at hs
  · cases hs
  · simp only [Option.some.injEq] at hs; subst hs; rfl

theorem readsChannel_reply (s v : Nat) : readsChannel (.reply s v) = true := rfl

theorem pstep_inv (p p' : Pair) (e : PEv) (hs : pstep p e = some p') (h : PInv p) : PInv p' := by
  cases e with
  | own x e =>
    simp only [pstep] at hs
    split at hs
    · cases hs
    rename_i hrc
    split at hs
    · rename_i l hl
      simp only [Option.some.injEq] at hs; subst hs
      have hx := h.side x
      have hp := h.side x.peer
      have hne : ∀ s v, e ≠ .reply s v := by
        intro s v he; subst he; simp [readsChannel] at hrc
      refine PInv.mk' x ⟨by simpa using step_inv _ _ e hl hx.inv, ?_, by simpa using hx.flying⟩
        ⟨by simpa using hp.inv, by simpa using hp.got, by simpa using hp.flying⟩
      intro s v hm
      simp only [Pair.set_get_self, Pair.set_sentTo] at hm ⊢
      rw [step_fromPeer _ _ e hl hne] at hm
      exact hx.got s v hm
    · cases hs
  | closeSent x =>
    simp only [pstep] at hs
    split at hs
    · cases hs
    split at hs
    · rename_i l hl
      simp only [Option.some.injEq] at hs; subst hs
      have hx := h.side x
      have hp := h.side x.peer
      refine PInv.mk' x ⟨by simpa using step_inv _ _ _ hl hx.inv, ?_, ?_⟩ ⟨by simpa using hp.inv, by simpa using hp.got, ?_⟩
      · intro s v hm
        simp only [Pair.setTo_get, Pair.set_get_self, Pair.setTo_sentTo, Pair.set_sentTo] at hm ⊢
        rw [step_fromPeer _ _ _ hl (by intro s v he; cases he)] at hm
        exact hx.got s v hm
      · intro s v hm
        simp only [Pair.setTo_to_peer, Pair.set_to, Pair.setTo_sentTo, Pair.set_sentTo] at hm ⊢
        exact hx.flying s v hm
      · intro s v hm
        simp only [Pair.setTo_to_self, List.mem_append, List.mem_singleton, Pair.setTo_sentTo,
          Pair.set_sentTo] at hm ⊢
        rcases hm with hm | hm
        · exact hp.flying s v hm
        · cases hm
    · cases hs
  | answer x s v =>
    simp only [pstep] at hs
    split at hs
    · cases hs
    simp only [Option.some.injEq] at hs; subst hs
    have hx := h.side x
    have hp := h.side x.peer
    refine PInv.mk' x ⟨by simpa using hx.inv, ?_, ?_⟩ ⟨by simpa using hp.inv, ?_, ?_⟩
    · intro s' v' hm
      simp only [Pair.noteSent_get, Pair.setTo_get, Pair.noteSent_sentTo_peer, Pair.setTo_sentTo] at hm ⊢
      exact hx.got s' v' hm
    · intro s' v' hm
      simp only [Pair.noteSent_to, Pair.setTo_to_peer, Pair.noteSent_sentTo_peer, Pair.setTo_sentTo] at hm ⊢
      exact hx.flying s' v' hm
    · intro s' v' hm
      simp only [Pair.noteSent_get, Pair.setTo_get, Pair.noteSent_sentTo_self, Pair.setTo_sentTo, List.mem_append] at hm ⊢
      exact Or.inl (hp.got s' v' hm)
    · intro s' v' hm
      simp only [Pair.noteSent_to, Pair.setTo_to_self, List.mem_append, List.mem_singleton, Pair.noteSent_sentTo_self,
        Pair.setTo_sentTo] at hm ⊢
      rcases hm with hm | hm
      · exact Or.inl (hp.flying s' v' hm)
      · injection hm with h1 h2; subst h1; subst h2; exact Or.inr rfl
  | recv x =>
    simp only [pstep] at hs
    split at hs
    · cases hs
    have hx := h.side x
    have hp := h.side x.peer
    have hpeer : ∀ q : Pair, q.get x.peer = p.get x.peer → q.sentTo x.peer = p.sentTo x.peer → q.to x.peer = p.to x.peer →
        PSideInv q x.peer := by
      intro q h1 h2 h3
      exact ⟨by rw [h1]; exact hp.inv, by rw [h1, h2]; exact hp.got, by rw [h3, h2]; exact hp.flying⟩
    split at hs
    · cases hs
    · -- the peer's HANDLE_CLOSE
      rename_i rest hto
      have hfly : ∀ s v, Frm.resp s v ∈ rest → (s, v) ∈ p.sentTo x :=
        fun s v hm => hx.flying s v (by rw [hto]; exact List.mem_cons_of_mem _ hm)
      split at hs
      · rename_i l hl
        simp only [Option.some.injEq] at hs; subst hs
        refine PInv.mk' x ⟨by simpa using step_inv _ _ _ hl hx.inv, ?_, by simpa using hfly⟩
          (hpeer _ (by simp) (by simp) (by simp))
        intro s v hm
        simp only [Pair.setTo_get, Pair.set_get_self, Pair.setTo_sentTo, Pair.set_sentTo] at hm ⊢
        rw [step_fromPeer _ _ _ hl (by intro s v he; cases he)] at hm
        exact hx.got s v hm
      · simp only [Option.some.injEq] at hs; subst hs
        exact PInv.mk' x ⟨by simpa using hx.inv, by simpa using hx.got, by simpa using hfly⟩
          (hpeer _ (by simp) (by simp) (by simp))
    · -- a response
      rename_i s v rest hto
      have hfly : ∀ s' v', Frm.resp s' v' ∈ rest → (s', v') ∈ p.sentTo x :=
        fun s' v' hm => hx.flying s' v' (by rw [hto]; exact List.mem_cons_of_mem _ hm)
      have hsent : (s, v) ∈ p.sentTo x := hx.flying s v (by rw [hto]; exact List.mem_cons_self)
      split at hs
      · rename_i l hl
        simp only [Option.some.injEq] at hs; subst hs
        refine PInv.mk' x ⟨by simpa using step_inv _ _ _ hl hx.inv, ?_, by simpa using hfly⟩
          (hpeer _ (by simp) (by simp) (by simp))
        intro s' v' hm
        simp only [Pair.setTo_get, Pair.set_get_self, Pair.setTo_sentTo, Pair.set_sentTo] at hm ⊢
        rw [step_reply_fromPeer _ _ s v hl, List.mem_append, List.mem_singleton] at hm
        rcases hm with hm | hm
        · exact hx.got s' v' hm
        · injection hm with h1 h2; subst h1; subst h2; exact hsent
      · simp only [Option.some.injEq] at hs; subst hs
        exact PInv.mk' x ⟨by simpa using hx.inv, by simpa using hx.got, by simpa using hfly⟩
          (hpeer _ (by simp) (by simp) (by simp))
    · -- a request of the peer
      rename_i rest hto
      have hfly : ∀ s' v', Frm.resp s' v' ∈ rest → (s', v') ∈ p.sentTo x :=
        fun s' v' hm => hx.flying s' v' (by rw [hto]; exact List.mem_cons_of_mem _ hm)
      simp only [Option.some.injEq] at hs; subst hs
      exact PInv.mk' x ⟨by simpa using hx.inv, by simpa using hx.got, by simpa using hfly⟩
        (hpeer _ (by simp) (by simp) (by simp))
  | eof x r =>
    simp only [pstep] at hs
    split at hs
    · split at hs
      · rename_i l hl
        simp only [Option.some.injEq] at hs; subst hs
        have hx := h.side x
        have hp := h.side x.peer
        refine PInv.mk' x ⟨by simpa using step_inv _ _ _ hl hx.inv, ?_, by simpa using hx.flying⟩
          ⟨by simpa using hp.inv, by simpa using hp.got, by simpa using hp.flying⟩
        intro s v hm
        simp only [Pair.set_get_self, Pair.set_sentTo] at hm ⊢
        rw [step_fromPeer _ _ _ hl (by intro s v he; cases he)] at hm
        exact hx.got s v hm
      · cases hs
    · cases hs

theorem prun_inv (es : List PEv) : ∀ (p p' : Pair), prun p es = some p' → PInv p → PInv p' := by
  induction es with
  | nil => intro p p' h hi; simp only [prun, Option.some.injEq] at h; subst h; exact hi
  | cons e es ih =>
    intro p p' h hi
    simp only [prun] at h
    split at h
    · rename_i p1 hp1
      exact ih p1 p' h (pstep_inv p p1 e hp1 hi)
    · cases h

/-- states of the pair reachable from two open sides (any hook / stream-close configuration on each) -/
def PReach (p : Pair) : Prop := ∃ ha ca hb cb es, prun (Pair.init ha ca hb cb) es = some p

theorem PReach.inv {p : Pair} (h : PReach p) : PInv p := by
  obtain ⟨ha, ca, hb, cb, es, hr⟩ := h
  exact prun_inv es _ _ hr (pinv_init ha ca hb cb)

/-! ### progress: a side whose peer's stream is closed cannot keep waiting -/

/-- reading a frame in flight: one frame fewer, the peer untouched -/
theorem recv_effect (p p' : Pair) (x : PSide) (hs : pstep p (.recv x) = some p') :
    (p'.to x).length + 1 = (p.to x).length ∧ p'.get x.peer = p.get x.peer := by
  simp only [pstep] at hs
  split at hs
  · cases hs
  split at hs
  · cases hs
  · rename_i rest hto
    split at hs <;> (simp only [Option.some.injEq] at hs; subst hs; simp [hto])
  · rename_i s v rest hto
    split at hs <;> (simp only [Option.some.injEq] at hs; subst hs; simp [hto])
  · rename_i rest hto
    simp only [Option.some.injEq] at hs; subst hs; simp [hto]

theorem recv_defined (p : Pair) (x : PSide) (h : canRecv p x = true) : ∃ p', pstep p (.recv x) = some p' := by
  simp only [canRecv, Bool.and_eq_true, Bool.not_eq_true', List.isEmpty_eq_false_iff] at h
  simp only [pstep, h.1, Bool.false_eq_true, if_false]
  cases hto : p.to x with
  | nil => exact absurd hto h.2
  | cons f rest =>
    cases f with
    | close => simp only; split <;> exact ⟨_, rfl⟩
    | resp s v => simp only; split <;> exact ⟨_, rfl⟩
    | req => exact ⟨_, rfl⟩

/-- reading end-of-stream is always possible when it is there, and closes the side -/
theorem eof_effect (p : Pair) (x : PSide) (r : TryRes) (hi : PInv p) (h : seesEof p x = true) :
    ∃ p', pstep p (.eof x r) = some p' ∧ (p'.get x).closed = true ∧ (p'.get x).blocked = []
      ∧ (p'.get x).inClose = (p.get x).inClose := by
  have hf : Flags { p.get x with chanClosed := true } := by
    have f := (hi.side x).inv.flags
    exact ⟨f.hook, fun hc => ⟨(f.cl hc).1, rfl, (f.cl hc).2.2⟩, f.done, f.inc, f.tab⟩
  have c := closeCall_flags r { p.get x with chanClosed := true } hf
  refine ⟨_, by simp only [pstep, h, if_true, step]; rfl, ?_, ?_, ?_⟩
  · simp only [Pair.set_get_self]; exact c.2.1
  · simp only [Pair.set_get_self]; rfl
  · simp only [Pair.set_get_self]
    show (closeCall r _).1.inClose = _
    rw [c.2.2.1]

/-- **progress.** Once the peer's stream is closed, a side that keeps serving reads at most what is still in flight
towards it and then end-of-stream: after at most (frames in flight + 1) `serve()` calls it is closed.  It cannot block:
each of those calls is enabled. -/
theorem serveUntilClosed_closes (x : PSide) (r : TryRes) :
    ∀ (n : Nat) (p : Pair), PInv p → (p.get x.peer).chanClosed = true → (p.to x).length < n →
      ((serveUntilClosed x r n p).get x).closed = true := by
  intro n
  induction n with
  | zero => intro p _ _ h; omega
  | succ n ih =>
    intro p hi hpeer hlen
    simp only [serveUntilClosed]
    by_cases hc : (p.get x).closed = true
    · simp [hc]
    · simp only [hc, Bool.false_eq_true, if_false]
      by_cases hr : canRecv p x = true
      · obtain ⟨p', hp'⟩ := recv_defined p x hr
        have he := recv_effect p p' x hp'
        simp only [serveOnce, hr, if_true, hp']
        exact ih p' (pstep_inv p p' _ hp' hi) (by rw [he.2]; exact hpeer) (by omega)
      · have hse : seesEof p x = true := by
          simp only [canRecv, Bool.and_eq_true, Bool.not_eq_true', not_and, Bool.not_eq_false] at hr
          simp only [seesEof, Bool.or_eq_true, Bool.and_eq_true]
          by_cases hoc : (p.get x).chanClosed = true
          · exact Or.inl hoc
          · exact Or.inr ⟨hpeer, hr (by simpa using hoc)⟩
        obtain ⟨p', hp', hcl, _, _⟩ := eof_effect p x r hi hse
        simp only [serveOnce, hr, Bool.false_eq_true, if_false, hp']
        cases n with
        | zero => simpa [serveUntilClosed] using hcl
        | succ m => simp [serveUntilClosed, hcl]

/-- each of those `serve()` calls is enabled: the side never waits for data that cannot come -/
theorem serveOnce_enabled (p : Pair) (x : PSide) (r : TryRes) (hi : PInv p) (hpeer : (p.get x.peer).chanClosed = true) :
    ∃ p', serveOnce x r p = some p' := by
  by_cases hr : canRecv p x = true
  · obtain ⟨p', hp'⟩ := recv_defined p x hr
    exact ⟨p', by simp [serveOnce, hr, hp']⟩
  · have hse : seesEof p x = true := by
      simp only [canRecv, Bool.and_eq_true, Bool.not_eq_true', not_and, Bool.not_eq_false] at hr
      simp only [seesEof, Bool.or_eq_true, Bool.and_eq_true]
      by_cases hoc : (p.get x).chanClosed = true
      · exact Or.inl hoc
      · exact Or.inr ⟨hpeer, hr (by simpa using hoc)⟩
    obtain ⟨p', hp', _⟩ := eof_effect p x r hi hse
    exact ⟨p', by simp [serveOnce, hr, hp']⟩

end Rpyc.Proto.Life
