import RpycModel.Brine.Model
import RpycModel.Gen.Handlers
/-
L6 `Proto/Handlers` — what one connection does with ANY message a peer can send (property C07).

Source modelled (rpyc/core/protocol.py unless said otherwise):
  `_dispatch`, `_dispatch_request`, `_unbox`, `_netref_factory`, `_box`, `_seq_request_callback`,
  `_check_attr`, `_access_attr`, every `_handle_*`, `_cleanup`, `sync_request` (the wait loop of
  `AsyncResult.wait`, core/async_.py), `vinegar.load` (the import / class-resolution gates),
  `RefCountingColl.add / decref / __getitem__` (lib/colls.py).

Everything the *environment* decides is a parameter: the service's objects are opaque numbers, and every
primitive operation the protocol performs on a Python object is a logged `Touch` whose outcome is the
environment's next `Move` (`Ctx.env`, indexed by a clock so that objects may be stateful): it returns a
value, raises, or first calls back into the peer (`callback`: a synchronous request issued by the callee,
e.g. by a proxy it was handed).  While such a request waits, incoming messages are dispatched nested, as
`AsyncResult.wait → serve → _dispatch` does; the wait ends with the matching reply or, when the peer stays
silent (end of the burst), with `TimeoutError`.  In the theorems the environment is universally
quantified; in the driver the harness supplies what the real run did.
-/
namespace Rpyc.Handlers
open Rpyc

abbrev PyStr := List Nat

/-- code points of an ASCII literal -/
def cp (s : String) : PyStr := s.toList.map Char.toNat

/-! ### configuration -/

inductive Op where
  | get | set | del
  deriving DecidableEq, Repr, Inhabited

structure Config where
  allowSafe : Bool
  allowExposed : Bool
  allowPublic : Bool
  allowAll : Bool
  allowGet : Bool
  allowSet : Bool
  allowDel : Bool
  exposedPrefix : PyStr
  safe : List PyStr
  allowPickle : Bool
  importCustomExc : Bool
  instantiateCustomExc : Bool
  propagateKbdInt : Bool
  propagateSysExit : Bool
  deriving DecidableEq, Repr, Inhabited

/-- `protocol.DEFAULT_CONFIG` (generated from the live dict) -/
def defaultConfig : Config :=
  { allowSafe := Gen.Handlers.cfgAllowSafe
    allowExposed := Gen.Handlers.cfgAllowExposed
    allowPublic := Gen.Handlers.cfgAllowPublic
    allowAll := Gen.Handlers.cfgAllowAll
    allowGet := Gen.Handlers.cfgAllowGet
    allowSet := Gen.Handlers.cfgAllowSet
    allowDel := Gen.Handlers.cfgAllowDel
    exposedPrefix := Gen.Handlers.cfgExposedPrefix
    safe := Gen.Handlers.cfgSafe
    allowPickle := Gen.Handlers.cfgAllowPickle
    importCustomExc := Gen.Handlers.cfgImportCustomExc
    instantiateCustomExc := Gen.Handlers.cfgInstantiateCustomExc
    propagateKbdInt := Gen.Handlers.cfgPropagateKbdInt
    propagateSysExit := Gen.Handlers.cfgPropagateSysExit }

def Config.perm (c : Config) : Op → Bool
  | .get => c.allowGet
  | .set => c.allowSet
  | .del => c.allowDel

/-! ### `_check_attr` as decision logic (same definitions as `Rpyc.Policy`; tied by `HandlersBridge.lean`) -/

def prefixTruthy (c : Config) : Bool := c.allowExposed && !c.exposedPrefix.isEmpty
def twin (c : Config) (name : PyStr) : PyStr := c.exposedPrefix ++ name
def startsUnderscore (name : PyStr) : Bool := ([95] : PyStr).isPrefixOf name

def plainAllowed (c : Config) (name : PyStr) : Bool :=
  c.allowAll
  || (c.allowExposed && c.exposedPrefix.isPrefixOf name)
  || (c.allowSafe && c.safe.contains name)
  || (c.allowPublic && !startsUnderscore name)

def hasExposed (c : Config) (has : PyStr → Bool) (name : PyStr) : Bool :=
  prefixTruthy c && has (twin c name)

/-- `Connection._check_attr(obj, name, perm)` given `hasattr(obj, ·)` -/
def checkAttr (c : Config) (has : PyStr → Bool) (name : PyStr) (op : Op) : Except Err PyStr :=
  if !c.perm op then .error .attributeError
  else if plainAllowed c name && (!hasExposed c has name || has name) then .ok name
  else if hasExposed c has name then .ok (twin c name)
  else if plainAllowed c name then .ok name
  else .error .attributeError

/-! ### values, exceptions, environment moves -/

/-- a value as the serving side holds it after unboxing / as the environment returns it -/
inductive PV where
  /-- a value of the immutable plain types (`brine.dumpable`), carried by value -/
  | imm (v : Val)
  /-- an exact tuple with at least one member that is not plain -/
  | tup (xs : List PV)
  /-- an object of the serving process (environment identity) -/
  | obj (o : Nat)
  /-- a netref of THIS connection to the peer's own object `(name, class id, instance id)` -/
  | proxy (name : PyStr) (cid iid : Val)
  deriving Repr, Inhabited

mutual
/-- the serving side's objects a value refers to -/
def PV.objs : PV → List Nat
  | .obj o => [o]
  | .tup xs => PV.objsL xs
  | _ => []
def PV.objsL : List PV → List Nat
  | [] => []
  | x :: xs => x.objs ++ PV.objsL xs
end

/-- an exception as far as the protocol distinguishes: the class name shown to the peer, whether
`except Exception` catches it, whether its class IS `KeyboardInterrupt` / `SystemExit`, whether it is an `EOFError` -/
structure Exc where
  cls : String
  isException : Bool := true
  kbdInt : Bool := false
  sysExit : Bool := false
  eof : Bool := false
  deriving DecidableEq, Repr, Inhabited

def Exc.ofErr (e : Err) : Exc := { cls := e.name, eof := e == .eofError }

inductive Ans where
  | ret (v : PV)
  | raise (x : Exc)
  deriving Repr, Inhabited

def Ans.objs : Ans → List Nat
  | .ret v => v.objs
  | .raise _ => []

/-- what the environment does next while a primitive operation is in progress -/
inductive Move where
  /-- the operation finishes -/
  | done (a : Ans)
  /-- the callee issues `conn.sync_request(h, *args)` to the peer and waits for the answer -/
  | callback (h : Nat) (args : List PV)
  deriving Repr, Inhabited

/-- kinds of primitive operation -/
inductive TK where
  | probe              -- `hasattr(obj, name)` in `_check_attr`
  | hookLookup         -- `getattr(type(obj), "_rpyc_<op>attr", None)`
  | attr (op : Op)     -- `getattr/setattr/delattr(obj, name, *args)` after `_check_attr`
  | hook (op : Op)     -- `type(obj)._rpyc_<op>attr(obj, name, *args)`
  | call               -- `obj(*args, **dict(kwargs))`   (`_handle_call`)
  | apply              -- `f(a, b, ...)` on an attribute just obtained (cmp, ctxexit, oldslicing)
  | repr | str | hash | dir
  | islice             -- `tuple(itertools.islice(obj, count))`
  | instancecheck      -- `isinstance(<netref of other_id_pack>, obj)`
  | pickle             -- `pickle.dumps(obj, proto)`
  | import_            -- `__import__(modname)`           (`vinegar.load`)
  | modPresent         -- `modname in sys.modules`
  | builtinAttr        -- `getattr(builtins, clsname, None)`
  | buildExc           -- class check, `cls.__new__`, `args` / attribute assignment
  | truth              -- `if exc:`
  | raise_             -- `try: raise exc except Exception: sys.exc_info()`
  | splat              -- `*args` / iteration of a non-plain value
  | index              -- `x[i]` on a non-plain value
  | idpack             -- `get_id_pack(obj)`
  | typeOf             -- `type(obj)`
  | inspect            -- `get_methods(LOCAL_ATTRS, obj)`
  | probeConn          -- `isinstance(obj, netref.BaseNetref)`: is this table object itself a proxy (of another connection)?
  | modLookup          -- `sys.modules.get(prefix)` in `netref.class_factory` (a lookup, never an import)
  | mkclass            -- the rest of `netref.class_factory(id_pack, methods)`: one method per entry, `type(...)`
  | cleanup            -- `self._local_root.on_disconnect(self)`
  deriving DecidableEq, Repr, Inhabited

structure Touch where
  kind : TK
  subj : PV
  name : PyStr := []
  args : List PV := []
  deriving Repr, Inhabited

def Touch.needs (t : Touch) : List Nat := t.subj.objs ++ PV.objsL t.args

/-- the observable history of one connection -/
inductive Ev where
  /-- `_dispatch_request(seq, …)` starts -/
  | request (seq : Val)
  | touch (t : Touch)
  | answer (a : Ans)
  /-- the environment's callee asks for a synchronous request with these arguments -/
  | cbmove (h : Nat) (args : List PV)
  /-- MSG_REQUEST written to the peer -/
  | outReq (seq h : Nat) (boxed : Val)
  /-- MSG_REPLY written to the peer -/
  | reply (seq : Val) (boxed : Val)
  /-- MSG_EXCEPTION written to the peer -/
  | exc (seq : Val) (cls : String)
  /-- a request whose handler's exception is re-raised in the serving thread, or whose answer cannot be written -/
  | aborted (seq : Val) (cls : String)
  /-- an incoming reply / exception: no such outstanding request -/
  | ignored (seq : Val)
  /-- it matched an outstanding request that is still waited for -/
  | delivered (seq : Nat)
  /-- it matched an outstanding request whose wait has expired -/
  | dropped (seq : Nat)
  /-- a wait ended without an answer -/
  | expired (seq : Nat)
  /-- `_local_objects.add(key, obj)` in `_box`: the object is (or stays) lent to the peer under this id pack -/
  | lent (key : Val) (o : Nat)
  /-- `_cleanup` -/
  | cleaned
  /-- an exception left `serve()` at the top level: `serve_all` closes the connection -/
  | ended (cls : String)
  deriving Repr, Inhabited

/-- objects an event hands to the protocol code -/
def Ev.gives : Ev → List Nat
  | .answer a => a.objs
  | .cbmove _ args => PV.objsL args
  | _ => []

/-! ### state -/

/-- one entry of `_local_objects._dict`: key ↦ `[obj, count]` -/
structure Slot where
  key : Val
  o : Nat
  cnt : Int
  deriving Repr, Inhabited

abbrev IdPack := PyStr × Val × Val

structure St where
  table : List Slot := []
  /-- keys of `_proxy_cache` -/
  proxies : List IdPack := []
  /-- keys of `_netref_classes_cache` -/
  classes : List IdPack := []
  /-- `_request_callbacks`: seq ↦ has its wait expired -/
  pending : List (Nat × Bool) := []
  /-- `AsyncResult`s made ready and not yet picked up by their waiter -/
  results : List (Nat × Ans) := []
  nextSeq : Nat := 0
  closed : Bool := false
  clock : Nat := 0
  log : List Ev := []
  /-- the `added` lists of the boxings in progress (innermost first): keys registered for a message not yet written -/
  addStack : List (List Val) := []
  deriving Repr, Inhabited

/-- a well-framed message: its payload decodes to a value, or fails to decode with `e` -/
inductive Wire where
  | val (v : Val)
  | garbage (e : Err)
  /-- an empty payload: `serve()` returns without looking at it (`if not data: return False`) -/
  | empty
  deriving Repr, Inhabited

structure Ctx where
  cfg : Config
  /-- the service object (`_local_root`) -/
  root : Nat
  env : Nat → Move
  /-- `str(v)` of a plain value (CPython) -/
  strOf : Val → PyStr
  /-- bound on the callbacks one primitive operation may make -/
  maxCb : Nat
  /-- bound on the nesting of boxed packages -/
  depth : Nat
  /-- `AsyncResult.wait` for the request `seq` (tied to `dispatch` below) -/
  await : St → Nat → List Wire → Ans × St × List Wire

structure Out (α : Type) where
  r : Except Exc α
  st : St
  fut : List Wire

/-- computations of the serving side: configuration/environment, connection state, messages not yet read -/
def M (α : Type) := Ctx → St → List Wire → Out α

instance : Monad M where
  pure a := fun _ st fut => ⟨.ok a, st, fut⟩
  bind m f := fun c st fut =>
    match m c st fut with
    | ⟨.ok a, st', fut'⟩ => f a c st' fut'
    | ⟨.error x, st', fut'⟩ => ⟨.error x, st', fut'⟩

def throwX {α} (x : Exc) : M α := fun _ st fut => ⟨.error x, st, fut⟩
def throwE {α} (e : Err) : M α := throwX (Exc.ofErr e)
def liftE {α} : Except Err α → M α
  | .ok a => pure a
  | .error e => throwE e
def getCfg : M Config := fun c st fut => ⟨.ok c.cfg, st, fut⟩
def getCtx : M Ctx := fun c st fut => ⟨.ok c, st, fut⟩
def getSt : M St := fun _ st fut => ⟨.ok st, st, fut⟩
def modify (f : St → St) : M Unit := fun _ st fut => ⟨.ok (), f st, fut⟩
def push (e : Ev) : M Unit := modify (fun st => { st with log := st.log ++ [e] })

/-- a generator expression (`tuple(f(x) for x in …)`) turns a `StopIteration` raised in its body into `RuntimeError` (PEP 479) -/
def inGenerator {α} (m : M α) : M α := fun c st fut =>
  match m c st fut with
  | ⟨.error x, st', fut'⟩ => ⟨.error (if x.cls == "StopIteration" then { cls := "RuntimeError" } else x), st', fut'⟩
  | o => o

/-- run `m`; never raises -/
def attempt {α} (m : M α) : M (Except Exc α) := fun c st fut =>
  match m c st fut with
  | ⟨r, st', fut'⟩ => ⟨.ok r, st', fut'⟩

/-- `try: m except Exception: h` -/
def tryExc {α} (m : M α) (h : M α) : M α := fun c st fut =>
  match m c st fut with
  | ⟨.ok a, st', fut'⟩ => ⟨.ok a, st', fut'⟩
  | ⟨.error x, st', fut'⟩ => if x.isException then h c st' fut' else ⟨.error x, st', fut'⟩

/-! ### Python semantics of plain values that the dispatch code relies on -/

/-- exact integer value of a float that is finite and integral (`±0.0 ↦ 0`) -/
def floatInt? (bits : Nat) : Option Int :=
  if bits / 2 ^ 52 % 2048 == 2047 then none
  else if bits / 2 ^ 52 % 2048 == 0 then (if bits % 2 ^ 52 == 0 then some 0 else none)
  else if bits / 2 ^ 52 % 2048 ≥ 1075 then
    some ((if bits / 2 ^ 63 % 2 == 1 then -1 else 1) * (((2 ^ 52 + bits % 2 ^ 52) * 2 ^ (bits / 2 ^ 52 % 2048 - 1075) : Nat) : Int))
  else if 1075 - bits / 2 ^ 52 % 2048 > 52 then none
  else if (2 ^ 52 + bits % 2 ^ 52) % 2 ^ (1075 - bits / 2 ^ 52 % 2048) == 0 then
    some ((if bits / 2 ^ 63 % 2 == 1 then -1 else 1) * (((2 ^ 52 + bits % 2 ^ 52) / 2 ^ (1075 - bits / 2 ^ 52 % 2048) : Nat) : Int))
  else none

inductive Num where
  | int (i : Int)
  | flt (bits : Nat)     -- finite non-integral, or an infinity
  | nan
  deriving DecidableEq, Repr

def numOfFloat (bits : Nat) : Num :=
  if bits / 2 ^ 52 % 2048 == 2047 && bits % 2 ^ 52 != 0 then .nan
  else match floatInt? bits with
    | some i => .int i
    | none => .flt bits

def Num.eq : Num → Num → Bool
  | .int a, .int b => a == b
  | .flt a, .flt b => a == b
  | _, _ => false

/-- numeric value `(re, im)` of bool / int / float / complex -/
def numVal : Val → Option (Num × Num)
  | .bool b => some (.int (if b then 1 else 0), .int 0)
  | .int i => some (.int i, .int 0)
  | .float b => some (numOfFloat b, .int 0)
  | .complex r i => some (numOfFloat r, numOfFloat i)
  | _ => none

/-- `==` between two values neither of which is a tuple / frozenset / slice -/
def leafEq (a b : Val) : Bool :=
  match a, b with
  | .none, .none | .notImpl, .notImpl | .ellipsis, .ellipsis => true
  | .bytes x, .bytes y => x == y
  | .str x, .str y => x == y
  | _, _ =>
    match numVal a, numVal b with
    | some (r1, i1), some (r2, i2) => r1.eq r2 && i1.eq i2
    | _, _ => false

mutual
/-- Python `==` between plain values as `dict` lookup sees it (numbers compare across types) -/
def pyEq : Val → Val → Bool
  | .tuple a, v => match v with
    | .tuple b => pyEqL a b
    | _ => false
  | .fset a, v => match v with
    | .fset b => a.length == b.length && pyAllIn a b
    | _ => false
  | .slice a b c, v => match v with
    | .slice d e f => pyEq a d && pyEq b e && pyEq c f
    | _ => false
  | a, b => leafEq a b
def pyEqL : List Val → List Val → Bool
  | [], ys => ys.isEmpty
  | x :: xs, ys => match ys with
    | y :: ys' => pyEq x y && pyEqL xs ys'
    | [] => false
def pyAllIn : List Val → List Val → Bool
  | [], _ => true
  | x :: xs, ys => ys.any (fun y => pyEq x y) && pyAllIn xs ys
end

/-- `v == n` for a constant natural number -/
def pyEqNat (v : Val) (n : Nat) : Bool := pyEq v (.int n)

/-- truth value of a plain value -/
def truthy : Val → Bool
  | .none => false
  | .bool b => b
  | .int i => i != 0
  | .float b => b % 2 ^ 63 != 0
  | .complex r i => r % 2 ^ 63 != 0 || i % 2 ^ 63 != 0
  | .bytes b => !b.isEmpty
  | .str s => !s.isEmpty
  | .tuple xs => !xs.isEmpty
  | .fset xs => !xs.isEmpty
  | _ => true

/-- `iter(v)` of a plain value -/
def iterVal : Val → Except Err (List Val)
  | .tuple xs => .ok xs
  | .fset xs => .ok xs
  | .bytes b => .ok (b.map (fun x => .int (x : Nat)))
  | .str s => .ok (s.map (fun c => .str [c]))
  | _ => .error .typeError

/-- `a, b = v` -/
def unpack2 (v : Val) : Except Err (Val × Val) :=
  match iterVal v with
  | .error e => .error e
  | .ok [a, b] => .ok (a, b)
  | .ok _ => .error .valueError

/-- `a, b, c = v` -/
def unpack3 (v : Val) : Except Err (Val × Val × Val) :=
  match iterVal v with
  | .error e => .error e
  | .ok [a, b, c] => .ok (a, b, c)
  | .ok _ => .error .valueError

/-- `a, b, c, d = v` -/
def unpack4 (v : Val) : Except Err (Val × Val × Val × Val) :=
  match iterVal v with
  | .error e => .error e
  | .ok [a, b, c, d] => .ok (a, b, c, d)
  | .ok _ => .error .valueError

/-- `v[i]` -/
def indexVal (v : Val) (i : Nat) : Except Err Val :=
  match v with
  | .tuple xs => match xs[i]? with
    | some x => .ok x
    | none => .error .indexError
  | .str s => match s[i]? with
    | some c => .ok (.str [c])
    | none => .error .indexError
  | .bytes b => match b[i]? with
    | some x => .ok (.int (x : Nat))
    | none => .error .indexError
  | _ => .error .typeError

def PV.isImm : PV → Bool
  | .imm _ => true
  | _ => false

def PV.immVal : PV → Val
  | .imm v => v
  | _ => .none

/-- the Python tuple of these members: plain iff every member is -/
def mkTuple (xs : List PV) : PV :=
  if xs.all PV.isImm then .imm (.tuple (xs.map PV.immVal)) else .tup xs

/-! ### primitive operations: one logged touch, answered by the environment -/

def eofExc : Exc := Exc.ofErr .eofError
def timeoutExc : Exc := Exc.ofErr .timeoutError

/-- `RefCountingColl.__getitem__` / `dict.get` on `_local_objects._dict` -/
def lookupSlot (tbl : List Slot) (key : Val) : Option Slot := tbl.find? (fun s => pyEq key s.key)

/-- `RefCountingColl.add` -/
def tableAdd (tbl : List Slot) (key : Val) (o : Nat) : List Slot :=
  match lookupSlot tbl key with
  | none => tbl ++ [{ key := key, o := o, cnt := 0 }]
  | some _ => tbl.map (fun s => if pyEq key s.key then { s with cnt := s.cnt + 1 } else s)

def tableRemove (tbl : List Slot) (key : Val) : List Slot := tbl.filter (fun s => !pyEq key s.key)
def tableSet (tbl : List Slot) (key : Val) (n : Int) : List Slot :=
  tbl.map (fun s => if pyEq key s.key then { s with cnt := n } else s)

/-- `self._local_objects[key]` -/
def tableGet (key : Val) : M Nat := fun _ st fut =>
  match lookupSlot st.table key with
  | some s => ⟨.ok s.o, st, fut⟩
  | none => ⟨.error (Exc.ofErr .keyError), st, fut⟩

/-- `self._local_objects.add(key, obj)` -/
def addSlot (key : Val) (o : Nat) : M Unit :=
  modify (fun st => { st with table := tableAdd st.table key o, log := st.log ++ [.lent key o],
                              addStack := match st.addStack with
                                | [] => []
                                | top :: rest => (top ++ [key]) :: rest })

/-- `decref(id_pack)` of `_unregister`, `KeyError` swallowed -/
def unregOne (tbl : List Slot) (key : Val) : List Slot :=
  match lookupSlot tbl key with
  | none => tbl
  | some s => if s.cnt < 1 then tableRemove tbl key else tableSet tbl key (s.cnt - 1)

/-- `_unregister(added)`: what a boxing registered for a message that is never written is taken back -/
def unregister (added : List Val) : M Unit := modify (fun st => { st with table := added.foldl unregOne st.table })

/-- write one frame: fails with `EOFError` on a closed connection -/
def sendFrame (e : Ev) : M Unit := fun _ st fut =>
  if st.closed then ⟨.error eofExc, st, fut⟩
  else ⟨.ok (), { st with log := st.log ++ [e] }, fut⟩

/-- `AsyncResult.wait` (supplied through the context) -/
def awaitReply (seq : Nat) : M PV := fun c st fut =>
  match c.await st seq fut with
  | (.ret v, st', fut') => ⟨.ok v, st', fut'⟩
  | (.raise x, st', fut') => ⟨.error x, st', fut'⟩

def idpEq (a b : IdPack) : Bool := a.1 == b.1 && pyEq a.2.1 b.2.1 && pyEq a.2.2 b.2.2

/-- `tuple(g(x) for x in xs)` without the tuple -/
def mapM' {α β : Type} (g : α → M β) : List α → M (List β)
  | [] => pure []
  | x :: xs => do
    let b ← g x
    let bs ← mapM' g xs
    pure (b :: bs)

/-- `_box`: by value, as a tuple, as a reference to the peer's own object, or by reference (the object enters the
table).  `s` finishes the `get_id_pack` touch (the environment's answer). -/
def boxWith (s : M PV) : Nat → PV → M Val
  | 0, _ => throwE .recursionError
  | _ + 1, .imm v => pure (.tuple [.int Gen.Handlers.labelValue, v])
  | f + 1, .tup xs => do
    let bs ← inGenerator (mapM' (fun x => boxWith s f x) xs)
    pure (.tuple [.int Gen.Handlers.labelTuple, .tuple bs])
  | _ + 1, .proxy nm c i => pure (.tuple [.int Gen.Handlers.labelLocalRef, .tuple [.str nm, c, i]])
  | _ + 1, .obj o => do
    let st0 ← getSt
    -- `if self._channel.closed: raise EOFError`: no object starts being held for a peer that is gone
    if st0.closed then throwX eofExc else
    push (.touch { kind := .idpack, subj := .obj o })
    let k ← s
    match k with
    | .imm key => do
      addSlot key o
      pure (.tuple [.int Gen.Handlers.labelRemoteRef, key])
    | _ => throwE .notModelled

/-- `self._box(x, added)` with its `added` list: the boxed form or the exception, and the keys it registered -/
def boxCollect (s : M PV) (v : PV) : M (Except Exc Val × List Val) := do
  let c ← getCtx
  modify (fun st => { st with addStack := [] :: st.addStack })
  let r ← attempt (boxWith s c.depth v)
  let st ← getSt
  modify (fun st => { st with addStack := st.addStack.drop 1 })
  pure (r, st.addStack.headD [])

def encodable (v : Val) : Except Err Unit :=
  match Brine.dump v with
  | .ok _ => .ok ()
  | .error e => .error e

/-- the `except Exception:` suite of `_async_request`: take the registrations back, forget the callback, re-raise -/
def requestFailed (seq : Nat) (added : List Val) (x : Exc) : M PV := do
  unregister added
  modify (fun st => { st with pending := st.pending.filter (fun p => p.1 != seq) })
  throwX x

/-- `sync_request(h, *args)`: take a sequence number and register the callback, box the arguments, write the request
(a failure to box, encode or write takes the registrations back), wait -/
def requestWith (s : M PV) (h : Nat) (args : List PV) : M PV := do
  let st ← getSt
  let seq := st.nextSeq
  modify (fun st => { st with nextSeq := seq + 1, pending := st.pending ++ [(seq, false)] })
  let (r, added) ← boxCollect s (mkTuple args)
  match r with
  | .error x => if x.isException then requestFailed seq added x else throwX x
  | .ok boxed =>
    match encodable boxed with
    | .error e => requestFailed seq added (Exc.ofErr e)
    | .ok _ => do
      let sent ← attempt (sendFrame (.outReq seq h boxed))
      match sent with
      | .error x => requestFailed seq added x
      | .ok _ => awaitReply seq

/-- the environment finishes the primitive operation in progress, possibly after callbacks (at most `n`) -/
def settle : Nat → M PV
  | 0 => throwE .notModelled
  | n + 1 => fun c st fut =>
    match c.env st.clock with
    | .done (.ret v) => ⟨.ok v, { st with clock := st.clock + 1, log := st.log ++ [.answer (.ret v)] }, fut⟩
    | .done (.raise x) => ⟨.error x, { st with clock := st.clock + 1, log := st.log ++ [.answer (.raise x)] }, fut⟩
    | .callback h args =>
      match requestWith (settle n) h args c { st with clock := st.clock + 1, log := st.log ++ [.cbmove h args] } fut with
      | ⟨_, st', fut'⟩ => settle n c st' fut'

/-- one primitive operation -/
def prim (t : Touch) : M PV := do
  push (.touch t)
  let c ← getCtx
  settle c.maxCb

def boxTop (v : PV) : M (Except Exc Val × List Val) := do
  let c ← getCtx
  boxCollect (settle c.maxCb) v

def requestTop (h : Nat) (args : List PV) : M PV := do
  let c ← getCtx
  requestWith (settle c.maxCb) h args

/-- truth value of an answer -/
def PV.truthy : PV → Bool
  | .imm v => Handlers.truthy v
  | _ => true

/-! ### `_unbox`, `_netref_factory` -/

def zeroIid (v : Val) : Bool := pyEqNat v 0

def isNone : PV → Bool
  | .imm .none => true
  | _ => false

/-- the `(module prefix, class name)` candidates `netref.class_factory` tries for a dotted name, in its order: the whole
name, then every cut at a `.` from the right (`cursor = name_pack[:cursor].rfind('.')`) -/
def dotCuts (name : PyStr) : List (PyStr × PyStr) :=
  (name, []) :: (((List.range name.length).reverse.filter (fun i => name[i]? == some 46)).map
    (fun i => (name.take i, name.drop (i + 1))))

/-- the name resolution of `netref.class_factory`: `sys.modules.get(prefix)` for each candidate until one is there;
the class is then read out of that module's namespace (`vars(module).get(rest)`: data, no code runs - in particular
not a module-level `__getattr__`).  Nothing is imported: a module that is not already in `sys.modules` is skipped. -/
def classLookup : List (PyStr × PyStr) → M Unit
  | [] => pure ()
  | (p, _) :: rest => do
    let m ← prim { kind := .modLookup, subj := .imm (.str p) }
    if isNone m then classLookup rest else pure ()

/-- `_netref_factory(id_pack)`: class from the per-connection cache (classes only), from the builtin cache,
or after asking the peer (`HANDLE_INSPECT`) and building it (`netref.class_factory`) -/
def netrefFactory (idp : IdPack) : M Unit := do
  let st ← getSt
  if zeroIid idp.2.2 && st.classes.any (idpEq idp) then pure ()
  else if Gen.Handlers.builtinNetrefNames.contains idp.1 then pure ()
  else do
    let methods ← requestTop Gen.Handlers.handleInspect [.imm (.tuple [.str idp.1, idp.2.1, idp.2.2])]
    classLookup (dotCuts idp.1)
    let _ ← prim { kind := .mkclass, subj := .imm (.tuple [.str idp.1, idp.2.1, idp.2.2]), args := [methods] }
    if zeroIid idp.2.2 then modify (fun st => { st with classes := st.classes ++ [idp] }) else pure ()

/-- a package after `_resolve_local_refs`: every LOCAL_REF replaced by the object it names -/
inductive Pkg where
  /-- `(_RESOLVED, obj)` -/
  | res (o : Nat)
  /-- `(LABEL_TUPLE, (…))` with its members resolved -/
  | node (items : List Pkg)
  /-- any other pair, untouched (its label is judged in the second pass) -/
  | leaf (label value : Val)
  deriving Repr, Inhabited

/-- `_resolve_local_refs(package)`, the first pass of `_unbox`: walks the whole package through nested TUPLEs; the
unpacking errors and the `KeyError` of an identifier that is not in THIS connection's table arise here, before any
proxy is created (so before any `HANDLE_INSPECT` round trip).  It reads the table and changes nothing. -/
def resolve : Nat → Val → M Pkg
  | 0, _ => throwE .recursionError
  | f + 1, pkg => do
    let (label, value) ← liftE (unpack2 pkg)
    if pyEqNat label Gen.Handlers.labelTuple then do
      let items ← liftE (iterVal value)
      let xs ← inGenerator (mapM' (fun x => resolve f x) items)
      pure (.node xs)
    else if pyEqNat label Gen.Handlers.labelLocalRef then do
      let o ← tableGet value
      pure (.res o)
    else pure (.leaf label value)

/-- `_unbox(package, _resolved=True)`, the second pass: by value, tuples, the resolved objects, proxies for
REMOTE_REFs (which may ask the peer: `_netref_factory`), `ValueError` for any other label -/
def unbox2 : Nat → Pkg → M PV
  | 0, _ => throwE .recursionError
  | _ + 1, .res o => pure (.obj o)
  | f + 1, .node xs => do
    let ys ← inGenerator (mapM' (fun x => unbox2 f x) xs)
    pure (mkTuple ys)
  | _ + 1, .leaf label value =>
    if pyEqNat label Gen.Handlers.labelValue then pure (.imm value)
    else if pyEqNat label Gen.Handlers.labelRemoteRef then do
      let v0 ← liftE (indexVal value 0)
      let v1 ← liftE (indexVal value 1)
      let v2 ← liftE (indexVal value 2)
      let c ← getCtx
      let idp : IdPack := (c.strOf v0, v1, v2)
      let st ← getSt
      if st.proxies.any (idpEq idp) then pure (.proxy idp.1 v1 v2)
      else do
        -- the class first (`_netref_class`: possibly a round trip during which this very object may arrive again),
        -- the proxy cache is looked up once more only afterwards: one proxy per remote object
        netrefFactory idp
        modify (fun st => if st.proxies.any (idpEq idp) then st else { st with proxies := st.proxies ++ [idp] })
        pure (.proxy idp.1 v1 v2)
    else throwE .valueError

/-- `_unbox(package)` for an arbitrary decoded value: resolve, then build -/
def unbox (f : Nat) (pkg : Val) : M PV := do
  let p ← resolve f pkg
  unbox2 f p

def unboxTop (pkg : Val) : M PV := do
  let c ← getCtx
  unbox c.depth pkg

/-! ### `_check_attr`, `_access_attr` -/

def overrider : Op → PyStr
  | .get => cp "_rpyc_getattr"
  | .set => cp "_rpyc_setattr"
  | .del => cp "_rpyc_delattr"

/-- `if type(name) is bytes: name = str(name, "utf8") elif type(name) is not str: raise TypeError` -/
def decodeName : PV → Except Err PyStr
  | .imm (.str s) => .ok s
  | .imm (.bytes b) =>
    match utf8Dec false b with
    | some s => .ok s
    | none => .error .unicodeDecodeError
  | _ => .error .typeError

def probe (obj : PV) (n : PyStr) : M Bool := do
  let a ← prim { kind := .probe, subj := obj, name := n }
  pure a.truthy

/-- the answers to the two `hasattr` probes as a `has` function -/
def hasOf (c : Config) (n : PyStr) (b1 b2 : Bool) : PyStr → Bool := fun m => if m == twin c n then b1 else b2

def probeIf (b : Bool) (obj : PV) (n : PyStr) : M Bool := if b then probe obj n else pure false

/-- `_check_attr`: `hasattr(obj, prefix + name)` iff the prefix is truthy, `hasattr(obj, name)` iff `plain and has_exposed` -/
def checkAttrM (obj : PV) (n : PyStr) (op : Op) : M PyStr := do
  let cfg ← getCfg
  if !cfg.perm op then throwE .attributeError
  else do
    let b1 ← probeIf (prefixTruthy cfg) obj (twin cfg n)
    let b2 ← probeIf (plainAllowed cfg n && b1) obj n
    liftE (checkAttr cfg (hasOf cfg n b1 b2) n op)

/-- `_access_attr(obj, name, args, overrider, param, default)` -/
def accessAttr (obj name : PV) (extra : List PV) (op : Op) : M PV := do
  let n ← liftE (decodeName name)
  let hk ← prim { kind := .hookLookup, subj := obj, name := overrider op }
  if !isNone hk then prim { kind := .hook op, subj := obj, name := n, args := extra }
  else do
    let n' ← checkAttrM obj n op
    prim { kind := .attr op, subj := obj, name := n', args := extra }

/-! ### the handlers -/

/-- `*x` / `tuple(x)` -/
def splat (x : PV) : M (List PV) :=
  match x with
  | .imm v => do
    let xs ← liftE (iterVal v)
    pure (xs.map PV.imm)
  | .tup xs => pure xs
  | other => do
    let r ← prim { kind := .splat, subj := other }
    match r with
    | .imm (.tuple vs) => pure (vs.map PV.imm)
    | .tup xs => pure xs
    | _ => throwE .notModelled

/-- `x[i]` -/
def indexPV (x : PV) (i : Nat) : M PV :=
  match x with
  | .imm v => do
    let r ← liftE (indexVal v i)
    pure (.imm r)
  | .tup xs => match xs[i]? with
    | some r => pure r
    | none => throwE .indexError
  | other => prim { kind := .index, subj := other, args := [.imm (.int i)] }

/-- hashing a key that is not plain runs the object's `__hash__` -/
def hashKey (x : PV) : M Unit :=
  match x with
  | .imm _ => pure ()
  | other => do
    let _ ← prim { kind := .hash, subj := other }
    pure ()

/-- `_cleanup`: flag, channel, the service's `on_disconnect`, and - whatever that hook does (`try … finally`) - the four
tables; the hook's exception, if any, goes on -/
def cleanup : M Unit := do
  modify (fun st => { st with closed := true, log := st.log ++ [.cleaned] })
  let c ← getCtx
  let r ← attempt (prim { kind := .cleanup, subj := .obj c.root })
  modify (fun st => { st with table := [], proxies := [], classes := [], pending := [], results := [] })
  match r with
  | .error x => throwX x
  | .ok _ => pure ()

def hPing : List PV → M PV
  | [d] => pure d
  | _ => throwE .typeError

def hClose : List PV → M PV
  | [] => do cleanup; pure (.imm .none)
  | _ => throwE .typeError

def hGetroot : List PV → M PV
  | [] => do let c ← getCtx; pure (.obj c.root)
  | _ => throwE .typeError

/-- `RefCountingColl.decref(key, n)`: `slot = self._dict[key]` (KeyError), then
`if slot[1] < count: del self._dict[key] else: slot[1] -= count` -/
def decref (key : Val) (n : Int) : M PV := do
  let st ← getSt
  match lookupSlot st.table key with
  | none => throwE .keyError
  | some s => do
    modify (fun st => { st with table := if s.cnt < n then tableRemove st.table key else tableSet st.table key (s.cnt - n) })
    pure (.imm .none)

/-- `_handle_del(obj, count)`: `if type(count) is not int or count < 1: raise TypeError` (nothing but an exact int is
ever compared or subtracted under the table's lock, and a release gives back at least one reference: zero or a negative
count would raise the stored count), then `get_id_pack(obj)` and `decref` -/
def hDelCore (obj count : PV) : M PV :=
  match count with
  | .imm (.int n) =>
    if n < 1 then throwE .typeError else do
    let k ← prim { kind := .idpack, subj := obj }
    match k with
    | .imm key => decref key n
    | _ => throwE .notModelled
  | _ => throwE .typeError

def hDel : List PV → M PV
  | [o] => hDelCore o (.imm (.int 1))
  | [o, n] => hDelCore o n
  | _ => throwE .typeError

def hRepr : List PV → M PV
  | [o] => prim { kind := .repr, subj := o }
  | _ => throwE .typeError

def hStr : List PV → M PV
  | [o] => prim { kind := .str, subj := o }
  | _ => throwE .typeError

def hHash : List PV → M PV
  | [o] => prim { kind := .hash, subj := o }
  | _ => throwE .typeError

def hDir : List PV → M PV
  | [o] => prim { kind := .dir, subj := o }
  | _ => throwE .typeError

/-- `_handle_cmp(obj, other, op)`: an object whose type defines its own attribute hook decides by that hook, as for
every other access by name - `if getattr(type(obj), "_rpyc_getattr", None) is not None:
return _access_attr(obj, op, (), "_rpyc_getattr", "allow_getattr", getattr)(other)`; any other object takes
`_access_attr(type(obj), op, (), "_rpyc_getattr", "allow_getattr", getattr)(obj, other)` (the operator is looked up on
the type, under the connection's policy) -/
def hCmpCore (obj other op : PV) : M PV := do
  let ty ← prim { kind := .typeOf, subj := obj }
  let own ← prim { kind := .hookLookup, subj := obj, name := overrider .get }
  if !isNone own then do
    let f ← accessAttr obj op [] .get
    prim { kind := .apply, subj := f, args := [other] }
  else do
    let f ← accessAttr ty op [] .get
    prim { kind := .apply, subj := f, args := [obj, other] }

def hCmp : List PV → M PV
  | [o, x] => hCmpCore o x (.imm (.str (cp "__cmp__")))
  | [o, x, op] => hCmpCore o x op
  | _ => throwE .typeError

/-- `type(x) is tuple` -/
def PV.isTuple : PV → Bool
  | .imm (.tuple _) => true
  | .tup _ => true
  | _ => false

/-- `_handle_call(obj, args, kwargs)`: `if type(args) is not tuple or type(kwargs) is not tuple: raise TypeError`,
then `obj(*args, **dict(kwargs))` -/
def callChecked (o a kw : PV) : M PV :=
  if a.isTuple && kw.isTuple then prim { kind := .call, subj := o, args := [a, kw] }
  else throwE .typeError

def hCall : List PV → M PV
  | [o, a] => callChecked o a (.imm (.tuple []))
  | [o, a, kw] => callChecked o a kw
  | _ => throwE .typeError

def hGetattr : List PV → M PV
  | [o, n] => accessAttr o n [] .get
  | _ => throwE .typeError

def hDelattr : List PV → M PV
  | [o, n] => accessAttr o n [] .del
  | _ => throwE .typeError

def hSetattr : List PV → M PV
  | [o, n, v] => accessAttr o n [v] .set
  | _ => throwE .typeError

def hCallattrCore (o n a kw : PV) : M PV := do
  let f ← accessAttr o n [] .get
  callChecked f a kw

def hCallattr : List PV → M PV
  | [o, n, a] => hCallattrCore o n a (.imm (.tuple []))
  | [o, n, a, kw] => hCallattrCore o n a kw
  | _ => throwE .typeError

/-- `self._local_objects[id_pack]` for an argument that need not be plain -/
def lookupPV (x : PV) : M Nat :=
  match x with
  | .imm v => tableGet v
  | other => do
    hashKey other
    throwE .keyError

/-- `isinstance(obj, netref.BaseNetref)` in `_handle_inspect` / `_handle_instancecheck` ("keep unwrapping": rpyc over
rpyc).  Decided by type for values, tuples and this connection's proxies; for a local object it is a question put to
the object (`isinstance` falls back to reading `obj.__class__`), answered by the environment. -/
def probeConn (x : PV) : M Bool :=
  match x with
  | .imm _ => pure false
  | .tup _ => pure false
  | .proxy _ _ _ => pure true
  | .obj o => do
    let r ← prim { kind := .probeConn, subj := .obj o }
    pure r.truthy

def hInspect : List PV → M PV
  | [idp] => do
    let o ← lookupPV idp
    let chained ← probeConn (.obj o)
    if chained then throwE .notModelled
    else prim { kind := .inspect, subj := .obj o }
  | _ => throwE .typeError

def truth (x : PV) : M Bool :=
  match x with
  | .imm v => pure (truthy v)
  | .tup _ => pure true
  | other => do
    let r ← prim { kind := .truth, subj := other }
    pure r.truthy

/-- `if exc: try: raise exc except Exception: exc, typ, tb = sys.exc_info() else: typ = tb = None` -/
def ctxTriple (t : Bool) (exc : PV) : M (List PV) :=
  if t then do
    let r ← prim { kind := .raise_, subj := exc }
    splat r
  else pure [exc, .imm .none, .imm .none]

def hCtxexit : List PV → M PV
  | [o, exc] => do
    let t ← truth exc
    let triple ← ctxTriple t exc
    let f ← accessAttr o (.imm (.str (cp "__exit__"))) [] .get
    prim { kind := .apply, subj := f, args := triple }
  | _ => throwE .typeError

/-- `x in netref.builtin_classes_cache` -/
def inBuiltin (x : PV) : M Bool :=
  match x with
  | .imm (.str s) => pure (Gen.Handlers.builtinNetrefNames.contains s)
  | .imm _ => pure false
  | other => do hashKey other; pure false

def hInstancecheck : List PV → M PV
  | [o, pack] => do
    let pc ← probeConn o
    if pc then
      match o with
      | .proxy _ _ _ => requestTop Gen.Handlers.handleInspect [pack]
      | _ => throwE .notModelled
    else do
      let e0 ← indexPV pack 0
      let e1 ← indexPV pack 1
      let e0' ← indexPV pack 0
      let b ← inBuiltin e0'
      if b then prim { kind := .instancecheck, subj := o, args := [pack] }
      else do
        hashKey e0
        hashKey e1
        let st ← getSt
        let hit := match e0, e1 with
          | .imm (.str s), .imm c => st.classes.any (idpEq (s, c, .int 0))
          | _, _ => false
        if hit then prim { kind := .instancecheck, subj := o, args := [mkTuple [e0, e1, .imm (.int 0)]] }
        else pure (.imm (.bool false))
  | _ => throwE .typeError

def hPickle : List PV → M PV
  | [o, proto] => do
    let cfg ← getCfg
    if !cfg.allowPickle then throwE .valueError
    else prim { kind := .pickle, subj := o, args := [proto] }
  | _ => throwE .typeError

def hBuffiter : List PV → M PV
  | [o, n] => prim { kind := .islice, subj := o, args := [n] }
  | _ => throwE .typeError

def hOldslicing : List PV → M PV
  | [o, attempt_, fallback, start, stop, args] =>
    tryExc (do
        let f ← accessAttr o attempt_ [] .get
        let xs ← splat args
        prim { kind := .apply, subj := f, name := cp "slice", args := start :: stop :: xs })
      (do
        let stop' := if isNone stop then .imm (.int Gen.Handlers.maxint) else stop
        let g ← accessAttr o fallback [] .get
        let xs ← splat args
        prim { kind := .apply, subj := g, args := start :: stop' :: xs })
  | _ => throwE .typeError

/-- the handlers the model knows, by method name -/
def runHandler (name : String) (args : List PV) : M PV :=
  if name == "_handle_ping" then hPing args
  else if name == "_handle_close" then hClose args
  else if name == "_handle_getroot" then hGetroot args
  else if name == "_handle_getattr" then hGetattr args
  else if name == "_handle_delattr" then hDelattr args
  else if name == "_handle_setattr" then hSetattr args
  else if name == "_handle_call" then hCall args
  else if name == "_handle_callattr" then hCallattr args
  else if name == "_handle_repr" then hRepr args
  else if name == "_handle_str" then hStr args
  else if name == "_handle_cmp" then hCmp args
  else if name == "_handle_hash" then hHash args
  else if name == "_handle_instancecheck" then hInstancecheck args
  else if name == "_handle_dir" then hDir args
  else if name == "_handle_pickle" then hPickle args
  else if name == "_handle_del" then hDel args
  else if name == "_handle_inspect" then hInspect args
  else if name == "_handle_buffiter" then hBuffiter args
  else if name == "_handle_oldslicing" then hOldslicing args
  else if name == "_handle_ctxexit" then hCtxexit args
  else throwE .notModelled

/-- `self._HANDLERS[handler]` -/
def lookupHandler (h : Val) : Except Err String :=
  match Gen.Handlers.handlerTable.find? (fun p => pyEqNat h p.1) with
  | some p => .ok p.2
  | none => .error .keyError

/-! ### `_dispatch_request`, `_dispatch` -/

/-- the guarded part: unpack, unbox, look the handler up, bind the arguments, run it -/
def handleRequest (raw : Val) : M PV := do
  let (h, a) ← liftE (unpack2 raw)
  let args ← unboxTop a
  let name ← liftE (lookupHandler h)
  let xs ← splat args
  runHandler name xs

def sendExc (seq : Val) (x : Exc) : M Unit := fun _ st fut =>
  if st.closed then ⟨.error eofExc, { st with log := st.log ++ [.aborted seq eofExc.cls] }, fut⟩
  else ⟨.ok (), { st with log := st.log ++ [.exc seq x.cls] }, fut⟩

/-- the request's exception is re-raised in the serving thread -/
def abortWith (seq : Val) (x : Exc) : M Unit := fun _ st fut =>
  ⟨.error x, { st with log := st.log ++ [.aborted seq x.cls] }, fut⟩

/-- write the reply frame, or find the channel closed -/
def sendReply (seq : Val) (b : Val) (added : List Val) : M Unit := fun c st fut =>
  if st.closed then (do unregister added; abortWith seq eofExc) c st fut
  else ⟨.ok (), { st with log := st.log ++ [.reply seq b] }, fut⟩

/-- `self._send(consts.MSG_REPLY, seq, self._box(res, added))` and what follows a failure: `EOFError` → registrations
taken back, re-raised; any other `Exception` (the result cannot be boxed or encoded) → registrations taken back, the
exception is the answer; anything else goes on -/
def sendResult (seq : Val) (res : PV) : M Unit := do
  let (r, added) ← boxTop res
  match r with
  | .error x =>
    if x.eof then do unregister added; abortWith seq x
    else if x.isException then do unregister added; sendExc seq x
    else abortWith seq x
  | .ok b =>
    match encodable b with
    | .error e => do unregister added; sendExc seq (Exc.ofErr e)
    | .ok _ => sendReply seq b added

/-- what `_dispatch_request` does with the handler's outcome -/
def answer (seq : Val) (r : Except Exc PV) : M Unit := do
  let cfg ← getCfg
  match r with
  | .ok res => sendResult seq res
  | .error x =>
    if (x.sysExit && cfg.propagateSysExit) || (x.kbdInt && cfg.propagateKbdInt) then abortWith seq x
    else sendExc seq x

/-- `_dispatch_request(seq, raw_args)`: exactly one of reply / exception reply / abort (the exception is re-raised in
the serving thread, or nothing can be written any more) -/
def dispatchRequest (seq raw : Val) : M Unit := do
  push (.request seq)
  let r ← attempt (handleRequest raw)
  answer seq r

/-- `_seq_request_callback`: pop the callback; an expired `AsyncResult` drops what it is given -/
def seqCallback (seq : Val) (a : Ans) : M Unit := fun _ st fut =>
  match st.pending.find? (fun p => pyEqNat seq p.1) with
  | none => ⟨.ok (), { st with log := st.log ++ [.ignored seq] }, fut⟩
  | some (k, expired) =>
    if expired then
      ⟨.ok (), { st with pending := st.pending.filter (fun p => p.1 != k), log := st.log ++ [.dropped k] }, fut⟩
    else
      ⟨.ok (), { st with pending := st.pending.filter (fun p => p.1 != k), results := st.results ++ [(k, a)],
                         log := st.log ++ [.delivered k] }, fut⟩

def strOfPy (s : PyStr) : String := String.ofList (s.map Char.ofNat)

/-- `if import_custom_exceptions and modname not in sys.modules: try: __import__(modname) except Exception: pass` -/
def importGate (modname : Val) : M Unit := do
  let cfg ← getCfg
  if cfg.importCustomExc then do
    let present ← prim { kind := .modPresent, subj := .imm modname }
    if !present.truthy then do
      let r ← attempt (prim { kind := .import_, subj := .imm modname })
      match r with
      | .error x => if x.isException then pure () else throwX x
      | .ok _ => pure ()
    else pure ()
  else pure ()

/-- where `vinegar.load` looks the class up: in `sys.modules[modname]` iff `instantiate_custom_exceptions`,
else among the builtins iff `modname == "builtins"`, else nowhere.  In a module that is present the class is read out of
the module's namespace (`vars(module).get(clsname)`: data, no code runs - in particular not a module-level
`__getattr__`), so there is no operation to log; which class that was shows in the answer to `buildExc`. -/
def classGate (modname clsname : Val) : M PV := do
  let cfg ← getCfg
  if cfg.instantiateCustomExc then do
    let _ ← prim { kind := .modPresent, subj := .imm modname }
    pure (.imm .none)
  else if pyEq modname (.str (cp "builtins")) then prim { kind := .builtinAttr, subj := .imm clsname }
  else pure (.imm .none)

/-- `vinegar.load(val, import_custom_exceptions, instantiate_custom_exceptions, …)`: what the waiter will see raised -/
def loadExc (val : Val) : M Ans :=
  if pyEqNat val Gen.Handlers.excStopIteration then pure (.raise { cls := "StopIteration" })
  else match val with
  | .str _ => pure (.raise { cls := "TypeError" })
  | _ => do
    let (head, args, attrs, tb) ← liftE (unpack4 val)
    let (modname, clsname) ← liftE (unpack2 head)
    importGate modname
    let cls ← classGate modname clsname
    let r ← prim { kind := .buildExc, subj := cls, args := [.imm modname, .imm clsname, .imm args, .imm attrs, .imm tb] }
    match r with
    | .imm (.str nm) => pure (.raise { cls := strOfPy nm })
    | _ => throwE .notModelled

/-- `_deliver_response`: a payload that cannot be decoded here (`Exception`, not `EOFError`) becomes the request's outcome -
that failure, as an exception - instead of leaving `serve()`; anything else goes on -/
def deliverResponse (seq : Val) (r : Except Exc Ans) : M Unit :=
  match r with
  | .ok a => seqCallback seq a
  | .error x => if x.eof || !x.isException then throwX x else seqCallback seq (.raise x)

/-- `_dispatch(data)` after `brine.load`, or the decoder's exception -/
def dispatch (w : Wire) : M Unit :=
  match w with
  | .empty => pure ()
  | .garbage e => throwE e
  | .val v => do
    let (msg, seq, args) ← liftE (unpack3 v)
    if pyEqNat msg Gen.Handlers.msgRequest then dispatchRequest seq args
    else if pyEqNat msg Gen.Handlers.msgReply then do
      let r ← attempt (unboxTop args)
      deliverResponse seq (match r with
        | .ok obj => .ok (.ret obj)
        | .error x => .error x)
    else if pyEqNat msg Gen.Handlers.msgException then do
      let r ← attempt (loadExc args)
      deliverResponse seq r
    else throwE .valueError

/-! ### waiting and serving -/

def takeResult (st : St) (seq : Nat) : Option (Ans × St) :=
  match st.results.find? (fun p => p.1 == seq) with
  | some p => some (p.2, { st with results := st.results.filter (fun q => q.1 != seq) })
  | none => none

/-- the deadline of the wait for `seq` passes: every request issued earlier (same timeout, earlier deadline) whose
answer nobody has consumed is past its deadline as well -/
def expire (st : St) (seq : Nat) : St :=
  { st with pending := st.pending.map (fun p => (p.1, true)),
            log := st.log ++ [.expired seq] }

/-- `AsyncResult.wait`: `while not ready and not expired: conn.serve(ttl)`; the rest of the burst is what arrives
before the deadline -/
def awaitF (b : Ctx) : Nat → St → Nat → List Wire → Ans × St × List Wire
  | 0, st, _, fut => (.raise (Exc.ofErr .notModelled), st, fut)
  | f + 1, st, seq, fut =>
    match takeResult st seq with
    | some (a, st') => (a, st', fut)
    | none =>
      if st.closed then (.raise eofExc, st, fut)
      else match fut with
        | [] => (.raise timeoutExc, expire st seq, [])
        | w :: rest =>
          match dispatch w { b with await := awaitF b f } st rest with
          | ⟨.error x, st', fut'⟩ => (.raise x, st', fut')
          | ⟨.ok _, st', fut'⟩ => awaitF b f st' seq fut'

def Ctx.tie (b : Ctx) (fuel : Nat) : Ctx := { b with await := awaitF b fuel }

/-- `close()` as `serve_all`'s `finally` runs it, unless the connection is already closed: the flag, an asynchronous
`HANDLE_CLOSE` request to the peer (the channel is still open), then `_cleanup` (whose exceptions end the thread) -/
def closeConn (c : Ctx) (st : St) : St :=
  if st.closed then st
  else (cleanup c { st with nextSeq := st.nextSeq + 1, pending := st.pending ++ [(st.nextSeq, false)],
                            log := st.log ++ [.outReq st.nextSeq Gen.Handlers.handleClose
                                                (.tuple [.int Gen.Handlers.labelValue, .tuple []])] } []).st

/-- `serve_all` over the messages of one burst: an exception out of `serve()` closes the connection -/
def serveBurst (b : Ctx) : Nat → St → List Wire → St
  | 0, st, _ => st
  | f + 1, st, fut =>
    if st.closed then st
    else match fut with
      | [] => st
      | w :: rest =>
        match dispatch w (b.tie f) st rest with
        | ⟨.error x, st', _⟩ => closeConn (b.tie f) { st' with log := st'.log ++ [.ended x.cls] }
        | ⟨.ok _, st', fut'⟩ => serveBurst b f st' fut'

/-- a whole session: bursts separated by silences longer than the request timeout -/
def run (b : Ctx) (fuel : Nat) (st : St) : List (List Wire) → St
  | [] => st
  | ws :: rest => run b fuel (serveBurst b fuel st ws) rest

/-! ### closed world: the tables the model was written against -/

def modelledHandlers : List (Nat × String) :=
  [(Gen.Handlers.handlePing, "_handle_ping"), (Gen.Handlers.handleClose, "_handle_close"),
   (Gen.Handlers.handleGetroot, "_handle_getroot"), (Gen.Handlers.handleGetattr, "_handle_getattr"),
   (Gen.Handlers.handleDelattr, "_handle_delattr"), (Gen.Handlers.handleSetattr, "_handle_setattr"),
   (Gen.Handlers.handleCall, "_handle_call"), (Gen.Handlers.handleCallattr, "_handle_callattr"),
   (Gen.Handlers.handleRepr, "_handle_repr"), (Gen.Handlers.handleStr, "_handle_str"),
   (Gen.Handlers.handleCmp, "_handle_cmp"), (Gen.Handlers.handleHash, "_handle_hash"),
   (Gen.Handlers.handleDir, "_handle_dir"), (Gen.Handlers.handlePickle, "_handle_pickle"),
   (Gen.Handlers.handleDel, "_handle_del"), (Gen.Handlers.handleInspect, "_handle_inspect"),
   (Gen.Handlers.handleBuffiter, "_handle_buffiter"), (Gen.Handlers.handleOldslicing, "_handle_oldslicing"),
   (Gen.Handlers.handleCtxexit, "_handle_ctxexit"), (Gen.Handlers.handleInstancecheck, "_handle_instancecheck")]

/-- (handler, required positional arguments, all positional arguments) the handler functions above bind against: each
matches argument lists of exactly these lengths and answers `TypeError` otherwise (compare `Gen.Handlers.handlerArity`;
parameter NAMES are not behaviour: the wire carries positions) -/
def modelledArity : List (String × Nat × Nat) :=
  [("_handle_buffiter", 2, 2), ("_handle_call", 2, 3), ("_handle_callattr", 3, 4),
   ("_handle_close", 0, 0), ("_handle_cmp", 2, 3), ("_handle_ctxexit", 2, 2),
   ("_handle_del", 1, 2), ("_handle_delattr", 2, 2), ("_handle_dir", 1, 1),
   ("_handle_getattr", 2, 2), ("_handle_getroot", 0, 0), ("_handle_hash", 1, 1),
   ("_handle_inspect", 1, 1), ("_handle_instancecheck", 2, 2), ("_handle_oldslicing", 6, 6),
   ("_handle_pickle", 2, 2), ("_handle_ping", 1, 1), ("_handle_repr", 1, 1),
   ("_handle_setattr", 3, 3), ("_handle_str", 1, 1)]

/-- the normalised primitive touches of every handler the model was transcribed from (compare
`Gen.Handlers.handlerTouches`: private helpers followed, locals anonymous, re-raises and exception constructors ignored) -/
def modelledTouches : List (String × List String) :=
  [("_handle_buffiter", ["itertools.islice", "tuple"]),
   ("_handle_call", ["<call>", "<kwsplat>", "<splat>", "dict", "raise:TypeError", "type"]),
   ("_handle_callattr", ["<call>", "<kwsplat>", "<splat>", "dict", "raise:TypeError", "self._access_attr", "type"]),
   ("_handle_close", ["self._cleanup"]),
   ("_handle_cmp", ["<call>", "getattr", "self._access_attr", "type"]),
   ("_handle_ctxexit", ["<call>", "raise:<var>", "self._access_attr", "sys.exc_info", "truth:<var>"]),
   ("_handle_del", ["get_id_pack", "raise:TypeError", "self._local_objects.decref", "type"]),
   ("_handle_delattr", ["self._access_attr"]),
   ("_handle_dir", ["dir", "tuple"]),
   ("_handle_getattr", ["self._access_attr"]),
   ("_handle_getroot", []),
   ("_handle_hash", ["hash"]),
   ("_handle_inspect", [".sync_request", "get_methods", "index:self._local_objects", "isinstance", "tuple"]),
   ("_handle_instancecheck", [".sync_request", "<call>", "index:netref.builtin_classes_cache",
      "index:self._netref_classes_cache", "isinstance"]),
   ("_handle_oldslicing", ["<call>", "<splat>", "self._access_attr", "slice"]),
   ("_handle_pickle", ["bytes", "pickle.dumps", "raise:ValueError"]),
   ("_handle_ping", []),
   ("_handle_repr", ["repr"]),
   ("_handle_setattr", ["self._access_attr"]),
   ("_handle_str", ["str"])]

/-- everything `netref.class_factory` does, helpers followed (compare `Gen.Handlers.classFactoryCalls`): the name of a
proxied class is resolved with `sys.modules.get` and then READ OUT of the module's namespace (`vars(module).get`) —
`classLookup` above.  There is no `getattr` on the module (it would run a PEP 562 module `__getattr__` with the peer's
name), no `hasattr` / attribute read on what was found (only a class is accepted: `issubclass(type(found), type)` asks
the object nothing), and nothing in this list imports. -/
def modelledClassFactoryCalls : List String :=
  ["<call>", "NetrefClass", "_make_method", "_normalized_builtin_types.get", "isinstance", "issubclass",
   "len", "str", "sys.modules.get", "type", "vars"]

end Rpyc.Handlers
