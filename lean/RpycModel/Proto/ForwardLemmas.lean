import RpycModel.Proto.Forward
import RpycModel.Proto.CallsLemmas
/-
Helper lemmas of the forwarding layer (C02): the handler table rows the model relies on, forwarding of each
operation, the policy's decisions under the three configurations, and the buffered-iteration loop.
-/
namespace Rpyc.Forward
open Rpyc Rpyc.Calls

/-! ### generated handler table: the rows `serve` dispatches on -/

@[simp] theorem lookup_getattr : Gen.Netref.handlerTable.lookup Gen.Netref.handleGetattr = some "_handle_getattr" := by decide
@[simp] theorem lookup_setattr : Gen.Netref.handlerTable.lookup Gen.Netref.handleSetattr = some "_handle_setattr" := by decide
@[simp] theorem lookup_delattr : Gen.Netref.handlerTable.lookup Gen.Netref.handleDelattr = some "_handle_delattr" := by decide
@[simp] theorem lookup_call : Gen.Netref.handlerTable.lookup Gen.Netref.handleCall = some "_handle_call" := by decide
@[simp] theorem lookup_callattr : Gen.Netref.handlerTable.lookup Gen.Netref.handleCallattr = some "_handle_callattr" := by decide
@[simp] theorem lookup_repr : Gen.Netref.handlerTable.lookup Gen.Netref.handleRepr = some "_handle_repr" := by decide
@[simp] theorem lookup_str : Gen.Netref.handlerTable.lookup Gen.Netref.handleStr = some "_handle_str" := by decide
@[simp] theorem lookup_hash : Gen.Netref.handlerTable.lookup Gen.Netref.handleHash = some "_handle_hash" := by decide
@[simp] theorem lookup_dir : Gen.Netref.handlerTable.lookup Gen.Netref.handleDir = some "_handle_dir" := by decide
@[simp] theorem lookup_cmp : Gen.Netref.handlerTable.lookup Gen.Netref.handleCmp = some "_handle_cmp" := by decide
@[simp] theorem lookup_pickle : Gen.Netref.handlerTable.lookup Gen.Netref.handlePickle = some "_handle_pickle" := by decide
@[simp] theorem lookup_buffiter : Gen.Netref.handlerTable.lookup Gen.Netref.handleBuffiter = some "_handle_buffiter" := by decide
@[simp] theorem lookup_ctxexit : Gen.Netref.handlerTable.lookup Gen.Netref.handleCtxexit = some "_handle_ctxexit" := by decide
@[simp] theorem lookup_instancecheck :
    Gen.Netref.handlerTable.lookup Gen.Netref.handleInstancecheck = some "_handle_instancecheck" := by decide

/-! ### pieces of `serve` -/

theorem andThen_apply {H : Type} (S : ObjSem H) (p : PrimOp) (k : PyVal → H → Res × H) :
    andThen (S.apply p) k = S.bind p k := by
  funext h; simp [andThen, ObjSem.bind]

theorem hGetattr_ok {H : Type} (S : ObjSem H) (pol : Policy) (obj : PyVal) (n : Name)
    (h : pol .get obj n = .ok n) : hGetattr S pol obj (.imm (.str n)) = S.apply (.getattr obj n) := by
  funext x; simp [hGetattr, accessAttr, nameOfVal, h]

theorem hCall_ok {H : Type} (S : ObjSem H) (f : PyVal) (args : List PyVal) (kws : List (Name × PyVal))
    (h : (kws.map (·.1)).Nodup) : hCall S f (mkTup args) (kwTuple kws) = S.apply (.call f args kws) := by
  funext x; simp [hCall, itemsOf_mkTup, dictOf_kwTuple kws h]

/-- a denied access does nothing to the target and returns the policy's exception -/
theorem accessAttr_denied {H : Type} (pol : Policy) (perm : Perm) (obj : PyVal) (n : Name) (e : Exc)
    (k : Name → H → Res × H) (h : pol perm obj n = .error e) (x : H) :
    accessAttr pol perm obj (.imm (.str n)) k x = (.error e, x) := by
  simp [accessAttr, nameOfVal, h]

/-! ### buffered iteration -/

theorem fetch_le (count : Nat) (items : List PyVal) (t : Option Exc) (h : count ≤ items.length) :
    fetch count ⟨items, t⟩ = (.ok (items.take count), ⟨items.drop count, t⟩) := by
  simp [fetch, h]

theorem fetch_gt_none (count : Nat) (items : List PyVal) (h : ¬ count ≤ items.length) :
    fetch count ⟨items, none⟩ = (.ok items, ⟨[], none⟩) := by
  simp [fetch, h]

theorem fetch_gt_some (count : Nat) (items : List PyVal) (e : Exc) (h : ¬ count ≤ items.length) :
    fetch count ⟨items, some e⟩ = (.error e, ⟨[], none⟩) := by
  simp [fetch, h]

theorem next_count (count maxChunk factor : Nat) (hc : 1 ≤ count) (hm : 1 ≤ maxChunk) (hf : 1 ≤ factor) :
    1 ≤ min (count * factor) maxChunk := by
  have : 1 * 1 ≤ count * factor := Nat.mul_le_mul hc hf
  exact Nat.le_min.2 ⟨by simpa using this, hm⟩

/-- a non-raising iterator: every item, in order, then a normal end -/
theorem buffLoop_all (maxChunk factor : Nat) (hm : 1 ≤ maxChunk) (hf : 1 ≤ factor) :
    ∀ (fuel : Nat) (items : List PyVal) (count : Nat) (acc : List PyVal), 1 ≤ count → items.length + 2 ≤ fuel →
      buffLoop fuel count maxChunk factor ⟨items, none⟩ acc = (acc ++ items, none) := by
  intro fuel
  induction fuel with
  | zero => intro items count acc _ h; omega
  | succ f ih =>
    intro items count acc hc hfuel
    by_cases hle : count ≤ items.length
    · -- a full chunk
      cases htk : items.take count with
      | nil =>
        have : (items.take count).length = count := by simp [List.length_take]; omega
        rw [htk] at this; simp at this; omega
      | cons x xs =>
        have hlen : (items.drop count).length + 2 ≤ f := by simp [List.length_drop]; omega
        simp only [buffLoop, fetch_le count items none hle, htk]
        rw [ih (items.drop count) _ _ (next_count count maxChunk factor hc hm hf) hlen]
        rw [← htk, List.append_assoc, List.take_append_drop]
    · -- the rest, then an empty chunk
      cases items with
      | nil => simp [buffLoop, fetch_gt_none count [] hle]
      | cons x xs =>
        simp only [buffLoop, fetch_gt_none count (x :: xs) hle]
        have := ih [] (min (count * factor) maxChunk) (acc ++ x :: xs) (next_count count maxChunk factor hc hm hf)
          (by simp at hfuel ⊢; omega)
        simpa using this

/-- a raising iterator: the same exception ends the iteration; the items delivered before it are a prefix of what
plain iteration delivers, and what is missing is less than one chunk (the items of the chunk in which it struck) -/
theorem buffLoop_raising (maxChunk factor : Nat) (hm : 1 ≤ maxChunk) (hf : 1 ≤ factor) (e : Exc) :
    ∀ (fuel : Nat) (items : List PyVal) (count : Nat) (acc : List PyVal), 1 ≤ count → items.length + 2 ≤ fuel →
      ∃ k, buffLoop fuel count maxChunk factor ⟨items, some e⟩ acc = (acc ++ items.take k, some e)
        ∧ k ≤ items.length ∧ items.length - k < max count maxChunk := by
  intro fuel
  induction fuel with
  | zero => intro items count acc _ h; omega
  | succ f ih =>
    intro items count acc hc hfuel
    by_cases hle : count ≤ items.length
    · cases htk : items.take count with
      | nil =>
        have : (items.take count).length = count := by simp [List.length_take]; omega
        rw [htk] at this; simp at this; omega
      | cons x xs =>
        have hdl : (items.drop count).length = items.length - count := by simp [List.length_drop]
        have hlen : (items.drop count).length + 2 ≤ f := by omega
        obtain ⟨k, hk, hk1, hk2⟩ := ih (items.drop count) (min (count * factor) maxChunk) (acc ++ x :: xs)
          (next_count count maxChunk factor hc hm hf) hlen
        refine ⟨count + k, ?_, by omega, ?_⟩
        · simp only [buffLoop, fetch_le count items (some e) hle, htk]
          rw [hk, ← htk, List.take_add, List.append_assoc]
        · have : min (count * factor) maxChunk ≤ maxChunk := Nat.min_le_right _ _
          omega
    · exact ⟨0, by simp [buffLoop, fetch_gt_some count items e hle], by omega, by omega⟩

/-! ### the policy under the three configurations -/

theorem prefix_nonempty : (nameOf Gen.Netref.defaultExposedPrefix).isEmpty = false := by decide

/-- allowed kind, allowed name, and the name is not shadowed by an `exposed_` twin: the name itself -/
theorem checkAttr_plain (c : Config) (has : Name → Bool) (perm : Perm) (name : Name)
    (hperm : c.perm perm = true) (hplain : c.plain name = true)
    (hhas : has name = true ∨ has (c.exposedPrefix ++ name) = false) : checkAttr c has perm name = .ok name := by
  unfold checkAttr
  rcases hhas with h | h <;> simp [hperm, hplain, h]

/-- allowed kind, allowed name, and the `exposed_` prefix is off: the name itself, whatever the object has -/
theorem checkAttr_plain_noprefix (c : Config) (has : Name → Bool) (perm : Perm) (name : Name)
    (hperm : c.perm perm = true) (hplain : c.plain name = true) (hoff : c.prefixOn = false) :
    checkAttr c has perm name = .ok name := by
  simp [checkAttr, hperm, hplain, hoff]

theorem checkAttr_noperm (c : Config) (has : Name → Bool) (perm : Perm) (name : Name)
    (hperm : c.perm perm = false) : checkAttr c has perm name = .error attributeError := by
  simp [checkAttr, hperm]

/-- an object without the `exposed_` twin: the decision is `perm ∧ plain` -/
theorem checkAttr_notwin (c : Config) (has : Name → Bool) (perm : Perm) (name : Name)
    (h : has (c.exposedPrefix ++ name) = false) :
    checkAttr c has perm name = if c.perm perm && c.plain name then .ok name else .error attributeError := by
  unfold checkAttr
  cases c.perm perm <;> cases c.plain name <;> simp [h]

end Rpyc.Forward
