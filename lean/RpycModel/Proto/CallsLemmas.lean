import RpycModel.Proto.Calls
import RpycModel.Props.C04
/-
Helper lemmas of the call layer (C01): well-formedness of values and programs, the marshalling round trips
(box → brine dump → brine load → unbox is the identity on well-formed values whose foreign references the
receiver still holds), and the simulation `evalDist ~ evalLocal` by induction on fuel.
-/
namespace Rpyc.Calls
open Rpyc Rpyc.Brine

/-! ### sides -/

@[simp] theorem Side.other_other (s : Side) : s.other.other = s := by cases s <;> rfl
@[simp] theorem Side.other_ne (s : Side) : s.other ≠ s := by cases s <;> simp [Side.other]
@[simp] theorem Side.ne_other (s : Side) : s ≠ s.other := by cases s <;> simp [Side.other]
theorem Side.eq_other_of_ne {o s : Side} (h : o ≠ s) : o = s.other := by
  cases o <;> cases s <;> simp_all [Side.other]

/-! ### generated constants: the labels, message types and the handler id are what the classifiers expect -/

@[simp] theorem labelOf_value : labelOf (.int lblValue) = some .value := by decide
@[simp] theorem labelOf_tuple : labelOf (.int lblTuple) = some .tuple := by decide
@[simp] theorem labelOf_localRef : labelOf (.int lblLocalRef) = some .localRef := by decide
@[simp] theorem labelOf_remoteRef : labelOf (.int lblRemoteRef) = some .remoteRef := by decide
@[simp] theorem msgTypeOf_request : msgTypeOf (.int msgRequest) = some .request := by decide
@[simp] theorem msgTypeOf_reply : msgTypeOf (.int msgReply) = some .reply := by decide
@[simp] theorem msgTypeOf_exception : msgTypeOf (.int msgException) = some .exception := by decide

/-! ### well-formed values -/

/-- a brine value that `dump` accepts and `load` gives back: representation invariants, dumpable, inside the
serializer's domain (C04) -/
def valOk (v : Val) : Bool := v.wf && dumpable v && InDomain v

/-- text that `dump` accepts -/
def nameOk (n : Name) : Bool := valOk (.str n)

mutual
/-- a canonical, serializable `PyVal`: values are `valOk`, a `tup` really holds a non-value and is short enough
to frame, object keys are integers `str()` can render -/
def PyVal.good : PyVal → Bool
  | .imm v => valOk v
  | .tup xs => decide (xs.length < 2 ^ 32) && (allImm? xs).isNone && goodL xs
  | .ref _ k => intOk (k : Int)
def goodL : List PyVal → Bool
  | [] => true
  | x :: xs => x.good && goodL xs
end

mutual
/-- held at side `s`: every object of the *other* side mentioned in it is in that side's table `tbl` -/
def PyVal.valid (s : Side) (tbl : List Nat) : PyVal → Bool
  | .imm _ => true
  | .tup xs => validL s tbl xs
  | .ref o k => o == s || tbl.contains k
def validL (s : Side) (tbl : List Nat) : List PyVal → Bool
  | [] => true
  | x :: xs => x.valid s tbl && validL s tbl xs
end

theorem goodL_iff (xs : List PyVal) : goodL xs = true ↔ ∀ x ∈ xs, x.good = true := by
  induction xs with
  | nil => simp [goodL]
  | cons x xs ih => simp [goodL, ih]

theorem validL_iff (s : Side) (tbl : List Nat) (xs : List PyVal) :
    validL s tbl xs = true ↔ ∀ x ∈ xs, x.valid s tbl = true := by
  induction xs with
  | nil => simp [validL]
  | cons x xs ih => simp [validL, ih]

theorem valOk_tuple (xs : List Val) :
    valOk (.tuple xs) = (Val.wfL xs && dumpableL xs && (decide (xs.length < 2 ^ 32) && InDomainL xs)) := by
  simp [valOk, Val.wf, dumpable, InDomain]

theorem wfL_cons' (x : Val) (xs : List Val) : Val.wfL (x :: xs) = (x.wf && Val.wfL xs) := by simp [Val.wfL]
theorem dumpableL_cons (x : Val) (xs : List Val) : dumpableL (x :: xs) = (dumpable x && dumpableL xs) := by
  simp [dumpableL]
theorem inDomainL_cons (x : Val) (xs : List Val) : InDomainL (x :: xs) = (InDomain x && InDomainL xs) := by
  simp [InDomainL]

/-- the three list predicates at once -/
def valsOk (xs : List Val) : Bool := Val.wfL xs && dumpableL xs && InDomainL xs

@[simp] theorem valsOk_nil : valsOk [] = true := by simp [valsOk, Val.wfL, dumpableL, InDomainL]
theorem valsOk_cons (x : Val) (xs : List Val) : valsOk (x :: xs) = (valOk x && valsOk xs) := by
  simp only [valsOk, valOk, wfL_cons', dumpableL_cons, inDomainL_cons]
  cases x.wf <;> cases Val.wfL xs <;> cases dumpable x <;> cases dumpableL xs <;> cases InDomain x <;> simp

theorem valOk_tuple' (xs : List Val) : valOk (.tuple xs) = (decide (xs.length < 2 ^ 32) && valsOk xs) := by
  simp only [valOk_tuple, valsOk]
  cases Val.wfL xs <;> cases dumpableL xs <;> cases InDomainL xs <;> simp

theorem valsOk_iff (xs : List Val) : valsOk xs = true ↔ ∀ x ∈ xs, valOk x = true := by
  induction xs with
  | nil => simp
  | cons x xs ih => simp [valsOk_cons, ih]

theorem valOk_int_small (i : Int) (h : Gen.immLo ≤ i ∧ i < Gen.immHi) : valOk (.int i) = true := by
  simp [valOk, Val.wf, dumpable, InDomain, intOk, h.1, h.2]

@[simp] theorem valOk_lblValue : valOk (.int lblValue) = true := valOk_int_small _ (by decide)
@[simp] theorem valOk_lblTuple : valOk (.int lblTuple) = true := valOk_int_small _ (by decide)
@[simp] theorem valOk_lblLocalRef : valOk (.int lblLocalRef) = true := valOk_int_small _ (by decide)
@[simp] theorem valOk_lblRemoteRef : valOk (.int lblRemoteRef) = true := valOk_int_small _ (by decide)
@[simp] theorem valOk_msgRequest : valOk (.int msgRequest) = true := valOk_int_small _ (by decide)
@[simp] theorem valOk_msgReply : valOk (.int msgReply) = true := valOk_int_small _ (by decide)
@[simp] theorem valOk_msgException : valOk (.int msgException) = true := valOk_int_small _ (by decide)
@[simp] theorem valOk_hCall : valOk (.int hCall) = true := valOk_int_small _ (by decide)
@[simp] theorem valOk_excStopIteration : valOk (.int excStopIteration) = true := valOk_int_small _ (by decide)
@[simp] theorem valOk_zero : valOk (.int 0) = true := valOk_int_small _ (by decide)
@[simp] theorem valOk_emptyStr : valOk (.str []) = true := by decide
@[simp] theorem valOk_none : valOk .none = true := by decide

theorem valOk_int_of_intOk (i : Int) (h : intOk i = true) : valOk (.int i) = true := by
  simp [valOk, Val.wf, dumpable, InDomain, h]

theorem valOk_idPack (k : Nat) (h : intOk (k : Int) = true) : valOk (idPack k) = true := by
  simp [idPack, valOk_tuple', valsOk_cons, valOk_int_of_intOk _ h]

/-! ### `allImm?` / `mkTup` -/

theorem allImm_some {xs : List PyVal} {vs : List Val} (h : allImm? xs = some vs) : xs = vs.map .imm := by
  induction xs generalizing vs with
  | nil => simp [allImm?] at h; subst h; rfl
  | cons x xs ih =>
    cases x with
    | imm v =>
      simp only [allImm?] at h
      cases h' : allImm? xs with
      | none => simp [h'] at h
      | some ws => simp [h'] at h; subst h; simp [ih h']
    | tup ys => simp [allImm?] at h
    | ref o k => simp [allImm?] at h

theorem allImm_map (vs : List Val) : allImm? (vs.map .imm) = some vs := by
  induction vs with
  | nil => rfl
  | cons v vs ih => simp [allImm?, ih]

theorem goodL_map_imm (vs : List Val) : goodL (vs.map .imm) = valsOk vs := by
  induction vs with
  | nil => simp [goodL]
  | cons v vs ih => simp [goodL, PyVal.good, valsOk_cons, ih]

theorem mkTup_good (xs : List PyVal) (h : goodL xs = true) (hl : xs.length < 2 ^ 32) : (mkTup xs).good = true := by
  unfold mkTup
  cases hx : allImm? xs with
  | none => simp [PyVal.good, hx, h, hl]
  | some vs =>
    have := allImm_some hx
    subst this
    simp only [PyVal.good, valOk_tuple']
    simp [goodL_map_imm] at h
    simp at hl
    simp [h, hl]

theorem mkTup_valid (s : Side) (tbl : List Nat) (xs : List PyVal) (h : validL s tbl xs = true) :
    (mkTup xs).valid s tbl = true := by
  unfold mkTup
  cases allImm? xs <;> simp [PyVal.valid, h]

theorem validL_of_mkTup (s : Side) (tbl : List Nat) (xs : List PyVal) (h : (mkTup xs).valid s tbl = true) :
    validL s tbl xs = true := by
  unfold mkTup at h
  cases hx : allImm? xs with
  | none => simpa [hx, PyVal.valid] using h
  | some vs =>
    have := allImm_some hx
    subst this
    rw [validL_iff]
    intro x hxm
    simp at hxm
    obtain ⟨v, _, rfl⟩ := hxm
    rfl

theorem lentL_map_imm (s : Side) (vs : List Val) : lentL s (vs.map .imm) = [] := by
  induction vs with
  | nil => rfl
  | cons v vs ih => simp [lentL, lent, ih]

theorem lent_mkTup (s : Side) (xs : List PyVal) : lent s (mkTup xs) = lentL s xs := by
  unfold mkTup
  cases hx : allImm? xs with
  | none => simp [lent]
  | some vs => rw [allImm_some hx]; simp [lent, lentL_map_imm]

theorem itemsOf_mkTup (xs : List PyVal) : itemsOf (mkTup xs) = .ok xs := by
  unfold mkTup
  cases hx : allImm? xs with
  | none => simp [itemsOf]
  | some vs => simp [itemsOf, allImm_some hx]

/-! ### box / unbox -/

theorem boxL_length (s : Side) (xs : List PyVal) : (boxL s xs).length = xs.length := by
  induction xs with
  | nil => rfl
  | cons x xs ih => simp [boxL, ih]

set_option maxRecDepth 4000 in
mutual
/-- what `_box` makes of a well-formed value is something brine carries -/
theorem box_ok (s : Side) : ∀ x : PyVal, x.good = true → valOk (box s x) = true
  | .imm v, h => by
    simp only [PyVal.good] at h
    simp [box, valOk_tuple', valsOk_cons, h]
  | .tup xs, h => by
    simp only [PyVal.good, Bool.and_eq_true, decide_eq_true_eq, Option.isNone_iff_eq_none] at h
    obtain ⟨⟨hl, hn⟩, hg⟩ := h
    have := boxL_ok s xs hg
    simp [box, hn, valOk_tuple', valsOk_cons, this, boxL_length, hl]
  | .ref o k, h => by
    simp only [PyVal.good] at h
    unfold box
    split <;> simp [valOk_tuple', valsOk_cons, valOk_idPack k h]
theorem boxL_ok (s : Side) : ∀ xs : List PyVal, goodL xs = true → valsOk (boxL s xs) = true
  | [], _ => by simp [boxL]
  | x :: xs, h => by
    simp only [goodL, Bool.and_eq_true] at h
    simp [boxL, valsOk_cons, box_ok s x h.1, boxL_ok s xs h.2]
end

@[simp] theorem unIdPack_idPack (k : Nat) : unIdPack (idPack k) = some k := by
  simp [idPack, unIdPack]

mutual
/-- what the first pass makes of a boxed well-formed value -/
def pkgOf (s : Side) : PyVal → Pkg
  | .imm v => .raw (.tuple [.int lblValue, v])
  | .tup xs => match allImm? xs with
    | some vs => .raw (.tuple [.int lblValue, .tuple vs])
    | none => .tup (pkgOfL s xs)
  | .ref o k => if o = s then .raw (.tuple [.int lblRemoteRef, idPack k]) else .resolved (.ref o k)
def pkgOfL (s : Side) : List PyVal → List Pkg
  | [] => []
  | x :: xs => pkgOf s x :: pkgOfL s xs
end

set_option maxRecDepth 4000 in
mutual
/-- the first pass finds every object of the receiver that the value mentions -/
theorem resolve_box (s : Side) (tbl : List Nat) : ∀ x : PyVal, x.good = true → x.valid s tbl = true →
    resolveLocalRefs s.other tbl (box s x) = .ok (pkgOf s x)
  | .imm v, _, _ => by simp [box, resolveLocalRefs, pkgOf]
  | .tup xs, hg, hv => by
    simp only [PyVal.good, Bool.and_eq_true, decide_eq_true_eq, Option.isNone_iff_eq_none] at hg
    obtain ⟨⟨_, hn⟩, hgl⟩ := hg
    simp only [PyVal.valid] at hv
    simp [box, hn, resolveLocalRefs, resolveL_boxL s tbl xs hgl hv, pkgOf]
  | .ref o k, _, hv => by
    simp only [PyVal.valid, Bool.or_eq_true, beq_iff_eq] at hv
    unfold box pkgOf
    by_cases hos : o = s
    · subst hos; simp [resolveLocalRefs]
    · have hc : k ∈ tbl := by
        rcases hv with h | h
        · exact absurd h hos
        · simpa using h
      simp [hos, resolveLocalRefs, hc, Side.eq_other_of_ne hos]
theorem resolveL_boxL (s : Side) (tbl : List Nat) : ∀ xs : List PyVal, goodL xs = true → validL s tbl xs = true →
    resolveLocalRefsL s.other tbl (boxL s xs) = .ok (pkgOfL s xs)
  | [], _, _ => by simp [boxL, resolveLocalRefsL, pkgOfL]
  | x :: xs, hg, hv => by
    simp only [goodL, Bool.and_eq_true] at hg
    simp only [validL, Bool.and_eq_true] at hv
    simp [boxL, resolveLocalRefsL, pkgOfL, resolve_box s tbl x hg.1 hv.1, resolveL_boxL s tbl xs hg.2 hv.2]
end

set_option maxRecDepth 4000 in
mutual
/-- the second pass rebuilds the value -/
theorem unboxPkg_pkgOf (s : Side) : ∀ x : PyVal, x.good = true → unboxPkg s.other (pkgOf s x) = .ok x
  | .imm v, _ => by simp [pkgOf, unboxPkg, unboxRaw]
  | .tup xs, hg => by
    simp only [PyVal.good, Bool.and_eq_true, decide_eq_true_eq, Option.isNone_iff_eq_none] at hg
    obtain ⟨⟨_, hn⟩, hgl⟩ := hg
    simp [pkgOf, hn, unboxPkg, unboxPkgL_pkgOfL s xs hgl, mkTup]
  | .ref o k, _ => by
    unfold pkgOf
    by_cases hos : o = s
    · subst hos; simp [unboxPkg, unboxRaw]
    · simp [hos, unboxPkg]
theorem unboxPkgL_pkgOfL (s : Side) : ∀ xs : List PyVal, goodL xs = true → unboxPkgL s.other (pkgOfL s xs) = .ok xs
  | [], _ => by simp [pkgOfL, unboxPkgL]
  | x :: xs, hg => by
    simp only [goodL, Bool.and_eq_true] at hg
    simp [pkgOfL, unboxPkgL, unboxPkg_pkgOf s x hg.1, unboxPkgL_pkgOfL s xs hg.2]
end

/-- **unbox ∘ box = id.**  A well-formed value boxed at side `s` and unboxed at the other side (first pass: its
references to the receiver's objects are resolved against the receiver's table, which holds every one of them; second
pass: values, tuples, proxies) is the value: equal brine value, the same object for a reference, member by member for a
mixed tuple. -/
theorem unbox_box (s : Side) (tbl : List Nat) (x : PyVal) (hg : x.good = true) (hv : x.valid s tbl = true) :
    unbox s.other tbl (box s x) = .ok x := by
  simp [unbox, resolve_box s tbl x hg hv, unboxPkg_pkgOf s x hg]

/-! ### the wire -/

/-- **brine carries it.**  `load (dump m) = m` for every well-formed message (C04's `load_dump` / `dump_total`). -/
theorem wire (m : Val) (h : valOk m = true) : ∃ bs, dump m = .ok bs ∧ load bs = .ok m := by
  simp only [valOk, Bool.and_eq_true] at h
  obtain ⟨e, he⟩ := Rpyc.Props.C04.dump_total m h.1.2 h.2
  exact ⟨e, he, Rpyc.Props.C04.load_dump m e h.1.1 he⟩

/-! ### tables -/

/-- every table of `a` is contained in the corresponding table of `b` -/
def St.le (a b : St) : Prop := ∀ s k, k ∈ a.tbl s → k ∈ b.tbl s

theorem St.le_refl (a : St) : a.le a := fun _ _ h => h
theorem St.le_trans {a b c : St} (h₁ : a.le b) (h₂ : b.le c) : a.le c := fun s k h => h₂ s k (h₁ s k h)

@[simp] theorem tbl_lend_self (st : St) (s : Side) (ks : List Nat) : (st.lend s ks).tbl s = st.tbl s ++ ks := by
  cases s <;> rfl
@[simp] theorem tbl_lend_other (st : St) (s : Side) (ks : List Nat) : (st.lend s ks).tbl s.other = st.tbl s.other := by
  cases s <;> rfl
theorem tbl_lend_other' (st : St) (o s : Side) (ks : List Nat) (h : s = o.other) : (st.lend o ks).tbl s = st.tbl s := by
  subst h; simp
@[simp] theorem tbl_bump (st : St) (fid : Nat) (s : Side) : (st.bump fid).tbl s = st.tbl s := by
  cases s <;> rfl
@[simp] theorem count_lend (st : St) (s : Side) (ks : List Nat) : (st.lend s ks).count = st.count := by
  cases s <;> rfl

theorem le_lend (st : St) (s : Side) (ks : List Nat) : st.le (st.lend s ks) := by
  intro o k h
  by_cases hos : o = s
  · subst hos; simp [h]
  · rw [Side.eq_other_of_ne hos] at h ⊢; simpa using h

theorem le_bump (st : St) (fid : Nat) : st.le (st.bump fid) := fun s k h => by simpa using h

mutual
theorem valid_mono (s : Side) (t t' : List Nat) (h : ∀ k ∈ t, k ∈ t') : ∀ x : PyVal, x.valid s t = true → x.valid s t' = true
  | .imm _, _ => rfl
  | .tup xs, hv => by
    simp only [PyVal.valid] at hv ⊢
    exact validL_mono s t t' h xs hv
  | .ref o k, hv => by
    simp only [PyVal.valid, Bool.or_eq_true, beq_iff_eq, List.contains_iff_mem] at hv ⊢
    exact hv.imp id (h k)
theorem validL_mono (s : Side) (t t' : List Nat) (h : ∀ k ∈ t, k ∈ t') : ∀ xs : List PyVal, validL s t xs = true → validL s t' xs = true
  | [], _ => rfl
  | x :: xs, hv => by
    simp only [validL, Bool.and_eq_true] at hv ⊢
    exact ⟨valid_mono s t t' h x hv.1, validL_mono s t t' h xs hv.2⟩
end

mutual
/-- what was just boxed at `s` may be held by the other side: the objects of `s` it mentions are in `s`'s table -/
theorem valid_of_lent (s : Side) (t : List Nat) : ∀ x : PyVal, (∀ k ∈ lent s x, k ∈ t) → x.valid s.other t = true
  | .imm _, _ => rfl
  | .tup xs, h => by
    simp only [PyVal.valid]
    exact validL_of_lent s t xs (by simpa [lent] using h)
  | .ref o k, h => by
    simp only [PyVal.valid, Bool.or_eq_true, beq_iff_eq, List.contains_iff_mem]
    by_cases hos : o = s
    · subst hos; right; exact h k (by simp [lent])
    · left; exact Side.eq_other_of_ne hos
theorem validL_of_lent (s : Side) (t : List Nat) : ∀ xs : List PyVal, (∀ k ∈ lentL s xs, k ∈ t) → validL s.other t xs = true
  | [], _ => rfl
  | x :: xs, h => by
    simp only [validL, Bool.and_eq_true]
    exact ⟨valid_of_lent s t x (fun k hk => h k (by simp [lentL, hk])),
           validL_of_lent s t xs (fun k hk => h k (by simp [lentL, hk]))⟩
end

/-! ### keyword arguments travel as `tuple(kwargs.items())` and come back through `dict(...)` -/

theorem kwItem_mk (k : Name) (v : PyVal) : kwItem (mkTup [.imm (.str k), v]) = .ok (k, v) := by
  cases v <;> simp [mkTup, allImm?, kwItem]

theorem kwItems_map (kws : List (Name × PyVal)) :
    kwItems (kws.map (fun kv => mkTup [.imm (.str kv.1), kv.2])) = .ok kws := by
  induction kws with
  | nil => rfl
  | cons kv kws ih => simp [kwItems, kwItem_mk, ih]

theorem dictInsert_fresh (k : Name) (v : PyVal) (acc : List (Name × PyVal)) (h : k ∉ acc.map (·.1)) :
    dictInsert k v acc = acc ++ [(k, v)] := by
  induction acc with
  | nil => rfl
  | cons jw acc ih =>
    obtain ⟨j, w⟩ := jw
    simp only [List.map_cons, List.mem_cons, not_or] at h
    simp [dictInsert, h.1, ih h.2]

theorem dictOfItems_nodup (acc kvs : List (Name × PyVal)) (h : ((acc ++ kvs).map (·.1)).Nodup) :
    dictOfItems acc kvs = acc ++ kvs := by
  induction kvs generalizing acc with
  | nil => simp [dictOfItems]
  | cons kv kvs ih =>
    obtain ⟨k, v⟩ := kv
    have hk : k ∉ acc.map (·.1) := by
      simp [List.nodup_append] at h
      intro hm
      simp at hm
      obtain ⟨w, hw⟩ := hm
      exact (h.2.2 _ _ hw).1 rfl
    simp only [dictOfItems, dictInsert_fresh k v acc hk]
    rw [ih]
    · simp
    · simpa using h

/-- `dict(tuple(kwargs.items())) == kwargs`, order included (the keys of `**kwargs` are distinct) -/
theorem dictOf_kwTuple (kws : List (Name × PyVal)) (h : (kws.map (·.1)).Nodup) : dictOf (kwTuple kws) = .ok kws := by
  simp [dictOf, kwTuple, itemsOf_mkTup, kwItems_map, dictOfItems_nodup [] kws (by simpa using h)]

/-! ### arguments, exceptions: what may travel -/

/-- positional arguments that can be framed -/
def ArgsOk (args : List PyVal) : Prop := goodL args = true ∧ args.length < 2 ^ 32

/-- keyword arguments that can be framed: names are text brine accepts, keys are distinct -/
def KwOk (kws : List (Name × PyVal)) : Prop :=
  (∀ kv ∈ kws, nameOk kv.1 = true ∧ kv.2.good = true) ∧ kws.length < 2 ^ 32 ∧ (kws.map (·.1)).Nodup

theorem kwTuple_good (kws : List (Name × PyVal)) (h : KwOk kws) : (kwTuple kws).good = true := by
  obtain ⟨hall, hlen, _⟩ := h
  unfold kwTuple
  apply mkTup_good
  · rw [goodL_iff]
    intro x hx
    simp at hx
    obtain ⟨k, v, hkv, rfl⟩ := hx
    have := hall (k, v) hkv
    apply mkTup_good
    · simp [goodL, PyVal.good, this.2]; exact this.1
    · simp
  · simpa using hlen

theorem kwTuple_valid (s : Side) (t : List Nat) (kws : List (Name × PyVal))
    (h : ∀ kv ∈ kws, kv.2.valid s t = true) : (kwTuple kws).valid s t = true := by
  unfold kwTuple
  apply mkTup_valid
  rw [validL_iff]
  intro x hx
  simp at hx
  obtain ⟨k, v, hkv, rfl⟩ := hx
  apply mkTup_valid
  simp [validL, PyVal.valid, h (k, v) hkv]

theorem valid_of_kwTuple (s : Side) (t : List Nat) (kws : List (Name × PyVal))
    (h : (kwTuple kws).valid s t = true) : ∀ kv ∈ kws, kv.2.valid s t = true := by
  intro kv hkv
  have h1 := validL_of_mkTup s t _ h
  rw [validL_iff] at h1
  have h2 := h1 (mkTup [.imm (.str kv.1), kv.2]) (by simp; exact ⟨kv.1, kv.2, hkv, rfl⟩)
  have h3 := validL_of_mkTup s t _ h2
  simpa [validL, PyVal.valid] using h3

theorem requestArgs_good (callee : PyVal) (args : List PyVal) (kws : List (Name × PyVal))
    (hc : callee.good = true) (ha : ArgsOk args) (hk : KwOk kws) : (requestArgs callee args kws).good = true := by
  unfold requestArgs
  apply mkTup_good
  · simp [goodL, hc, mkTup_good args ha.1 ha.2, kwTuple_good kws hk]
  · simp

theorem requestArgs_valid (s : Side) (t : List Nat) (callee : PyVal) (args : List PyVal) (kws : List (Name × PyVal))
    (hc : callee.valid s t = true) (ha : validL s t args = true) (hk : ∀ kv ∈ kws, kv.2.valid s t = true) :
    (requestArgs callee args kws).valid s t = true := by
  unfold requestArgs
  apply mkTup_valid
  simp [validL, hc, mkTup_valid s t args ha, kwTuple_valid s t kws hk]

theorem valid_of_requestArgs (s : Side) (t : List Nat) (callee : PyVal) (args : List PyVal) (kws : List (Name × PyVal))
    (h : (requestArgs callee args kws).valid s t = true) :
    validL s t args = true ∧ ∀ kv ∈ kws, kv.2.valid s t = true := by
  have h1 := validL_of_mkTup s t _ h
  simp only [validL, Bool.and_eq_true] at h1
  exact ⟨validL_of_mkTup s t args h1.2.1, valid_of_kwTuple s t kws h1.2.2.1⟩

structure ReprOk (R : Params) : Prop where
  ok : ∀ x, nameOk (R.reprOf x) = true

/-- an exception that can travel: class name and arguments serializable -/
def GoodExc (e : Exc) : Prop := nameOk e.cls = true ∧ goodL e.args = true ∧ e.args.length < 2 ^ 32

theorem normArg_ok (R : Params) (hR : ReprOk R) (a : PyVal) (ha : a.good = true) : valOk (normArg R a) = true := by
  cases a with
  | imm v =>
    simp only [PyVal.good] at ha
    have hd : dumpable v = true := by simp [valOk] at ha; exact ha.1.2
    simp [normArg, hd, ha]
  | tup xs => exact hR.ok _
  | ref o k => exact hR.ok _

theorem normArg_idem (R : Params) (a : PyVal) : normArg R (.imm (normArg R a)) = normArg R a := by
  cases a with
  | imm v =>
    by_cases hd : dumpable v = true
    · simp [normArg, hd]
    · simp [normArg, hd, dumpable]
  | tup xs => simp [normArg, dumpable]
  | ref o k => simp [normArg, dumpable]

theorem Exc.normalize_idem (R : Params) (e : Exc) : (e.normalize R).normalize R = e.normalize R := by
  simp [Exc.normalize, normArg_idem]

theorem Outcome.normalize_idem (R : Params) (o : Outcome) : (o.normalize R).normalize R = o.normalize R := by
  cases o <;> simp [Outcome.normalize, Exc.normalize_idem]

theorem goodExc_normalize (R : Params) (hR : ReprOk R) (e : Exc) (he : GoodExc e) : GoodExc (e.normalize R) := by
  obtain ⟨hc, ha, hl⟩ := he
  refine ⟨hc, ?_, by simpa [Exc.normalize] using hl⟩
  rw [goodL_iff] at ha ⊢
  intro x hx
  simp [Exc.normalize] at hx
  obtain ⟨a, ham, rfl⟩ := hx
  exact normArg_ok R hR a (ha a ham)

theorem nameOk_of_decide : nameOk builtinsName = true ∧ nameOk stopIterationName = true ∧ nameOk typeErrorName = true
    ∧ nameOk indexErrorName = true ∧ nameOk keyErrorName = true ∧ nameOk nameErrorName = true := by decide

theorem dumpExc_ok (R : Params) (hR : ReprOk R) (e : Exc) (he : GoodExc e) : valOk (dumpExc R e) = true := by
  obtain ⟨hc, ha, hl⟩ := he
  unfold dumpExc
  split
  · simp
  · have hargs : valsOk (e.args.map (normArg R)) = true := by
      rw [valsOk_iff]
      intro x hx
      simp at hx
      obtain ⟨a, ham, rfl⟩ := hx
      exact normArg_ok R hR a ((goodL_iff _).1 ha a ham)
    have hb : valOk (.str builtinsName) = true := nameOk_of_decide.1
    have hcl : valOk (.str e.cls) = true := hc
    simp [valOk_tuple', valsOk_cons, hargs, hl, hb, hcl]

/-- **the exception codec.**  What arrives is the class and the normalised arguments of what was raised. -/
theorem loadExc_dumpExc (R : Params) (e : Exc) : loadExc (dumpExc R e) = .ok (e.normalize R) := by
  unfold dumpExc
  split
  · rename_i h
    have : e.args = [] := by simpa using h.2
    simp [loadExc, Exc.normalize, this, h.1]
  · simp [loadExc, Exc.normalize, List.map_map, Function.comp_def]

@[simp] theorem splitMsg_request (b : Val) : splitMsg (mkRequest b) = some (.request, .tuple [.int hCall, b]) := by
  simp [splitMsg, mkRequest]
@[simp] theorem splitMsg_reply (b : Val) : splitMsg (mkReply b) = some (.reply, b) := by
  simp [splitMsg, mkReply]
@[simp] theorem splitMsg_exc (b : Val) : splitMsg (mkExcMsg b) = some (.exception, b) := by
  simp [splitMsg, mkExcMsg]

theorem mkRequest_ok (b : Val) (h : valOk b = true) : valOk (mkRequest b) = true := by
  simp [mkRequest, valOk_tuple', valsOk_cons, h]
theorem mkReply_ok (b : Val) (h : valOk b = true) : valOk (mkReply b) = true := by
  simp [mkReply, valOk_tuple', valsOk_cons, h]
theorem mkExcMsg_ok (b : Val) (h : valOk b = true) : valOk (mkExcMsg b) = true := by
  simp [mkExcMsg, valOk_tuple', valsOk_cons, h]

/-- **an exception reply arrives.** -/
theorem deliverExc_ok (R : Params) (hR : ReprOk R) (e : Exc) (he : GoodExc e) (st : St) :
    deliverExc R e st = (.exc (e.normalize R), st) := by
  obtain ⟨bs, hd, hl⟩ := wire _ (mkExcMsg_ok _ (dumpExc_ok R hR e he))
  simp [deliverExc, receiveExc, hd, hl, loadExc_dumpExc]

/-- **a value reply arrives** as the value that was returned, and what it lends enters the callee's table -/
theorem deliverReply_ret (R : Params) (o s : Side) (hs : s = o.other) (v : PyVal) (st : St)
    (hg : v.good = true) (hv : v.valid o (st.tbl s) = true) :
    deliverReply R o s (.ret v, st) = (.ret v, st.lend o (lent o v)) := by
  subst hs
  obtain ⟨bs, hd, hl⟩ := wire _ (mkReply_ok _ (box_ok o v hg))
  simp [deliverReply, hd, hl, unbox_box o (st.tbl o.other) v hg hv]

/-- `_dispatch_request` finds the callee and hands it exactly the arguments that were supplied -/
theorem parseCall_request (P : Prog) (s : Side) (t : List Nat) (callee : PyVal) (args : List PyVal)
    (kws : List (Name × PyVal)) (fid : Nat) (fn : Fn)
    (hc : callee.good = true) (ha : ArgsOk args) (hk : KwOk kws)
    (hv : (requestArgs callee args kws).valid s t = true)
    (ht : target P callee = some (fid, fn)) (ho : fn.owner = s.other) :
    parseCall P s.other t (.tuple [.int hCall, box s (requestArgs callee args kws)]) = .ok (fid, fn, args, kws) := by
  have hg := requestArgs_good callee args kws hc ha hk
  simp only [parseCall, unbox_box s t _ hg hv, if_true]
  simp [requestArgs, itemsOf_mkTup, applyCall, dictOf_kwTuple kws hk.2.2, ht, ho]

/-- **a request arrives**: the callee is entered with positional and keyword arguments as supplied -/
theorem sendRequest_ok (P : Prog) (s : Side) (st : St) (callee : PyVal) (args : List PyVal)
    (kws : List (Name × PyVal)) (fid : Nat) (fn : Fn)
    (hc : callee.good = true) (ha : ArgsOk args) (hk : KwOk kws)
    (hv : (requestArgs callee args kws).valid s (st.tbl s.other) = true)
    (ht : target P callee = some (fid, fn)) (ho : fn.owner = s.other) :
    sendRequest P s st callee args kws
      = .dispatch fid fn args kws (st.lend s (lent s (requestArgs callee args kws))) := by
  have hg := requestArgs_good callee args kws hc ha hk
  obtain ⟨bs, hd, hl⟩ := wire _ (mkRequest_ok _ (box_ok s _ hg))
  simp [sendRequest, hd, hl, parseCall_request P s (st.tbl s.other) callee args kws fid fn hc ha hk hv ht ho]

/-! ### well-formed programs -/

mutual
/-- constants are well-formed values that the owning side may hold at the start (objects of its own, or objects of
the peer that were handed over before: `t` is the peer's initial table); tuples are short enough to frame -/
def Expr.wf (s : Side) (t : List Nat) : Expr → Bool
  | .const v => v.good && v.valid s t
  | .tuple es => decide (es.length < 2 ^ 32) && wfEs s t es
  | _ => true
def wfEs (s : Side) (t : List Nat) : List Expr → Bool
  | [] => true
  | e :: es => e.wf s t && wfEs s t es
end

def wfKws (s : Side) (t : List Nat) : List (Name × Expr) → Bool
  | [] => true
  | (k, e) :: rest => nameOk k && e.wf s t && wfKws s t rest

mutual
def Stmt.wf (s : Side) (t : List Nat) : Stmt → Bool
  | .call _ f args kws =>
    f.wf s t && wfEs s t args && decide (args.length < 2 ^ 32) && wfKws s t kws && decide (kws.length < 2 ^ 32)
      && decide ((kws.map (·.1)).Nodup)
  | .try_ body _ handler => wfBlock s t body && wfBlock s t handler
  | .ret e => e.wf s t
  | .raise cls args => nameOk cls && wfEs s t args && decide (args.length < 2 ^ 32)
def wfBlock (s : Side) (t : List Nat) : List Stmt → Bool
  | [] => true
  | c :: cs => c.wf s t && wfBlock s t cs
end

/-- every function body is well-formed for its owner, relative to what the two sides hold of each other at the start -/
def Prog.wf (P : Prog) (st0 : St) : Bool := P.all (fun fn => wfBlock fn.owner (st0.tbl fn.owner.other) fn.body)

/-! ### the invariant of a running computation -/

/-- a value held by code at side `s` in state `st` -/
def OkVal (st : St) (s : Side) (v : PyVal) : Prop := v.good = true ∧ v.valid s (st.tbl s.other) = true

def Env.vals (env : Env) : List PyVal := env.args ++ env.kwargs.map (·.2) ++ env.vars.map (·.2)

def EnvOk (st : St) (s : Side) (env : Env) : Prop := ∀ v ∈ env.vals, OkVal st s v

theorem OkVal.mono {st st' : St} {s : Side} {v : PyVal} (h : OkVal st s v) (hle : st.le st') : OkVal st' s v :=
  ⟨h.1, valid_mono s _ _ (hle s.other) v h.2⟩

theorem EnvOk.mono {st st' : St} {s : Side} {env : Env} (h : EnvOk st s env) (hle : st.le st') : EnvOk st' s env :=
  fun v hv => (h v hv).mono hle

theorem lookupVar_mem {x : Nat} {vars : List (Nat × PyVal)} {v : PyVal} (h : lookupVar x vars = some v) :
    v ∈ vars.map (·.2) := by
  induction vars with
  | nil => simp [lookupVar] at h
  | cons yw vars ih =>
    obtain ⟨y, w⟩ := yw
    simp only [lookupVar] at h
    split at h
    · simp at h; simp [h]
    · simp [ih h]

theorem lookupKw_mem {k : Name} {kws : List (Name × PyVal)} {v : PyVal} (h : lookupKw k kws = some v) :
    v ∈ kws.map (·.2) := by
  induction kws with
  | nil => simp [lookupKw] at h
  | cons jw kws ih =>
    obtain ⟨j, w⟩ := jw
    simp only [lookupKw] at h
    split at h
    · simp at h; simp [h]
    · simp [ih h]

theorem goodExc_internal (n : Name) (h : nameOk n = true) : GoodExc ⟨n, []⟩ := ⟨h, rfl, by simp⟩

theorem goodExc_ofErr (e : Err) : GoodExc (ofErr e) := by
  refine ⟨?_, rfl, by simp [ofErr]⟩
  cases e <;> decide

mutual
theorem evalExpr_ok (st0 st : St) (s : Side) (env : Env) (hm : st0.le st) (he : EnvOk st s env) :
    ∀ e : Expr, e.wf s (st0.tbl s.other) = true →
      (∀ v, evalExpr env e = .ok v → OkVal st s v) ∧ (∀ x, evalExpr env e = .error x → GoodExc x)
  | .const c, hw => by
    simp only [Expr.wf, Bool.and_eq_true] at hw
    refine ⟨fun v h => ?_, fun x h => by simp [evalExpr] at h⟩
    simp only [evalExpr, Except.ok.injEq] at h
    subst h
    exact ⟨hw.1, valid_mono s _ _ (hm s.other) c hw.2⟩
  | .var x, _ => by
    refine ⟨fun v h => ?_, fun y h => ?_⟩
    · simp only [evalExpr] at h
      split at h
      · rename_i w hl
        simp only [Except.ok.injEq] at h; subst h
        exact he w (by simp [Env.vals, lookupVar_mem hl])
      · simp at h
    · simp only [evalExpr] at h
      split at h
      · simp at h
      · simp only [Except.error.injEq] at h; subst h
        exact goodExc_internal _ nameOk_of_decide.2.2.2.2.2
  | .arg i, _ => by
    refine ⟨fun v h => ?_, fun y h => ?_⟩
    · simp only [evalExpr] at h
      split at h
      · rename_i w hl
        simp only [Except.ok.injEq] at h; subst h
        exact he w (by simp [Env.vals, List.mem_of_getElem? hl])
      · simp at h
    · simp only [evalExpr] at h
      split at h
      · simp at h
      · simp only [Except.error.injEq] at h; subst h
        exact goodExc_internal _ nameOk_of_decide.2.2.2.1
  | .kw k, _ => by
    refine ⟨fun v h => ?_, fun y h => ?_⟩
    · simp only [evalExpr] at h
      split at h
      · rename_i w hl
        simp only [Except.ok.injEq] at h; subst h
        exact he w (by simp [Env.vals, lookupKw_mem hl])
      · simp at h
    · simp only [evalExpr] at h
      split at h
      · simp at h
      · simp only [Except.error.injEq] at h; subst h
        exact goodExc_internal _ nameOk_of_decide.2.2.2.2.1
  | .tuple es, hw => by
    simp only [Expr.wf, Bool.and_eq_true, decide_eq_true_eq] at hw
    have ih := evalExprs_ok st0 st s env hm he es hw.2
    refine ⟨fun v h => ?_, fun y h => ?_⟩
    · simp only [evalExpr] at h
      split at h
      · rename_i vs hvs
        simp only [Except.ok.injEq] at h; subst h
        obtain ⟨hall, hlen⟩ := ih.1 vs hvs
        exact ⟨mkTup_good vs ((goodL_iff _).2 (fun v hv => (hall v hv).1)) (by omega),
               mkTup_valid _ _ vs ((validL_iff _ _ _).2 (fun v hv => (hall v hv).2))⟩
      · simp at h
    · simp only [evalExpr] at h
      split at h
      · simp at h
      · rename_i x hx
        simp only [Except.error.injEq] at h; subst h
        exact ih.2 x hx
theorem evalExprs_ok (st0 st : St) (s : Side) (env : Env) (hm : st0.le st) (he : EnvOk st s env) :
    ∀ es : List Expr, wfEs s (st0.tbl s.other) es = true →
      (∀ vs, evalExprs env es = .ok vs → (∀ v ∈ vs, OkVal st s v) ∧ vs.length = es.length)
      ∧ (∀ x, evalExprs env es = .error x → GoodExc x)
  | [], _ => by
    refine ⟨fun vs h => ?_, fun x h => by simp [evalExprs] at h⟩
    simp only [evalExprs, Except.ok.injEq] at h; subst h; simp
  | e :: es, hw => by
    simp only [wfEs, Bool.and_eq_true] at hw
    have ih1 := evalExpr_ok st0 st s env hm he e hw.1
    have ih2 := evalExprs_ok st0 st s env hm he es hw.2
    refine ⟨fun vs h => ?_, fun x h => ?_⟩
    · simp only [evalExprs] at h
      split at h
      · simp at h
      · rename_i v hv
        split at h
        · simp at h
        · rename_i ws hws
          simp only [Except.ok.injEq] at h; subst h
          obtain ⟨hall, hlen⟩ := ih2.1 ws hws
          refine ⟨fun u hu => ?_, by simp [hlen]⟩
          simp only [List.mem_cons] at hu
          rcases hu with rfl | hu
          · exact ih1.1 _ hv
          · exact hall u hu
    · simp only [evalExprs] at h
      split at h
      · rename_i y hy
        simp only [Except.error.injEq] at h; subst h
        exact ih1.2 _ hy
      · split at h
        · rename_i y hy
          simp only [Except.error.injEq] at h; subst h
          exact ih2.2 _ hy
        · simp at h
end

theorem evalKwExprs_ok (st0 st : St) (s : Side) (env : Env) (hm : st0.le st) (he : EnvOk st s env) :
    ∀ kes : List (Name × Expr), wfKws s (st0.tbl s.other) kes = true →
      (∀ kvs, evalKwExprs env kes = .ok kvs →
        (∀ kv ∈ kvs, nameOk kv.1 = true ∧ OkVal st s kv.2) ∧ kvs.map (·.1) = kes.map (·.1))
      ∧ (∀ x, evalKwExprs env kes = .error x → GoodExc x)
  | [], _ => by
    refine ⟨fun kvs h => ?_, fun x h => by simp [evalKwExprs] at h⟩
    simp only [evalKwExprs, Except.ok.injEq] at h; subst h; simp
  | (k, e) :: rest, hw => by
    simp only [wfKws, Bool.and_eq_true] at hw
    have ih1 := evalExpr_ok st0 st s env hm he e hw.1.2
    have ih2 := evalKwExprs_ok st0 st s env hm he rest hw.2
    refine ⟨fun kvs h => ?_, fun x h => ?_⟩
    · simp only [evalKwExprs] at h
      split at h
      · simp at h
      · rename_i v hv
        split at h
        · simp at h
        · rename_i ws hws
          simp only [Except.ok.injEq] at h; subst h
          obtain ⟨hall, hkeys⟩ := ih2.1 ws hws
          refine ⟨fun u hu => ?_, by simp [hkeys]⟩
          simp only [List.mem_cons] at hu
          rcases hu with rfl | hu
          · exact ⟨hw.1.1, ih1.1 _ hv⟩
          · exact hall u hu
    · simp only [evalKwExprs] at h
      split at h
      · rename_i y hy
        simp only [Except.error.injEq] at h; subst h
        exact ih1.2 _ hy
      · split at h
        · rename_i y hy
          simp only [Except.error.injEq] at h; subst h
          exact ih2.2 _ hy
        · simp at h

/-- what a call statement hands to `callFn` -/
structure CallOk (st : St) (s : Side) (callee : PyVal) (args : List PyVal) (kws : List (Name × PyVal)) : Prop where
  hcallee : OkVal st s callee
  hargs : ∀ a ∈ args, OkVal st s a
  hnargs : args.length < 2 ^ 32
  hkws : ∀ kv ∈ kws, nameOk kv.1 = true ∧ OkVal st s kv.2
  hnkws : kws.length < 2 ^ 32
  hnodup : (kws.map (·.1)).Nodup

theorem evalCallArgs_ok (st0 st : St) (s : Side) (env : Env) (hm : st0.le st) (he : EnvOk st s env)
    (x : Nat) (f : Expr) (aes : List Expr) (kes : List (Name × Expr))
    (hw : (Stmt.call x f aes kes).wf s (st0.tbl s.other) = true) :
    (∀ c as kws, evalCallArgs env f aes kes = .ok (c, as, kws) → CallOk st s c as kws)
    ∧ (∀ e, evalCallArgs env f aes kes = .error e → GoodExc e) := by
  simp only [Stmt.wf, Bool.and_eq_true, decide_eq_true_eq] at hw
  obtain ⟨⟨⟨⟨⟨hf, has⟩, hna⟩, hks⟩, hnk⟩, hnd⟩ := hw
  have h1 := evalExpr_ok st0 st s env hm he f hf
  have h2 := evalExprs_ok st0 st s env hm he aes has
  have h3 := evalKwExprs_ok st0 st s env hm he kes hks
  refine ⟨fun c as kws h => ?_, fun e h => ?_⟩
  · simp only [evalCallArgs] at h
    split at h
    · simp at h
    · rename_i c' hc
      split at h
      · simp at h
      · rename_i as' has'
        split at h
        · simp at h
        · rename_i kws' hkws'
          simp only [Except.ok.injEq, Prod.mk.injEq] at h
          obtain ⟨rfl, rfl, rfl⟩ := h
          obtain ⟨ha1, ha2⟩ := h2.1 _ has'
          obtain ⟨hk1, hk2⟩ := h3.1 _ hkws'
          exact ⟨h1.1 _ hc, ha1, by omega, hk1, by
            have : kws'.length = kes.length := by simpa using congrArg List.length hk2
            omega, by rw [hk2]; exact hnd⟩
  · simp only [evalCallArgs] at h
    split at h
    · rename_i y hy; simp only [Except.error.injEq] at h; subst h; exact h1.2 _ hy
    · split at h
      · rename_i y hy; simp only [Except.error.injEq] at h; subst h; exact h2.2 _ hy
      · split at h
        · rename_i y hy; simp only [Except.error.injEq] at h; subst h; exact h3.2 _ hy
        · simp at h

end Rpyc.Calls
