import RpycModel.Proto.LedgerLemmas
/-
Every enabled event preserves the ledger invariant (one lemma per kind of event, then `step`, then `run`).
-/
namespace Rpyc.Proto.Ledger

theorem lstep_issue (x : Side) (me pr : SideSt) (w : Wire) (k : Kind) (me' pr' : SideSt) (w' : Wire)
    (h : lstep x me pr w (.issue k) = some (me', pr', w')) (h1 : Dir x me pr w) (h2 : Dir x.peer pr me w) :
    Dir x me' pr' w' ∧ Dir x.peer pr' me' w' := by
  simp only [lstep, lstepWith] at h
  split at h
  · cases h
  simp only [Option.some.injEq, Prod.mk.injEq] at h
  obtain ⟨rfl, rfl, rfl⟩ := h
  have hfresh : nSeq me.seq me.issued = 0 :=
    nSeq_eq_zero _ _ (fun hm => by have := h1.below _ hm; omega)
  refine ⟨⟨?_, ?_, ?_, ?_, ?_, ?_, ?_, ?_, ?_, ?_, ?_, ?_⟩, ⟨?_, ?_, ?_, ?_, ?_, ?_, ?_, ?_, ?_, ?_, ?_, ?_⟩⟩
  · intro r; have := h1.count r
    by_cases hr : me.seq = r <;> simp [hr] at this ⊢ <;> omega
  · intro r; have := h1.waiter r
    by_cases hr : me.seq = r <;> simp [hr] at this ⊢ <;> omega
  · intro r hr
    simp only [List.mem_append, List.mem_singleton] at hr
    rcases hr with hr | hr
    · have := h1.below r hr; simp; omega
    · simp [hr]
  · rw [List.pairwise_append]
    refine ⟨h1.sorted, List.pairwise_singleton _ _, ?_⟩
    intro a ha b hb
    simp only [List.mem_singleton] at hb
    subst hb
    exact h1.below a ha
  · intro r; have := h1.once r
    by_cases hr : me.seq = r
    · subst hr; simp [hfresh]
    · simp [hr]; omega
  · simp [List.filterMap_append, h1.wireReq]
  · intro r; have := h1.flow r; simpa using this
  · exact h1.provRes
  · exact h1.provInbox
  · intro r; have := h1.wireResp r; simpa using this
  · exact h1.exec
  · exact h1.honest
  -- the other direction: requests of the peer, answered here
  · intro r; have := h2.count r
    cases k <;> simpa using this
  · exact h2.waiter
  · exact h2.below
  · exact h2.sorted
  · exact h2.once
  · simp [List.filterMap_append, h2.wireReq]
  · intro r; have := h2.flow r; simpa using this
  · exact h2.provRes
  · intro k' s v hm
    simp only [List.mem_append, List.mem_singleton] at hm
    rcases hm with hm | hm
    · exact h2.provInbox k' s v hm
    · cases hm
  · intro r; have := h2.wireResp r; simpa using this
  · exact h2.exec
  · exact h2.honest

theorem lstep_issueFail (x : Side) (me pr : SideSt) (w : Wire) (me' pr' : SideSt) (w' : Wire)
    (h : lstep x me pr w .issueFail = some (me', pr', w')) (h1 : Dir x me pr w) (h2 : Dir x.peer pr me w) :
    Dir x me' pr' w' ∧ Dir x.peer pr' me' w' := by
  simp only [lstep, lstepWith] at h
  split at h
  · cases h
  simp only [Option.some.injEq, Prod.mk.injEq] at h
  obtain ⟨rfl, rfl, rfl⟩ := h
  have hfresh : nSeq me.seq me.issued = 0 :=
    nSeq_eq_zero _ _ (fun hm => by have := h1.below _ hm; omega)
  have hcb : nKey me.seq me.callbacks = 0 := by have := h1.waiter me.seq; omega
  rw [unregister_register_fresh _ _ _ hcb]
  refine ⟨⟨h1.count, h1.waiter, ?_, h1.sorted, h1.once, h1.wireReq, h1.flow, h1.provRes, h1.provInbox,
    h1.wireResp, h1.exec, h1.honest⟩, ⟨h2.count, h2.waiter, h2.below, h2.sorted, h2.once, h2.wireReq, h2.flow,
    h2.provRes, h2.provInbox, h2.wireResp, h2.exec, h2.honest⟩⟩
  intro r hr
  have := h1.below r hr
  simp only
  omega

theorem lstep_await (x : Side) (me pr : SideSt) (w : Wire) (s : Nat) (me' pr' : SideSt) (w' : Wire)
    (h : lstep x me pr w (.await s) = some (me', pr', w')) (h1 : Dir x me pr w) (h2 : Dir x.peer pr me w) :
    Dir x me' pr' w' ∧ Dir x.peer pr' me' w' := by
  simp only [lstep, lstepWith] at h
  split at h
  · cases h
  split at h
  · simp only [Option.some.injEq, Prod.mk.injEq] at h
    obtain ⟨rfl, rfl, rfl⟩ := h
    refine ⟨⟨h1.count, h1.waiter, h1.below, h1.sorted, h1.once, h1.wireReq, h1.flow, h1.provRes, h1.provInbox,
      h1.wireResp, h1.exec, h1.honest⟩, ⟨?_, h2.waiter, h2.below, h2.sorted, h2.once, h2.wireReq, h2.flow,
      h2.provRes, h2.provInbox, h2.wireResp, h2.exec, h2.honest⟩⟩
    intro r; have := h2.count r; simpa using this
  · simp only [Option.some.injEq, Prod.mk.injEq] at h
    obtain ⟨rfl, rfl, rfl⟩ := h
    exact ⟨h1, h2⟩

theorem lstep_deliver (x : Side) (me pr : SideSt) (w : Wire) (me' pr' : SideSt) (w' : Wire)
    (h : lstep x me pr w .deliver = some (me', pr', w')) (h1 : Dir x me pr w) (h2 : Dir x.peer pr me w) :
    Dir x me' pr' w' ∧ Dir x.peer pr' me' w' := by
  simp only [lstep, lstepWith] at h
  split at h
  · cases h
  split at h
  · cases h
  split at h
  · cases h
  · -- a request: `handling r` is pushed
    rename_i r rest hin
    simp only [Option.some.injEq, Prod.mk.injEq] at h
    obtain ⟨rfl, rfl, rfl⟩ := h
    refine ⟨⟨h1.count, h1.waiter, h1.below, h1.sorted, h1.once, h1.wireReq, ?_, h1.provRes, ?_,
      h1.wireResp, h1.exec, h1.honest⟩, ⟨?_, h2.waiter, h2.below, h2.sorted, h2.once, h2.wireReq, h2.flow,
      h2.provRes, h2.provInbox, h2.wireResp, h2.exec, h2.honest⟩⟩
    · intro q; have := h1.flow q; rw [hin] at this; simpa using this
    · intro k s v hm; exact h1.provInbox k s v (by rw [hin]; exact List.mem_cons_of_mem _ hm)
    · intro q; have := h2.count q; rw [hin] at this
      by_cases hq : r = q <;> simp [hq] at this ⊢ <;> omega
  · -- a response
    rename_i k s v rest hin
    split at h
    · -- delivered to the waiter registered under `s`
      rename_i hreg
      simp only [Option.some.injEq, Prod.mk.injEq] at h
      obtain ⟨rfl, rfl, rfl⟩ := h
      have hpos : 0 < nKey s me.callbacks := (registered_iff _ _).mp hreg
      have hw := h1.waiter s
      have ho := h1.once s
      refine ⟨⟨h1.count, ?_, h1.below, h1.sorted, h1.once, h1.wireReq, ?_, ?_, ?_,
        h1.wireResp, h1.exec, h1.honest⟩, ⟨?_, h2.waiter, h2.below, h2.sorted, h2.once, h2.wireReq, h2.flow,
        h2.provRes, h2.provInbox, h2.wireResp, h2.exec, h2.honest⟩⟩
      · intro q; have := h1.waiter q
        simp only [nKey_unregister, nKey_append, nKey_cons, nKey_nil]
        by_cases hq : s = q
        · subst hq; simp; omega
        · simp [hq]; omega
      · intro q; have := h1.flow q; rw [hin] at this
        by_cases hq : s = q <;> simp [hq] at this ⊢ <;> omega
      · intro e he
        simp only [List.mem_append, List.mem_singleton] at he
        rcases he with he | he
        · exact h1.provRes e he
        · subst he; exact h1.provInbox k s v (by rw [hin]; exact List.mem_cons_self)
      · intro k' s' v' hm; exact h1.provInbox k' s' v' (by rw [hin]; exact List.mem_cons_of_mem _ hm)
      · intro q; have := h2.count q; rw [hin] at this
        simp only [nHand_unwind]
        simpa using this
    · -- no waiter under `s`: dropped
      rename_i hreg
      simp only [Option.some.injEq, Prod.mk.injEq] at h
      obtain ⟨rfl, rfl, rfl⟩ := h
      have hzero : nKey s me.callbacks = 0 := (not_registered_iff _ _).mp (by simpa using hreg)
      refine ⟨⟨h1.count, h1.waiter, h1.below, h1.sorted, h1.once, h1.wireReq, ?_, h1.provRes, ?_,
        h1.wireResp, h1.exec, ?_⟩, ⟨?_, h2.waiter, h2.below, h2.sorted, h2.once, h2.wireReq, h2.flow,
        h2.provRes, h2.provInbox, h2.wireResp, h2.exec, h2.honest⟩⟩
      · intro q; have := h1.flow q; rw [hin] at this
        by_cases hq : s = q <;> simp [hq] at this ⊢ <;> omega
      · intro k' s' v' hm; exact h1.provInbox k' s' v' (by rw [hin]; exact List.mem_cons_of_mem _ hm)
      · -- without hand-built frames a response always finds its waiter
        intro hinj
        exfalso
        have hf := h1.flow s
        have hc := h1.count s
        have hw := h1.waiter s
        have ho := h1.once s
        have hinj' : me.injected = [] := hinj
        rw [hin, hinj'] at hf
        simp at hf
        omega
      · intro q; have := h2.count q; rw [hin] at this; simpa using this

theorem lstep_deliverFail (x : Side) (me pr : SideSt) (w : Wire) (me' pr' : SideSt) (w' : Wire)
    (h : lstep x me pr w .deliverFail = some (me', pr', w')) (h1 : Dir x me pr w) (h2 : Dir x.peer pr me w) :
    Dir x me' pr' w' ∧ Dir x.peer pr' me' w' := by
  simp only [lstep, lstepWith, decode_guarded, if_true] at h
  split at h
  · cases h
  split at h
  · cases h
  split at h
  · -- a response whose payload cannot be decoded: delivered all the same
    rename_i k s v rest hin
    split at h
    · rename_i hreg
      simp only [Option.some.injEq, Prod.mk.injEq] at h
      obtain ⟨rfl, rfl, rfl⟩ := h
      have hpos : 0 < nKey s me.callbacks := (registered_iff _ _).mp hreg
      have hw := h1.waiter s
      have ho := h1.once s
      refine ⟨⟨h1.count, ?_, h1.below, h1.sorted, h1.once, h1.wireReq, ?_, ?_, ?_,
        h1.wireResp, h1.exec, h1.honest⟩, ⟨?_, h2.waiter, h2.below, h2.sorted, h2.once, h2.wireReq, h2.flow,
        h2.provRes, h2.provInbox, h2.wireResp, h2.exec, h2.honest⟩⟩
      · intro q; have := h1.waiter q
        simp only [nKey_unregister, nKey_append, nKey_cons, nKey_nil]
        by_cases hq : s = q
        · subst hq; simp; omega
        · simp [hq]; omega
      · intro q; have := h1.flow q; rw [hin] at this
        by_cases hq : s = q <;> simp [hq] at this ⊢ <;> omega
      · intro e he
        simp only [List.mem_append, List.mem_singleton] at he
        rcases he with he | he
        · exact h1.provRes e he
        · subst he; exact h1.provInbox k s v (by rw [hin]; exact List.mem_cons_self)
      · intro k' s' v' hm; exact h1.provInbox k' s' v' (by rw [hin]; exact List.mem_cons_of_mem _ hm)
      · intro q; have := h2.count q; rw [hin] at this
        simp only [nHand_unwind]
        simpa using this
    · rename_i hreg
      simp only [Option.some.injEq, Prod.mk.injEq] at h
      obtain ⟨rfl, rfl, rfl⟩ := h
      have hzero : nKey s me.callbacks = 0 := (not_registered_iff _ _).mp (by simpa using hreg)
      refine ⟨⟨h1.count, h1.waiter, h1.below, h1.sorted, h1.once, h1.wireReq, ?_, h1.provRes, ?_,
        h1.wireResp, h1.exec, ?_⟩, ⟨?_, h2.waiter, h2.below, h2.sorted, h2.once, h2.wireReq, h2.flow,
        h2.provRes, h2.provInbox, h2.wireResp, h2.exec, h2.honest⟩⟩
      · intro q; have := h1.flow q; rw [hin] at this
        by_cases hq : s = q <;> simp [hq] at this ⊢ <;> omega
      · intro k' s' v' hm; exact h1.provInbox k' s' v' (by rw [hin]; exact List.mem_cons_of_mem _ hm)
      · intro hinj
        exfalso
        have hf := h1.flow s
        have hc := h1.count s
        have hw := h1.waiter s
        have ho := h1.once s
        have hinj' : me.injected = [] := hinj
        rw [hin, hinj'] at hf
        simp at hf
        omega
      · intro q; have := h2.count q; rw [hin] at this; simpa using this
  · cases h

theorem lstep_finish (x : Side) (me pr : SideSt) (w : Wire) (o : Outcome) (v : Nat) (me' pr' : SideSt) (w' : Wire)
    (h : lstep x me pr w (.finish o v) = some (me', pr', w')) (h1 : Dir x me pr w) (h2 : Dir x.peer pr me w) :
    Dir x me' pr' w' ∧ Dir x.peer pr' me' w' := by
  simp only [lstep, lstepWith] at h
  split at h
  · cases h
  split at h
  · rename_i r rest hst
    split at h
    · -- exactly one response
      rename_i k hk
      simp only [Option.some.injEq, Prod.mk.injEq] at h
      obtain ⟨rfl, rfl, rfl⟩ := h
      refine ⟨⟨?_, h1.waiter, h1.below, h1.sorted, h1.once, ?_, h1.flow, h1.provRes, h1.provInbox,
        ?_, h1.exec, h1.honest⟩, ⟨?_, h2.waiter, h2.below, h2.sorted, h2.once, ?_, ?_,
        ?_, ?_, ?_, ?_, h2.honest⟩⟩
      · intro q; have := h1.count q; simpa using this
      · simp [List.filterMap_append, h1.wireReq]
      · intro q; have := h1.wireResp q; simpa using this
      · intro q; have := h2.count q; rw [hst] at this
        simp only [nHand_unwind, nKey_append, nKey_cons, nKey_nil]
        by_cases hq : r = q <;> simp [hq] at this ⊢ <;> omega
      · simp [List.filterMap_append, h2.wireReq]
      · intro q; have := h2.flow q
        by_cases hq : r = q <;> simp [hq] at this ⊢ <;> omega
      · intro e he
        rcases h2.provRes e he with h' | h'
        · exact Or.inl (List.mem_append_left _ h')
        · exact Or.inr h'
      · intro k' s' v' hm
        simp only [List.mem_append, List.mem_singleton] at hm
        rcases hm with hm | hm
        · rcases h2.provInbox k' s' v' hm with h' | h'
          · exact Or.inl (List.mem_append_left _ h')
          · exact Or.inr h'
        · cases hm; exact Or.inl (by simp)
      · intro q; have := h2.wireResp q
        by_cases hq : r = q <;> simp [hq] at this ⊢ <;> omega
      · intro q; have := h2.exec q
        by_cases hq : r = q <;> cases handlerRan o <;> simp [hq] at this ⊢ <;> omega
    · -- the exception leaves `_dispatch_request`: no response
      simp only [Option.some.injEq, Prod.mk.injEq] at h
      obtain ⟨rfl, rfl, rfl⟩ := h
      refine ⟨⟨h1.count, h1.waiter, h1.below, h1.sorted, h1.once, h1.wireReq, h1.flow, h1.provRes, h1.provInbox,
        h1.wireResp, h1.exec, h1.honest⟩, ⟨?_, h2.waiter, h2.below, h2.sorted, h2.once, h2.wireReq, h2.flow,
        h2.provRes, h2.provInbox, h2.wireResp, ?_, h2.honest⟩⟩
      · intro q; have := h2.count q
        simp only [nSeq_append, nSeq_filterMap_handlingSeq, nHand_nil]
        omega
      · intro q; have := h2.exec q
        simp only [nSeq_append, nSeq_filterMap_handlingSeq, nSeq_cons, nSeq_nil]
        rw [hst]
        by_cases hq : r = q <;> simp [hq] <;> omega
  · cases h

theorem lstep_inject (x : Side) (me pr : SideSt) (w : Wire) (k : RKind) (s v : Nat) (me' pr' : SideSt) (w' : Wire)
    (h : lstep x me pr w (.inject k s v) = some (me', pr', w')) (h1 : Dir x me pr w) (h2 : Dir x.peer pr me w) :
    Dir x me' pr' w' ∧ Dir x.peer pr' me' w' := by
  simp only [lstep, lstepWith] at h
  split at h
  · cases h
  simp only [Option.some.injEq, Prod.mk.injEq] at h
  obtain ⟨rfl, rfl, rfl⟩ := h
  refine ⟨⟨h1.count, h1.waiter, h1.below, h1.sorted, h1.once, ?_, ?_, ?_, ?_,
    ?_, h1.exec, ?_⟩, ⟨?_, h2.waiter, h2.below, h2.sorted, h2.once, ?_, h2.flow,
    h2.provRes, h2.provInbox, ?_, h2.exec, h2.honest⟩⟩
  · simp [List.filterMap_append, h1.wireReq]
  · intro q; have := h1.flow q
    by_cases hq : s = q <;> simp [hq] at this ⊢ <;> omega
  · intro e he
    rcases h1.provRes e he with h' | h'
    · exact Or.inl h'
    · exact Or.inr (List.mem_append_left _ h')
  · intro k' s' v' hm
    simp only [List.mem_append, List.mem_singleton] at hm
    rcases hm with hm | hm
    · rcases h1.provInbox k' s' v' hm with h' | h'
      · exact Or.inl h'
      · exact Or.inr (List.mem_append_left _ h')
    · cases hm; exact Or.inr (by simp)
  · intro q; have := h1.wireResp q
    by_cases hq : s = q <;> simp [hq] at this ⊢ <;> omega
  · intro hinj; simp at hinj
  · intro q; have := h2.count q; simpa using this
  · simp [List.filterMap_append, h2.wireReq]
  · intro q; have := h2.wireResp q; simpa using this

theorem lstep_inv (x : Side) (me pr : SideSt) (w : Wire) (a : Act) (me' pr' : SideSt) (w' : Wire)
    (h : lstep x me pr w a = some (me', pr', w')) (h1 : Dir x me pr w) (h2 : Dir x.peer pr me w) :
    Dir x me' pr' w' ∧ Dir x.peer pr' me' w' := by
  cases a with
  | issue k => exact lstep_issue x me pr w k me' pr' w' h h1 h2
  | issueFail => exact lstep_issueFail x me pr w me' pr' w' h h1 h2
  | await s => exact lstep_await x me pr w s me' pr' w' h h1 h2
  | deliver => exact lstep_deliver x me pr w me' pr' w' h h1 h2
  | deliverFail => exact lstep_deliverFail x me pr w me' pr' w' h h1 h2
  | finish o v => exact lstep_finish x me pr w o v me' pr' w' h h1 h2
  | inject k s v => exact lstep_inject x me pr w k s v me' pr' w' h h1 h2

theorem step_inv (s s' : St) (e : Ev) (h : step s e = some s') (hi : Inv s) : Inv s' := by
  unfold step at h
  split at h
  · rename_i me pr w hl
    simp only [Option.some.injEq] at h
    subst h
    obtain ⟨x, a⟩ := e
    cases x with
    | A =>
      have := lstep_inv .A s.a s.b s.wire a me pr w hl hi.ab hi.ba
      exact ⟨this.1, this.2⟩
    | B =>
      have := lstep_inv .B s.b s.a s.wire a me pr w hl hi.ba hi.ab
      exact ⟨this.2, this.1⟩
  · cases h

theorem run_inv (es : List Ev) : ∀ (s s' : St), run s es = some s' → Inv s → Inv s' := by
  induction es with
  | nil => intro s s' h hi; simp only [run, Option.some.injEq] at h; subst h; exact hi
  | cons e es ih =>
    intro s s' h hi
    simp only [run] at h
    split at h
    · rename_i s1 hs1
      exact ih s1 s' h (step_inv s s1 e hs1 hi)
    · cases h

/-! ### access to the two sides of a state -/

@[simp] theorem St.put_get_self (x : Side) (me pr : SideSt) (w : Wire) : (St.put x me pr w).get x = me := by
  cases x <;> rfl
@[simp] theorem St.put_get_peer (x : Side) (me pr : SideSt) (w : Wire) : (St.put x me pr w).get x.peer = pr := by
  cases x <;> rfl
@[simp] theorem St.put_wire (x : Side) (me pr : SideSt) (w : Wire) : (St.put x me pr w).wire = w := by
  cases x <;> rfl

theorem step_some (s s' : St) (x : Side) (a : Act) (h : step s ⟨x, a⟩ = some s') :
    ∃ me pr w, lstep x (s.get x) (s.get x.peer) s.wire a = some (me, pr, w) ∧ s' = St.put x me pr w := by
  unfold step at h
  split at h
  · rename_i me pr w hl
    simp only [Option.some.injEq] at h
    exact ⟨me, pr, w, hl, h.symm⟩
  · cases h

theorem Inv.dir {s : St} (hi : Inv s) (x : Side) : Dir x (s.get x) (s.get x.peer) s.wire := by
  cases x
  · exact hi.ab
  · exact hi.ba

/-- states reachable from an initial state (any starting values of the two counters) -/
def Reach (s : St) : Prop := ∃ sa sb es, run (St.init sa sb) es = some s

theorem Reach.inv {s : St} (h : Reach s) : Inv s := by
  obtain ⟨sa, sb, es, hr⟩ := h
  exact run_inv es _ _ hr (inv_init sa sb)

theorem Reach.step {s s' : St} {e : Ev} (h : Reach s) (hs : step s e = some s') : Reach s' := by
  obtain ⟨sa, sb, es, hr⟩ := h
  refine ⟨sa, sb, es ++ [e], ?_⟩
  have key : ∀ (es : List Ev) (t : St), run t es = some s → run t (es ++ [e]) = some s' := by
    intro es
    induction es with
    | nil => intro t ht; simp only [run, Option.some.injEq] at ht; subst ht; simp [run, hs]
    | cons e' es ih =>
      intro t ht
      simp only [run, List.cons_append] at ht ⊢
      split at ht
      · rename_i t1 ht1
        first | rw [ht1] | skip
        exact ih t1 ht
      · cases ht
  exact key es _ hr

/-! ### runs in which every request being handled is answered -/

/-- the event does not make an exception leave `_dispatch_request` -/
def Act.answered : Act → Bool
  | .finish o _ => dispatchRequest o != .propagate
  | _ => true

/-- `_dispatch_request` answers whatever happens in its `try:` suite — any `BaseException` included — except
the one case the configuration asks to propagate locally -/
theorem dispatch_never_propagates (o : Outcome) (h : o ≠ .raiseLocal) : dispatchRequest o ≠ .propagate := by
  cases o <;> first | decide | exact absurd rfl h

theorem dispatch_raiseLocal : dispatchRequest .raiseLocal = .propagate := by decide

/-- no handler raises SystemExit / KeyboardInterrupt on a side configured to propagate it locally -/
def Act.notLocal : Act → Bool
  | .finish .raiseLocal _ => false
  | _ => true

theorem Act.answered_of_notLocal (a : Act) (h : a.notLocal = true) : a.answered = true := by
  cases a with
  | finish o v =>
    have ho : o ≠ .raiseLocal := by
      intro he; subst he; simp [Act.notLocal] at h
    simpa [Act.answered] using dispatch_never_propagates o ho
  | _ => rfl

/-- nobody has died and no request was abandoned -/
structure Alive (s : St) : Prop where
  a : s.a.dead = false
  b : s.b.dead = false
  aa : s.a.abandoned = []
  ab : s.b.abandoned = []

theorem lstep_alive (x : Side) (me pr : SideSt) (w : Wire) (a : Act) (me' pr' : SideSt) (w' : Wire)
    (h : lstep x me pr w a = some (me', pr', w')) (ha : a.answered = true) :
    me'.dead = me.dead ∧ pr'.dead = pr.dead ∧ me'.abandoned = me.abandoned ∧ pr'.abandoned = pr.abandoned := by
  cases a with
  | issue k =>
    simp only [lstep, lstepWith] at h
    split at h
    · cases h
    simp only [Option.some.injEq, Prod.mk.injEq] at h
    obtain ⟨rfl, rfl, rfl⟩ := h
    simp
  | issueFail =>
    simp only [lstep, lstepWith] at h
    split at h
    · cases h
    simp only [Option.some.injEq, Prod.mk.injEq] at h
    obtain ⟨rfl, rfl, rfl⟩ := h
    simp
  | await s =>
    simp only [lstep, lstepWith] at h
    split at h
    · cases h
    split at h <;>
    · simp only [Option.some.injEq, Prod.mk.injEq] at h
      obtain ⟨rfl, rfl, rfl⟩ := h
      simp
  | deliver =>
    simp only [lstep, lstepWith] at h
    split at h
    · cases h
    split at h
    · cases h
    split at h
    · cases h
    · simp only [Option.some.injEq, Prod.mk.injEq] at h
      obtain ⟨rfl, rfl, rfl⟩ := h
      simp
    · split at h <;>
      · simp only [Option.some.injEq, Prod.mk.injEq] at h
        obtain ⟨rfl, rfl, rfl⟩ := h
        simp
  | deliverFail =>
    simp only [lstep, lstepWith, decode_guarded, if_true] at h
    split at h
    · cases h
    split at h
    · cases h
    split at h
    · split at h <;>
      · simp only [Option.some.injEq, Prod.mk.injEq] at h
        obtain ⟨rfl, rfl, rfl⟩ := h
        simp
    · cases h
  | finish o v =>
    simp only [lstep, lstepWith] at h
    split at h
    · cases h
    split at h
    · split at h
      · simp only [Option.some.injEq, Prod.mk.injEq] at h
        obtain ⟨rfl, rfl, rfl⟩ := h
        simp
      · rename_i hp
        simp [Act.answered, hp] at ha
    · cases h
  | inject k s v =>
    simp only [lstep, lstepWith] at h
    split at h
    · cases h
    simp only [Option.some.injEq, Prod.mk.injEq] at h
    obtain ⟨rfl, rfl, rfl⟩ := h
    simp

theorem step_alive (s s' : St) (e : Ev) (h : step s e = some s') (ha : e.act.answered = true) (hl : Alive s) :
    Alive s' := by
  obtain ⟨x, a⟩ := e
  obtain ⟨me, pr, w, hs, rfl⟩ := step_some s s' x a h
  have := lstep_alive x _ _ _ a me pr w hs ha
  cases x with
  | A => exact ⟨by simpa [St.put, St.get, hl.a] using this.1, by simpa [St.put, St.get, Side.peer, hl.b] using this.2.1,
               by simpa [St.put, St.get, hl.aa] using this.2.2.1, by simpa [St.put, St.get, Side.peer, hl.ab] using this.2.2.2⟩
  | B => exact ⟨by simpa [St.put, St.get, Side.peer, hl.a] using this.2.1, by simpa [St.put, St.get, hl.b] using this.1,
               by simpa [St.put, St.get, Side.peer, hl.aa] using this.2.2.2, by simpa [St.put, St.get, hl.ab] using this.2.2.1⟩

theorem run_alive (es : List Ev) : ∀ (s s' : St), run s es = some s' → (∀ e ∈ es, e.act.answered = true) →
    Alive s → Alive s' := by
  induction es with
  | nil => intro s s' h _ hl; simp only [run, Option.some.injEq] at h; subst h; exact hl
  | cons e es ih =>
    intro s s' h ha hl
    simp only [run] at h
    split at h
    · rename_i s1 hs1
      exact ih s1 s' h (fun e' he' => ha e' (List.mem_cons_of_mem _ he'))
        (step_alive s s1 e hs1 (ha e List.mem_cons_self) hl)
    · cases h

theorem alive_init (sa sb : Nat) : Alive (St.init sa sb) := ⟨rfl, rfl, rfl, rfl⟩

theorem Alive.get {s : St} (h : Alive s) (x : Side) : (s.get x).dead = false ∧ (s.get x).abandoned = [] := by
  cases x
  · exact ⟨h.a, h.aa⟩
  · exact ⟨h.b, h.ab⟩

/-- what the property demands of a state: both sides are still serving, and every request sent is in
exactly one place — in the peer's inbox, being handled on the peer's stack, or answered exactly once -/
structure Good (s : St) : Prop where
  open_a : s.a.dead = false
  open_b : s.b.dead = false
  one : ∀ x r, r ∈ (s.get x).issued →
    nReq r (s.get x.peer).inbox + nHand r (s.get x.peer).stack + nKey r (s.get x.peer).answered = 1

end Rpyc.Proto.Ledger
