import RpycModel.Gen.Proto
/-
L6 — the lifecycle automaton of ONE side of a connection (C11).

  rpyc/core/protocol.py  `Connection.close`, `_cleanup`, `_handle_close`, `serve` (its `except EOFError` /
                         `finally`), `_dispatch` (its `except EOFError` around `_dispatch_request`),
                         `serve_all` (its `except` clauses and `finally`), `_async_request` (send failure),
                         `_box` (refuses to register an object once the channel is closed)
  rpyc/core/async_.py    `AsyncResult.wait` (a blocked requester is a loop over `serve()`)
  rpyc/core/stream.py    a stream that meets EOF or an I/O error closes itself and raises EOFError

`close()` is two events, `closeBegin` (`if self._closed: return; self._closed = True`) and `closeEnd r`
(`r`: how its `try:` suite ended; then the `finally: self._cleanup()`), because `before_closed(self.root)`
may serve the connection in between — receive a reply, the peer's HANDLE_CLOSE, or EOF.  The `close()`
calls the connection makes itself (in `serve`'s and `_dispatch`'s `except EOFError`, in `serve_all`'s
`finally`) happen on a dead channel or at the very end and are one step (`closeCall`).

Requests are named by the harness (their sequence numbers); allocation is the ledger's business
(`Proto/Ledger.lean`).  `fromPeer`, `issued`, `outcomes`, `closeRaised` are ghost history.
-/
namespace Rpyc.Proto.Life

/-- how a request ended at its requester -/
inductive Res where
  | value (v : Nat)      -- the response (result or remote exception) the peer sent, payload `v`
  | eof                  -- EOFError
  | timeout              -- its own timeout (`AsyncResultTimeout`)
  | closeExc             -- the exception `close()` raised in place of EOFError (a `before_closed` hook that raises)
  deriving DecidableEq, Repr

def Res.isValue : Res → Bool
  | .value _ => true
  | _ => false

/-- what a `close()` call raised to its caller -/
inductive CloseExc where
  | user                 -- the `before_closed` hook's exception (`close_catchall` off)
  | attributeError       -- `_cleanup` ran a second time: `self._local_root` is None
  | hook                 -- the service's `on_disconnect` hook raised (after `_cleanup`'s `finally` released everything)
  | channel              -- the stream's own `close()` raised inside `_cleanup`
  deriving DecidableEq, Repr

/-- how the `try:` suite of `close()` ended -/
inductive TryRes where
  | sent                            -- `before_closed` (if configured) returned and HANDLE_CLOSE was written
  | eof                             -- EOFError, from the hook's own requests or from writing HANDLE_CLOSE: `pass`
  | hookRaised (catchall : Bool)    -- another exception from `before_closed`; `catchall` = `close_catchall`
  deriving DecidableEq, Repr

structure Life where
  closed : Bool            -- `_closed`
  inClose : Bool           -- between `self._closed = True` and the `finally` of a `close()` call
  chanClosed : Bool        -- the stream under `_channel` is closed
  hookRuns : Nat           -- how many times `on_disconnect` has been called
  cleaned : Bool           -- `_cleanup` has run to its end (`_local_root = None`, `del _HANDLERS`)
  tablesCleared : Bool     -- `_request_callbacks`, `_local_objects`, `_proxy_cache` cleared, nothing added since
  issued : List Nat        -- ghost: every request this side has tried to send
  pending : List Nat       -- requests sent and not resolved yet
  blocked : List Nat       -- wait loops in progress, innermost first
  outcomes : List (Nat × Res)
  fromPeer : List (Nat × Nat)        -- ghost: (request, payload) of the responses received from the peer
  closeRaised : List CloseExc        -- ghost: what `close()` calls raised
  hookRaises : Bool                  -- configuration: this side's `on_disconnect` hook raises (user code)
  chanCloseRaises : Bool             -- configuration: this side's stream raises from its own `close()` (once)
  deriving Repr

def Life.initWith (hookRaises : Bool) (chanCloseRaises : Bool := false) : Life :=
  { closed := false, inClose := false, chanClosed := false, hookRuns := 0, cleaned := false,
    tablesCleared := false, issued := [], pending := [], blocked := [], outcomes := [], fromPeer := [],
    closeRaised := [], hookRaises := hookRaises, chanCloseRaises := chanCloseRaises }

/-- the initial state of a side whose disconnect hook returns normally and whose stream closes quietly -/
def Life.init : Life := Life.initWith false false

/-- ```
def _cleanup(self, _anyway=True):
    if self._closed and not _anyway: return        -- never taken: every caller passes _anyway=True
    self._closed = True
    root, self._local_root = self._local_root, None
    try:
        try:     self._channel.close()             -- the stream's own close() may raise
        finally:
            if root is not None: root.on_disconnect(self)      -- once: not on a second run
    finally: self._request_callbacks.clear(); self._local_objects.clear(); self._proxy_cache.clear(); …
```
Two facts about it are MEASURED on the live class by the constants generator: `Gen.Proto.cleanupIdempotent` (a second
run returns quietly; before the repair it raised AttributeError) and `Gen.Proto.cleanupSurvivesChannelCloseError`
(when the stream's close() raises, the hook still runs and everything is still released; before the repair
`_channel.close()` sat outside the `finally` and neither happened).  Returns the state and what `_cleanup` raises. -/
def cleanup (l : Life) : Life × Option CloseExc :=
  if l.cleaned then
    ({ l with closed := true, chanClosed := true },
     if Gen.Proto.cleanupIdempotent then none else some .attributeError)
  else if l.chanCloseRaises && !Gen.Proto.cleanupSurvivesChannelCloseError then
    -- (unrepaired) the stream's close() raises before anything else: the flag is set, nothing is released
    ({ l with closed := true, chanClosed := true }, some .channel)
  else
    ({ l with closed := true, chanClosed := true, hookRuns := l.hookRuns + 1, cleaned := true,
              tablesCleared := true },
     if l.hookRaises then some .hook else if l.chanCloseRaises then some .channel else none)

/-- the rest of `close()` once its `try:` suite has ended with `r`:
`except EOFError: pass` / `except Exception: if not close_catchall: raise` / `finally: self._cleanup()`.
Returns the state and what the call raises (an exception from the `finally` replaces the `before_closed` hook's). -/
def finishClose (r : TryRes) (l : Life) : Life × Option CloseExc :=
  match cleanup l with
  | (l', some e) => ({ l' with inClose := false }, some e)
  | (l', none) =>
    match r with
    | .hookRaised false => ({ l' with inClose := false }, some .user)
    | _ => ({ l' with inClose := false }, none)

/-- a whole `close()` call made by the connection itself (`serve`'s and `_dispatch`'s `except EOFError`,
`serve_all`'s `finally`), where nothing can be served in between; the flag says whether it raised -/
def closeCall (r : TryRes) (l : Life) : Life × Bool :=
  if l.closed then (l, false)
  else ((finishClose r { l with closed := true }).1, (finishClose r { l with closed := true }).2.isSome)

/-- the innermost wait loop gets `res` (EOFError, or what `close()` raised in its place); an enclosing wait loop
is reached through the handler in between, whose response can no longer be sent: EOFError -/
def releaseAll (res : Res) : List Nat → List (Nat × Res)
  | [] => []
  | s :: rest => (s, res) :: rest.map (fun t => (t, Res.eof))

/-- the end travels up through every wait loop of this side -/
def resolveBlocked (res : Res) (l : Life) : Life :=
  { l with outcomes := l.outcomes ++ releaseAll res l.blocked,
           pending := l.pending.filter (fun s => !l.blocked.contains s),
           blocked := [] }

def resolveOne (s : Nat) (res : Res) (l : Life) : Life :=
  { l with outcomes := l.outcomes ++ [(s, res)],
           pending := l.pending.filter (fun t => !(t == s)),
           blocked := l.blocked.filter (fun t => !(t == s)) }

def excRes (raised : Bool) : Res := if raised then .closeExc else .eof

/-- `_box`, by-reference branch: `if self._channel.closed: raise EOFError("connection closed")` comes before
`self._local_objects.add(id_pack, obj)` — MEASURED on the live `Connection._box` (`gen_proto.py`), not typed here; the
obligation `box_refuses_on_closed_channel` (LifeLemmas) states that it is true -/
def boxRefusesOnClosedChannel : Bool := Gen.Proto.boxRefusesOnClosedChannel

/-- does boxing an object (`byRef`: by reference) put an entry into `_local_objects`? -/
def boxRegisters (chanClosed byRef : Bool) : Bool := byRef && !(chanClosed && boxRefusesOnClosedChannel)

/-- `_cleanup`'s last step, MEASURED on the live class (`Gen.Proto.cleanupFailsPending`): every request still waiting for
its answer is completed with EOFError - `AsyncResult.ready` is True, `error` is True, its `add_callback` functions have
run once - instead of being dropped unfired.  `fails`: that measured fact.  A request still in `pending` on a side whose
`_cleanup` has run was registered before it (afterwards `issue` never registers one: the channel is closed), so it is one
of those.  (A result whose OWN timeout had already passed ignores the completion by `AsyncResult.__call__`'s first line
and stays "expired": that is AsyncResult's rule, outside this automaton, which does not know the clock of a request nobody
is waiting for; the correspondence leaves those out.) -/
def completedByEndWith (fails : Bool) (l : Life) (s : Nat) : Bool := l.pending.contains s && l.cleaned && fails

def completedByEnd (l : Life) (s : Nat) : Bool := completedByEndWith Gen.Proto.cleanupFailsPending l s

/-- `AsyncResult.ready` of request `s` (own timeout not passed): resolved already, or completed by the end -/
def resultReadyWith (fails : Bool) (l : Life) (s : Nat) : Bool := !l.pending.contains s || completedByEndWith fails l s

def resultReady (l : Life) (s : Nat) : Bool := resultReadyWith Gen.Proto.cleanupFailsPending l s

inductive Ev where
  /-- `close()` is called: returns at once if already closed (this is also `closeAgain`), else sets the flag -/
  | closeBegin
  /-- the `try:` suite of that `close()` ended with `r`; `finally: self._cleanup()` -/
  | closeEnd (r : TryRes)
  /-- `serve()` receives the peer's HANDLE_CLOSE -/
  | recvClose
  /-- `serve()`: `poll`/`recv` raises EOFError — end of stream or an I/O error, in the header or in the body;
  `r`: how the `try:` suite of the `close()` it calls ends -/
  | eofInServe (r : TryRes)
  /-- `_async_request`: writing the request fails (the stream closes itself); not while serving -/
  | failSendRequest (s : Nat)
  /-- a request `s` made from INSIDE the delivery of a response (`_unbox` inspecting the class of a first reference, a
  result callback) cannot be written: the end is met while serving -/
  | failSendNested (s : Nat) (r : TryRes)
  /-- serving a request: its response cannot be written; `ref`: the result is boxed by reference -/
  | failSendReply (ref : Bool) (r : TryRes)
  /-- `serve_all()`'s `finally: self.close()` -/
  | serveAllExit (r : TryRes)
  /-- `_async_request` for a new request `s`; `refArg`: an argument is boxed by reference -/
  | issue (s : Nat) (refArg : Bool)
  /-- `AsyncResult.wait()` for `s`; `expired`: its own timeout has already passed -/
  | wait (s : Nat) (expired : Bool) (r : TryRes)
  /-- the peer's response to `s` is received and dispatched -/
  | reply (s : Nat) (v : Nat)
  /-- the innermost wait loop's own timeout passes -/
  | timeout
  deriving DecidableEq, Repr

/-- `close()` called again -/
abbrev Ev.closeAgain : Ev := .closeBegin

def step (l : Life) : Ev → Option Life
  | .closeBegin =>
    -- `if self._closed: return` / `self._closed = True`
    if l.closed then some l else some { l with closed := true, inClose := true }
  | .closeEnd r =>
    -- (`closeRaised` records what the application's own `close()` calls raised)
    if l.inClose then
      some { (finishClose r l).1 with closeRaised := (finishClose r l).1.closeRaised ++ (finishClose r l).2.toList }
    else none
  | .recvClose =>
    -- needs a live channel; `_handle_close` → `_cleanup()`; the reply to it cannot be written (EOFError):
    -- `_dispatch` calls `close()` (returns at once) and re-raises into every wait loop
    if l.chanClosed || l.cleaned then none
    else some (resolveBlocked .eof (cleanup l).1)
  | .eofInServe r =>
    -- the stream closed itself; `except EOFError: self.close(); raise`
    match closeCall r { l with chanClosed := true } with
    | (l', raised) => some (resolveBlocked (excRes raised) l')
  | .failSendRequest s =>
    -- `_request_callbacks.pop(seq, None); raise`: the requester gets EOFError; the side is NOT closed by this
    if l.issued.contains s then none
    else some { l with issued := l.issued ++ [s], chanClosed := true, outcomes := l.outcomes ++ [(s, .eof)] }
  | .failSendNested s r =>
    -- the requester of `s` gets EOFError (`_async_request` pops its callback and re-raises); the EOFError travels on out
    -- of `_deliver_response` into `_dispatch`: `except EOFError: self.close(); raise` (measured:
    -- `Gen.Proto.dispatchClosesOnEof`; before the repair only the MSG_REQUEST branch did that and the side stayed open)
    if l.issued.contains s then none
    else if Gen.Proto.dispatchClosesOnEof then
      match closeCall r { l with issued := l.issued ++ [s], chanClosed := true, outcomes := l.outcomes ++ [(s, .eof)] } with
      | (l', raised) => some (resolveBlocked (excRes raised) l')
    else
      some (resolveBlocked .eof { l with issued := l.issued ++ [s], chanClosed := true,
                                         outcomes := l.outcomes ++ [(s, .eof)] })
  | .failSendReply ref r =>
    -- `_box(res)`: by reference on a live channel it enters `_local_objects`; on a closed channel `_box`
    -- raises EOFError without registering.  Then `_send` fails; `_dispatch`: `except EOFError: self.close(); raise`
    match closeCall r { l with chanClosed := true,
                               tablesCleared := l.tablesCleared && !boxRegisters l.chanClosed ref } with
    | (l', raised) => some (resolveBlocked (excRes raised) l')
  | .serveAllExit r => some (closeCall r l).1
  | .issue s refArg =>
    if l.issued.contains s then none
    else if l.chanClosed then
      -- `_box` (by-reference argument) or `_send` raises EOFError; the callback is unregistered
      some { l with issued := l.issued ++ [s], outcomes := l.outcomes ++ [(s, .eof)],
                    tablesCleared := l.tablesCleared && !boxRegisters true refArg }
    else
      -- the callback is registered in `_request_callbacks`
      some { l with issued := l.issued ++ [s], pending := l.pending ++ [s], tablesCleared := false }
  | .wait s expired r =>
    if !l.pending.contains s then some l            -- already resolved: returns at once
    else if l.blocked.contains s then none          -- (the harness never waits twice for the same result)
    else if expired then some (resolveOne s .timeout l)
    else if l.chanClosed then
      -- `serve()`: `poll` on the closed stream raises EOFError → `close()` → raise
      match closeCall r l with
      | (l', raised) => some (resolveOne s (excRes raised) l')
    else some { l with blocked := s :: l.blocked }
  | .reply s v =>
    if l.chanClosed || !l.pending.contains s then none
    else some (resolveOne s (.value v) { l with fromPeer := l.fromPeer ++ [(s, v)] })
  | .timeout =>
    match l.blocked with
    | [] => none
    | s :: _ => some (resolveOne s .timeout l)

def run (l : Life) : List Ev → Option Life
  | [] => some l
  | e :: es => match step l e with
    | some l' => run l' es
    | none => none

def runPrefix (l : Life) (n : Nat) : List Ev → Life × Nat
  | [] => (l, n)
  | e :: es => match step l e with
    | some l' => runPrefix l' (n + 1) es
    | none => (l, n)

end Rpyc.Proto.Life
