import RpycModel.Proto.LifeLemmas
/-
L6 — the two sides of ONE connection: two lifecycle automata (`Proto/Life.lean`) joined by the two directions of
the channel (C11, the "both sides" part).

A direction of the channel is the list of frames written towards a side and not yet read by it.  The link between
the sides is what the stream layer provides (rpyc/core/stream.py, modelled in C05, exercised here by the
real-transport runs): a frame written while both ends are open arrives in order; once a side's stream is closed its
peer reads what is still in flight and then end-of-stream; a side whose own stream is closed fails at once.

Events of the pair: an event of one side that does not read the channel (`own`), `closeSent` (that side's `close()`
wrote HANDLE_CLOSE), `answer` (it wrote a response), `recv` (it reads the next frame in flight: the peer's
HANDLE_CLOSE → `recvClose`, a response → `reply`, a request → nothing for the lifecycle), `eof` (it reads
end-of-stream → `eofInServe`).
-/
namespace Rpyc.Proto.Life

inductive PSide where
  | A | B
  deriving DecidableEq, Repr

def PSide.peer : PSide → PSide
  | .A => .B
  | .B => .A

/-- a frame in flight -/
inductive Frm where
  | close                      -- the peer's HANDLE_CLOSE request
  | resp (s v : Nat)           -- the peer's response to request `s`, payload `v`
  | req                        -- a request of the peer (no effect on the lifecycle by itself)
  deriving DecidableEq, Repr

structure Pair where
  a : Life
  b : Life
  toA : List Frm               -- written towards A, not yet read by A
  toB : List Frm
  sentToA : List (Nat × Nat)   -- ghost: every response B has written (request, payload)
  sentToB : List (Nat × Nat)
  deriving Repr

def Pair.init (ha ca hb cb : Bool) : Pair :=
  { a := Life.initWith ha ca, b := Life.initWith hb cb, toA := [], toB := [], sentToA := [], sentToB := [] }

def Pair.get (p : Pair) : PSide → Life
  | .A => p.a
  | .B => p.b

def Pair.set (p : Pair) (x : PSide) (l : Life) : Pair :=
  match x with
  | .A => { p with a := l }
  | .B => { p with b := l }

/-- the frames in flight towards `x` -/
def Pair.to (p : Pair) : PSide → List Frm
  | .A => p.toA
  | .B => p.toB

def Pair.setTo (p : Pair) (x : PSide) (fs : List Frm) : Pair :=
  match x with
  | .A => { p with toA := fs }
  | .B => { p with toB := fs }

def Pair.sentTo (p : Pair) : PSide → List (Nat × Nat)
  | .A => p.sentToA
  | .B => p.sentToB

def Pair.noteSent (p : Pair) (x : PSide) (s v : Nat) : Pair :=
  match x with
  | .A => { p with sentToA := p.sentToA ++ [(s, v)] }
  | .B => { p with sentToB := p.sentToB ++ [(s, v)] }

/-- events of one side that read the channel, or claim that HANDLE_CLOSE was written: these happen only through the
pair's own events below -/
def readsChannel : Ev → Bool
  | .recvClose => true
  | .reply _ _ => true
  | .closeEnd .sent => true
  | _ => false

inductive PEv where
  | own (x : PSide) (e : Ev)
  | closeSent (x : PSide)
  | answer (x : PSide) (s v : Nat)
  | recv (x : PSide)
  | eof (x : PSide) (r : TryRes)
  deriving Repr

/-- side `x` can read a frame: its own stream is open and something is in flight towards it -/
def canRecv (p : Pair) (x : PSide) : Bool := !(p.get x).chanClosed && !(p.to x).isEmpty

/-- side `x` reads end-of-stream (or fails on its own closed stream): its own stream is closed, or the peer's is and
nothing is left in flight -/
def seesEof (p : Pair) (x : PSide) : Bool :=
  (p.get x).chanClosed || ((p.get x.peer).chanClosed && (p.to x).isEmpty)

def pstep (p : Pair) : PEv → Option Pair
  | .own x e =>
    if readsChannel e then none
    else match step (p.get x) e with
      | some l => some (p.set x l)
      | none => none
  | .closeSent x =>
    if (p.get x).chanClosed || (p.get x.peer).chanClosed then none
    else match step (p.get x) (.closeEnd .sent) with
      | some l => some ((p.set x l).setTo x.peer (p.to x.peer ++ [.close]))
      | none => none
  | .answer x s v =>
    if (p.get x).chanClosed || (p.get x.peer).chanClosed then none
    else some ((p.setTo x.peer (p.to x.peer ++ [.resp s v])).noteSent x.peer s v)
  | .recv x =>
    if (p.get x).chanClosed then none
    else match p.to x with
      | [] => none
      | .close :: rest =>
        (match step (p.get x) .recvClose with
         | some l => some ((p.set x l).setTo x rest)
         | none => some (p.setTo x rest))
      | .resp s v :: rest =>
        (match step (p.get x) (.reply s v) with
         | some l => some ((p.set x l).setTo x rest)
         | none => some (p.setTo x rest))             -- nobody waits for it (any more): dropped
      | .req :: rest => some (p.setTo x rest)
  | .eof x r =>
    if seesEof p x then
      (match step (p.get x) (.eofInServe r) with
       | some l => some (p.set x l)
       | none => none)
    else none

def prun (p : Pair) : List PEv → Option Pair
  | [] => some p
  | e :: es => match pstep p e with
    | some p' => prun p' es
    | none => none

/-- `x` serves once: it reads the next frame if it can, else it reads end-of-stream -/
def serveOnce (x : PSide) (r : TryRes) (p : Pair) : Option Pair :=
  if canRecv p x then pstep p (.recv x) else pstep p (.eof x r)

/-- `x` keeps serving (at most `n` times) until it reports closed -/
def serveUntilClosed (x : PSide) (r : TryRes) : Nat → Pair → Pair
  | 0, p => p
  | n + 1, p =>
    if (p.get x).closed then p
    else match serveOnce x r p with
      | some p' => serveUntilClosed x r n p'
      | none => p

end Rpyc.Proto.Life
