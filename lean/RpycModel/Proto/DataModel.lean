import RpycModel.Proto.ForwardLemmas
/-
A small layer of Python's data model, written independently of the handlers: what the interpreter does for a binary
operator (`type(a).__op__(a, b)`, on `NotImplemented` or absence the reflected `type(b).__rop__(b, a)`, else TypeError),
for a rich comparison (the same, with identity as the last resort of `==` / `!=`), and for a `with` block.  The
algorithms take the operands' special methods as PROVIDERS; `directMeth` looks a method up on the operand's type in the
abstract object semantics, `proxyMeth` / `proxyCmp` / `proxyEnter` / `proxyExit` are what a netref's made methods and
`BaseNetref.__eq__..` / `__exit__` put on the wire, served by the peer's handlers.  The theorems of Props/C02.lean
show that the two families of providers are equal, so whatever the interpreter computes from them is.

Assumptions (hypotheses of the theorems, environment facts of CPython / netref, tied to the code by the twin runs):
* a netref class defines a special method exactly when the target's type does (`class_factory` over `get_methods`):
  the same `defines` flag is used on both sides;
* `SpecialBound`: `getattr(obj, "__op__")(o)` — what `_handle_callattr` evaluates — is the type's function applied to
  the object (special methods are not shadowed by instance attributes);
* identity of two proxies of one connection is identity of their targets (C03 `proxy_unique`).
-/
namespace Rpyc.Forward
open Rpyc Rpyc.Calls

/-- a special method of the LEFT / RIGHT operand as the interpreter finds it; `none`: the type does not define it -/
abbrev Meth (H : Type) := Option (PyVal → H → Res × H)

def isNotImpl : PyVal → Bool
  | .imm .notImpl => true
  | _ => false

/-- the reflected attempt of a binary operator -/
def reflectedOp {H : Type} (r : Meth H) (a : PyVal) (h : H) : Res × H :=
  match r with
  | none => (.error typeErrorExc, h)
  | some m =>
    match m a h with
    | (.ok v, h') => if isNotImpl v then (.error typeErrorExc, h') else (.ok v, h')
    | (.error e, h') => (.error e, h')

/-- `a op b` for operands of unrelated types -/
def binaryOp {H : Type} (l r : Meth H) (a b : PyVal) (h : H) : Res × H :=
  match l with
  | none => reflectedOp r a h
  | some m =>
    match m b h with
    | (.ok v, h') => if isNotImpl v then reflectedOp r a h' else (.ok v, h')
    | (.error e, h') => (.error e, h')

/-- `a == b` / `a != b` (`eq`) and the orderings: the left method, then the reflected one of the right operand; if both
answer `NotImplemented`, identity for `==` / `!=`, TypeError for an ordering -/
def richCompare {H : Type} (op : CmpOp) (l r : Meth H) (identical : Bool) (a b : PyVal) (h : H) : Res × H :=
  let last (h' : H) : Res × H :=
    match op with
    | .eq => (.ok (.imm (.bool identical)), h')
    | .ne => (.ok (.imm (.bool (!identical))), h')
    | _ => (.error typeErrorExc, h')
  let second (h' : H) : Res × H :=
    match r with
    | none => last h'
    | some m =>
      match m a h' with
      | (.ok v, h'') => if isNotImpl v then last h'' else (.ok v, h'')
      | (.error e, h'') => (.error e, h'')
  match l with
  | none => second h
  | some m =>
    match m b h with
    | (.ok v, h') => if isNotImpl v then second h' else (.ok v, h')
    | (.error e, h') => (.error e, h')

/-- `with obj as x: body` left without an exception: `__enter__`, the body, `__exit__(None, None, None)` -/
def withBlock {H : Type} (enter : H → Res × H) (exit_ : H → Res × H) (body : PyVal → H → H) (h : H) : Res × H :=
  match enter h with
  | (.error e, h') => (.error e, h')
  | (.ok x, h') =>
    match exit_ (body x h') with
    | (.error e, h'') => (.error e, h'')
    | (.ok _, h'') => (.ok x, h'')

/-! ### providers -/

/-- directly: the method is looked up on the operand's TYPE and called with the operand and the other operand -/
def directMeth {H : Type} (S : ObjSem H) (defines : Bool) (x : PyVal) (name : Name) : Meth H :=
  if defines then
    some (fun o => S.bind (.typeOf x) (fun t => S.bind (.getattr t name) (fun f => S.apply (.call f [x, o] []))))
  else none

/-- through a proxy: the netref class's made method issues HANDLE_CALLATTR, served by the peer -/
def proxyMeth {H : Type} (S : ObjSem H) (pol : Policy) (ap : Bool) (defines : Bool) (x : PyVal) (name : Name) : Meth H :=
  if defines then
    some (fun o => match wireOf (.method name [o] []) with
      | .request handler args => serve S pol ap handler (x :: args)
      | .local_ _ => fun h => (.error typeErrorExc, h))
  else none

/-- through a proxy: `BaseNetref.__eq__ .. __ge__` issue HANDLE_CMP (defined for every proxy; the target's type
always has the six methods, `object`'s at least) -/
def proxyCmp {H : Type} (S : ObjSem H) (pol : Policy) (ap : Bool) (x : PyVal) (op : CmpOp) : Meth H :=
  some (fun o => match wireOf (.cmp op o) with
    | .request handler args => serve S pol ap handler (x :: args)
    | .local_ _ => fun h => (.error typeErrorExc, h))

/-- `getattr(obj, name)(o)` is `getattr(type(obj), name)(obj, o)`: special methods are not shadowed on the instance -/
def SpecialBound {H : Type} (S : ObjSem H) (x : PyVal) (name : Name) : Prop :=
  ∀ o, S.bind (.getattr x name) (fun f => S.apply (.call f [o] []))
     = S.bind (.typeOf x) (fun t => S.bind (.getattr t name) (fun f => S.apply (.call f [x, o] [])))

/-! ### `__class__` and `isinstance` on the proxy's side (`BaseNetref.__getattribute__`, `NetrefClass`, `__instancecheck__`) -/

/-- `proxy.__class__`: the `NetrefClass` descriptor of the netref class resolved the class by name at the caller
(`resolved`), or it is `None` and the attribute is fetched from the peer -/
def classQuery (resolved : Bool) : Wire :=
  if resolved then .local_ .classDescriptor else .request Gen.Netref.handleGetattr [.imm (.str (nameOf "__class__"))]

/-- what `NetrefClass.__get__` answers for a proxy whose id pack has instance part `inst`: the class's own class for a
proxy of a class, the class for a proxy of an instance -/
inductive ClassAnswer where
  | theClass | theMetaclass
  deriving DecidableEq, Repr

def netrefClassGet (inst : Nat) : ClassAnswer := if inst = 0 then .theMetaclass else .theClass

/-- `BaseNetref.__instancecheck__(self, other)` for `other` a netref: decided at the caller from the two id packs
`(class id, instance id)` where it can be, else forwarded -/
inductive InstanceCheck where
  | typeError | answer (b : Bool) | forwarded
  deriving DecidableEq, Repr

def instanceCheck (selfCls selfInst otherCls otherInst : Nat) : InstanceCheck :=
  if selfInst ≠ 0 then .typeError                 -- arg 2 must be a class
  else if selfCls = otherCls then .answer (otherInst ≠ 0)
  else .forwarded

end Rpyc.Forward
