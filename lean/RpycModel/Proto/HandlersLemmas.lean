import RpycModel.Proto.Handlers
namespace Rpyc.Handlers
open Rpyc

/-! ### what the invariants say about one event -/

def Touch.good (cfg : Config) (t : Touch) : Bool :=
  match t.kind with
  | .attr op => cfg.perm op && plainAllowed cfg t.name
  | .probe => plainAllowed cfg t.name
  | .pickle => cfg.allowPickle
  | .import_ => cfg.importCustomExc
  | .modPresent => cfg.importCustomExc || cfg.instantiateCustomExc
  | _ => true

def Ev.good (cfg : Config) : Ev → Bool
  | .touch t => t.good cfg
  | _ => true

/-- objects the protocol code has been handed so far: the root, and whatever the environment returned -/
def known (root : Nat) (log : List Ev) : List Nat := root :: log.flatMap Ev.gives

def evJust (kn : List Nat) : Ev → Bool
  | .touch t => t.needs.all (fun o => kn.contains o)
  | _ => true

def justifiedFrom (kn : List Nat) : List Ev → Bool
  | [] => true
  | e :: rest => evJust kn e && justifiedFrom (kn ++ e.gives) rest

/-- requests started minus requests answered or aborted -/
def evBal : Ev → Int
  | .request _ => 1
  | .reply _ _ => -1
  | .exc _ _ => -1
  | .aborted _ _ => -1
  | _ => 0

def balL : List Ev → Int
  | [] => 0
  | e :: es => evBal e + balL es

theorem balL_append (a b : List Ev) : balL (a ++ b) = balL a + balL b := by
  induction a with
  | nil => simp [balL]
  | cons e es ih => simp [balL, ih]; omega

theorem justifiedFrom_append (kn : List Nat) (l : List Ev) (e : Ev) :
    justifiedFrom kn (l ++ [e]) = (justifiedFrom kn l && evJust (kn ++ l.flatMap Ev.gives) e) := by
  induction l generalizing kn with
  | nil => simp [justifiedFrom]
  | cons x xs ih => simp [justifiedFrom, ih, List.append_assoc, Bool.and_assoc]

theorem known_append (root : Nat) (a b : List Ev) (o : Nat) :
    o ∈ known root (a ++ b) ↔ o ∈ known root a ∨ o ∈ b.flatMap Ev.gives := by
  simp [known, List.flatMap_append, or_assoc]

structure Inv (cfg : Config) (root : Nat) (st : St) : Prop where
  good : st.log.all (Ev.good cfg) = true
  just : justifiedFrom [root] st.log = true
  tbl : ∀ s ∈ st.table, s.o ∈ known root st.log
  res : ∀ p ∈ st.results, ∀ o ∈ p.2.objs, o ∈ known root st.log
  /-- every table entry was put there by `_box`, under that very id pack -/
  lent : ∀ s ∈ st.table, Ev.lent s.key s.o ∈ st.log
  /-- and whatever `_box` lent was an object the protocol had been handed -/
  lentK : ∀ k o, Ev.lent k o ∈ st.log → o ∈ known root st.log

structure Ext (st st' : St) : Prop where
  ext : ∃ l, st'.log = st.log ++ l ∧ balL l = 0

theorem Ext.refl (st : St) : Ext st st := ⟨[], by simp, rfl⟩

theorem Ext.trans {a b c : St} (h1 : Ext a b) (h2 : Ext b c) : Ext a c := by
  obtain ⟨l1, e1, b1⟩ := h1.ext
  obtain ⟨l2, e2, b2⟩ := h2.ext
  exact ⟨l1 ++ l2, by simp [e2, e1, List.append_assoc], by simp [balL_append, b1, b2]⟩

theorem known_mono {root : Nat} {st st' : St} (h : Ext st st') {o : Nat} (ho : o ∈ known root st.log) :
    o ∈ known root st'.log := by
  obtain ⟨l, e, _⟩ := h.ext
  rw [e, known_append]; exact Or.inl ho

/-- the judgement the handler lemmas are stated in: from a state that satisfies the invariants and in which the
objects `need` are known, `m` ends in a state that satisfies them, has only extended the log (balanced), and the
objects of its result are known -/
def Sat {α} (c : Ctx) (need : List Nat) (m : M α) (Q : α → List Nat) : Prop :=
  ∀ st fut, Inv c.cfg c.root st → (∀ o ∈ need, o ∈ known c.root st.log) →
    Inv c.cfg c.root (m c st fut).st ∧ Ext st (m c st fut).st ∧
    ∀ a, (m c st fut).r = .ok a → ∀ o ∈ Q a, o ∈ known c.root (m c st fut).st.log

theorem Sat.pure {α} {c : Ctx} {need : List Nat} {Q : α → List Nat} (a : α) (h : ∀ o ∈ Q a, o ∈ need) :
    Sat c need (pure a : M α) Q := by
  intro st fut hI hN
  refine ⟨hI, Ext.refl _, ?_⟩
  intro b hb o ho
  have : b = a := by
    have : (Except.ok a : Except Exc α) = .ok b := hb
    cases this; rfl
  subst this
  exact hN o (h o ho)

theorem Sat.throwX {α} {c : Ctx} {need : List Nat} {Q : α → List Nat} (x : Exc) : Sat c need (throwX x : M α) Q := by
  intro st fut hI _
  refine ⟨hI, Ext.refl _, ?_⟩
  intro b hb; cases hb

theorem Sat.throwE {α} {c : Ctx} {need : List Nat} {Q : α → List Nat} (e : Err) : Sat c need (throwE e : M α) Q :=
  Sat.throwX _

theorem Sat.bind {α β} {c : Ctx} {need : List Nat} {m : M α} {f : α → M β} {Q1 : α → List Nat} {Q2 : β → List Nat}
    (h1 : Sat c need m Q1) (h2 : ∀ a, Sat c (need ++ Q1 a) (f a) Q2) : Sat c need (m >>= f) Q2 := by
  intro st fut hI hN
  obtain ⟨hI1, hE1, hQ1⟩ := h1 st fut hI hN
  show Inv c.cfg c.root ((Bind.bind m f) c st fut).st ∧ _
  simp only [Bind.bind]
  cases hm : m c st fut with
  | mk r st1 fut1 =>
    rw [hm] at hI1 hE1 hQ1
    cases r with
    | error x =>
      refine ⟨hI1, hE1, ?_⟩
      intro b hb; cases hb
    | ok a =>
      have hN2 : ∀ o ∈ need ++ Q1 a, o ∈ known c.root st1.log := by
        intro o ho
        rcases List.mem_append.mp ho with h | h
        · exact known_mono hE1 (hN o h)
        · exact hQ1 a rfl o h
      obtain ⟨hI2, hE2, hQ2⟩ := h2 a st1 fut1 hI1 hN2
      exact ⟨hI2, hE1.trans hE2, hQ2⟩

theorem Sat.weaken {α} {c : Ctx} {need need' : List Nat} {m : M α} {Q : α → List Nat}
    (h : Sat c need' m Q) (hs : ∀ o ∈ need', o ∈ need) : Sat c need m Q := by
  intro st fut hI hN
  exact h st fut hI (fun o ho => hN o (hs o ho))

theorem Sat.post {α} {c : Ctx} {need : List Nat} {m : M α} {Q Q' : α → List Nat}
    (h : Sat c need m Q) (hq : ∀ a, ∀ o ∈ Q' a, o ∈ Q a ∨ o ∈ need) : Sat c need m Q' := by
  intro st fut hI hN
  obtain ⟨h1, h2, h3⟩ := h st fut hI hN
  refine ⟨h1, h2, ?_⟩
  intro a ha o ho
  rcases hq a o ho with h | h
  · exact h3 a ha o h
  · exact known_mono h2 (hN o h)

theorem Sat.liftE {α} {c : Ctx} {need : List Nat} {Q : α → List Nat} (r : Except Err α)
    (h : ∀ a, r = .ok a → ∀ o ∈ Q a, o ∈ need) : Sat c need (liftE r : M α) Q := by
  cases r with
  | error e => exact Sat.throwE e
  | ok a => exact Sat.pure a (h a rfl)

theorem Sat.bind_getCfg {β} {c : Ctx} {need : List Nat} {f : Config → M β} {Q : β → List Nat}
    (h : Sat c need (f c.cfg) Q) : Sat c need (getCfg >>= f) Q := by
  intro st fut hI hN
  exact h st fut hI hN

theorem Sat.bind_getCtx {β} {c : Ctx} {need : List Nat} {f : Ctx → M β} {Q : β → List Nat}
    (h : Sat c need (f c) Q) : Sat c need (getCtx >>= f) Q := by
  intro st fut hI hN
  exact h st fut hI hN

theorem Sat.bind_getSt {β} {c : Ctx} {need : List Nat} {f : St → M β} {Q : β → List Nat}
    (h : ∀ s, Sat c need (f s) Q) : Sat c need (getSt >>= f) Q := by
  intro st fut hI hN
  exact h st st fut hI hN

/-- a state change that leaves the log alone and invents no table entry or pending result -/
theorem Sat.modify {c : Ctx} {need : List Nat} (f : St → St)
    (hlog : ∀ st, (f st).log = st.log)
    (htbl : ∀ st, ∀ s ∈ (f st).table, ∃ s' ∈ st.table, s'.o = s.o ∧ s'.key = s.key)
    (hres : ∀ st, ∀ p ∈ (f st).results, p ∈ st.results) :
    Sat c need (modify f) (fun _ => []) := by
  intro st fut hI hN
  refine ⟨⟨?_, ?_, ?_, ?_, ?_, ?_⟩, ⟨[], by simp [Handlers.modify, hlog], rfl⟩, ?_⟩
  · simpa [Handlers.modify, hlog] using hI.good
  · simpa [Handlers.modify, hlog] using hI.just
  · intro s hs
    obtain ⟨s', hs', e, _⟩ := htbl st s hs
    simp only [Handlers.modify, hlog]
    rw [← e]; exact hI.tbl s' hs'
  · intro p hp o ho
    simp only [Handlers.modify, hlog]
    exact hI.res p (hres st p hp) o ho
  · intro s hs
    obtain ⟨s', hs', e1, e2⟩ := htbl st s hs
    simp only [Handlers.modify, hlog]
    rw [← e1, ← e2]; exact hI.lent s' hs'
  · intro k o h
    simp only [Handlers.modify, hlog] at h ⊢
    exact hI.lentK k o h
  · intro a _ o ho; cases ho

theorem Inv.push {cfg : Config} {root : Nat} {st : St} (hI : Inv cfg root st) (e : Ev) (hg : e.good cfg = true)
    (hj : ∀ t, e = .touch t → ∀ o ∈ t.needs, o ∈ known root st.log)
    (hl : ∀ k o, e = .lent k o → o ∈ known root st.log) :
    Inv cfg root { st with log := st.log ++ [e] } := by
  have hE : ∀ o, o ∈ known root st.log → o ∈ known root (st.log ++ [e]) := by
    intro o ho; rw [known_append]; exact Or.inl ho
  refine ⟨?_, ?_, ?_, ?_, ?_, ?_⟩
  · simp [hI.good, hg]
  · simp only [justifiedFrom_append, hI.just, Bool.true_and]
    cases e with
    | touch t =>
      simp only [evJust, List.all_eq_true]
      intro o ho
      have := hj t rfl o ho
      simpa [known] using this
    | _ => rfl
  · intro s hs; exact hE _ (hI.tbl s hs)
  · intro p hp o ho; exact hE _ (hI.res p hp o ho)
  · intro s hs; exact List.mem_append.mpr (Or.inl (hI.lent s hs))
  · intro k o h
    rcases List.mem_append.mp h with h | h
    · exact hE _ (hI.lentK k o h)
    · simp at h; exact hE _ (hl k o h.symm)

theorem Ext.push (st : St) (e : Ev) (hb : evBal e = 0) : Ext st { st with log := st.log ++ [e] } :=
  ⟨[e], rfl, by simp [balL, hb]⟩

theorem Sat.push {c : Ctx} {need : List Nat} (e : Ev) (hg : e.good c.cfg = true) (hb : evBal e = 0)
    (hj : ∀ t, e = .touch t → ∀ o ∈ t.needs, o ∈ need) (hnl : ∀ k o, e ≠ .lent k o) :
    Sat c need (Handlers.push e) (fun _ => []) := by
  intro st fut hI hN
  refine ⟨hI.push e hg (fun t ht o ho => hN o (hj t ht o ho)) (fun k o h => absurd h (hnl k o)), Ext.push st e hb, ?_⟩
  intro a _ o ho; cases ho

theorem mem_tableAdd {tbl : List Slot} {key : Val} {o : Nat} {s : Slot} (h : s ∈ tableAdd tbl key o) :
    (s.o = o ∧ s.key = key) ∨ ∃ s' ∈ tbl, s'.o = s.o ∧ s'.key = s.key := by
  unfold tableAdd at h
  split at h
  · rcases List.mem_append.mp h with h | h
    · exact Or.inr ⟨s, h, rfl, rfl⟩
    · simp at h; subst h; exact Or.inl ⟨rfl, rfl⟩
  · obtain ⟨s', hs', e⟩ := List.mem_map.mp h
    refine Or.inr ⟨s', hs', ?_⟩
    split at e <;> (subst e; exact ⟨rfl, rfl⟩)

theorem Sat.addSlot {c : Ctx} {need : List Nat} (key : Val) (o : Nat) (ho : o ∈ need) :
    Sat c need (addSlot key o) (fun _ => []) := by
  intro st fut hI hN
  have hI' := hI.push (.lent key o) rfl (by intro t ht; cases ht) (by intro k o' h; cases h; exact hN o ho)
  refine ⟨⟨hI'.good, hI'.just, ?_, hI'.res, ?_, hI'.lentK⟩, ⟨[.lent key o], rfl, rfl⟩, ?_⟩
  · intro s hs
    rcases mem_tableAdd hs with ⟨h, _⟩ | ⟨s', hs', e, _⟩
    · rw [h]; exact known_mono (Ext.push st _ rfl) (hN o ho)
    · rw [← e]; exact hI'.tbl s' hs'
  · intro s hs
    rcases mem_tableAdd hs with ⟨h1, h2⟩ | ⟨s', hs', e1, e2⟩
    · rw [h1, h2]; exact List.mem_append.mpr (Or.inr (by simp))
    · rw [← e1, ← e2]; exact hI'.lent s' hs'
  · intro a _ o' ho'; cases ho'

theorem Sat.tableGet {c : Ctx} {need : List Nat} (key : Val) : Sat c need (tableGet key) (fun o => [o]) := by
  intro st fut hI hN
  unfold Handlers.tableGet
  cases h : lookupSlot st.table key with
  | none => exact ⟨hI, Ext.refl _, by intro a ha; cases ha⟩
  | some s =>
    refine ⟨hI, Ext.refl _, ?_⟩
    intro a ha o ho
    have : a = s.o := by cases ha; rfl
    subst this
    simp at ho; subst ho
    exact hI.tbl s (List.mem_of_find?_eq_some h)

theorem Sat.sendFrame {c : Ctx} {need : List Nat} (e : Ev) (hg : e.good c.cfg = true) (hb : evBal e = 0)
    (hj : ∀ t, e ≠ .touch t) (hnl : ∀ k o, e ≠ .lent k o) : Sat c need (sendFrame e) (fun _ => []) := by
  intro st fut hI hN
  unfold Handlers.sendFrame
  split
  · exact ⟨hI, Ext.refl _, by intro a ha; cases ha⟩
  · exact ⟨hI.push e hg (fun t ht => absurd ht (hj t)) (fun k o h => absurd h (hnl k o)), Ext.push st e hb,
      by intro a _ o ho; cases ho⟩

/-- what the handler lemmas assume of the waiting function in the context -/
def AwaitOK (c : Ctx) : Prop :=
  ∀ st seq fut, Inv c.cfg c.root st →
    Inv c.cfg c.root (c.await st seq fut).2.1 ∧ Ext st (c.await st seq fut).2.1 ∧
    ∀ o ∈ (c.await st seq fut).1.objs, o ∈ known c.root (c.await st seq fut).2.1.log

theorem Sat.awaitReply {c : Ctx} {need : List Nat} (hA : AwaitOK c) (seq : Nat) :
    Sat c need (awaitReply seq) PV.objs := by
  intro st fut hI hN
  obtain ⟨h1, h2, h3⟩ := hA st seq fut hI
  unfold Handlers.awaitReply
  cases h : c.await st seq fut with
  | mk a rest =>
    obtain ⟨st', fut'⟩ := rest
    rw [h] at h1 h2 h3
    cases a with
    | ret v => exact ⟨h1, h2, by intro a ha o ho; cases ha; exact h3 o ho⟩
    | raise x => exact ⟨h1, h2, by intro a ha; cases ha⟩

theorem Sat.attempt {α} {c : Ctx} {need : List Nat} {m : M α} {Q : α → List Nat} (h : Sat c need m Q) :
    Sat c need (attempt m) (fun r => match r with | .ok a => Q a | .error _ => []) := by
  intro st fut hI hN
  obtain ⟨h1, h2, h3⟩ := h st fut hI hN
  unfold Handlers.attempt
  cases hm : m c st fut with
  | mk r st1 fut1 =>
    rw [hm] at h1 h2 h3
    refine ⟨h1, h2, ?_⟩
    intro a ha o ho
    cases ha
    cases r with
    | ok v => exact h3 v rfl o ho
    | error x => cases ho

theorem Sat.tryExc {α} {c : Ctx} {need : List Nat} {m h : M α} {Q : α → List Nat}
    (hm : Sat c need m Q) (hh : Sat c need h Q) : Sat c need (tryExc m h) Q := by
  intro st fut hI hN
  obtain ⟨h1, h2, h3⟩ := hm st fut hI hN
  unfold Handlers.tryExc
  cases e : m c st fut with
  | mk r st1 fut1 =>
    rw [e] at h1 h2 h3
    cases r with
    | ok a => exact ⟨h1, h2, h3⟩
    | error x =>
      by_cases hx : x.isException = true
      · simp only [hx, if_true]
        obtain ⟨g1, g2, g3⟩ := hh st1 fut1 h1 (fun o ho => known_mono h2 (hN o ho))
        exact ⟨g1, h2.trans g2, g3⟩
      · simp only [hx]
        exact ⟨h1, h2, by intro a ha; cases ha⟩

theorem Sat.inGenerator {α} {c : Ctx} {need : List Nat} {m : M α} {Q : α → List Nat} (h : Sat c need m Q) :
    Sat c need (inGenerator m) Q := by
  intro st fut hI hN
  obtain ⟨h1, h2, h3⟩ := h st fut hI hN
  unfold Handlers.inGenerator
  cases e : m c st fut with
  | mk r st1 fut1 =>
    rw [e] at h1 h2 h3
    cases r with
    | ok a => exact ⟨h1, h2, h3⟩
    | error x => exact ⟨h1, h2, by intro a ha; cases ha⟩

theorem Sat.ite {α} {c : Ctx} {need : List Nat} {b : Bool} {m1 m2 : M α} {Q : α → List Nat}
    (h1 : b = true → Sat c need m1 Q) (h2 : b = false → Sat c need m2 Q) :
    Sat c need (if b then m1 else m2) Q := by
  cases b with
  | true => simpa using h1 rfl
  | false => simpa using h2 rfl

theorem Inv.congr {cfg : Config} {root : Nat} {st st' : St} (hI : Inv cfg root st)
    (h1 : st'.log = st.log) (h2 : st'.table = st.table) (h3 : st'.results = st.results) : Inv cfg root st' :=
  ⟨by rw [h1]; exact hI.good, by rw [h1]; exact hI.just, by rw [h1, h2]; exact hI.tbl, by rw [h1, h3]; exact hI.res,
   by rw [h1, h2]; exact hI.lent, by rw [h1]; exact hI.lentK⟩

theorem mkTuple_objs (xs : List PV) : ∀ o ∈ (mkTuple xs).objs, o ∈ PV.objsL xs := by
  intro o ho
  unfold mkTuple at ho
  split at ho
  · simp [PV.objs] at ho
  · simpa [PV.objs] using ho

theorem objs_of_allImm (xs : List PV) (h : xs.all PV.isImm = true) : PV.objsL xs = [] := by
  induction xs with
  | nil => rfl
  | cons x xs ih =>
    simp only [List.all_cons, Bool.and_eq_true] at h
    cases x <;> simp_all [PV.isImm, PV.objsL, PV.objs]

theorem objsL_eq_flatMap (xs : List PV) : PV.objsL xs = xs.flatMap PV.objs := by
  induction xs with
  | nil => rfl
  | cons x xs ih => simp [PV.objsL, ih]

theorem Sat.mapM' {α β : Type} {c : Ctx} {need : List Nat} (g : α → M β) (pre : α → List Nat) (post : β → List Nat)
    (hg : ∀ x need', (∀ o ∈ pre x, o ∈ need') → Sat c need' (g x) post)
    (xs : List α) (hxs : ∀ x ∈ xs, ∀ o ∈ pre x, o ∈ need) :
    Sat c need (mapM' g xs) (fun bs => bs.flatMap post) := by
  induction xs generalizing need with
  | nil => simp only [Handlers.mapM']; exact Sat.pure _ (by simp)
  | cons x xs ih =>
    simp only [Handlers.mapM']
    refine Sat.bind (hg x need (hxs x (by simp))) (fun b => ?_)
    refine Sat.bind (ih (fun y hy o ho => List.mem_append.mpr (Or.inl (hxs y (by simp [hy]) o ho)))) (fun bs => ?_)
    refine Sat.pure _ ?_
    intro o ho
    simp only [List.flatMap_cons, List.mem_append] at ho ⊢
    rcases ho with h | h
    · exact Or.inl (Or.inr h)
    · exact Or.inr h

theorem boxWith_sat {c : Ctx} {s : M PV} (hs : ∀ need, Sat c need s PV.objs) :
    ∀ f need v, (∀ o ∈ v.objs, o ∈ need) → Sat c need (boxWith s f v) (fun _ => []) := by
  intro f
  induction f with
  | zero => intro need v _; simp only [boxWith]; exact Sat.throwE _
  | succ f ihf =>
    intro need v hv
    cases v with
    | imm v => simp only [boxWith]; exact Sat.pure _ (by simp)
    | proxy nm ci ii => simp only [boxWith]; exact Sat.pure _ (by simp)
    | tup xs =>
      simp only [boxWith]
      refine Sat.bind (Sat.inGenerator (Sat.mapM' _ PV.objs (fun _ => []) (fun x need' hx => ihf need' x hx) xs ?_))
        (fun bs => Sat.pure _ (by simp))
      intro x hx o ho
      refine hv o ?_
      simp only [PV.objs, objsL_eq_flatMap, List.mem_flatMap]
      exact ⟨x, hx, ho⟩
    | obj o =>
      simp only [boxWith]
      refine Sat.bind_getSt (fun st0 => ?_)
      refine Sat.ite (fun _ => Sat.throwX _) (fun _ => ?_)
      refine Sat.bind (Sat.push _ rfl rfl (by
        intro t ht; cases ht; simpa [Touch.needs, PV.objs, PV.objsL] using hv) (by intro k o h; cases h)) (fun _ => ?_)
      refine Sat.bind (hs _) (fun k => ?_)
      cases k with
      | imm key =>
        refine Sat.bind (Sat.addSlot key o (by simp [PV.objs] at hv; simp [hv])) (fun _ => ?_)
        exact Sat.pure _ (by simp)
      | _ => exact Sat.throwE _

theorem mem_unregOne {tbl : List Slot} {key : Val} {s : Slot} (h : s ∈ unregOne tbl key) :
    ∃ s' ∈ tbl, s'.o = s.o ∧ s'.key = s.key := by
  unfold unregOne at h
  split at h
  · exact ⟨s, h, rfl, rfl⟩
  · split at h
    · exact ⟨s, (List.mem_filter.mp h).1, rfl, rfl⟩
    · obtain ⟨s', hs', e⟩ := List.mem_map.mp h
      refine ⟨s', hs', ?_⟩
      split at e <;> (subst e; exact ⟨rfl, rfl⟩)

theorem mem_unregAll (added : List Val) : ∀ (tbl : List Slot) (s : Slot), s ∈ added.foldl unregOne tbl →
    ∃ s' ∈ tbl, s'.o = s.o ∧ s'.key = s.key := by
  induction added with
  | nil => intro tbl s h; exact ⟨s, h, rfl, rfl⟩
  | cons k ks ih =>
    intro tbl s h
    obtain ⟨s1, h1, e1, e2⟩ := ih (unregOne tbl k) s h
    obtain ⟨s2, h2, e3, e4⟩ := mem_unregOne h1
    exact ⟨s2, h2, e3.trans e1, e4.trans e2⟩

theorem Sat.unregister {c : Ctx} {need : List Nat} (added : List Val) : Sat c need (unregister added) (fun _ => []) :=
  Sat.modify _ (fun _ => rfl) (fun st s hs => mem_unregAll added st.table s hs) (fun _ _ hp => hp)

theorem boxCollect_sat {c : Ctx} {s : M PV} (hs : ∀ need, Sat c need s PV.objs) (need : List Nat) (v : PV)
    (hv : ∀ o ∈ v.objs, o ∈ need) : Sat c need (boxCollect s v) (fun _ => []) := by
  unfold boxCollect
  refine Sat.bind_getCtx ?_
  refine Sat.bind (Sat.modify _ (fun _ => rfl) (fun _ s hs => ⟨s, hs, rfl, rfl⟩) (fun _ p hp => hp)) (fun _ => ?_)
  refine Sat.bind (Sat.attempt (boxWith_sat hs _ _ v (by intro o ho; simp [hv o ho]))) (fun r => ?_)
  refine Sat.bind_getSt (fun st => ?_)
  refine Sat.bind (Sat.modify _ (fun _ => rfl) (fun _ s hs => ⟨s, hs, rfl, rfl⟩) (fun _ p hp => hp)) (fun _ => ?_)
  exact Sat.pure _ (by simp)

theorem requestFailed_sat {c : Ctx} {need : List Nat} (seq : Nat) (added : List Val) (x : Exc) :
    Sat c need (requestFailed seq added x) PV.objs := by
  unfold requestFailed
  refine Sat.bind (Sat.unregister added) (fun _ => ?_)
  refine Sat.bind (Sat.modify _ (fun _ => rfl) (fun _ s hs => ⟨s, hs, rfl, rfl⟩) (fun _ p hp => hp)) (fun _ => ?_)
  exact Sat.throwX x

theorem requestWith_sat {c : Ctx} (hA : AwaitOK c) {s : M PV} (hs : ∀ need, Sat c need s PV.objs)
    (need : List Nat) (h : Nat) (args : List PV) (hN : ∀ o ∈ PV.objsL args, o ∈ need) :
    Sat c need (requestWith s h args) PV.objs := by
  unfold requestWith
  refine Sat.bind_getSt (fun st => ?_)
  refine Sat.bind (Sat.modify _ (fun _ => rfl) (fun _ s hs => ⟨s, hs, rfl, rfl⟩) (fun _ p hp => hp)) (fun _ => ?_)
  refine Sat.bind (boxCollect_sat hs _ (mkTuple args) (fun o ho => by
    have := hN o (mkTuple_objs args o ho); simp [this])) (fun ra => ?_)
  obtain ⟨r, added⟩ := ra
  cases r with
  | error x =>
    simp only
    exact Sat.ite (fun _ => requestFailed_sat _ _ _) (fun _ => Sat.throwX x)
  | ok boxed =>
    simp only
    cases encodable boxed with
    | error e => exact requestFailed_sat _ _ _
    | ok u =>
      simp only
      refine Sat.bind (Sat.attempt (Sat.sendFrame _ rfl rfl (by intro t ht; cases ht) (by intro k o h; cases h))) (fun sent => ?_)
      cases sent with
      | error x => exact requestFailed_sat _ _ _
      | ok a => exact Sat.awaitReply hA _

theorem settle_sat {c : Ctx} (hA : AwaitOK c) : ∀ n need, Sat c need (settle n) PV.objs := by
  intro n
  induction n with
  | zero => intro need; simp only [settle]; exact Sat.throwE _
  | succ n ih =>
    intro need st fut hI hN
    simp only [settle]
    cases hm : c.env st.clock with
    | done a =>
      cases a with
      | ret v =>
        have hI' := hI.push (.answer (.ret v)) rfl (by intro t ht; cases ht) (by intro k o h; cases h)
        refine ⟨hI'.congr rfl rfl rfl, ⟨[.answer (.ret v)], rfl, rfl⟩, ?_⟩
        intro a ha o ho
        cases ha
        show o ∈ known c.root (st.log ++ [Ev.answer (Ans.ret v)])
        rw [known_append]; exact Or.inr (by simpa [Ev.gives, Ans.objs] using ho)
      | raise x =>
        have hI' := hI.push (.answer (.raise x)) rfl (by intro t ht; cases ht) (by intro k o h; cases h)
        exact ⟨hI'.congr rfl rfl rfl, ⟨[.answer (.raise x)], rfl, rfl⟩, by intro a ha; cases ha⟩
    | callback h args =>
      have hI1 := (hI.push (.cbmove h args) rfl (by intro t ht; cases ht) (by intro k o h; cases h)).congr
        (st' := { st with clock := st.clock + 1, log := st.log ++ [Ev.cbmove h args] }) rfl rfl rfl
      have hE1 : Ext st { st with clock := st.clock + 1, log := st.log ++ [Ev.cbmove h args] } :=
        ⟨[.cbmove h args], rfl, rfl⟩
      have hN1 : ∀ o ∈ PV.objsL args, o ∈ known c.root
          ({ st with clock := st.clock + 1, log := st.log ++ [Ev.cbmove h args] } : St).log := by
        intro o ho
        show o ∈ known c.root (st.log ++ [Ev.cbmove h args])
        rw [known_append]; exact Or.inr (by simpa [Ev.gives] using ho)
      obtain ⟨hI2, hE2, _⟩ := requestWith_sat hA ih (PV.objsL args) h args (fun o ho => ho) _ fut hI1 hN1
      obtain ⟨hI3, hE3, hQ3⟩ := ih need _ _ hI2 (fun o ho => known_mono (hE1.trans hE2) (hN o ho))
      exact ⟨hI3, (hE1.trans hE2).trans hE3, hQ3⟩

theorem Sat.prim {c : Ctx} (hA : AwaitOK c) {need : List Nat} (t : Touch) (hg : t.good c.cfg = true)
    (hn : ∀ o ∈ t.needs, o ∈ need) : Sat c need (prim t) PV.objs := by
  unfold Handlers.prim
  refine Sat.bind (Sat.push _ hg rfl (by intro t' ht; cases ht; exact hn) (by intro k o h; cases h)) (fun _ => ?_)
  exact Sat.bind_getCtx (settle_sat hA _ _)

theorem Sat.boxTop {c : Ctx} (hA : AwaitOK c) {need : List Nat} (v : PV) (hn : ∀ o ∈ v.objs, o ∈ need) :
    Sat c need (boxTop v) (fun _ => []) := by
  unfold Handlers.boxTop
  exact Sat.bind_getCtx (boxCollect_sat (settle_sat hA _) _ v hn)

theorem Sat.requestTop {c : Ctx} (hA : AwaitOK c) {need : List Nat} (h : Nat) (args : List PV)
    (hn : ∀ o ∈ PV.objsL args, o ∈ need) : Sat c need (requestTop h args) PV.objs := by
  unfold Handlers.requestTop
  exact Sat.bind_getCtx (requestWith_sat hA (settle_sat hA _) _ _ args hn)

/-- membership side goals of the rules: `o ∈ <objects needed> → o ∈ <objects known to be available>` -/
macro "mem_tac" : tactic =>
  `(tactic| (intro o ho; first
      | exact ho
      | (simp only [Touch.needs, PV.objs, PV.objsL, Ans.objs, List.mem_append, List.mem_cons, List.mem_nil_iff,
          List.not_mem_nil, or_false, false_or, List.append_nil, List.nil_append] at ho ⊢; first | done | exact ho | fail)
      | (simp_all [Touch.needs, PV.objs, PV.objsL, Ans.objs]; done)
      | grind [Touch.needs, PV.objs, PV.objsL, Ans.objs]))

theorem objsL_map_imm (vs : List Val) : PV.objsL (vs.map PV.imm) = [] := by
  induction vs with
  | nil => rfl
  | cons y ys ih => simp [PV.objsL, PV.objs, ih]

theorem Sat.classLookup {c : Ctx} (hA : AwaitOK c) : ∀ (cuts : List (PyStr × PyStr)) (need : List Nat),
    Sat c need (classLookup cuts) (fun _ => []) := by
  intro cuts
  induction cuts with
  | nil => intro need; simp only [Handlers.classLookup]; exact Sat.pure _ (by simp)
  | cons pc rest ih =>
    intro need
    obtain ⟨p, cn⟩ := pc
    simp only [Handlers.classLookup]
    refine Sat.bind (Sat.prim hA _ rfl (by mem_tac)) (fun m => ?_)
    exact Sat.ite (fun _ => ih _) (fun _ => Sat.pure _ (by simp))

theorem Sat.netrefFactory {c : Ctx} (hA : AwaitOK c) {need : List Nat} (idp : IdPack) :
    Sat c need (netrefFactory idp) (fun _ => []) := by
  unfold Handlers.netrefFactory
  refine Sat.bind_getSt (fun st => ?_)
  refine Sat.ite (fun _ => Sat.pure _ (by simp)) (fun _ => ?_)
  refine Sat.ite (fun _ => Sat.pure _ (by simp)) (fun _ => ?_)
  refine Sat.bind (Sat.requestTop hA _ _ (by simp [PV.objsL, PV.objs])) (fun methods => ?_)
  refine Sat.bind (Sat.classLookup hA _ _) (fun _ => ?_)
  refine Sat.bind (Sat.prim hA _ rfl (by mem_tac)) (fun _ => ?_)
  refine Sat.ite (fun _ => ?_) (fun _ => Sat.pure _ (by simp))
  exact Sat.modify _ (fun _ => rfl) (fun _ s hs => ⟨s, hs, rfl, rfl⟩) (fun _ p hp => hp)

mutual
def Pkg.objs : Pkg → List Nat
  | .res o => [o]
  | .node xs => Pkg.objsL xs
  | .leaf _ _ => []
def Pkg.objsL : List Pkg → List Nat
  | [] => []
  | x :: xs => x.objs ++ Pkg.objsL xs
end

theorem pkgObjsL_eq_flatMap (xs : List Pkg) : Pkg.objsL xs = xs.flatMap Pkg.objs := by
  induction xs with
  | nil => rfl
  | cons x xs ih => simp [Pkg.objsL, ih]

theorem resolve_sat {c : Ctx} : ∀ f need pkg, Sat c need (resolve f pkg) Pkg.objs := by
  intro f
  induction f with
  | zero => intro need pkg; simp only [resolve]; exact Sat.throwE _
  | succ f ihf =>
    intro need pkg
    simp only [resolve]
    refine Sat.bind (Sat.liftE _ (Q := fun _ => []) (by simp)) (fun lv => ?_)
    refine Sat.ite (fun _ => ?_) (fun _ => ?_)
    · refine Sat.bind (Sat.liftE _ (Q := fun _ => []) (by simp)) (fun items => ?_)
      refine Sat.bind (Sat.inGenerator (Sat.mapM' _ (fun _ => []) Pkg.objs (fun x need' _ => ihf need' x) items
        (by intro x _ o ho; cases ho))) (fun xs => ?_)
      refine Sat.pure _ ?_
      intro o ho
      simp only [Pkg.objs, pkgObjsL_eq_flatMap] at ho
      simp [ho]
    refine Sat.ite (fun _ => ?_) (fun _ => Sat.pure _ (by simp [Pkg.objs]))
    refine Sat.bind (Sat.tableGet _) (fun o => ?_)
    exact Sat.pure _ (by simp [Pkg.objs])

theorem unbox2_sat {c : Ctx} (hA : AwaitOK c) : ∀ f need p, (∀ o ∈ p.objs, o ∈ need) → Sat c need (unbox2 f p) PV.objs := by
  intro f
  induction f with
  | zero => intro need p _; simp only [unbox2]; exact Sat.throwE _
  | succ f ihf =>
    intro need p hp
    cases p with
    | res o => simp only [unbox2]; exact Sat.pure _ (by simpa [PV.objs, Pkg.objs] using hp)
    | node xs =>
      simp only [unbox2]
      refine Sat.bind (Sat.inGenerator (Sat.mapM' _ Pkg.objs PV.objs (fun x need' hx => ihf need' x hx) xs ?_)) (fun ys => ?_)
      · intro x hx o ho
        refine hp o ?_
        simp only [Pkg.objs, pkgObjsL_eq_flatMap, List.mem_flatMap]
        exact ⟨x, hx, ho⟩
      · refine Sat.pure _ ?_
        intro o ho
        have := mkTuple_objs ys o ho
        rw [objsL_eq_flatMap] at this
        simp [this]
    | leaf label value =>
      simp only [unbox2]
      refine Sat.ite (fun _ => Sat.pure _ (by simp [PV.objs])) (fun _ => ?_)
      refine Sat.ite (fun _ => ?_) (fun _ => Sat.throwE _)
      refine Sat.bind (Sat.liftE _ (Q := fun _ => []) (by simp)) (fun v0 => ?_)
      refine Sat.bind (Sat.liftE _ (Q := fun _ => []) (by simp)) (fun v1 => ?_)
      refine Sat.bind (Sat.liftE _ (Q := fun _ => []) (by simp)) (fun v2 => ?_)
      refine Sat.bind_getCtx ?_
      refine Sat.bind_getSt (fun st => ?_)
      refine Sat.ite (fun _ => Sat.pure _ (by simp [PV.objs])) (fun _ => ?_)
      refine Sat.bind (Sat.netrefFactory hA _) (fun _ => ?_)
      refine Sat.bind (Sat.modify _ (fun st => by split <;> rfl) (fun st s hs => ⟨s, by split at hs <;> exact hs, rfl, rfl⟩)
        (fun st p hp => by split at hp <;> exact hp)) (fun _ => ?_)
      exact Sat.pure _ (by simp [PV.objs])

theorem unbox_sat {c : Ctx} (hA : AwaitOK c) (f : Nat) (need : List Nat) (pkg : Val) : Sat c need (unbox f pkg) PV.objs := by
  unfold unbox
  refine Sat.bind (resolve_sat f need pkg) (fun p => ?_)
  exact unbox2_sat hA f _ p (by mem_tac)

/-- `m` neither changes the state nor consumes a message -/
def Quiet {α} (c : Ctx) (m : M α) : Prop := ∀ st fut, (m c st fut).st = st ∧ (m c st fut).fut = fut

theorem Quiet.pure {α} {c : Ctx} (a : α) : Quiet c (Pure.pure a : M α) := fun _ _ => ⟨rfl, rfl⟩
theorem Quiet.throwE {α} {c : Ctx} (e : Err) : Quiet c (Handlers.throwE e : M α) := fun _ _ => ⟨rfl, rfl⟩
theorem Quiet.liftE {α} {c : Ctx} (r : Except Err α) : Quiet c (Handlers.liftE r : M α) := by
  cases r with
  | ok a => exact Quiet.pure a
  | error e => exact Quiet.throwE e

theorem Quiet.bind {α β} {c : Ctx} {m : M α} {f : α → M β} (h1 : Quiet c m) (h2 : ∀ a, Quiet c (f a)) :
    Quiet c (m >>= f) := by
  intro st fut
  simp only [Bind.bind]
  have := h1 st fut
  cases hm : m c st fut with
  | mk r st1 fut1 =>
    rw [hm] at this
    obtain ⟨e1, e2⟩ := this
    subst e1; subst e2
    cases r with
    | error x => exact ⟨rfl, rfl⟩
    | ok a => exact h2 a st1 fut1

theorem Quiet.ite {α} {c : Ctx} {b : Bool} {m1 m2 : M α} (h1 : Quiet c m1) (h2 : Quiet c m2) :
    Quiet c (if b then m1 else m2) := by
  cases b <;> simpa

theorem Quiet.inGenerator {α} {c : Ctx} {m : M α} (h : Quiet c m) : Quiet c (inGenerator m) := by
  intro st fut
  have := h st fut
  unfold Handlers.inGenerator
  cases hm : m c st fut with
  | mk r st1 fut1 =>
    rw [hm] at this
    cases r <;> exact this

theorem Quiet.mapM' {α β : Type} {c : Ctx} (g : α → M β) (hg : ∀ x, Quiet c (g x)) (xs : List α) : Quiet c (mapM' g xs) := by
  induction xs with
  | nil => simp only [Handlers.mapM']; exact Quiet.pure _
  | cons x xs ih =>
    simp only [Handlers.mapM']
    exact Quiet.bind (hg x) (fun b => Quiet.bind ih (fun bs => Quiet.pure _))

theorem Quiet.tableGet {c : Ctx} (key : Val) : Quiet c (tableGet key) := by
  intro st fut
  unfold Handlers.tableGet
  cases lookupSlot st.table key <;> exact ⟨rfl, rfl⟩

/-- the first pass of `_unbox` changes nothing: no log entry (so no request to the peer), no table entry, no proxy,
no message consumed -/
theorem resolve_quiet (c : Ctx) : ∀ f pkg, Quiet c (resolve f pkg) := by
  intro f
  induction f with
  | zero => intro pkg; simp only [resolve]; exact Quiet.throwE _
  | succ f ihf =>
    intro pkg
    simp only [resolve]
    refine Quiet.bind (Quiet.liftE _) (fun lv => ?_)
    refine Quiet.ite ?_ (Quiet.ite (Quiet.bind (Quiet.tableGet _) (fun o => Quiet.pure _)) (Quiet.pure _))
    exact Quiet.bind (Quiet.liftE _) (fun items =>
      Quiet.bind (Quiet.inGenerator (Quiet.mapM' _ (fun x => ihf x) items)) (fun xs => Quiet.pure _))

theorem Sat.unboxTop {c : Ctx} (hA : AwaitOK c) {need : List Nat} (pkg : Val) : Sat c need (unboxTop pkg) PV.objs := by
  unfold Handlers.unboxTop
  exact Sat.bind_getCtx (unbox_sat hA _ _ _)

theorem Sat.probe {c : Ctx} (hA : AwaitOK c) {need : List Nat} (obj : PV) (n : PyStr)
    (hg : plainAllowed c.cfg n = true) (hn : ∀ o ∈ obj.objs, o ∈ need) : Sat c need (probe obj n) (fun _ => []) := by
  unfold Handlers.probe
  refine Sat.bind (Sat.prim hA _ (by simpa [Touch.good] using hg) (by mem_tac)) (fun a => ?_)
  exact Sat.pure _ (by simp)

theorem plainAllowed_twin (cfg : Config) (n : PyStr) (h : prefixTruthy cfg = true) : plainAllowed cfg (twin cfg n) = true := by
  simp only [prefixTruthy, Bool.and_eq_true] at h
  simp [plainAllowed, twin, h.1]

/-- every name `_check_attr` returns is one the configuration allows -/
theorem checkAttr_allowed (cfg : Config) (has : PyStr → Bool) (n : PyStr) (op : Op) (n' : PyStr)
    (h : checkAttr cfg has n op = .ok n') : cfg.perm op = true ∧ plainAllowed cfg n' = true := by
  unfold checkAttr at h
  split at h
  · cases h
  rename_i hp
  have hperm : cfg.perm op = true := by simpa using hp
  split at h
  · rename_i h1
    cases h
    simp only [Bool.and_eq_true] at h1
    exact ⟨hperm, h1.1⟩
  split at h
  · rename_i h2
    cases h
    simp only [hasExposed, Bool.and_eq_true] at h2
    exact ⟨hperm, plainAllowed_twin cfg n h2.1⟩
  split at h
  · rename_i h3
    cases h
    exact ⟨hperm, h3⟩
  · cases h

theorem Sat.probeIf {c : Ctx} (hA : AwaitOK c) {need : List Nat} (b : Bool) (obj : PV) (n : PyStr)
    (hg : b = true → plainAllowed c.cfg n = true) (hn : ∀ o ∈ obj.objs, o ∈ need) :
    Sat c need (probeIf b obj n) (fun _ => []) := by
  unfold Handlers.probeIf
  exact Sat.ite (fun hb => Sat.probe hA _ _ (hg hb) hn) (fun _ => Sat.pure _ (by simp))

theorem Sat.checkAttrM {c : Ctx} (hA : AwaitOK c) {need : List Nat} (obj : PV) (n : PyStr) (op : Op)
    (hn : ∀ o ∈ obj.objs, o ∈ need) :
    Sat c need (checkAttrM obj n op) (fun _ => []) := by
  unfold Handlers.checkAttrM
  refine Sat.bind_getCfg ?_
  refine Sat.ite (fun _ => Sat.throwE _) (fun _ => ?_)
  refine Sat.bind (Sat.probeIf hA _ _ _ (plainAllowed_twin _ _) hn) (fun b1 => ?_)
  refine Sat.bind (Sat.probeIf hA _ _ _ (by intro hp; simp only [Bool.and_eq_true] at hp; exact hp.1) (by mem_tac))
    (fun b2 => ?_)
  exact Sat.liftE _ (by simp)

/-- a fact about every value `m` can return -/
def Holds {α} (c : Ctx) (m : M α) (P : α → Prop) : Prop := ∀ st fut a, (m c st fut).r = .ok a → P a

theorem Sat.bindP {α β} {c : Ctx} {need : List Nat} {m : M α} {f : α → M β} {Q1 : α → List Nat} {Q2 : β → List Nat}
    {P : α → Prop} (h1 : Sat c need m Q1) (hP : Holds c m P) (h2 : ∀ a, P a → Sat c (need ++ Q1 a) (f a) Q2) :
    Sat c need (m >>= f) Q2 := by
  intro st fut hI hN
  obtain ⟨hI1, hE1, hQ1⟩ := h1 st fut hI hN
  have hp := hP st fut
  show Inv c.cfg c.root ((Bind.bind m f) c st fut).st ∧ _
  simp only [Bind.bind]
  cases hm : m c st fut with
  | mk r st1 fut1 =>
    rw [hm] at hI1 hE1 hQ1 hp
    cases r with
    | error x =>
      refine ⟨hI1, hE1, ?_⟩
      intro b hb; cases hb
    | ok a =>
      have hN2 : ∀ o ∈ need ++ Q1 a, o ∈ known c.root st1.log := by
        intro o ho
        rcases List.mem_append.mp ho with h | h
        · exact known_mono hE1 (hN o h)
        · exact hQ1 a rfl o h
      obtain ⟨hI2, hE2, hQ2⟩ := h2 a (hp a rfl) st1 fut1 hI1 hN2
      exact ⟨hI2, hE1.trans hE2, hQ2⟩

theorem Holds.bind {α β} {c : Ctx} {m : M α} {f : α → M β} {P : β → Prop} (h : ∀ a, Holds c (f a) P) :
    Holds c (m >>= f) P := by
  intro st fut b hb
  simp only [Bind.bind] at hb
  cases hm : m c st fut with
  | mk r st1 fut1 =>
    rw [hm] at hb
    cases r with
    | error x => cases hb
    | ok a => exact h a st1 fut1 b hb

theorem Holds.bind_getCfg {β} {c : Ctx} {f : Config → M β} {P : β → Prop} (h : Holds c (f c.cfg) P) :
    Holds c (getCfg >>= f) P := by
  intro st fut b hb
  exact h st fut b hb

theorem Holds.throwE {α} {c : Ctx} {P : α → Prop} (e : Err) : Holds c (throwE e : M α) P := by
  intro st fut b hb; cases hb

theorem Holds.liftE {α} {c : Ctx} {P : α → Prop} (r : Except Err α) (h : ∀ a, r = .ok a → P a) :
    Holds c (liftE r : M α) P := by
  intro st fut b hb
  cases r with
  | error e => cases hb
  | ok a =>
    have : b = a := by
      have : (Except.ok a : Except Exc α) = .ok b := hb
      cases this; rfl
    subst this; exact h b rfl

theorem Holds.ite {α} {c : Ctx} {b : Bool} {m1 m2 : M α} {P : α → Prop}
    (h1 : b = true → Holds c m1 P) (h2 : b = false → Holds c m2 P) : Holds c (if b then m1 else m2) P := by
  cases b with
  | true => simpa using h1 rfl
  | false => simpa using h2 rfl

/-- the value `checkAttrM` returns is a name the configuration allows for that operation -/
theorem checkAttrM_allowed (c : Ctx) (obj : PV) (n : PyStr) (op : Op) :
    Holds c (checkAttrM obj n op) (fun n' => c.cfg.perm op = true ∧ plainAllowed c.cfg n' = true) := by
  unfold Handlers.checkAttrM
  refine Holds.bind_getCfg ?_
  refine Holds.ite (fun _ => Holds.throwE _) (fun _ => ?_)
  refine Holds.bind (fun b1 => Holds.bind (fun b2 => Holds.liftE _ (fun a ha => checkAttr_allowed _ _ _ _ _ ha)))


theorem Sat.accessAttr {c : Ctx} (hA : AwaitOK c) {need : List Nat} (obj name : PV) (extra : List PV) (op : Op)
    (hn : ∀ o ∈ obj.objs ++ PV.objsL extra, o ∈ need) : Sat c need (accessAttr obj name extra op) PV.objs := by
  unfold Handlers.accessAttr
  refine Sat.bind (Sat.liftE _ (Q := fun _ => []) (by simp)) (fun n => ?_)
  refine Sat.bind (Sat.prim hA _ rfl (by mem_tac)) (fun hk => ?_)
  refine Sat.ite (fun _ => Sat.prim hA _ rfl (by mem_tac)) (fun _ => ?_)
  refine Sat.bindP (Sat.checkAttrM hA _ _ _ (by mem_tac)) (checkAttrM_allowed c _ _ _) (fun n' hp => ?_)
  exact Sat.prim hA _ (by simp [Touch.good, hp.1, hp.2]) (by mem_tac)

theorem Sat.splat {c : Ctx} (hA : AwaitOK c) {need : List Nat} (x : PV) (hn : ∀ o ∈ x.objs, o ∈ need) :
    Sat c need (splat x) PV.objsL := by
  unfold Handlers.splat
  cases x with
  | imm v =>
    simp only
    refine Sat.bind (Sat.liftE _ (Q := fun _ => []) (by simp)) (fun xs => ?_)
    refine Sat.pure _ ?_
    intro o ho
    rw [objsL_map_imm] at ho; cases ho
  | tup xs => exact Sat.pure _ (by mem_tac)
  | obj o =>
    simp only
    refine Sat.bind (Sat.prim hA _ rfl (by mem_tac)) (fun r => ?_)
    cases r with
    | imm v =>
      cases v with
      | tuple vs =>
        refine Sat.pure _ ?_
        intro o ho
        rw [objsL_map_imm] at ho; cases ho
      | _ => exact Sat.throwE _
    | tup xs => exact Sat.pure _ (by mem_tac)
    | _ => exact Sat.throwE _
  | proxy a b d =>
    simp only
    refine Sat.bind (Sat.prim hA _ rfl (by mem_tac)) (fun r => ?_)
    cases r with
    | imm v =>
      cases v with
      | tuple vs =>
        refine Sat.pure _ ?_
        intro o ho
        rw [objsL_map_imm] at ho; cases ho
      | _ => exact Sat.throwE _
    | tup xs => exact Sat.pure _ (by mem_tac)
    | _ => exact Sat.throwE _


theorem Sat.indexPV {c : Ctx} (hA : AwaitOK c) {need : List Nat} (x : PV) (i : Nat) (hn : ∀ o ∈ x.objs, o ∈ need) :
    Sat c need (indexPV x i) PV.objs := by
  unfold Handlers.indexPV
  cases x with
  | imm v =>
    simp only
    refine Sat.bind (Sat.liftE _ (Q := fun _ => []) (by simp)) (fun r => ?_)
    exact Sat.pure _ (by simp [PV.objs])
  | tup xs =>
    simp only
    cases h : xs[i]? with
    | none => exact Sat.throwE _
    | some r =>
      refine Sat.pure _ ?_
      intro o ho
      refine hn o ?_
      have hm : r ∈ xs := List.mem_of_getElem? h
      clear h hn
      induction xs with
      | nil => cases hm
      | cons y ys ih =>
        simp only [PV.objs, PV.objsL, List.mem_append]
        rcases List.mem_cons.mp hm with e | e
        · subst e; exact Or.inl ho
        · exact Or.inr (by simpa [PV.objs] using ih e)
  | obj o => exact Sat.prim hA _ rfl (by mem_tac)
  | proxy a b d => exact Sat.prim hA _ rfl (by mem_tac)

theorem Sat.hashKey {c : Ctx} (hA : AwaitOK c) {need : List Nat} (x : PV) (hn : ∀ o ∈ x.objs, o ∈ need) :
    Sat c need (hashKey x) (fun _ => []) := by
  unfold Handlers.hashKey
  cases x with
  | imm v => exact Sat.pure _ (by simp)
  | tup xs => exact Sat.bind (Sat.prim hA _ rfl (by mem_tac)) (fun _ => Sat.pure _ (by simp))
  | obj o => exact Sat.bind (Sat.prim hA _ rfl (by mem_tac)) (fun _ => Sat.pure _ (by simp))
  | proxy a b d => exact Sat.bind (Sat.prim hA _ rfl (by mem_tac)) (fun _ => Sat.pure _ (by simp))

theorem root_known (root : Nat) (log : List Ev) : root ∈ known root log := by simp [known]

theorem Sat.cleanup {c : Ctx} (hA : AwaitOK c) {need : List Nat} : Sat c need cleanup (fun _ => []) := by
  unfold Handlers.cleanup
  have h1 : Sat c need (Handlers.modify (fun st => { st with closed := true, log := st.log ++ [.cleaned] })) (fun _ => []) := by
    intro st fut hI hN
    exact ⟨(hI.push .cleaned rfl (by intro t ht; cases ht) (by intro k o h; cases h)).congr rfl rfl rfl, ⟨[.cleaned], rfl, rfl⟩,
      by intro a _ o ho; cases ho⟩
  refine Sat.bind h1 (fun _ => ?_)
  refine Sat.bind_getCtx ?_
  have h2 : Sat c (need ++ []) (Handlers.prim { kind := .cleanup, subj := .obj c.root }) PV.objs := by
    intro st fut hI hN
    exact Sat.prim hA (need := [c.root]) _ rfl (by mem_tac) st fut hI (by
      intro o ho; simp at ho; subst ho; exact root_known _ _)
  refine Sat.bind (Sat.attempt h2) (fun r => ?_)
  refine Sat.bind (Sat.modify _ (fun _ => rfl) (fun _ s hs => by cases hs) (fun _ p hp => by cases hp)) (fun _ => ?_)
  cases r with
  | error x => exact Sat.throwX x
  | ok v => exact Sat.pure _ (by simp)

theorem mem_tableSet {tbl : List Slot} {key : Val} {m : Int} {s : Slot} (hs : s ∈ tableSet tbl key m) :
    ∃ s' ∈ tbl, s'.o = s.o ∧ s'.key = s.key := by
  obtain ⟨s', hs', e⟩ := List.mem_map.mp hs
  refine ⟨s', hs', ?_⟩
  split at e <;> (subst e; exact ⟨rfl, rfl⟩)

theorem Sat.decref {c : Ctx} {need : List Nat} (key : Val) (n : Int) : Sat c need (decref key n) PV.objs := by
  unfold Handlers.decref
  refine Sat.bind_getSt (fun st => ?_)
  cases lookupSlot st.table key with
  | none => exact Sat.throwE _
  | some s =>
    simp only
    refine Sat.bind (Q1 := fun _ => []) ?_ (fun _ => Sat.pure _ (by simp [PV.objs]))
    refine Sat.modify _ (fun _ => rfl) (fun st' s' hs => ?_) (fun _ _ hp => hp)
    by_cases hlt : s.cnt < n
    · simp only [hlt, if_true] at hs; exact ⟨s', (List.mem_filter.mp hs).1, rfl, rfl⟩
    · simp only [hlt, if_false] at hs; exact mem_tableSet hs

/-! ### the handlers -/

section handlers
variable {c : Ctx} (hA : AwaitOK c)
include hA

omit hA in
theorem hPing_sat (as : List PV) : Sat c (PV.objsL as) (hPing as) PV.objs := by
  unfold hPing
  split
  · exact Sat.pure _ (by mem_tac)
  · exact Sat.throwE _

theorem hClose_sat (as : List PV) : Sat c (PV.objsL as) (hClose as) PV.objs := by
  unfold hClose
  split
  · exact Sat.bind (Sat.cleanup hA) (fun _ => Sat.pure _ (by simp [PV.objs]))
  · exact Sat.throwE _

omit hA in
theorem hGetroot_sat (as : List PV) : Sat c (PV.objsL as) (hGetroot as) PV.objs := by
  unfold hGetroot
  split
  · refine Sat.bind_getCtx ?_
    intro st fut hI hN
    refine ⟨hI, Ext.refl _, ?_⟩
    intro a ha o ho
    cases ha
    simp [PV.objs] at ho; subst ho; exact root_known _ _
  · exact Sat.throwE _

theorem hDelCore_sat {need : List Nat} (obj count : PV) (hn : ∀ o ∈ obj.objs ++ count.objs, o ∈ need) :
    Sat c need (hDelCore obj count) PV.objs := by
  unfold hDelCore
  split
  · split
    · exact Sat.throwE _
    · refine Sat.bind (Sat.prim hA _ rfl (by mem_tac)) (fun k => ?_)
      cases k with
      | imm key => exact Sat.decref _ _
      | _ => exact Sat.throwE _
  · exact Sat.throwE _

theorem hDel_sat (as : List PV) : Sat c (PV.objsL as) (hDel as) PV.objs := by
  unfold hDel
  split
  · exact hDelCore_sat hA _ _ (by mem_tac)
  · exact hDelCore_sat hA _ _ (by mem_tac)
  · exact Sat.throwE _

theorem hRepr_sat (as : List PV) : Sat c (PV.objsL as) (hRepr as) PV.objs := by
  unfold hRepr
  split
  · exact Sat.prim hA _ rfl (by mem_tac)
  · exact Sat.throwE _

theorem hStr_sat (as : List PV) : Sat c (PV.objsL as) (hStr as) PV.objs := by
  unfold hStr
  split
  · exact Sat.prim hA _ rfl (by mem_tac)
  · exact Sat.throwE _

theorem hHash_sat (as : List PV) : Sat c (PV.objsL as) (hHash as) PV.objs := by
  unfold hHash
  split
  · exact Sat.prim hA _ rfl (by mem_tac)
  · exact Sat.throwE _

theorem hDir_sat (as : List PV) : Sat c (PV.objsL as) (hDir as) PV.objs := by
  unfold hDir
  split
  · exact Sat.prim hA _ rfl (by mem_tac)
  · exact Sat.throwE _

theorem hCmpCore_sat {need : List Nat} (obj other op : PV) (hn : ∀ o ∈ obj.objs ++ other.objs, o ∈ need) :
    Sat c need (hCmpCore obj other op) PV.objs := by
  unfold hCmpCore
  refine Sat.bind (Sat.prim hA _ rfl (by mem_tac)) (fun ty => ?_)
  refine Sat.bind (Sat.prim hA _ rfl (by mem_tac)) (fun own => ?_)
  refine Sat.ite (fun _ => ?_) (fun _ => ?_)
  · refine Sat.bind (Sat.accessAttr hA _ _ _ _ (by mem_tac)) (fun f => ?_)
    exact Sat.prim hA _ rfl (by mem_tac)
  · refine Sat.bind (Sat.accessAttr hA _ _ _ _ (by mem_tac)) (fun f => ?_)
    exact Sat.prim hA _ rfl (by mem_tac)

theorem hCmp_sat (as : List PV) : Sat c (PV.objsL as) (hCmp as) PV.objs := by
  unfold hCmp
  split
  · exact hCmpCore_sat hA _ _ _ (by mem_tac)
  · exact hCmpCore_sat hA _ _ _ (by mem_tac)
  · exact Sat.throwE _

theorem callChecked_sat {need : List Nat} (o a kw : PV) (hn : ∀ x ∈ o.objs ++ a.objs ++ kw.objs, x ∈ need) :
    Sat c need (callChecked o a kw) PV.objs := by
  unfold callChecked
  exact Sat.ite (fun _ => Sat.prim hA _ rfl (by mem_tac)) (fun _ => Sat.throwE _)

theorem hCall_sat (as : List PV) : Sat c (PV.objsL as) (hCall as) PV.objs := by
  unfold hCall
  split
  · exact callChecked_sat hA _ _ _ (by mem_tac)
  · exact callChecked_sat hA _ _ _ (by mem_tac)
  · exact Sat.throwE _

theorem hGetattr_sat (as : List PV) : Sat c (PV.objsL as) (hGetattr as) PV.objs := by
  unfold hGetattr
  split
  · exact Sat.accessAttr hA _ _ _ _ (by mem_tac)
  · exact Sat.throwE _

theorem hDelattr_sat (as : List PV) : Sat c (PV.objsL as) (hDelattr as) PV.objs := by
  unfold hDelattr
  split
  · exact Sat.accessAttr hA _ _ _ _ (by mem_tac)
  · exact Sat.throwE _

theorem hSetattr_sat (as : List PV) : Sat c (PV.objsL as) (hSetattr as) PV.objs := by
  unfold hSetattr
  split
  · exact Sat.accessAttr hA _ _ _ _ (by mem_tac)
  · exact Sat.throwE _

theorem hCallattrCore_sat {need : List Nat} (o n a kw : PV) (hn : ∀ x ∈ o.objs ++ a.objs ++ kw.objs, x ∈ need) :
    Sat c need (hCallattrCore o n a kw) PV.objs := by
  unfold hCallattrCore
  refine Sat.bind (Sat.accessAttr hA _ _ _ _ (by mem_tac)) (fun f => ?_)
  exact callChecked_sat hA _ _ _ (by mem_tac)

theorem hCallattr_sat (as : List PV) : Sat c (PV.objsL as) (hCallattr as) PV.objs := by
  unfold hCallattr
  split
  · exact hCallattrCore_sat hA _ _ _ _ (by mem_tac)
  · exact hCallattrCore_sat hA _ _ _ _ (by mem_tac)
  · exact Sat.throwE _

theorem lookupPV_sat {need : List Nat} (x : PV) (hn : ∀ o ∈ x.objs, o ∈ need) :
    Sat c need (lookupPV x) (fun o => [o]) := by
  unfold lookupPV
  cases x with
  | imm v => exact Sat.tableGet _
  | tup xs => exact Sat.bind (Sat.hashKey hA _ hn) (fun _ => Sat.throwE _)
  | obj o => exact Sat.bind (Sat.hashKey hA _ hn) (fun _ => Sat.throwE _)
  | proxy a b d => exact Sat.bind (Sat.hashKey hA _ hn) (fun _ => Sat.throwE _)

theorem probeConn_sat {need : List Nat} (x : PV) (hn : ∀ o ∈ x.objs, o ∈ need) :
    Sat c need (probeConn x) (fun _ => []) := by
  unfold probeConn
  cases x with
  | imm v => exact Sat.pure _ (by simp)
  | tup xs => exact Sat.pure _ (by simp)
  | proxy a b d => exact Sat.pure _ (by simp)
  | obj o => exact Sat.bind (Sat.prim hA _ rfl (by mem_tac)) (fun _ => Sat.pure _ (by simp))

theorem hInspect_sat (as : List PV) : Sat c (PV.objsL as) (hInspect as) PV.objs := by
  unfold hInspect
  split
  · refine Sat.bind (lookupPV_sat hA _ (by mem_tac)) (fun o => ?_)
    refine Sat.bind (probeConn_sat hA _ (by mem_tac)) (fun ch => ?_)
    exact Sat.ite (fun _ => Sat.throwE _) (fun _ => Sat.prim hA _ rfl (by mem_tac))
  · exact Sat.throwE _

theorem truth_sat {need : List Nat} (x : PV) (hn : ∀ o ∈ x.objs, o ∈ need) : Sat c need (truth x) (fun _ => []) := by
  unfold truth
  cases x with
  | imm v => exact Sat.pure _ (by simp)
  | tup xs => exact Sat.pure _ (by simp)
  | proxy a b d => exact Sat.bind (Sat.prim hA _ rfl (by mem_tac)) (fun _ => Sat.pure _ (by simp))
  | obj o => exact Sat.bind (Sat.prim hA _ rfl (by mem_tac)) (fun _ => Sat.pure _ (by simp))

theorem ctxTriple_sat {need : List Nat} (t : Bool) (exc : PV) (hn : ∀ o ∈ exc.objs, o ∈ need) :
    Sat c need (ctxTriple t exc) PV.objsL := by
  unfold ctxTriple
  refine Sat.ite (fun _ => ?_) (fun _ => Sat.pure _ (by mem_tac))
  exact Sat.bind (Sat.prim hA _ rfl (by mem_tac)) (fun r => Sat.splat hA r (by mem_tac))

theorem hCtxexit_sat (as : List PV) : Sat c (PV.objsL as) (hCtxexit as) PV.objs := by
  unfold hCtxexit
  split
  · refine Sat.bind (truth_sat hA _ (by mem_tac)) (fun t => ?_)
    refine Sat.bind (ctxTriple_sat hA _ _ (by mem_tac)) (fun triple => ?_)
    refine Sat.bind (Sat.accessAttr hA _ _ _ _ (by mem_tac)) (fun f => ?_)
    exact Sat.prim hA _ rfl (by mem_tac)
  · exact Sat.throwE _

theorem inBuiltin_sat {need : List Nat} (x : PV) (hn : ∀ o ∈ x.objs, o ∈ need) :
    Sat c need (inBuiltin x) (fun _ => []) := by
  unfold inBuiltin
  split
  · exact Sat.pure _ (by simp)
  · exact Sat.pure _ (by simp)
  · exact Sat.bind (Sat.hashKey hA _ hn) (fun _ => Sat.pure _ (by simp))

theorem hPickle_sat (as : List PV) : Sat c (PV.objsL as) (hPickle as) PV.objs := by
  unfold hPickle
  split
  · refine Sat.bind_getCfg ?_
    refine Sat.ite (fun _ => Sat.throwE _) (fun hp => ?_)
    exact Sat.prim hA _ (by simpa [Touch.good] using hp) (by mem_tac)
  · exact Sat.throwE _

theorem hBuffiter_sat (as : List PV) : Sat c (PV.objsL as) (hBuffiter as) PV.objs := by
  unfold hBuffiter
  split
  · exact Sat.prim hA _ rfl (by mem_tac)
  · exact Sat.throwE _

theorem hOldslicing_sat (as : List PV) : Sat c (PV.objsL as) (hOldslicing as) PV.objs := by
  unfold hOldslicing
  split
  · refine Sat.tryExc ?_ ?_
    · refine Sat.bind (Sat.accessAttr hA _ _ _ _ (by mem_tac)) (fun f => ?_)
      refine Sat.bind (Sat.splat hA _ (by mem_tac)) (fun xs => ?_)
      exact Sat.prim hA _ rfl (by mem_tac)
    · refine Sat.bind (Sat.accessAttr hA _ _ _ _ (by mem_tac)) (fun g => ?_)
      refine Sat.bind (Sat.splat hA _ (by mem_tac)) (fun xs => ?_)
      refine Sat.prim hA _ rfl ?_
      intro o ho
      simp only [Touch.needs, PV.objsL, List.mem_append, List.append_nil] at ho ⊢
      rcases ho with h | h | h | h
      · exact Or.inl (Or.inr h)
      · exact Or.inl (Or.inl (Or.inr (Or.inr (Or.inr (Or.inl h)))))
      · split at h
        · simp [PV.objs] at h
        · exact Or.inl (Or.inl (Or.inr (Or.inr (Or.inr (Or.inr (Or.inl h))))))
      · exact Or.inr h
  · exact Sat.throwE _

theorem hInstancecheck_sat (as : List PV) : Sat c (PV.objsL as) (hInstancecheck as) PV.objs := by
  unfold hInstancecheck
  split
  · rename_i o pack
    refine Sat.bind (probeConn_sat hA _ (by mem_tac)) (fun pc => ?_)
    refine Sat.ite (fun _ => ?_) (fun _ => ?_)
    · split
      · exact Sat.requestTop hA _ _ (by mem_tac)
      · exact Sat.throwE _
    refine Sat.bind (Sat.indexPV hA _ _ (by mem_tac)) (fun e0 => ?_)
    refine Sat.bind (Sat.indexPV hA _ _ (by mem_tac)) (fun e1 => ?_)
    refine Sat.bind (Sat.indexPV hA _ _ (by mem_tac)) (fun e0' => ?_)
    refine Sat.bind (inBuiltin_sat hA _ (by mem_tac)) (fun b => ?_)
    refine Sat.ite (fun _ => Sat.prim hA _ rfl (by mem_tac)) (fun _ => ?_)
    refine Sat.bind (Sat.hashKey hA _ (by mem_tac)) (fun _ => ?_)
    refine Sat.bind (Sat.hashKey hA _ (by mem_tac)) (fun _ => ?_)
    refine Sat.bind_getSt (fun st => ?_)
    refine Sat.ite (fun _ => Sat.prim hA _ rfl ?_) (fun _ => Sat.pure _ (by simp [PV.objs]))
    intro x hx
    simp only [Touch.needs, PV.objsL, List.mem_append, List.append_nil] at hx
    rcases hx with h | h
    · simp [PV.objsL, h]
    · have := mkTuple_objs _ x h
      simp [PV.objsL, PV.objs] at this ⊢
      rcases this with h | h <;> simp [h]
  · exact Sat.throwE _

theorem runHandler_sat (name : String) (as : List PV) : Sat c (PV.objsL as) (runHandler name as) PV.objs := by
  unfold runHandler
  refine Sat.ite (fun _ => hPing_sat _) (fun _ => ?_)
  refine Sat.ite (fun _ => hClose_sat hA _) (fun _ => ?_)
  refine Sat.ite (fun _ => hGetroot_sat _) (fun _ => ?_)
  refine Sat.ite (fun _ => hGetattr_sat hA _) (fun _ => ?_)
  refine Sat.ite (fun _ => hDelattr_sat hA _) (fun _ => ?_)
  refine Sat.ite (fun _ => hSetattr_sat hA _) (fun _ => ?_)
  refine Sat.ite (fun _ => hCall_sat hA _) (fun _ => ?_)
  refine Sat.ite (fun _ => hCallattr_sat hA _) (fun _ => ?_)
  refine Sat.ite (fun _ => hRepr_sat hA _) (fun _ => ?_)
  refine Sat.ite (fun _ => hStr_sat hA _) (fun _ => ?_)
  refine Sat.ite (fun _ => hCmp_sat hA _) (fun _ => ?_)
  refine Sat.ite (fun _ => hHash_sat hA _) (fun _ => ?_)
  refine Sat.ite (fun _ => hInstancecheck_sat hA _) (fun _ => ?_)
  refine Sat.ite (fun _ => hDir_sat hA _) (fun _ => ?_)
  refine Sat.ite (fun _ => hPickle_sat hA _) (fun _ => ?_)
  refine Sat.ite (fun _ => hDel_sat hA _) (fun _ => ?_)
  refine Sat.ite (fun _ => hInspect_sat hA _) (fun _ => ?_)
  refine Sat.ite (fun _ => hBuffiter_sat hA _) (fun _ => ?_)
  refine Sat.ite (fun _ => hOldslicing_sat hA _) (fun _ => ?_)
  refine Sat.ite (fun _ => hCtxexit_sat hA _) (fun _ => ?_)
  exact Sat.throwE _

theorem handleRequest_sat {need : List Nat} (raw : Val) : Sat c need (handleRequest raw) PV.objs := by
  unfold handleRequest
  refine Sat.bind (Sat.liftE _ (Q := fun _ => []) (by simp)) (fun ha => ?_)
  refine Sat.bind (Sat.unboxTop hA _) (fun args => ?_)
  refine Sat.bind (Sat.liftE _ (Q := fun _ => []) (by simp)) (fun name => ?_)
  refine Sat.bind (Sat.splat hA _ (by mem_tac)) (fun xs => ?_)
  exact (runHandler_sat hA name xs).weaken (by mem_tac)

end handlers

/-- `e` is the one answer to the request numbered `seq`: a reply, an exception reply, or the abort record -/
def Ev.answers (seq : Val) : Ev → Prop
  | .reply s _ => s = seq
  | .exc s _ => s = seq
  | .aborted s _ => s = seq
  | _ => False

/-- from `st` the log grew by balanced activity and then exactly one answer to `seq` -/
def Answered (seq : Val) (st st' : St) : Prop :=
  ∃ l e, st'.log = st.log ++ l ++ [e] ∧ balL l = 0 ∧ evBal e = -1 ∧ e.answers seq

theorem Answered.one (seq : Val) (st : St) (e : Ev) (hb : evBal e = -1) (ha : e.answers seq) :
    Answered seq st { st with log := st.log ++ [e] } := ⟨[], e, by simp, rfl, hb, ha⟩

theorem Inv.pushNT {cfg : Config} {root : Nat} {st : St} (hI : Inv cfg root st) (e : Ev) (hg : e.good cfg = true)
    (hnt : ∀ t, e ≠ .touch t) (hnl : ∀ k o, e ≠ .lent k o := by intro k o h; cases h) :
    Inv cfg root { st with log := st.log ++ [e] } :=
  hI.push e hg (fun t ht => absurd ht (hnt t)) (fun k o h => absurd h (hnl k o))

/-- `m` keeps the invariants and ends with exactly one answer to `seq` after balanced activity -/
def Step (c : Ctx) (seq : Val) (need : List Nat) (m : M Unit) : Prop :=
  ∀ st fut, Inv c.cfg c.root st → (∀ o ∈ need, o ∈ known c.root st.log) →
    Inv c.cfg c.root (m c st fut).st ∧ Answered seq st (m c st fut).st

theorem sendExc_step (c : Ctx) (seq : Val) (x : Exc) (need : List Nat) : Step c seq need (sendExc seq x) := by
  intro st fut hI _
  unfold sendExc
  split
  · exact ⟨hI.pushNT _ rfl (by intro t h; cases h), Answered.one seq st _ rfl rfl⟩
  · exact ⟨hI.pushNT _ rfl (by intro t h; cases h), Answered.one seq st _ rfl rfl⟩

theorem abortWith_step (c : Ctx) (seq : Val) (x : Exc) (need : List Nat) : Step c seq need (abortWith seq x) := by
  intro st fut hI _
  exact ⟨hI.pushNT _ rfl (by intro t h; cases h), Answered.one seq st _ rfl rfl⟩

theorem Answered.after {seq : Val} {a b d : St} (h1 : Ext a b) (h2 : Answered seq b d) : Answered seq a d := by
  obtain ⟨l1, e1, b1⟩ := h1.ext
  obtain ⟨l2, e, e2, b2, b3, ha⟩ := h2
  exact ⟨l1 ++ l2, e, by simp [e2, e1, List.append_assoc], by simp [balL_append, b1, b2], b3, ha⟩

theorem Step.bind {α} {c : Ctx} {seq : Val} {need : List Nat} {m : M α} {f : α → M Unit} {Q : α → List Nat}
    (h1 : Sat c need m Q) (hne : ∀ st fut x, (m c st fut).r ≠ .error x) (h2 : ∀ a, Step c seq (need ++ Q a) (f a)) :
    Step c seq need (m >>= f) := by
  intro st fut hI hN
  obtain ⟨g1, g2, g3⟩ := h1 st fut hI hN
  have hx := hne st fut
  show Inv c.cfg c.root ((Bind.bind m f) c st fut).st ∧ _
  simp only [Bind.bind]
  cases hm : m c st fut with
  | mk r st1 fut1 =>
    rw [hm] at g1 g2 g3 hx
    cases r with
    | error x => exact absurd rfl (hx x)
    | ok a =>
      have hN2 : ∀ o ∈ need ++ Q a, o ∈ known c.root st1.log := by
        intro o ho
        rcases List.mem_append.mp ho with h | h
        · exact known_mono g2 (hN o h)
        · exact g3 a rfl o h
      obtain ⟨k1, k2⟩ := h2 a st1 fut1 g1 hN2
      exact ⟨k1, Answered.after g2 k2⟩

theorem modify_total (f : St → St) (c : Ctx) (st : St) (fut : List Wire) (x : Exc) :
    (Handlers.modify f c st fut).r ≠ .error x := by
  intro h; cases h

theorem unregister_total (added : List Val) (c : Ctx) (st : St) (fut : List Wire) (x : Exc) :
    (unregister added c st fut).r ≠ .error x := modify_total _ c st fut x

theorem sendReply_step (c : Ctx) (seq b : Val) (added : List Val) (need : List Nat) : Step c seq need (sendReply seq b added) := by
  intro st fut hI hN
  unfold sendReply
  split
  · exact Step.bind (Sat.unregister added) (unregister_total added c) (fun _ => abortWith_step c seq _ _) st fut hI hN
  · exact ⟨hI.pushNT _ rfl (by intro t h; cases h), Answered.one seq st _ rfl rfl⟩

theorem boxTop_total (v : PV) (c : Ctx) (st : St) (fut : List Wire) (x : Exc) : (boxTop v c st fut).r ≠ .error x := by
  intro h
  simp only [Handlers.boxTop, Handlers.boxCollect, Handlers.getCtx, Handlers.getSt, Handlers.modify, Handlers.attempt,
    Bind.bind, Pure.pure] at h
  cases h

theorem sendResult_step (c : Ctx) (hA : AwaitOK c) (seq : Val) (res : PV) (need : List Nat) (hk : ∀ o ∈ res.objs, o ∈ need) :
    Step c seq need (sendResult seq res) := by
  unfold sendResult
  refine Step.bind (Sat.boxTop hA res hk) (boxTop_total res c) (fun ra => ?_)
  obtain ⟨r, added⟩ := ra
  cases r with
  | error x =>
    simp only
    by_cases he : x.eof = true
    · simp only [he, if_true]
      exact Step.bind (Sat.unregister added) (unregister_total added c) (fun _ => abortWith_step c seq _ _)
    · simp only [he]
      by_cases hx : x.isException = true
      · simp only [hx, if_true]
        exact Step.bind (Sat.unregister added) (unregister_total added c) (fun _ => sendExc_step c seq _ _)
      · simp only [hx]
        exact abortWith_step c seq _ _
  | ok b =>
    simp only
    cases encodable b with
    | error e => exact Step.bind (Sat.unregister added) (unregister_total added c) (fun _ => sendExc_step c seq _ _)
    | ok u => exact sendReply_step c seq b added _

theorem answer_step (c : Ctx) (hA : AwaitOK c) (seq : Val) (r : Except Exc PV) (need : List Nat)
    (hk : ∀ v, r = .ok v → ∀ o ∈ v.objs, o ∈ need) : Step c seq need (answer seq r) := by
  intro st fut hI hN
  unfold answer
  show Inv c.cfg c.root ((Bind.bind getCfg _) c st fut).st ∧ _
  simp only [Bind.bind, Handlers.getCfg]
  cases r with
  | ok res => exact sendResult_step c hA seq res need (hk res rfl) st fut hI hN
  | error x =>
    simp only
    split
    · exact abortWith_step c seq x need st fut hI hN
    · exact sendExc_step c seq x need st fut hI hN

/-- **one request, one answer**: whatever `raw` is, `_dispatch_request` logs the request, then balanced activity (its
handler's touches, nested requests each with their own answer), then exactly one answer to `seq` -/
theorem dispatchRequest_step (c : Ctx) (hA : AwaitOK c) (seq raw : Val) (st : St) (fut : List Wire)
    (hI : Inv c.cfg c.root st) :
    Inv c.cfg c.root (dispatchRequest seq raw c st fut).st ∧
    ∃ l e, (dispatchRequest seq raw c st fut).st.log = st.log ++ [.request seq] ++ l ++ [e] ∧ balL l = 0 ∧
      evBal e = -1 ∧ e.answers seq := by
  have hI0 := hI.pushNT (.request seq) rfl (by intro t h; cases h)
  obtain ⟨h1, h2, h3⟩ := Sat.attempt (handleRequest_sat hA (need := []) raw) _ fut hI0 (by intro o ho; cases ho)
  unfold dispatchRequest
  simp only [Bind.bind, Handlers.push, Handlers.modify]
  cases hh : attempt (handleRequest raw) c { st with log := st.log ++ [.request seq] } fut with
  | mk r st1 fut1 =>
    rw [hh] at h1 h2 h3
    cases r with
    | error x =>
      exfalso
      simp only [Handlers.attempt] at hh
      cases hq : handleRequest raw c { st with log := st.log ++ [.request seq] } fut with
      | mk r' s' f' => rw [hq] at hh; cases hh
    | ok r =>
      simp only
      have hk : ∀ v, r = .ok v → ∀ o ∈ v.objs, o ∈ known c.root st1.log := by
        intro v hv o ho
        have := h3 r rfl o (by subst hv; exact ho)
        exact this
      -- the objects of the handler's result are known: use them as `need` through a list that is known
      obtain ⟨g1, l, e, e1, b1, b2, b3⟩ := answer_step c hA seq r (match r with | .ok v => v.objs | .error _ => [])
        (by intro v hv o ho; subst hv; exact ho) st1 fut1 h1 (by
          intro o ho
          cases r with
          | ok v => exact hk v rfl o ho
          | error x => cases ho)
      obtain ⟨l0, e0, b0⟩ := h2.ext
      refine ⟨g1, l0 ++ l, e, ?_, by simp [balL_append, b0, b1], b2, b3⟩
      rw [e1, e0]
      simp [List.append_assoc]

theorem Sat.dispatchRequest {c : Ctx} (hA : AwaitOK c) {need : List Nat} (seq raw : Val) :
    Sat c need (dispatchRequest seq raw) (fun _ => []) := by
  intro st fut hI _
  obtain ⟨h1, l, e, e1, b1, b2, _⟩ := dispatchRequest_step c hA seq raw st fut hI
  refine ⟨h1, ⟨[.request seq] ++ l ++ [e], by simp [e1, List.append_assoc], ?_⟩, by intro a _ o ho; cases ho⟩
  simp only [balL_append, balL, b1, b2]; rfl

theorem Sat.seqCallback {c : Ctx} {need : List Nat} (seq : Val) (a : Ans) (hn : ∀ o ∈ a.objs, o ∈ need) :
    Sat c need (seqCallback seq a) (fun _ => []) := by
  intro st fut hI hN
  unfold Handlers.seqCallback
  split
  · exact ⟨hI.pushNT _ rfl (by intro t h; cases h), ⟨[_], rfl, rfl⟩, by intro a _ o ho; cases ho⟩
  · split
    · exact ⟨(hI.pushNT (.dropped _) rfl (by intro t h; cases h)).congr rfl rfl rfl, ⟨[_], rfl, rfl⟩,
        by intro a _ o ho; cases ho⟩
    · rename_i k expired _ _
      have hI' := hI.pushNT (.delivered k) rfl (by intro t h; cases h)
      refine ⟨⟨hI'.good, hI'.just, hI'.tbl, ?_, hI'.lent, hI'.lentK⟩, ⟨[_], rfl, rfl⟩, by intro a _ o ho; cases ho⟩
      intro p hp o ho
      rcases List.mem_append.mp hp with h | h
      · exact hI'.res p h o ho
      · simp at h; subst h
        have := hN o (hn o ho)
        show o ∈ known c.root (st.log ++ [Ev.delivered k])
        rw [known_append]; exact Or.inl this


theorem Sat.importGate {c : Ctx} (hA : AwaitOK c) {need : List Nat} (modname : Val) :
    Sat c need (importGate modname) (fun _ => []) := by
  unfold Handlers.importGate
  refine Sat.bind_getCfg ?_
  refine Sat.ite (fun hi => ?_) (fun _ => Sat.pure _ (by simp))
  refine Sat.bind (Sat.prim hA _ (by simp [Touch.good, hi]) (by mem_tac)) (fun present => ?_)
  refine Sat.ite (fun _ => ?_) (fun _ => Sat.pure _ (by simp))
  refine Sat.bind (Sat.attempt (Sat.prim hA _ (by simp [Touch.good, hi]) (by mem_tac))) (fun r => ?_)
  cases r with
  | error x => exact Sat.ite (fun _ => Sat.pure _ (by simp)) (fun _ => Sat.throwX _)
  | ok v => exact Sat.pure _ (by simp)

theorem Sat.classGate {c : Ctx} (hA : AwaitOK c) {need : List Nat} (modname clsname : Val) :
    Sat c need (classGate modname clsname) PV.objs := by
  unfold Handlers.classGate
  refine Sat.bind_getCfg ?_
  refine Sat.ite (fun hi => ?_) (fun _ => ?_)
  · refine Sat.bind (Sat.prim hA _ (by simp [Touch.good, hi]) (by mem_tac)) (fun _ => ?_)
    exact Sat.pure _ (by simp [PV.objs])
  · exact Sat.ite (fun _ => Sat.prim hA _ rfl (by mem_tac)) (fun _ => Sat.pure _ (by simp [PV.objs]))

theorem Sat.loadExc {c : Ctx} (hA : AwaitOK c) {need : List Nat} (val : Val) : Sat c need (loadExc val) Ans.objs := by
  unfold Handlers.loadExc
  refine Sat.ite (fun _ => Sat.pure _ (by simp [Ans.objs])) (fun _ => ?_)
  split
  · exact Sat.pure _ (by simp [Ans.objs])
  · refine Sat.bind (Sat.liftE _ (Q := fun _ => []) (by simp)) (fun x4 => ?_)
    obtain ⟨head, args, attrs, tb⟩ := x4
    simp only
    refine Sat.bind (Sat.liftE _ (Q := fun _ => []) (by simp)) (fun x2 => ?_)
    obtain ⟨modname, clsname⟩ := x2
    simp only
    refine Sat.bind (Sat.importGate hA _) (fun _ => ?_)
    refine Sat.bind (Sat.classGate hA _ _) (fun cls => ?_)
    refine Sat.bind (Sat.prim hA _ rfl (by mem_tac)) (fun r => ?_)
    split
    · exact Sat.pure _ (by simp [Ans.objs])
    · exact Sat.throwE _

theorem Sat.dispatch {c : Ctx} (hA : AwaitOK c) {need : List Nat} (w : Wire) : Sat c need (dispatch w) (fun _ => []) := by
  unfold Handlers.dispatch
  cases w with
  | empty => exact Sat.pure _ (by simp)
  | garbage e => exact Sat.throwE _
  | val v =>
    simp only
    refine Sat.bind (Sat.liftE _ (Q := fun _ => []) (by simp)) (fun x => ?_)
    refine Sat.ite (fun _ => Sat.dispatchRequest hA _ _) (fun _ => ?_)
    refine Sat.ite (fun _ => ?_) (fun _ => ?_)
    · refine Sat.bind (Sat.attempt (Sat.unboxTop hA _)) (fun r => ?_)
      cases r with
      | ok obj => exact Sat.seqCallback _ _ (by mem_tac)
      | error x =>
        simp only [Handlers.deliverResponse]
        exact Sat.ite (fun _ => Sat.throwX _) (fun _ => Sat.seqCallback _ _ (by simp [Ans.objs]))
    refine Sat.ite (fun _ => ?_) (fun _ => Sat.throwE _)
    refine Sat.bind (Sat.attempt (Sat.loadExc hA _)) (fun r => ?_)
    cases r with
    | ok a => exact Sat.seqCallback _ _ (by mem_tac)
    | error x =>
      simp only [Handlers.deliverResponse]
      exact Sat.ite (fun _ => Sat.throwX _) (fun _ => Sat.seqCallback _ _ (by simp [Ans.objs]))

/-! ### waiting and serving -/

theorem takeResult_ok {cfg : Config} {root : Nat} {st st' : St} {seq : Nat} {a : Ans} (hI : Inv cfg root st)
    (h : takeResult st seq = some (a, st')) :
    Inv cfg root st' ∧ Ext st st' ∧ ∀ o ∈ a.objs, o ∈ known root st'.log := by
  unfold takeResult at h
  split at h
  · rename_i p hp
    cases h
    refine ⟨⟨hI.good, hI.just, hI.tbl, ?_, hI.lent, hI.lentK⟩, ⟨[], by simp, rfl⟩, ?_⟩
    · intro q hq o ho
      exact hI.res q (List.mem_filter.mp hq).1 o ho
    · intro o ho
      exact hI.res p (List.mem_of_find?_eq_some hp) o ho
  · cases h

theorem awaitF_ok (b : Ctx) : ∀ f, AwaitOK { b with await := awaitF b f } := by
  intro f
  induction f with
  | zero =>
    intro st seq fut hI
    exact ⟨hI, Ext.refl _, by intro o ho; cases ho⟩
  | succ f ih =>
    -- an inner induction over the messages consumed by this wait: by strong recursion on the remaining list length
    intro st seq fut hI
    show Inv b.cfg b.root (awaitF b (f + 1) st seq fut).2.1 ∧ Ext st (awaitF b (f + 1) st seq fut).2.1 ∧
      ∀ o ∈ (awaitF b (f + 1) st seq fut).1.objs, o ∈ known b.root (awaitF b (f + 1) st seq fut).2.1.log
    unfold awaitF
    cases htk : takeResult st seq with
    | some p =>
      obtain ⟨a, st'⟩ := p
      exact takeResult_ok hI htk
    | none =>
      simp only
      split
      · exact ⟨hI, Ext.refl _, by intro o ho; cases ho⟩
      · cases fut with
        | nil =>
          simp only
          exact ⟨(hI.pushNT (.expired seq) rfl (by intro t h; cases h)).congr rfl rfl rfl, ⟨[_], rfl, rfl⟩,
            by intro o ho; cases ho⟩
        | cons w rest =>
          simp only
          obtain ⟨h1, h2, _⟩ := Sat.dispatch (c := { b with await := awaitF b f }) ih (need := []) w st rest hI
            (by intro o ho; cases ho)
          cases hd : dispatch w { b with await := awaitF b f } st rest with
          | mk r st' fut' =>
            rw [hd] at h1 h2
            cases r with
            | error x => exact ⟨h1, h2, by intro o ho; cases ho⟩
            | ok u =>
              simp only
              obtain ⟨g1, g2, g3⟩ := ih st' seq fut' h1
              exact ⟨g1, h2.trans g2, g3⟩

theorem closeConn_ok (c : Ctx) (hA : AwaitOK c) (st : St) (hI : Inv c.cfg c.root st) :
    Inv c.cfg c.root (closeConn c st) ∧ Ext st (closeConn c st) := by
  unfold closeConn
  split
  · exact ⟨hI, Ext.refl _⟩
  · have hI1 : Inv c.cfg c.root { st with
        nextSeq := st.nextSeq + 1
        pending := st.pending ++ [(st.nextSeq, false)]
        log := st.log ++ [.outReq st.nextSeq Gen.Handlers.handleClose (.tuple [.int Gen.Handlers.labelValue, .tuple []])] } :=
      (hI.pushNT (.outReq st.nextSeq Gen.Handlers.handleClose (.tuple [.int Gen.Handlers.labelValue, .tuple []]))
        rfl (by intro t h; cases h)).congr rfl rfl rfl
    obtain ⟨g1, g2, _⟩ := Sat.cleanup hA (need := []) _ [] hI1 (by intro o ho; cases ho)
    exact ⟨g1, Ext.trans ⟨[_], rfl, rfl⟩ g2⟩

theorem serveBurst_ok (b : Ctx) : ∀ f st ws, Inv b.cfg b.root st →
    Inv b.cfg b.root (serveBurst b f st ws) ∧ Ext st (serveBurst b f st ws) := by
  intro f
  induction f with
  | zero => intro st ws hI; exact ⟨hI, Ext.refl _⟩
  | succ f ih =>
    intro st ws hI
    unfold serveBurst
    split
    · exact ⟨hI, Ext.refl _⟩
    · cases ws with
      | nil => exact ⟨hI, Ext.refl _⟩
      | cons w rest =>
        simp only
        have hA : AwaitOK (b.tie f) := awaitF_ok b f
        obtain ⟨h1, h2, _⟩ := Sat.dispatch hA (need := []) w st rest hI (by intro o ho; cases ho)
        cases hd : dispatch w (b.tie f) st rest with
        | mk r st' fut' =>
          rw [hd] at h1 h2
          cases r with
          | error x =>
            simp only
            have hI2 := h1.pushNT (.ended x.cls) rfl (by intro t h; cases h)
            obtain ⟨g1, g2⟩ := closeConn_ok (b.tie f) hA _ hI2
            exact ⟨g1, (h2.trans ⟨[_], rfl, rfl⟩).trans g2⟩
          | ok u =>
            simp only
            obtain ⟨g1, g2⟩ := ih st' fut' h1
            exact ⟨g1, h2.trans g2⟩

theorem run_ok (b : Ctx) (fuel : Nat) : ∀ bursts st, Inv b.cfg b.root st →
    Inv b.cfg b.root (run b fuel st bursts) ∧ Ext st (run b fuel st bursts) := by
  intro bursts
  induction bursts with
  | nil => intro st hI; exact ⟨hI, Ext.refl _⟩
  | cons ws rest ih =>
    intro st hI
    unfold run
    obtain ⟨h1, h2⟩ := serveBurst_ok b fuel st ws hI
    obtain ⟨g1, g2⟩ := ih _ h1
    exact ⟨g1, h2.trans g2⟩

theorem Inv.init (cfg : Config) (root : Nat) : Inv cfg root {} :=
  ⟨rfl, rfl, fun _ hs => absurd hs List.not_mem_nil, fun _ hp => absurd hp List.not_mem_nil,
   fun _ hs => absurd hs List.not_mem_nil, fun _ _ h => absurd h List.not_mem_nil⟩


/-- reading the justification invariant at one position of the log -/
theorem justifiedFrom_split (kn : List Nat) (pre post : List Ev) (t : Touch)
    (h : justifiedFrom kn (pre ++ .touch t :: post) = true) : ∀ o ∈ t.needs, o ∈ kn ++ pre.flatMap Ev.gives := by
  induction pre generalizing kn with
  | nil =>
    simp only [List.nil_append, justifiedFrom, Bool.and_eq_true, evJust, List.all_eq_true] at h
    intro o ho
    simpa using h.1 o ho
  | cons e es ih =>
    simp only [List.cons_append, justifiedFrom, Bool.and_eq_true] at h
    intro o ho
    have := ih _ h.2 o ho
    simp only [List.flatMap_cons, List.mem_append] at this ⊢
    rcases this with (h1 | h1) | h1
    · exact Or.inl h1
    · exact Or.inr (Or.inl h1)
    · exact Or.inr (Or.inr h1)

/-! ### nested packages: which objects a package can name -/

/-- run from the fixed state `st`, `m` changes nothing and can only return values satisfying `P` -/
def At {α} (c : Ctx) (st : St) (m : M α) (P : α → Prop) : Prop :=
  ∀ fut, (m c st fut).st = st ∧ (m c st fut).fut = fut ∧ ∀ a, (m c st fut).r = .ok a → P a

theorem At.pure {α} {c : Ctx} {st : St} {P : α → Prop} (a : α) (h : P a) : At c st (Pure.pure a : M α) P := by
  intro fut
  refine ⟨rfl, rfl, ?_⟩
  intro b hb
  have : (Except.ok a : Except Exc α) = .ok b := hb
  cases this; exact h

theorem At.throwE {α} {c : Ctx} {st : St} {P : α → Prop} (e : Err) : At c st (Handlers.throwE e : M α) P := by
  intro fut
  exact ⟨rfl, rfl, by intro b hb; cases hb⟩

theorem At.liftE {α} {c : Ctx} {st : St} {P : α → Prop} (r : Except Err α) (h : ∀ a, r = .ok a → P a) :
    At c st (Handlers.liftE r : M α) P := by
  cases r with
  | ok a => exact At.pure a (h a rfl)
  | error e => exact At.throwE e

theorem At.bind {α β} {c : Ctx} {st : St} {m : M α} {f : α → M β} {P1 : α → Prop} {P2 : β → Prop}
    (h1 : At c st m P1) (h2 : ∀ a, P1 a → At c st (f a) P2) : At c st (m >>= f) P2 := by
  intro fut
  simp only [Bind.bind]
  have := h1 fut
  cases hm : m c st fut with
  | mk r st1 fut1 =>
    rw [hm] at this
    obtain ⟨e1, e2, hp⟩ := this
    subst e1; subst e2
    cases r with
    | error x => exact ⟨rfl, rfl, by intro b hb; cases hb⟩
    | ok a => exact h2 a (hp a rfl) fut1

theorem At.ite {α} {c : Ctx} {st : St} {b : Bool} {m1 m2 : M α} {P : α → Prop}
    (h1 : At c st m1 P) (h2 : At c st m2 P) : At c st (if b then m1 else m2) P := by
  cases b <;> simpa

theorem At.inGenerator {α} {c : Ctx} {st : St} {m : M α} {P : α → Prop} (h : At c st m P) :
    At c st (inGenerator m) P := by
  intro fut
  have := h fut
  unfold Handlers.inGenerator
  cases hm : m c st fut with
  | mk r st1 fut1 =>
    rw [hm] at this
    cases r with
    | ok a => exact this
    | error x => exact ⟨this.1, this.2.1, by intro b hb; cases hb⟩

theorem At.mapM' {α β : Type} {c : Ctx} {st : St} (g : α → M β) (P : β → Prop) (xs : List α)
    (hg : ∀ x ∈ xs, At c st (g x) P) : At c st (mapM' g xs) (fun ys => ∀ y ∈ ys, P y) := by
  induction xs with
  | nil => simp only [Handlers.mapM']; exact At.pure _ (by intro y hy; cases hy)
  | cons x xs ih =>
    simp only [Handlers.mapM']
    refine At.bind (hg x (by simp)) (fun b hb => ?_)
    refine At.bind (ih (fun x' hx' => hg x' (by simp [hx']))) (fun bs hbs => ?_)
    refine At.pure _ ?_
    intro y hy
    rcases List.mem_cons.mp hy with h | h
    · rw [h]; exact hb
    · exact hbs y h

theorem At.tableGet {c : Ctx} {st : St} (key : Val) :
    At c st (tableGet key) (fun o => ∃ s ∈ st.table, s.o = o) := by
  intro fut
  unfold Handlers.tableGet
  cases h : lookupSlot st.table key with
  | none => exact ⟨rfl, rfl, by intro b hb; cases hb⟩
  | some s =>
    refine ⟨rfl, rfl, ?_⟩
    intro b hb
    have : (Except.ok s.o : Except Exc Nat) = .ok b := hb
    cases this
    exact ⟨s, List.mem_of_find?_eq_some h, rfl⟩

/-- **every object of a resolved package is an object of the table of the state it was resolved in** - at any tuple
depth, for any package whatsoever (and resolving changes nothing) -/
theorem resolve_table (c : Ctx) (st : St) : ∀ f pkg,
    At c st (resolve f pkg) (fun p => ∀ o ∈ p.objs, ∃ s ∈ st.table, s.o = o) := by
  intro f
  induction f with
  | zero => intro pkg; simp only [resolve]; exact At.throwE _
  | succ f ihf =>
    intro pkg
    simp only [resolve]
    refine At.bind (P1 := fun _ => True) (At.liftE _ (fun _ _ => trivial)) (fun lv _ => ?_)
    refine At.ite ?_ (At.ite ?_ (At.pure _ (by intro o ho; simp [Pkg.objs] at ho)))
    · refine At.bind (P1 := fun _ => True) (At.liftE _ (fun _ _ => trivial)) (fun items _ => ?_)
      refine At.bind (At.inGenerator (At.mapM' _ _ items (fun x _ => ihf x))) (fun xs hxs => ?_)
      refine At.pure _ ?_
      intro o ho
      simp only [Pkg.objs, pkgObjsL_eq_flatMap, List.mem_flatMap] at ho
      obtain ⟨x, hx, hox⟩ := ho
      exact hxs x hx o hox
    · refine At.bind (At.tableGet _) (fun o ho => ?_)
      refine At.pure _ ?_
      intro o' ho'
      simp [Pkg.objs] at ho'
      rw [ho']; exact ho

theorem Holds.pure {α} {c : Ctx} {P : α → Prop} (a : α) (h : P a) : Holds c (Pure.pure a : M α) P := by
  intro st fut b hb
  have : (Except.ok a : Except Exc α) = .ok b := hb
  cases this; exact h

theorem Holds.bindQ {α β} {c : Ctx} {m : M α} {f : α → M β} {P1 : α → Prop} {P2 : β → Prop}
    (h1 : Holds c m P1) (h2 : ∀ a, P1 a → Holds c (f a) P2) : Holds c (m >>= f) P2 := by
  intro st fut b hb
  simp only [Bind.bind] at hb
  have hp := h1 st fut
  cases hm : m c st fut with
  | mk r st1 fut1 =>
    rw [hm] at hb hp
    cases r with
    | error x => cases hb
    | ok a => exact h2 a (hp a rfl) st1 fut1 b hb

theorem Holds.inGenerator {α} {c : Ctx} {m : M α} {P : α → Prop} (h : Holds c m P) : Holds c (inGenerator m) P := by
  intro st fut b hb
  unfold Handlers.inGenerator at hb
  have := h st fut
  cases hm : m c st fut with
  | mk r st1 fut1 =>
    rw [hm] at hb this
    cases r with
    | ok a => exact this b hb
    | error x => cases hb

theorem Holds.mapM' {α β : Type} {c : Ctx} (g : α → M β) (R : α → β → Prop) (xs : List α)
    (hg : ∀ x ∈ xs, Holds c (g x) (R x)) : Holds c (mapM' g xs) (fun ys => ∀ y ∈ ys, ∃ x ∈ xs, R x y) := by
  induction xs with
  | nil => simp only [Handlers.mapM']; exact Holds.pure _ (by intro y hy; cases hy)
  | cons x xs ih =>
    simp only [Handlers.mapM']
    refine Holds.bindQ (hg x (by simp)) (fun b hb => ?_)
    refine Holds.bindQ (ih (fun x' hx' => hg x' (by simp [hx']))) (fun bs hbs => ?_)
    refine Holds.pure _ ?_
    intro y hy
    rcases List.mem_cons.mp hy with h | h
    · rw [h]; exact ⟨x, by simp, hb⟩
    · obtain ⟨x', hx', hr⟩ := hbs y h
      exact ⟨x', by simp [hx'], hr⟩

/-- **the second pass of `_unbox` adds no object**: every local object in the value it builds is an object of the
resolved package (proxies for the peer's objects are not local objects) -/
theorem unbox2_objs (c : Ctx) : ∀ f p, Holds c (unbox2 f p) (fun v => ∀ o ∈ v.objs, o ∈ p.objs) := by
  intro f
  induction f with
  | zero => intro p; simp only [unbox2]; exact Holds.throwE _
  | succ f ihf =>
    intro p
    cases p with
    | res o => simp only [unbox2]; exact Holds.pure _ (by simp [PV.objs, Pkg.objs])
    | node xs =>
      simp only [unbox2]
      refine Holds.bindQ (Holds.inGenerator (Holds.mapM' _ (fun x v => ∀ o ∈ v.objs, o ∈ x.objs) xs (fun x _ => ihf x)))
        (fun ys hys => ?_)
      refine Holds.pure _ ?_
      intro o ho
      have := mkTuple_objs ys o ho
      rw [objsL_eq_flatMap, List.mem_flatMap] at this
      obtain ⟨y, hy, hoy⟩ := this
      obtain ⟨x, hx, hr⟩ := hys y hy
      simp only [Pkg.objs, pkgObjsL_eq_flatMap, List.mem_flatMap]
      exact ⟨x, hx, hr o hoy⟩
    | leaf label value =>
      simp only [unbox2]
      refine Holds.ite (fun _ => Holds.pure _ (by simp [PV.objs])) (fun _ => ?_)
      refine Holds.ite (fun _ => ?_) (fun _ => Holds.throwE _)
      refine Holds.bind (fun v0 => Holds.bind (fun v1 => Holds.bind (fun v2 => Holds.bind (fun c' => Holds.bind (fun st => ?_)))))
      refine Holds.ite (fun _ => Holds.pure _ (by simp [PV.objs])) (fun _ => ?_)
      exact Holds.bind (fun _ => Holds.bind (fun _ => Holds.pure _ (by simp [PV.objs])))


theorem pyEqNat_int (a : Int) (b : Nat) : pyEqNat (.int a) b = (a == (b : Int)) := by
  simp [pyEqNat, pyEq, leafEq, numVal, Num.eq]

end Rpyc.Handlers
