import RpycModel.Proto.Calls
/-
The forwarding layer (C02): what an operation applied to a proxy puts on the wire, and what the peer's handler
applies to the target.

  rpyc/core/netref.py     `BaseNetref.__getattribute__/__getattr__/__setattr__/__delattr__/__dir__/__hash__/__cmp__/
                          __eq__..__ge__/__repr__/__str__/__exit__/__reduce_ex__/__instancecheck__`,
                          `_make_method` (four shapes: `__call__`, the slicers, `__array__`, every other name)
  rpyc/utils/helpers.py   `buffiter`
  rpyc/core/protocol.py   `_handle_getattr/_setattr/_delattr/_call/_callattr/_repr/_str/_cmp/_hash/_dir/_pickle/
                          _buffiter/_ctxexit/_instancecheck`, `_access_attr`

`wireOf : ProxyOp → Wire` is the proxy side, `serve` the handler side, `direct` the same operation applied to the
target itself.  All three are written over an ABSTRACT object semantics `ObjSem.apply : PrimOp → H → Res × H` (what
`getattr`, a call, `repr`, `type`, `islice` ... do to the target's heap); the theorems quantify over it.  That
an operator applied to an object is a call of the special method looked up on its type is CPython's data model and is
not modelled: it is tied to the code by the differential twin runs of the correspondence only.

Not here: marshalling of operands and results (C01/C03: `Rpyc.Calls.unbox_box`), `HANDLE_DEL/INSPECT/PING/CLOSE/
GETROOT` (connection level: C10, C03, C11), type-level `_rpyc_*attr` hooks (C06).
-/
namespace Rpyc.Forward
open Rpyc Rpyc.Calls

abbrev Res := Except Exc PyVal

def strVal (s : String) : PyVal := .imm (.str (nameOf s))
def pyNone : PyVal := .imm .none

/-! ### the proxy side -/

/-- the six rich comparisons and `__cmp__` -/
inductive CmpOp where
  | cmp | eq | ne | lt | gt | le | ge
  deriving DecidableEq, Repr

def CmpOp.method : CmpOp → String
  | .cmp => "__cmp__" | .eq => "__eq__" | .ne => "__ne__" | .lt => "__lt__"
  | .gt => "__gt__" | .le => "__le__" | .ge => "__ge__"

/-- an operation the application applies to a proxy -/
inductive ProxyOp where
  | getattr (name : Name)
  | setattr (name : Name) (value : PyVal)
  | delattr (name : Name)
  | dir
  | hash
  | cmp (op : CmpOp) (other : PyVal)
  | repr
  | str
  /-- `__exit__(exc, typ, tb)`: only the first argument travels -/
  | ctxExit (exc typ tb : PyVal)
  | reduceEx (proto : PyVal)
  | instancecheck (otherIdPack : PyVal)
  /-- the made method `__call__` -/
  | call (args : List PyVal) (kwargs : List (Name × PyVal))
  /-- every other made method: `proxy.name(*args, **kwargs)`, which is also what every operator, indexing,
  `len`, `iter`, `next`, `bool`, `in`, `with` (enter) does through the special method of that name -/
  | method (name : Name) (args : List PyVal) (kwargs : List (Name × PyVal))
  /-- the made `__array__` -/
  | array
  /-- one round of `helpers.buffiter` on an iterator proxy -/
  | buffiterFetch (count : PyVal)

/-- how `BaseNetref.__getattribute__` treats a name -/
inductive AttrClass where
  | klass | doc | deleted
  /-- a `LOCAL_ATTRS` name the netref object holds: `object.__getattribute__` answers -/
  | localHeld
  /-- a `LOCAL_ATTRS` name the netref object does not hold (`__dict__`: it has slots; `__methods__`, `__metaclass__`,
  `__getattr__`): `object.__getattribute__` raises AttributeError and the remote object is asked, once -/
  | localMissing
  | callable | remote
  deriving DecidableEq, Repr

def localAttrs : List Name := Gen.Netref.localAttrs.map nameOf
def deletedAttrs : List Name := Gen.Netref.deletedAttrs.map nameOf

/-- the slots of a netref object (`BaseNetref.__slots__`; the classes `class_factory` builds add none) -/
def netrefSlots : List Name := ["____conn__", "____id_pack__", "__weakref__", "____refcount__"].map nameOf

/-- names every netref answers through `object`, its type, or the class attributes every class body has -/
def objectNames : List Name :=
  ["__class__", "__delattr__", "__dir__", "__doc__", "__eq__", "__ge__", "__getattribute__", "__gt__", "__hash__",
   "__init__", "__le__", "__lt__", "__module__", "__ne__", "__new__", "__reduce__", "__reduce_ex__", "__repr__",
   "__setattr__", "__slots__", "__str__"].map nameOf

/-- does `object.__getattribute__(netref, n)` find the name: a slot, a method `BaseNetref` defines itself (the generated
list), or one of `object`'s.  (`class_factory` never adds a `LOCAL_ATTRS` name to a netref class, so this is the same
for every proxy.) -/
def netrefHolds (n : Name) : Bool :=
  netrefSlots.contains n || (Gen.Netref.baseMethods.map nameOf).contains n || objectNames.contains n

/-- `__getattribute__`'s branches, in order -/
def attrClass (n : Name) : AttrClass :=
  if localAttrs.contains n then
    if n = nameOf "__class__" then .klass
    else if n = nameOf "__doc__" then .doc
    else if deletedAttrs.contains n then .deleted
    else if netrefHolds n then .localHeld
    else .localMissing
  else if n = nameOf "__call__" ∨ n = nameOf "__array__" then .callable
  else .remote

/-- what stays on the proxy's side -/
inductive LocalKind where
  /-- the `__class__` descriptor of the netref class (`NetrefClass`) -/
  | classDescriptor
  /-- `raise AttributeError()` for a name in `DELETED_ATTRS` -/
  | attributeError
  /-- `object.__getattribute__/__setattr__/__delattr__` on the netref object itself -/
  | objectAttr
  deriving DecidableEq, Repr

/-- what an operation on a proxy does: nothing on the wire, or `syncreq(self, handler, *args)` (the proxy itself is
the first argument of the request; `args` are the others) -/
inductive Wire where
  | local_ (k : LocalKind)
  | request (handler : Nat) (args : List PyVal)


/-- the proxy side, method by method -/
def wireOf : ProxyOp → Wire
  | .getattr n =>
    match attrClass n with
    | .klass => .local_ .classDescriptor
    | .deleted => .local_ .attributeError
    | .localHeld => .local_ .objectAttr
    | .localMissing => .request Gen.Netref.handleGetattr [.imm (.str n)]
    | .callable => .local_ .objectAttr
    | .doc => .request Gen.Netref.handleGetattr [.imm (.str n)]
    | .remote => .request Gen.Netref.handleGetattr [.imm (.str n)]
  | .setattr n v =>
    if localAttrs.contains n then .local_ .objectAttr else .request Gen.Netref.handleSetattr [.imm (.str n), v]
  | .delattr n =>
    if localAttrs.contains n then .local_ .objectAttr else .request Gen.Netref.handleDelattr [.imm (.str n)]
  | .dir => .request Gen.Netref.handleDir []
  | .hash => .request Gen.Netref.handleHash []
  | .cmp op other => .request Gen.Netref.handleCmp [other, strVal op.method]
  | .repr => .request Gen.Netref.handleRepr []
  | .str => .request Gen.Netref.handleStr []
  | .ctxExit exc _ _ => .request Gen.Netref.handleCtxexit [exc]
  | .reduceEx proto => .request Gen.Netref.handlePickle [proto]
  | .instancecheck other => .request Gen.Netref.handleInstancecheck [other]
  | .call args kwargs => .request Gen.Netref.handleCall [mkTup args, kwTuple kwargs]
  | .method n args kwargs => .request Gen.Netref.handleCallattr [.imm (.str n), mkTup args, kwTuple kwargs]
  | .array => .request Gen.Netref.handlePickle [.imm (.int (-1))]
  | .buffiterFetch count => .request Gen.Netref.handleBuffiter [count]

/-! ### the abstract object semantics -/

/-- what Python itself does to objects on the target's side -/
inductive PrimOp where
  | getattr (obj : PyVal) (name : Name)
  | setattr (obj : PyVal) (name : Name) (value : PyVal)
  | delattr (obj : PyVal) (name : Name)
  | call (f : PyVal) (args : List PyVal) (kwargs : List (Name × PyVal))
  | repr (obj : PyVal)
  | str (obj : PyVal)
  | hash (obj : PyVal)
  /-- `tuple(dir(obj))` -/
  | dir (obj : PyVal)
  /-- `type(obj)` -/
  | typeOf (obj : PyVal)
  /-- `tuple(itertools.islice(obj, count))` -/
  | islice (obj : PyVal) (count : PyVal)
  /-- `bytes(pickle.dumps(obj, proto))` -/
  | pickle (obj : PyVal) (proto : PyVal)
  /-- `try: raise exc / except Exception: sys.exc_info()` as the triple `(type, value, traceback)` -/
  | raiseCatch (exc : PyVal)
  /-- `bool(obj)` of an object (for an immutable value the model computes it: `falsyVal`) -/
  | truth (obj : PyVal)
  /-- `_handle_instancecheck`'s cache lookup and `isinstance` -/
  | instancecheck (obj : PyVal) (other : PyVal)

structure ObjSem (H : Type) where
  apply : PrimOp → H → Res × H

/-- run a primitive, then continue with its value; an exception ends the operation -/
def ObjSem.bind {H : Type} (S : ObjSem H) (p : PrimOp) (k : PyVal → H → Res × H) (h : H) : Res × H :=
  match S.apply p h with
  | (.ok v, h') => k v h'
  | (.error e, h') => (.error e, h')

/-! ### the handler side -/

inductive Perm where
  | get | set | del
  deriving DecidableEq, Repr

/-- `_check_attr` (and the `hasattr` facts it consults) as a function of permission kind, object and name: the
name to use, or the AttributeError.  The concrete function is `checkAttr` below; the theorems quantify over it. -/
abbrev Policy := Perm → PyVal → Name → Except Exc Name

def typeErrorExc : Exc := ⟨typeErrorName, []⟩

/-- `_access_attr`'s treatment of the name argument: text as it is, bytes decoded as UTF-8, anything else TypeError -/
def nameOfVal : PyVal → Except Exc Name
  | .imm (.str n) => .ok n
  | .imm (.bytes b) => match utf8Dec false b with
    | some n => .ok n
    | none => .error ⟨nameOf "UnicodeDecodeError", []⟩
  | _ => .error typeErrorExc

/-- `_access_attr(obj, name, args, overrider, param, default)` for a type without `_rpyc_*attr` hooks: check the
name's type, ask the policy, then run the accessor on the name the policy returned -/
def accessAttr {H : Type} (pol : Policy) (perm : Perm) (obj : PyVal) (name : PyVal)
    (k : Name → H → Res × H) (h : H) : Res × H :=
  match nameOfVal name with
  | .error e => (.error e, h)
  | .ok n => match pol perm obj n with
    | .error e => (.error e, h)
    | .ok n' => k n' h


/-- `_handle_getattr` -/
def hGetattr {H : Type} (S : ObjSem H) (pol : Policy) (obj name : PyVal) : H → Res × H :=
  accessAttr pol .get obj name (fun n => S.apply (.getattr obj n))

/-- `_handle_call`: `obj(*args, **dict(kwargs))` -/
def hCall {H : Type} (S : ObjSem H) (obj a kw : PyVal) (h : H) : Res × H :=
  match itemsOf a with
  | .error e => (.error (ofErr e), h)
  | .ok args => match dictOf kw with
    | .error e => (.error (ofErr e), h)
    | .ok kwargs => S.apply (.call obj args kwargs) h

/-- continue with the value of a step that is itself a composite -/
def andThen {H : Type} (step : H → Res × H) (k : PyVal → H → Res × H) (h : H) : Res × H :=
  match step h with
  | (.ok v, h') => k v h'
  | (.error e, h') => (.error e, h')

/-- Python truthiness of an immutable value: `None`, `False`, zero of any numeric type, empty text / bytes / tuple /
frozenset are falsy (`NotImplemented`, `Ellipsis`, every slice are truthy) -/
def falsyVal : Val → Bool
  | .none => true
  | .bool b => !b
  | .int i => i == 0
  | .float bits => bits % 2 ^ 63 == 0
  | .complex re im => re % 2 ^ 63 == 0 && im % 2 ^ 63 == 0
  | .bytes b => b.isEmpty
  | .str cps => cps.isEmpty
  | .tuple xs => xs.isEmpty
  | .fset xs => xs.isEmpty
  | _ => false

/-- the `else:` branch of `_handle_ctxexit`: `typ = tb = None; obj.__exit__(exc, typ, tb)` -/
def exitPlain {H : Type} (S : ObjSem H) (pol : Policy) (obj exc : PyVal) : H → Res × H :=
  andThen (hGetattr S pol obj (strVal "__exit__")) (fun f => S.apply (.call f [exc, pyNone, pyNone] []))

/-- the `if exc:` branch: `try: raise exc / except Exception: exc, typ, tb = sys.exc_info()`, then `__exit__` with those -/
def exitRaised {H : Type} (S : ObjSem H) (pol : Policy) (obj exc : PyVal) : H → Res × H :=
  S.bind (.raiseCatch exc) (fun info =>
    match itemsOf info with
    | .ok [t, v, tb] =>
      andThen (hGetattr S pol obj (strVal "__exit__")) (fun f => S.apply (.call f [t, v, tb] []))
    | _ => fun h => (.error typeErrorExc, h))

/-- `_handle_ctxexit`: `if exc:` is Python truthiness — computed for an immutable value, asked of the object otherwise
(for a proxy of a caller-side object that is a round trip back to the caller) -/
def hCtxexit {H : Type} (S : ObjSem H) (pol : Policy) (obj exc : PyVal) : H → Res × H :=
  match exc with
  | .imm v => if falsyVal v then exitPlain S pol obj exc else exitRaised S pol obj exc
  | .tup _ => exitRaised S pol obj exc          -- a tuple holding an object is not empty
  | .ref _ _ =>
    S.bind (.truth exc) (fun t =>
      match t with
      | .imm (.bool false) => exitPlain S pol obj exc
      | _ => exitRaised S pol obj exc)

/-- `self._HANDLERS[handler](self, *args)` for the handlers that operate on objects; `allowPickle` is the
configuration switch `_handle_pickle` consults -/
def serve {H : Type} (S : ObjSem H) (pol : Policy) (allowPickle : Bool) (handler : Nat) (args : List PyVal) :
    H → Res × H :=
  match Gen.Netref.handlerTable.lookup handler with
  | none => fun h => (.error ⟨keyErrorName, []⟩, h)
  | some m =>
    if m = "_handle_getattr" then
      match args with
      | [obj, name] => hGetattr S pol obj name
      | _ => fun h => (.error typeErrorExc, h)
    else if m = "_handle_setattr" then
      match args with
      | [obj, name, value] => accessAttr pol .set obj name (fun n => S.apply (.setattr obj n value))
      | _ => fun h => (.error typeErrorExc, h)
    else if m = "_handle_delattr" then
      match args with
      | [obj, name] => accessAttr pol .del obj name (fun n => S.apply (.delattr obj n))
      | _ => fun h => (.error typeErrorExc, h)
    else if m = "_handle_call" then
      match args with
      | [obj, a, kw] => hCall S obj a kw
      | [obj, a] => hCall S obj a (.imm (.tuple []))
      | _ => fun h => (.error typeErrorExc, h)
    else if m = "_handle_callattr" then
      match args with
      | [obj, name, a, kw] => andThen (hGetattr S pol obj name) (fun f => hCall S f a kw)
      | [obj, name, a] => andThen (hGetattr S pol obj name) (fun f => hCall S f a (.imm (.tuple [])))
      | _ => fun h => (.error typeErrorExc, h)
    else if m = "_handle_repr" then
      match args with
      | [obj] => S.apply (.repr obj)
      | _ => fun h => (.error typeErrorExc, h)
    else if m = "_handle_str" then
      match args with
      | [obj] => S.apply (.str obj)
      | _ => fun h => (.error typeErrorExc, h)
    else if m = "_handle_hash" then
      match args with
      | [obj] => S.apply (.hash obj)
      | _ => fun h => (.error typeErrorExc, h)
    else if m = "_handle_dir" then
      match args with
      | [obj] => S.apply (.dir obj)
      | _ => fun h => (.error typeErrorExc, h)
    else if m = "_handle_cmp" then
      -- `self._access_attr(type(obj), op, (), "_rpyc_getattr", "allow_getattr", getattr)(obj, other)`
      match args with
      | [obj, other, op] =>
        S.bind (.typeOf obj) (fun t => andThen (hGetattr S pol t op) (fun f => S.apply (.call f [obj, other] [])))
      | [obj, other] =>
        S.bind (.typeOf obj) (fun t =>
          andThen (hGetattr S pol t (strVal "__cmp__")) (fun f => S.apply (.call f [obj, other] [])))
      | _ => fun h => (.error typeErrorExc, h)
    else if m = "_handle_pickle" then
      match args with
      | [obj, proto] =>
        if allowPickle then S.apply (.pickle obj proto) else fun h => (.error ⟨nameOf "ValueError", []⟩, h)
      | _ => fun h => (.error typeErrorExc, h)
    else if m = "_handle_buffiter" then
      match args with
      | [obj, count] => S.apply (.islice obj count)
      | _ => fun h => (.error typeErrorExc, h)
    else if m = "_handle_ctxexit" then
      match args with
      | [obj, exc] => hCtxexit S pol obj exc
      | _ => fun h => (.error typeErrorExc, h)
    else if m = "_handle_instancecheck" then
      match args with
      | [obj, other] => S.apply (.instancecheck obj other)
      | _ => fun h => (.error typeErrorExc, h)
    else fun h => (.error (ofErr .notModelled), h)

/-! ### the same operation applied to the target itself -/

/-- what the operation is when the application holds the target and not a proxy of it -/
def direct {H : Type} (S : ObjSem H) (allowPickle : Bool) (target : PyVal) : ProxyOp → H → Res × H
  | .getattr n => S.apply (.getattr target n)
  | .setattr n v => S.apply (.setattr target n v)
  | .delattr n => S.apply (.delattr target n)
  | .dir => S.apply (.dir target)
  | .hash => S.apply (.hash target)
  | .cmp op other =>
    S.bind (.typeOf target) (fun t =>
      S.bind (.getattr t (nameOf op.method)) (fun f => S.apply (.call f [target, other] [])))
  | .repr => S.apply (.repr target)
  | .str => S.apply (.str target)
  | .ctxExit exc typ tb =>
    -- `target.__exit__(exc, typ, tb)`: what `with target:` does when the block is left (all three `None` without an
    -- exception), or an explicit call
    S.bind (.getattr target (nameOf "__exit__")) (fun f => S.apply (.call f [exc, typ, tb] []))
  | .reduceEx proto =>
    if allowPickle then S.apply (.pickle target proto) else fun h => (.error ⟨nameOf "ValueError", []⟩, h)
  | .instancecheck other => S.apply (.instancecheck target other)
  | .call args kwargs => S.apply (.call target args kwargs)
  | .method n args kwargs => S.bind (.getattr target n) (fun f => S.apply (.call f args kwargs))
  | .array => if allowPickle then S.apply (.pickle target (.imm (.int (-1)))) else fun h => (.error ⟨nameOf "ValueError", []⟩, h)
  | .buffiterFetch count => S.apply (.islice target count)

/-- the attribute names an operation asks the policy about, with the permission kind and the object asked about
(`type(target)` for comparisons is not known before the heap is consulted: the policy hypothesis of the theorems
quantifies over the object) -/
def policyNames : ProxyOp → List (Perm × Name)
  | .getattr n => [(.get, n)]
  | .setattr n _ => [(.set, n)]
  | .delattr n => [(.del, n)]
  | .cmp op _ => [(.get, nameOf op.method)]
  | .ctxExit _ _ _ => [(.get, nameOf "__exit__")]
  | .method n _ _ => [(.get, n)]
  | _ => []

/-- keyword names of the operation are distinct (they come from a `**kwargs` dictionary) -/
def kwNodup : ProxyOp → Prop
  | .call _ kwargs => (kwargs.map (·.1)).Nodup
  | .method _ _ kwargs => (kwargs.map (·.1)).Nodup
  | _ => True

/-- operands for which the forwarded operation can be the direct one at all: `__exit__` forwards only its first
operand (`# can't pass type nor traceback`), and a truthy first operand is re-raised on the target's side to obtain a
fresh `(type, value, traceback)`: faithful exactly when a block is left WITHOUT an exception — first operand falsy,
the other two `None` -/
def inScope : ProxyOp → Prop
  | .ctxExit exc typ tb => (∃ v, exc = .imm v ∧ falsyVal v = true) ∧ typ = pyNone ∧ tb = pyNone
  | _ => True

/-- the operation is put on the wire (not served by the netref object itself) -/
def isForwarded (op : ProxyOp) : Prop := ∃ handler args, wireOf op = .request handler args

/-- one operation through the proxy: nothing happens to the target for an operation served locally (`none`) -/
def throughProxy {H : Type} (S : ObjSem H) (pol : Policy) (allowPickle : Bool) (target : PyVal) (op : ProxyOp) :
    Option (H → Res × H) :=
  match wireOf op with
  | .local_ _ => none
  | .request handler args => some (serve S pol allowPickle handler (target :: args))

/-- a finite sequence of operations through the proxy: the results the target produced, and its final heap
(operations served by the netref object itself neither touch the target nor return anything from it) -/
def runProxy {H : Type} (S : ObjSem H) (pol : Policy) (allowPickle : Bool) (target : PyVal) :
    List ProxyOp → H → List Res × H
  | [], h => ([], h)
  | op :: ops, h =>
    match throughProxy S pol allowPickle target op with
    | none => runProxy S pol allowPickle target ops h
    | some step => ((step h).1 :: (runProxy S pol allowPickle target ops (step h).2).1,
                    (runProxy S pol allowPickle target ops (step h).2).2)

/-- the same sequence applied to the target itself: EVERY operation is performed on the target, also those a proxy
would keep to itself (`p.__doc__ = x` changes the netref object, `t.__doc__ = x` the target: `sequence_equiv` therefore
speaks about forwarded operations only) -/
def runDirect {H : Type} (S : ObjSem H) (allowPickle : Bool) (target : PyVal) : List ProxyOp → H → List Res × H
  | [], h => ([], h)
  | op :: ops, h =>
    ((direct S allowPickle target op h).1 :: (runDirect S allowPickle target ops (direct S allowPickle target op h).2).1,
     (runDirect S allowPickle target ops (direct S allowPickle target op h).2).2)

/-! ### the attribute policy (`Connection._check_attr`), concretely -/

structure Config where
  allowSafe : Bool
  allowExposed : Bool
  allowPublic : Bool
  allowAll : Bool
  allowGet : Bool
  allowSet : Bool
  allowDel : Bool
  exposedPrefix : Name
  safeAttrs : List Name

def Config.perm (c : Config) : Perm → Bool
  | .get => c.allowGet
  | .set => c.allowSet
  | .del => c.allowDel

def attributeError : Exc := ⟨nameOf "AttributeError", []⟩

/-- `plain` of `_check_attr`: allowed without looking at the object -/
def Config.plain (c : Config) (name : Name) : Bool :=
  c.allowAll
    || (c.allowExposed && c.exposedPrefix.isPrefixOf name)     -- `name.startswith("")` is True
    || (c.allowSafe && c.safeAttrs.contains name)
    || (c.allowPublic && !(nameOf "_").isPrefixOf name)

/-- `prefix = allow_exposed_attrs and exposed_prefix` is truthy (an empty prefix is falsy) -/
def Config.prefixOn (c : Config) : Bool := c.allowExposed && !c.exposedPrefix.isEmpty

/-- `_check_attr(obj, name, perm)`; `has n` = `hasattr(obj, n)` -/
def checkAttr (c : Config) (has : Name → Bool) (perm : Perm) (name : Name) : Except Exc Name :=
  if !c.perm perm then .error attributeError
  else if c.plain name && (!(c.prefixOn && has (c.exposedPrefix ++ name)) || has name) then .ok name
  else if c.prefixOn && has (c.exposedPrefix ++ name) then .ok (c.exposedPrefix ++ name)
  else if c.plain name then .ok name          -- "chance for better traceback"
  else .error attributeError

def defaultConfig : Config :=
  { allowSafe := Gen.Netref.defaultAllowSafeAttrs, allowExposed := Gen.Netref.defaultAllowExposedAttrs,
    allowPublic := Gen.Netref.defaultAllowPublicAttrs, allowAll := Gen.Netref.defaultAllowAllAttrs,
    allowGet := Gen.Netref.defaultAllowGetattr, allowSet := Gen.Netref.defaultAllowSetattr,
    allowDel := Gen.Netref.defaultAllowDelattr, exposedPrefix := nameOf Gen.Netref.defaultExposedPrefix,
    safeAttrs := Gen.Netref.safeAttrs.map nameOf }

/-- classic mode: the configuration of a connection established through the live `SlaveService` (generated: every
switch as observed on that connection).  Every name passes, and the `exposed_` prefix is OFF -/
def classicConfig : Config :=
  { defaultConfig with
    allowSafe := Gen.Netref.classicAllowSafeAttrs, allowExposed := Gen.Netref.classicAllowExposedAttrs,
    allowPublic := Gen.Netref.classicAllowPublicAttrs, allowAll := Gen.Netref.classicAllowAllAttrs,
    allowGet := Gen.Netref.classicAllowGetattr, allowSet := Gen.Netref.classicAllowSetattr,
    allowDel := Gen.Netref.classicAllowDelattr }

/-- NOT a mode of rpyc's: every name allowed with the `exposed_` prefix left ON (hand-chosen, used by the harness to
exercise the prefix logic where nothing is refused) -/
def allAttrsConfig : Config :=
  { defaultConfig with allowAll := true, allowPublic := true, allowSet := true, allowDel := true }

/-- public-attribute mode: public names may be read, written and deleted -/
def publicConfig : Config :=
  { defaultConfig with allowPublic := true, allowSet := true, allowDel := true }

/-! ### buffered iteration (`helpers.buffiter`) -/

/-- a finite iterator on the target's side: the items it still yields, then `StopIteration` (`none`) or the
exception it raises -/
structure Iter where
  items : List PyVal
  term : Option Exc

/-- `tuple(itertools.islice(it, count))`: up to `count` items; if the iterator raises before that, the request
raises (what it had produced in this round is lost) and the iterator is finished -/
def fetch (count : Nat) (it : Iter) : Except Exc (List PyVal) × Iter :=
  if count ≤ it.items.length then (.ok (it.items.take count), { it with items := it.items.drop count })
  else match it.term with
    | none => (.ok it.items, ⟨[], none⟩)
    | some e => (.error e, ⟨[], none⟩)

/-- plain iteration through `__next__`: every item, then how it ended -/
def plainIter (it : Iter) : List PyVal × Option Exc := (it.items, it.term)

/-- the loop of `buffiter`: fetch `count`, grow `count` to `min(count * factor, max_chunk)`, stop at an empty chunk -/
def buffLoop : Nat → Nat → Nat → Nat → Iter → List PyVal → List PyVal × Option Exc
  | 0, _, _, _, _, acc => (acc, some (ofErr .recursionError))
  | fuel+1, count, maxChunk, factor, it, acc =>
    match fetch count it with
    | (.error e, _) => (acc, some e)
    | (.ok [], _) => (acc, none)
    | (.ok (x :: xs), it') => buffLoop fuel (min (count * factor) maxChunk) maxChunk factor it' (acc ++ (x :: xs))

def valueError : Exc := ⟨nameOf "ValueError", []⟩

/-- `buffiter(obj, chunk, max_chunk, factor)` with integer parameters: `ValueError` for `factor < 1`, for
`chunk < 1` and for `max_chunk < 1`; otherwise the items it yields and how it ended -/
def buffiter (chunk maxChunk factor : Int) (it : Iter) : Except Exc (List PyVal × Option Exc) :=
  if factor < 1 then .error valueError
  else if chunk < 1 ∨ maxChunk < 1 then .error valueError
  else .ok (buffLoop (it.items.length + 2) chunk.toNat maxChunk.toNat factor.toNat it [])

/-- the same loop without the guard on `chunk` / `max_chunk` (the code before its repair) -/
def buffiterUnguarded (chunk maxChunk factor : Int) (it : Iter) : Except Exc (List PyVal × Option Exc) :=
  if factor < 1 then .error valueError
  else .ok (buffLoop (it.items.length + 2) chunk.toNat maxChunk.toNat factor.toNat it [])

end Rpyc.Forward
