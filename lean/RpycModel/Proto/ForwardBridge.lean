import RpycModel.Proto.Forward
import RpycModel.Policy.Model
/-
Bridge between the two transcriptions of `Connection._check_attr`: the forwarding layer's own
(`Rpyc.Forward.checkAttr`, written self-contained for C02) and the policy layer's (`Rpyc.Policy.checkAttr`, C06).
They decide every name alike, and the two generated default configurations agree on what the decision reads.
(Not imported by Props/C02.lean, so that C02's check does not depend on the policy layer's files.)
-/
namespace Rpyc.Forward
open Rpyc Rpyc.Calls

def toPolicyOp : Perm → Policy.Op
  | .get => .get
  | .set => .set
  | .del => .del

/-- the same switches, prefix and safe list; the switches `_check_attr` does not read are taken from `base` -/
def toPolicyConfig (base : Policy.Config) (c : Config) : Policy.Config :=
  { base with allowSafe := c.allowSafe, allowExposed := c.allowExposed, allowPublic := c.allowPublic,
              allowAll := c.allowAll, allowGet := c.allowGet, allowSet := c.allowSet, allowDel := c.allowDel,
              exposedPrefix := c.exposedPrefix, safe := c.safeAttrs }

/-- both transcriptions return the same name, or both refuse -/
theorem checkAttr_eq_policy (base : Policy.Config) (c : Config) (has : Name → Bool) (perm : Perm) (name : Name) :
    (∀ n, checkAttr c has perm name = .ok n ↔ Policy.checkAttr (toPolicyConfig base c) has name (toPolicyOp perm) = .ok n)
    ∧ ((∃ e, checkAttr c has perm name = .error e) ↔
        Policy.checkAttr (toPolicyConfig base c) has name (toPolicyOp perm) = .error .attributeError) := by
  have hperm : (toPolicyConfig base c).perm (toPolicyOp perm) = c.perm perm := by cases perm <;> rfl
  have hplain : Policy.plainAllowed (toPolicyConfig base c) name = c.plain name := by
    simp [Policy.plainAllowed, Config.plain, toPolicyConfig, Policy.startsUnderscore, nameOf]
  have hexp : Policy.hasExposed (toPolicyConfig base c) has name = (c.prefixOn && has (c.exposedPrefix ++ name)) := by
    simp [Policy.hasExposed, Policy.prefixTruthy, Policy.twin, Config.prefixOn, toPolicyConfig]
  unfold checkAttr Policy.checkAttr
  rw [hperm, hplain, hexp]
  have htw : Policy.twin (toPolicyConfig base c) name = c.exposedPrefix ++ name := rfl
  rw [htw]
  cases c.perm perm <;> cases c.plain name <;> cases c.prefixOn <;> cases has (c.exposedPrefix ++ name) <;>
    cases has name <;> simp [attributeError]

/-- the generated defaults agree (two generators read the same dict) -/
theorem defaultConfig_eq_policy : toPolicyConfig Policy.defaultConfig defaultConfig = Policy.defaultConfig := by
  decide

end Rpyc.Forward
