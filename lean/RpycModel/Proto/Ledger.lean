import RpycModel.Gen.Proto
/-
L6 — the request/response ledger of one connection (C08; DESIGN.md Appendix C.3).

  rpyc/core/protocol.py  `Connection._get_seq_id`, `_async_request`, `async_request`, `sync_request`,
                         `_dispatch`, `_dispatch_request`, `_seq_request_callback`, `serve`
  rpyc/core/async_.py    `AsyncResult.wait` (the wait loop of a synchronous request), `AsyncResult.__call__`

Two sides `A`, `B`, each with its sequence counter (`_seqcounter`), its table of waiters
(`_request_callbacks`), the messages written towards it and not yet received (`inbox`), and a stack of
activation frames *above* its serve loop: `handling r` — `_dispatch_request(r, …)` is running the handler
of the peer's request `r`; `waiting s` — `AsyncResult.wait()` of the own request `s` is looping over
`serve()`.  An empty stack is the side's base level: `serve_all()` of a server, or the application of a
client between calls.

The connection is open throughout (how it ends is the lifecycle automaton, `Proto/Life.lean`); the only
way a side stops here is an exception other than EOFError leaving `_dispatch_request` (`propagate`); the
theorems show that the only handler outcome that leads there is the one the configuration asks for
(`raiseLocal`: SystemExit / KeyboardInterrupt with its `propagate_*_locally` switch on).

Ghost fields (`issued`, `executed`, `answered`, `abandoned`, `results`, `dropped`, `injected`, `wire`)
record history; no transition reads them.
-/
namespace Rpyc.Proto.Ledger

inductive Side where
  | A | B
  deriving DecidableEq, Repr, Inhabited

def Side.peer : Side → Side
  | .A => .B
  | .B => .A

/-- how the requester consumes the response: `sync_request` (issue and wait) or `async_request` -/
inductive Kind where
  | sync | async
  deriving DecidableEq, Repr

/-- `MSG_REPLY` / `MSG_EXCEPTION` -/
inductive RKind where
  | reply | exc
  deriving DecidableEq, Repr

/-- the wire code of a response kind (generated constants) -/
def RKind.code : RKind → Nat
  | .reply => Gen.Proto.msgReply
  | .exc => Gen.Proto.msgException

/-- what happens to one received request inside `_dispatch_request`:
`value` / `ref` — the handler returns something that is boxed by value / by reference;
`raise` — the handler (or a nested request it made) raises an `Exception`;
`raiseBase` — it raises a `BaseException` that is not an `Exception` (`asyncio.CancelledError`, `GeneratorExit`,
a user class deriving from `BaseException`, and `SystemExit` / `KeyboardInterrupt` while the matching
`propagate_*_locally` switch is off, the default): the bare `except:` catches it like any other;
`raiseLocal` — it raises `SystemExit` / `KeyboardInterrupt` and the connection is CONFIGURED to propagate
that exception locally (`propagate_SystemExit_locally` / `propagate_KeyboardInterrupt_locally` on): the
`except:` suite re-raises it, by configuration it is not answered;
`undecodableArgs` — `handler, args = raw_args`, `_unbox(args)` or the handler lookup raises (bad label,
unknown local id, unknown handler, wrong arity): the handler does not run;
`unencodableResult` — the handler returns a value that `_box`/`brine.dump` rejects while encoding
(int beyond the digit limit, tuple nested beyond the recursion limit);
`unserializableExc` — the handler raises an exception whose own payload cannot be built or encoded
(`repr()` of an argument raises, an int argument beyond the digit limit, …). -/
inductive Outcome where
  | value | ref | raise | raiseBase | raiseLocal | undecodableArgs | unencodableResult | unserializableExc
  deriving DecidableEq, Repr

inductive Msg where
  | req (seq : Nat)
  | resp (k : RKind) (seq : Nat) (val : Nat)
  deriving DecidableEq, Repr

inductive Frame where
  | handling (r : Nat)
  | waiting (s : Nat)
  deriving DecidableEq, Repr

/-! ### `_dispatch_request`, branch for branch -/

/-- what `_dispatch_request` does with the request once its `try:` suite is over -/
inductive Action where
  | respond (k : RKind)     -- exactly one `_send(MSG_REPLY | MSG_EXCEPTION, seq, …)`
  | propagate               -- an exception other than EOFError leaves `_dispatch_request`: nothing was sent
  deriving DecidableEq, Repr

/-- the `try:` suite (`handler, args = raw_args; args = self._unbox(args); res = self._HANDLERS[handler](self, *args)`) raises -/
def trySuiteRaises : Outcome → Bool
  | .raise | .raiseBase | .raiseLocal | .undecodableArgs | .unserializableExc => true
  | .value | .ref | .unencodableResult => false

/-- the handler itself was invoked (`undecodableArgs` fails before the call) -/
def handlerRan : Outcome → Bool
  | .undecodableArgs => false
  | _ => true

/-- `self._send(consts.MSG_REPLY, seq, self._box(res))` raises an exception other than EOFError -/
def replySendRaises : Outcome → Bool
  | .unencodableResult => true
  | _ => false

/-- `self._send(consts.MSG_EXCEPTION, seq, self._box_exc(t, v, tb))` raises an exception other than EOFError:
the exception's own payload cannot be built or encoded.  (For the exception `_dispatch_request`'s `else:`
branch catches, the payload is the encoder's own `ValueError`/`RecursionError`/`TypeError` with a text
argument, which `vinegar.dump` and `brine.dump` accept.) -/
def excPayloadRaises : Outcome → Bool
  | .unserializableExc => true
  | _ => false

/-- the fallback frame of `_send_exception` — two class-name strings, a constant note, an empty tuple and a
constant text — is always encodable (modelled, not verified: `brine.dump` of four short strings) -/
def plainPayloadRaises : Bool := false

/-- ```
def _send_exception(self, seq, t, v, tb):
    try:                self._send(consts.MSG_EXCEPTION, seq, self._box_exc(t, v, tb))
    except EOFError:    raise                      -- transport gone: lifecycle automaton, not here
    except Exception:   self._send(consts.MSG_EXCEPTION, seq, (name, (note,), (), "<traceback unavailable>"))
``` -/
def sendException (o : Outcome) : Action :=
  if excPayloadRaises o then
    (if plainPayloadRaises then .propagate else .respond .exc)
  else .respond .exc

/-- `if t is SystemExit and self._config["propagate_SystemExit_locally"]: raise` and the same for
`KeyboardInterrupt`: true only for the configured-local outcome -/
def reraisedLocally : Outcome → Bool
  | .raiseLocal => true
  | _ => false

/-- ```
try:    handler, args = raw_args; args = self._unbox(args); res = self._HANDLERS[handler](self, *args)
except: …                                   -- a BARE except: every BaseException lands here
        if t is SystemExit and self._config["propagate_SystemExit_locally"]: raise
        if t is KeyboardInterrupt and self._config["propagate_KeyboardInterrupt_locally"]: raise
        self._send_exception(seq, t, v, tb)
else:
    try:                self._send(consts.MSG_REPLY, seq, self._box(res))
    except EOFError:    raise                      -- transport gone: lifecycle automaton, not here
    except Exception:   …; self._send_exception(seq, t, v, tb)
``` -/
def dispatchRequest (o : Outcome) : Action :=
  if trySuiteRaises o then
    (if reraisedLocally o then .propagate else sendException o)
  else
    (if replySendRaises o then sendException o else .respond .reply)

/-! ### state -/

abbrev Entry := Nat × RKind × Nat        -- (seq, kind, payload)

structure SideSt where
  seq : Nat                              -- next value of `_seqcounter`
  callbacks : List (Nat × Kind)          -- `_request_callbacks`
  stack : List Frame                     -- innermost first
  inbox : List Msg                       -- written towards this side, not yet received
  issued : List Nat                      -- ghost: seqs of the REQUEST frames this side has sent
  executed : List Nat                    -- ghost: peer's requests whose handler was invoked here
  answered : List Entry                  -- ghost: responses produced here by `_dispatch_request`
  abandoned : List Nat                   -- ghost: requests being handled when an exception unwound this side
  results : List Entry                   -- ghost: what each of this side's waiters was given
  dropped : List Nat                     -- ghost: seqs of responses received with no waiter registered
  injected : List Entry                  -- ghost: hand-built response frames written towards this side
  undecodable : List Nat                 -- ghost: seqs of responses delivered as "could not be decoded here"
  dead : Bool                            -- an exception other than EOFError has left `serve()`
  deriving Repr

def SideSt.init (seq0 : Nat) : SideSt :=
  { seq := seq0, callbacks := [], stack := [], inbox := [], issued := [], executed := [], answered := [],
    abandoned := [], results := [], dropped := [], injected := [], undecodable := [], dead := false }

abbrev Wire := List (Side × Msg)

structure St where
  a : SideSt
  b : SideSt
  wire : Wire
  deriving Repr

def St.init (seqA seqB : Nat) : St := { a := .init seqA, b := .init seqB, wire := [] }

def St.get (s : St) : Side → SideSt
  | .A => s.a
  | .B => s.b

/-- the state in which side `x` is `me` and its peer is `pr` -/
def St.put (x : Side) (me pr : SideSt) (w : Wire) : St :=
  match x with
  | .A => { a := me, b := pr, wire := w }
  | .B => { a := pr, b := me, wire := w }

/-! ### the waiter table -/

/-- `self._request_callbacks[seq] = callback` -/
def register (s : Nat) (k : Kind) (cb : List (Nat × Kind)) : List (Nat × Kind) := cb ++ [(s, k)]

/-- `self._request_callbacks.pop(seq, None)` (the table part) -/
def unregister (s : Nat) (cb : List (Nat × Kind)) : List (Nat × Kind) := cb.filter (fun e => !(e.1 == s))

def registered (cb : List (Nat × Kind)) (s : Nat) : Bool := cb.any (fun e => e.1 == s)

/-- `AsyncResult.wait`: `while not self._is_ready …: self._conn.serve(…)` — a wait loop whose result has
arrived returns before anything else happens on its side; the loops below it do the same in turn -/
def unwind (cb : List (Nat × Kind)) : List Frame → List Frame
  | .waiting s :: rest => if registered cb s then .waiting s :: rest else unwind cb rest
  | st => st

/-- a `serve()` call can run at the top of the stack: the base loop or a wait loop (a running handler
does not receive) -/
def canServe : List Frame → Bool
  | .handling _ :: _ => false
  | _ => true

def handlingSeq : Frame → Option Nat
  | .handling r => some r
  | .waiting _ => none

/-! ### events -/

inductive Act where
  /-- `_async_request` succeeds (`sync`: followed by `AsyncResult.wait`) -/
  | issue (k : Kind)
  /-- `_async_request` whose `_send` raises before anything is written (arguments that cannot be encoded) -/
  | issueFail
  /-- `AsyncResult.wait()` / `.value` on an earlier asynchronous request -/
  | await (s : Nat)
  /-- `serve()`: receive the next message and `_dispatch` it -/
  | deliver
  /-- `serve()`: receive the next message, a RESPONSE whose payload this side cannot decode (`_unbox` /
  `_unbox_exc` raises: an exception class that cannot be rebuilt, a reference this side no longer knows) -/
  | deliverFail
  /-- the request being handled at the top of the stack leaves its `try:` suite with outcome `o` -/
  | finish (o : Outcome) (val : Nat)
  /-- a hand-built response frame is written into the stream towards this side -/
  | inject (k : RKind) (seq : Nat) (val : Nat)
  deriving DecidableEq, Repr

structure Ev where
  side : Side
  act : Act
  deriving DecidableEq, Repr

/-- one event at side `x` (`me`), its peer being `pr`; `none` = not enabled -/
def lstepWith (guarded : Bool) (x : Side) (me pr : SideSt) (w : Wire) : Act → Option (SideSt × SideSt × Wire)
  | .issue k =>
    if me.dead || pr.dead then none else
    some ({ me with seq := me.seq + 1,
                    callbacks := register me.seq k me.callbacks,
                    issued := me.issued ++ [me.seq],
                    stack := (match k with
                      | .sync => .waiting me.seq :: me.stack
                      | .async => me.stack) },
          { pr with inbox := pr.inbox ++ [.req me.seq] },
          w ++ [(x, .req me.seq)])
  | .issueFail =>
    if me.dead || pr.dead then none else
    -- seq = self._get_seq_id(); self._request_callbacks[seq] = callback; _send raises;
    -- self._request_callbacks.pop(seq, None); raise
    some ({ me with seq := me.seq + 1,
                    callbacks := unregister me.seq (register me.seq .async me.callbacks) }, pr, w)
  | .await s =>
    if me.dead || pr.dead then none else
    if registered me.callbacks s then some ({ me with stack := .waiting s :: me.stack }, pr, w)
    else some (me, pr, w)
  | .deliver =>
    if me.dead || pr.dead then none else
    if !canServe me.stack then none else
    match me.inbox with
    | [] => none
    | .req r :: rest =>
      -- `_dispatch`: `msg == MSG_REQUEST` → `_dispatch_request(seq, args)`
      some ({ me with inbox := rest, stack := .handling r :: me.stack }, pr, w)
    | .resp k s v :: rest =>
      -- `_dispatch`: `MSG_REPLY` / `MSG_EXCEPTION` → `_seq_request_callback`:
      -- `_callback = self._request_callbacks.pop(seq, None); if _callback is not None: _callback(is_exc, obj)`
      if registered me.callbacks s then
        some ({ me with inbox := rest,
                        callbacks := unregister s me.callbacks,
                        results := me.results ++ [(s, k, v)],
                        stack := unwind (unregister s me.callbacks) me.stack }, pr, w)
      else
        some ({ me with inbox := rest, dropped := me.dropped ++ [s] }, pr, w)
  | .deliverFail =>
    if me.dead || pr.dead then none else
    if !canServe me.stack then none else
    match me.inbox with
    | .resp k s v :: rest =>
      if guarded then
        -- `_deliver_response`: `try: obj = decode(args)  except Exception: is_exc, obj = True, <that error>`, then
        -- `_seq_request_callback` as for any response: the waiter under `s` gets its answer (as an error)
        if registered me.callbacks s then
          some ({ me with inbox := rest,
                          callbacks := unregister s me.callbacks,
                          results := me.results ++ [(s, k, v)],
                          undecodable := me.undecodable ++ [s],
                          stack := unwind (unregister s me.callbacks) me.stack }, pr, w)
        else
          some ({ me with inbox := rest, dropped := me.dropped ++ [s] }, pr, w)
      else
        -- without the guard: `obj = self._unbox(args)` raises before `_seq_request_callback` is reached; the
        -- message is consumed, nobody is given anything, the waiter stays registered, and the exception
        -- leaves `serve()` into whichever wait loop (or serve loop) was serving
        some ({ me with inbox := rest,
                        stack := (match me.stack with
                          | .waiting _ :: below => below
                          | st => st),
                        dead := me.stack.isEmpty }, pr, w)
    | _ => none
  | .finish o v =>
    if me.dead || pr.dead then none else
    match me.stack with
    | .handling r :: rest =>
      (match dispatchRequest o with
       | .respond k =>
         some ({ me with stack := unwind me.callbacks rest,
                         executed := if handlerRan o then me.executed ++ [r] else me.executed,
                         answered := me.answered ++ [(r, k, v)] },
               { pr with inbox := pr.inbox ++ [.resp k r v] },
               w ++ [(x, .resp k r v)])
       | .propagate =>
         -- the exception leaves `_dispatch` and `serve()`; every enclosing frame of this side is unwound
         -- with it (an enclosing handler fails with the same exception, whose payload fails the same way)
         some ({ me with stack := [],
                         executed := me.executed ++ [r],
                         abandoned := me.abandoned ++ me.stack.filterMap handlingSeq,
                         dead := true }, pr, w))
    | _ => none
  | .inject k s v =>
    if me.dead || pr.dead then none else
    some ({ me with inbox := me.inbox ++ [.resp k s v], injected := me.injected ++ [(s, k, v)] }, pr,
          w ++ [(x.peer, .resp k s v)])

/-- the machine of the code as it is: whether `_dispatch` guards the decoding of a response is measured on
the live class by the constants generator (`Gen.Proto.responseDecodeGuarded`) -/
def lstep : Side → SideSt → SideSt → Wire → Act → Option (SideSt × SideSt × Wire) :=
  lstepWith Gen.Proto.responseDecodeGuarded

/-- one event of the machine with / without the guard around the decoding of responses (for the theorems that compare
the two; `step` below is the one the measured constant selects) -/
def stepWith (guarded : Bool) (s : St) (e : Ev) : Option St :=
  match lstepWith guarded e.side (s.get e.side) (s.get e.side.peer) s.wire e.act with
  | some (me, pr, w) => some (St.put e.side me pr w)
  | none => none

def runWith (guarded : Bool) (s : St) : List Ev → Option St
  | [] => some s
  | e :: es => match stepWith guarded s e with
    | some s' => runWith guarded s' es
    | none => none

def step (s : St) (e : Ev) : Option St :=
  match lstep e.side (s.get e.side) (s.get e.side.peer) s.wire e.act with
  | some (me, pr, w) => some (St.put e.side me pr w)
  | none => none

/-- run a whole event sequence; `none` as soon as an event is not enabled -/
def run (s : St) : List Ev → Option St
  | [] => some s
  | e :: es => match step s e with
    | some s' => run s' es
    | none => none

/-- run as far as the events are enabled: the state reached and the number of events accepted -/
def runPrefix (s : St) (n : Nat) : List Ev → St × Nat
  | [] => (s, n)
  | e :: es => match step s e with
    | some s' => runPrefix s' (n + 1) es
    | none => (s, n)

end Rpyc.Proto.Ledger
