import RpycModel.Wire.Duplex
import RpycModel.Wire.Lemmas
/-
Lemmas about the duplex stream (one stream object, calls in any order, `poll`, failing `close()`).
-/
namespace Rpyc.Wire
open Rpyc

/-- `RecvRes` seen through the outcome alphabet of the duplex model -/
def liftRecv : RecvRes → XRes Bytes
  | .ok p => .ok p
  | .err .eofError => .eof
  | .err e => .other e
  | .starved => .starved

/-! ### `close()` and `poll()` never touch the byte streams -/

theorem dClose_streams (d : DState) :
    (dClose d).2.r.wire = d.r.wire ∧ (dClose d).2.r.script = d.r.script ∧
    (dClose d).2.w.chunks = d.w.chunks ∧ (dClose d).2.w.script = d.w.script ∧
    (dClose d).2.pscript = d.pscript ∧ (dClose d).2.pipe = d.pipe := by
  unfold dClose
  split
  · simp
  · cases d.fault <;> simp [DState.markClosed] <;> (try split) <;> simp

/-- a `close()` that raised leaves the stream NOT marked closed; one that did not leaves it closed -/
theorem dClose_closed (d : DState) :
    ((dClose d).1 = true → (dClose d).2.r.closed = false ∧ (dClose d).2.fault = .none ∧ (dClose d).2.inDead = true) ∧
    ((dClose d).1 = false → (dClose d).2.r.closed = true) := by
  unfold dClose
  by_cases hc : d.r.closed = true
  · simp [hc]
  · simp only [hc]
    cases hf : d.fault
    · simp [DState.markClosed]
    · by_cases hp : d.pipe = true
      · simp [hp]; simpa using hc
      · simp [hp]; simpa using hc
    · simp; simpa using hc

theorem pollLoop_outcome (ps : List PollEv) :
    (∃ b, (pollLoop ps).1 = .ok b) ∨ (pollLoop ps).1 = .starved ∨ (pollLoop ps).1 = .oserr := by
  induction ps with
  | nil => simp [pollLoop]
  | cons ev rest ih =>
    cases ev with
    | eintr => simpa [pollLoop] using ih
    | _ => simp [pollLoop]

/-- **`poll` is transparent.** Whatever it answers or raises, `Stream.poll` consumes nothing of the
incoming byte stream or of the receive script and sends nothing. -/
theorem dPoll_streams (d : DState) :
    (dPoll d).2.r.wire = d.r.wire ∧ (dPoll d).2.r.script = d.r.script ∧
    (dPoll d).2.w.chunks = d.w.chunks ∧ (dPoll d).2.w.script = d.w.script := by
  have hfe : ∀ (e : Nat) (d0 : DState), (dFilenoErr e d0).2.r.wire = d0.r.wire ∧
      (dFilenoErr e d0).2.r.script = d0.r.script ∧ (dFilenoErr e d0).2.w.chunks = d0.w.chunks ∧
      (dFilenoErr e d0).2.w.script = d0.w.script := by
    intro e d0
    have h := dClose_streams d0
    unfold dFilenoErr
    cases hcl : dClose d0 with
    | mk b d' =>
      rw [hcl] at h
      cases b <;> simp only <;> exact ⟨h.1, h.2.1, h.2.2.1, h.2.2.2.1⟩
  unfold dPoll
  split
  · simp
  · split
    · split
      · simp
      · exact hfe _ _
    · split
      · split
        · simp [dPollLoop]
        · have := hfe ‹Nat› { d with pscript := ‹List PollEv› }
          simpa using this
      · simp
      · simp [dPollLoop]

/-- when `poll` answers, nothing but the poll script has moved -/
theorem dPoll_ok (d : DState) (b : Bool) (h : (dPoll d).1 = .ok b) :
    (dPoll d).2.r = d.r ∧ (dPoll d).2.w = d.w ∧ (dPoll d).2.fault = d.fault ∧
    (dPoll d).2.inDead = d.inDead ∧ (dPoll d).2.outDead = d.outDead := by
  have hfe : ∀ (e : Nat) (d0 : DState) (b : Bool), (dFilenoErr e d0).1 ≠ .ok b := by
    intro e d0 b
    unfold dFilenoErr
    cases dClose d0 with
    | mk x d' => cases x <;> simp only <;> (try split) <;> simp
  unfold dPoll at h ⊢
  by_cases hc : d.r.closed = true
  · rw [if_pos hc] at h; cases h
  · rw [if_neg hc] at h ⊢
    by_cases hd : d.inDead = true
    · rw [if_pos hd] at h
      by_cases hp : d.pipe = true
      · rw [if_pos hp] at h; cases h
      · rw [if_neg hp] at h; exact absurd h (hfe _ _ _)
    · rw [if_neg hd] at h ⊢
      cases hps : d.pscript with
      | nil => simp [dPollLoop]
      | cons ev rest =>
        rw [hps] at h
        cases ev with
        | fdErr e =>
          simp only at h
          by_cases hp : d.pipe = true
          · simp only [if_pos hp]; simp [dPollLoop]
          · rw [if_neg hp] at h; exact absurd h (hfe _ _ _)
        | fdNeg => simp at h
        | ready => simp [dPollLoop]
        | idle => simp [dPollLoop]
        | eintr => simp [dPollLoop]
        | selErr e => simp [dPollLoop]

/-- how `poll` can end: an answer; `EOFError` with the stream closed (it was closed already, or `fileno`
met EBADF); an `OSError` (select error, refused descriptor, non-EBADF `fileno` error, failing `close()`) —
NOT necessarily closed; blocked -/
theorem dPoll_outcome (d : DState) :
    (∃ b, (dPoll d).1 = .ok b) ∨ ((dPoll d).1 = .eof ∧ (dPoll d).2.r.closed = true) ∨
    (dPoll d).1 = .oserr ∨ (dPoll d).1 = .starved := by
  have hfe : ∀ (e : Nat) (d0 : DState), ((dFilenoErr e d0).1 = .eof ∧ (dFilenoErr e d0).2.r.closed = true) ∨
      (dFilenoErr e d0).1 = .oserr := by
    intro e d0
    have hc := dClose_closed d0
    unfold dFilenoErr
    cases hcl : dClose d0 with
    | mk x d' =>
      rw [hcl] at hc
      cases x
      · simp only
        by_cases he : e = Gen.ebadf
        · simp [he]; exact hc.2 rfl
        · simp [he]
      · simp
  unfold dPoll
  split
  · rename_i hc; exact Or.inr (Or.inl ⟨rfl, hc⟩)
  · split
    · split
      · exact Or.inr (Or.inr (Or.inl rfl))
      · rcases hfe Gen.ebadf d with h | h
        · exact Or.inr (Or.inl h)
        · exact Or.inr (Or.inr (Or.inl h))
    · split
      · split
        · simp only [dPollLoop]
          rcases pollLoop_outcome d.pscript with ⟨b, h⟩ | h | h
          · exact Or.inl ⟨b, h⟩
          · exact Or.inr (Or.inr (Or.inr h))
          · exact Or.inr (Or.inr (Or.inl h))
        · rcases hfe ‹Nat› { d with pscript := ‹List PollEv› } with h | h
          · exact Or.inr (Or.inl h)
          · exact Or.inr (Or.inr (Or.inl h))
      · exact Or.inr (Or.inr (Or.inl rfl))
      · simp only [dPollLoop]
        rcases pollLoop_outcome d.pscript with ⟨b, h⟩ | h | h
        · exact Or.inl ⟨b, h⟩
        · exact Or.inr (Or.inr (Or.inr h))
        · exact Or.inr (Or.inr (Or.inl h))

/-! ### `read` on the duplex stream returns only what the one-directional model returns -/

theorem dFail_not_ok {α : Type} (d : DState) (a : α) : (dFail (α := α) d).1 ≠ .ok a := by
  unfold dFail
  cases dClose d with
  | mk x d' => cases x <;> simp

theorem dRead_ok (retry : Bool) (maxChunk n : Nat) (d : DState) (b : Bytes)
    (h : (dRead retry maxChunk n d).1 = .ok b) :
    (readExact retry maxChunk n d.r).1 = .ok b ∧ (dRead retry maxChunk n d).2.r = (readExact retry maxChunk n d.r).2 ∧
    (dRead retry maxChunk n d).2.w = d.w ∧ (dRead retry maxChunk n d).2.pscript = d.pscript := by
  unfold dRead at h ⊢
  by_cases hn : n = 0
  · subst hn
    simp only [if_true] at h ⊢
    injection h with h; subst h
    simp [readExact]
  · simp only [hn, if_false] at h ⊢
    split at h
    · cases h
    · split at h
      · split at h
        · cases h
        · exact absurd h (dFail_not_ok _ _)
      · rename_i hc hd
        simp only [hc, hd]
        cases hr : readExact retry maxChunk n d.r with
        | mk res r' =>
          rw [hr] at h
          cases res with
          | ok b' => simp only [dReadBase] at h ⊢; injection h with h; subst h; simp
          | eof => simp only [dReadBase] at h; exact absurd h (dFail_not_ok _ _)
          | starved => simp only [dReadBase] at h; cases h

/-- **No call order and no failing `close()` can alter a packet**: whenever `recv()` on the duplex stream
returns a packet, the one-directional `recvPacket` of Model.lean returns the same packet from the same
reading state and leaves the same reading state — so `recvPacket_prefix` / `recvAll_prefix` speak about it. -/
theorem dRecv_ok (z : ZlibFns) (retry : Bool) (maxChunk : Nat) (d : DState) (p : Bytes)
    (h : (dRecv z retry maxChunk d).1 = .ok p) :
    (recvPacket z retry maxChunk d.r).1 = .ok p ∧
    (dRecv z retry maxChunk d).2.r = (recvPacket z retry maxChunk d.r).2 := by
  unfold dRecv at h ⊢
  unfold recvPacket
  cases h1 : dRead retry maxChunk Gen.frameHeaderSize d with
  | mk res1 d1 =>
    rw [h1] at h
    cases res1 with
    | ok hd =>
      simp only [dRecvHeader] at h ⊢
      obtain ⟨e1, e2, _, _⟩ := dRead_ok retry maxChunk Gen.frameHeaderSize d hd (by rw [h1])
      rw [h1] at e2
      simp only at e2
      cases hb : readExact retry maxChunk Gen.frameHeaderSize d.r with
      | mk rres r1 =>
        rw [hb] at e1 e2
        simp only at e1 e2
        subst e1
        simp only [recvHeader]
        cases h2 : dRead retry maxChunk (headerLen hd + Gen.flusher.length) d1 with
        | mk res2 d2 =>
          rw [h2] at h
          cases res2 with
          | ok body =>
            simp only [dRecvBody] at h ⊢
            obtain ⟨f1, f2, _, _⟩ := dRead_ok retry maxChunk (headerLen hd + Gen.flusher.length) d1 body (by rw [h2])
            rw [h2] at f2
            simp only at f2
            rw [e2] at f1 f2
            cases hb2 : readExact retry maxChunk (headerLen hd + Gen.flusher.length) r1 with
            | mk rres2 r2 =>
              rw [hb2] at f1 f2
              simp only at f1 f2
              subst f1
              simp only [recvBody]
              refine ⟨?_, f2⟩
              cases hfin : finishPacket z hd body with
              | ok q => rw [hfin] at h; simp only [liftFinish] at h; injection h with h; rw [h]
              | err e => rw [hfin] at h; simp [liftFinish] at h
              | starved => rw [hfin] at h; simp [liftFinish] at h
          | eof => simp [dRecvBody] at h
          | starved => simp [dRecvBody] at h
          | oserr => simp [dRecvBody] at h
          | valerr => simp [dRecvBody] at h
          | other e => simp [dRecvBody] at h
    | eof => simp [dRecvHeader] at h
    | starved => simp [dRecvHeader] at h
    | oserr => simp [dRecvHeader] at h
    | valerr => simp [dRecvHeader] at h
    | other e => simp [dRecvHeader] at h

/-! ### writes never touch the reading side -/

theorem dFail_streams {α : Type} (d : DState) :
    (dFail (α := α) d).2.r.wire = d.r.wire ∧ (dFail (α := α) d).2.r.script = d.r.script := by
  have h := dClose_streams d
  unfold dFail
  cases hcl : dClose d with
  | mk x d' => rw [hcl] at h; cases x <;> simp only <;> exact ⟨h.1, h.2.1⟩

theorem dWrite_reading (maxChunk : Nat) (data : Bytes) (d : DState) :
    (dWrite maxChunk data d).2.r.wire = d.r.wire ∧ (dWrite maxChunk data d).2.r.script = d.r.script := by
  unfold dWrite
  split
  · simp
  · split
    · simp
    · split
      · split
        · simp
        · exact dFail_streams d
      · cases writeAll maxChunk data d.w with
        | mk res w' =>
          cases res with
          | ok => simp [dWriteBase]
          | starved => simp [dWriteBase]
          | eof =>
            simp only [dWriteBase]
            have := dFail_streams (α := Unit) { d with w := { w' with closed := false } }
            simpa using this

theorem dWriteSeq_reading (maxChunk : Nat) : ∀ (ws : List Bytes) (d : DState),
    (dWriteSeq maxChunk ws d).2.r.wire = d.r.wire ∧ (dWriteSeq maxChunk ws d).2.r.script = d.r.script := by
  intro ws
  induction ws with
  | nil => intro d; simp [dWriteSeq]
  | cons x xs ih =>
    intro d
    simp only [dWriteSeq]
    have h1 := dWrite_reading maxChunk x d
    cases hw : dWrite maxChunk x d with
    | mk res d' =>
      rw [hw] at h1
      cases res with
      | ok u =>
        simp only
        have h2 := ih d'
        exact ⟨h2.1.trans h1.1, h2.2.trans h1.2⟩
      | eof => exact h1
      | starved => exact h1
      | oserr => exact h1
      | valerr => exact h1
      | other e => exact h1

/-- **`send` is transparent to the reading side**: whatever happens to it, the incoming byte stream and
its script are as before -/
theorem dSend_reading (z : ZlibFns) (c : Bool) (maxChunk : Nat) (p : Bytes) (d : DState) :
    (dSend z c maxChunk p d).2.r.wire = d.r.wire ∧ (dSend z c maxChunk p d).2.r.script = d.r.script := by
  unfold dSend
  cases sendWrites z c maxChunk p with
  | error e => simp
  | ok ws => exact dWriteSeq_reading maxChunk ws d

end Rpyc.Wire
