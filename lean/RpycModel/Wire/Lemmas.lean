import RpycModel.Wire.Model
/-
Helper lemmas of layer L2 "Wire".  The property theorems are in RpycModel/Props/C05.lean.
-/
namespace Rpyc.Wire
open Rpyc

/-! ### side conditions on the generated constants (a changed constant breaks one of these by name) -/

/-- `FRAME_HEADER.size` is the sum of the two field widths -/
theorem hdrSize_eq : Gen.frameHeaderSize = Gen.frameLenWidth + Gen.frameFlagWidth := by decide

/-- the length field can express every payload length below 4 GiB (the statement's "far beyond the
chunk size"; a narrower field would make `send` refuse large packets with `struct.error`) -/
theorem lenRange_ge : 2 ^ 32 ≤ 256 ^ Gen.frameLenWidth := by decide

/-- the flag field can hold the value 1 -/
theorem one_lt_flagRange : 1 < 256 ^ Gen.frameFlagWidth := by decide

/-- `FLUSHER` is not empty (otherwise `data[:-len(FLUSHER)]` would drop the whole packet) -/
theorem flusher_pos : 0 < Gen.flusher.length := by decide

/-- a frame header fits into one I/O chunk of either stream class -/
theorem hdr_le_chunk : Gen.frameHeaderSize ≤ Gen.socketMaxIoChunk ∧ Gen.frameHeaderSize ≤ Gen.pipeMaxIoChunk := by
  decide

theorem chunk_pos : 1 ≤ Gen.socketMaxIoChunk ∧ 1 ≤ Gen.pipeMaxIoChunk := by decide

/-- `stream.retry_errnos` is exactly the platform's would-block errnos (`errno.EAGAIN`, `errno.EWOULDBLOCK`,
generated from the `errno` module, not from rpyc): both are retried, and nothing else is (an errno of a dead
connection in that list would be retried for ever instead of ending in `EOFError`) -/
theorem retry_errnos_are_wouldblock :
    Gen.retryErrnos.contains Gen.eagain = true ∧ Gen.retryErrnos.contains Gen.ewouldblock = true ∧
    Gen.retryErrnos.all (fun e => e == Gen.eagain || e == Gen.ewouldblock) = true := by decide

/-- class relations of the interpreter whose consequences are written into the model: `socket.timeout` is a
`socket.error` (so `write`'s `except socket.error` makes a timeout fatal: `writeLoop`), `socket.error` is an
`EnvironmentError` (so `PipeStream`'s `except EnvironmentError` makes every scripted error fatal: `recvStep` with
`retry = false`), `EOFError` is not a `socket.error` (so the `EOFError` of `ClosedFile` passes through
`except socket.error` unchanged: `readExact` / `writeAll` on a closed stream) -/
theorem exception_classes :
    Gen.timeoutIsSocketError = true ∧ Gen.socketErrorIsEnvironmentError = true ∧ Gen.eofErrorIsSocketError = false := by
  decide

theorem hdrSize_pos : 0 < Gen.frameHeaderSize := by
  have := one_lt_flagRange
  have h2 : Gen.frameFlagWidth ≠ 0 := by
    intro h; rw [h] at this; simp at this
  rw [hdrSize_eq]; omega

/-! ### list helpers -/

theorem take_append_drop_length (m : Nat) (w : Bytes) : w.take m ++ w.drop (w.take m).length = w := by
  rw [List.length_take]
  by_cases h : m ≤ w.length
  · rw [Nat.min_eq_left h]; exact List.take_append_drop m w
  · have h' : w.length ≤ m := by omega
    rw [Nat.min_eq_right h', List.take_of_length_le h', List.drop_of_length_le (Nat.le_refl _)]
    simp

theorem eq_take_drop_of_append {d w' w : Bytes} {n : Nat} (h : d ++ w' = w) (hl : d.length = n) :
    d = w.take n ∧ w' = w.drop n ∧ n ≤ w.length := by
  subst h
  refine ⟨(List.take_left' hl).symm, (List.drop_left' hl).symm, ?_⟩
  simp; omega

theorem prefix_take {w full : Bytes} (h : w <+: full) {n : Nat} (hn : n ≤ w.length) :
    full.take n = w.take n := by
  obtain ⟨t, rfl⟩ := h
  exact List.take_append_of_le_length hn

theorem prefix_drop {w full : Bytes} (h : w <+: full) {n : Nat} (hn : n ≤ w.length) :
    w.drop n <+: full.drop n := by
  obtain ⟨t, rfl⟩ := h
  rw [List.drop_append_of_le_length hn]
  exact List.prefix_append _ _

/-! ### frames -/

theorem flag_le_one (c : Bool) (d : Bytes) : flag c d ≤ 1 := by
  unfold flag; split <;> omega

theorem flag_lt_range (c : Bool) (d : Bytes) : flag c d < 256 ^ Gen.frameFlagWidth := by
  have := flag_le_one c d
  have := one_lt_flagRange
  omega

theorem packHeader_of_fits {z : ZlibFns} {c : Bool} {p : Bytes} (h : Fits z c p) :
    packHeader (payload z c p).length (flag c p) = .ok (headerBytes (payload z c p).length (flag c p)) := by
  unfold packHeader
  rw [if_pos ⟨h, flag_lt_range c p⟩]

theorem packHeader_not_fits {z : ZlibFns} {c : Bool} {p : Bytes} (h : ¬ Fits z c p) :
    packHeader (payload z c p).length (flag c p) = .error .structError := by
  unfold packHeader
  rw [if_neg (fun hh => h hh.1)]

theorem frame_of_fits {z : ZlibFns} {c : Bool} {p : Bytes} (h : Fits z c p) :
    frame z c p = .ok (frameBytes z c p) := by
  simp [frame, packHeader_of_fits h, frameBytes]

theorem frame_not_fits {z : ZlibFns} {c : Bool} {p : Bytes} (h : ¬ Fits z c p) :
    frame z c p = .error .structError := by
  simp [frame, packHeader_not_fits h]

@[simp] theorem headerBytes_length (len flg : Nat) : (headerBytes len flg).length = Gen.frameHeaderSize := by
  simp [headerBytes, hdrSize_eq]

theorem frameBytes_length (z : ZlibFns) (c : Bool) (p : Bytes) :
    (frameBytes z c p).length = Gen.frameHeaderSize + ((payload z c p).length + Gen.flusher.length) := by
  simp [frameBytes]

theorem wireOf_cons (z : ZlibFns) (c : Bool) (p : Bytes) (ps : List Bytes) :
    wireOf z c (p :: ps) = frameBytes z c p ++ wireOf z c ps := by
  simp [wireOf]

@[simp] theorem wireOf_nil (z : ZlibFns) (c : Bool) : wireOf z c [] = [] := rfl

theorem headerLen_headerBytes {len : Nat} (flg : Nat) (h : len < 256 ^ Gen.frameLenWidth) :
    headerLen (headerBytes len flg) = len := by
  unfold headerLen headerBytes
  rw [List.take_left' (beN_length _ _), unbe_beN _ _ h]

theorem headerFlag_headerBytes (len : Nat) {flg : Nat} (h : flg < 256 ^ Gen.frameFlagWidth) :
    headerFlag (headerBytes len flg) = flg := by
  unfold headerFlag headerBytes
  rw [List.drop_left' (beN_length _ _), unbe_beN _ _ h]

theorem stripFlusher_append (p : Bytes) : stripFlusher (p ++ Gen.flusher) = p := by
  unfold stripFlusher
  have := flusher_pos
  rw [if_neg (by omega)]
  simp

/-- the receiver's post-processing undoes the sender's pre-processing (uses zlib's round-trip law) -/
theorem finishPacket_frame (z : Zlib) (c : Bool) (p : Bytes) :
    finishPacket z.toZlibFns (headerBytes (payload z.toZlibFns c p).length (flag c p))
      (payload z.toZlibFns c p ++ Gen.flusher) = .ok p := by
  unfold finishPacket
  rw [headerFlag_headerBytes _ (flag_lt_range c p), stripFlusher_append]
  unfold flag payload
  cases useCompression c p with
  | true => simp [z.round_trip]
  | false => simp

/-! ### `read` -/

theorem recvStep_data {retry : Bool} {maxChunk count : Nat} {wire : Bytes} {ev : RecvEv} {buf : Bytes}
    (h : recvStep retry maxChunk count wire ev = .data buf) :
    buf ≠ [] ∧ buf ++ wire.drop buf.length = wire ∧ buf.length ≤ count ∧ isChunk ev = true := by
  cases ev with
  | chunk k =>
    simp only [recvStep] at h
    split at h
    · cases h
    · rename_i hne
      injection h with h
      subst h
      refine ⟨hne, take_append_drop_length _ _, ?_, rfl⟩
      rw [List.length_take]; omega
  | eof => simp [recvStep] at h
  | timeout => simp only [recvStep] at h; split at h <;> cases h
  | err e => simp only [recvStep] at h; split at h <;> cases h

theorem recvStep_again {retry : Bool} {maxChunk count : Nat} {wire : Bytes} {ev : RecvEv}
    (h : recvStep retry maxChunk count wire ev = .again) : isChunk ev = false := by
  cases ev with
  | chunk k => simp only [recvStep] at h; split at h <;> cases h
  | eof => rfl
  | timeout => rfl
  | err e => rfl

theorem recvStep_benign {retry : Bool} {maxChunk count : Nat} {wire : Bytes} {ev : RecvEv}
    (hb : benign retry ev = true) (hmax : 1 ≤ maxChunk) (hc : count ≠ 0) (hw : count ≤ wire.length) :
    recvStep retry maxChunk count wire ev ≠ .fatal := by
  cases ev with
  | chunk k =>
    simp only [benign, decide_eq_true_eq] at hb
    simp only [recvStep]
    have hne : wire.take (min k (min maxChunk count)) ≠ [] := by
      intro h
      rw [List.take_eq_nil_iff] at h
      rcases h with h | h
      · omega
      · subst h; simp at hw; omega
    rw [if_neg hne]; intro h; cases h
  | eof => simp [benign] at hb
  | timeout => simp only [benign] at hb; simp [recvStep, hb]
  | err e => simp only [benign] at hb; simp [recvStep, hb]

/-- what one `read` call can do, relative to the bytes `acc0` it already holds -/
def ReadSpec (acc0 wire : Bytes) (count : Nat) (script : List RecvEv) (r : ReadRes × RState) : Prop :=
  (∃ pre, script = pre ++ r.2.script) ∧
  ((∃ d, r.1 = .ok d ∧ d ++ r.2.wire = acc0 ++ wire ∧ d.length = acc0.length + count ∧ r.2.closed = false) ∨
   (r.1 = .eof ∧ r.2.closed = true) ∨
   (r.1 = .starved ∧ r.2.script = [] ∧ r.2.closed = false))

theorem readLoop_spec (retry : Bool) (maxChunk : Nat) : ∀ (script : List RecvEv) (wire : Bytes) (count : Nat)
    (acc : List Bytes), ReadSpec acc.reverse.flatten wire count script (readLoop retry maxChunk script wire count acc) := by
  intro script
  induction script with
  | nil =>
    intro wire count acc
    unfold readLoop
    by_cases hc : count = 0
    · subst hc
      refine ⟨⟨[], rfl⟩, Or.inl ⟨acc.reverse.flatten, ?_⟩⟩
      simp
    · rw [if_neg hc]
      exact ⟨⟨[], rfl⟩, Or.inr (Or.inr ⟨rfl, rfl, rfl⟩)⟩
  | cons ev rest ih =>
    intro wire count acc
    unfold readLoop
    by_cases hc : count = 0
    · subst hc
      refine ⟨⟨[], rfl⟩, Or.inl ⟨acc.reverse.flatten, ?_⟩⟩
      simp
    · rw [if_neg hc]
      cases hstep : recvStep retry maxChunk count wire ev with
      | data buf =>
        obtain ⟨_, hsplit, hle, _⟩ := recvStep_data hstep
        obtain ⟨⟨pre, hpre⟩, hres⟩ := ih (wire.drop buf.length) (count - buf.length) (buf :: acc)
        refine ⟨⟨ev :: pre, by simp only [List.cons_append]; exact congrArg _ hpre⟩, ?_⟩
        have hflat : (buf :: acc).reverse.flatten = acc.reverse.flatten ++ buf := by simp
        rw [hflat] at hres
        rcases hres with ⟨d, h1, h2, h3, h4⟩ | h | h
        · refine Or.inl ⟨d, h1, ?_, ?_, h4⟩
          · rw [h2, List.append_assoc, hsplit]
          · rw [h3, List.length_append]; omega
        · exact Or.inr (Or.inl h)
        · exact Or.inr (Or.inr h)
      | again =>
        obtain ⟨⟨pre, hpre⟩, hres⟩ := ih wire count acc
        exact ⟨⟨ev :: pre, by simp only [List.cons_append]; exact congrArg _ hpre⟩, hres⟩
      | fatal =>
        exact ⟨⟨[ev], rfl⟩, Or.inr (Or.inl ⟨rfl, rfl⟩)⟩

/-- `read(n)` in take/drop form: exactly the next `n` bytes of the wire, or `EOFError` with the stream
closed, or blocked with the script used up -/
theorem readExact_cases (retry : Bool) (maxChunk n : Nat) (s : RState) :
    (∃ pre, s.script = pre ++ (readExact retry maxChunk n s).2.script) ∧
    (((readExact retry maxChunk n s).1 = .ok (s.wire.take n) ∧ n ≤ s.wire.length
        ∧ (readExact retry maxChunk n s).2.wire = s.wire.drop n
        ∧ (readExact retry maxChunk n s).2.closed = s.closed) ∨
     ((readExact retry maxChunk n s).1 = .eof ∧ (readExact retry maxChunk n s).2.closed = true) ∨
     ((readExact retry maxChunk n s).1 = .starved ∧ (readExact retry maxChunk n s).2.script = []
        ∧ (readExact retry maxChunk n s).2.closed = false)) := by
  unfold readExact
  by_cases hn : n = 0
  · subst hn
    rw [if_pos rfl]
    exact ⟨⟨[], rfl⟩, Or.inl ⟨by simp, by simp, by simp, rfl⟩⟩
  · rw [if_neg hn]
    cases hcl : s.closed with
    | true =>
      rw [if_pos rfl]
      exact ⟨⟨[], rfl⟩, Or.inr (Or.inl ⟨rfl, hcl⟩)⟩
    | false =>
      rw [if_neg (by simp)]
      obtain ⟨hpre, hres⟩ := readLoop_spec retry maxChunk s.script s.wire n []
      refine ⟨hpre, ?_⟩
      rcases hres with ⟨d, h1, h2, h3, h4⟩ | h | h
      · simp only [List.reverse_nil, List.flatten_nil, List.nil_append, List.length_nil, Nat.zero_add] at h2 h3
        obtain ⟨e1, e2, e3⟩ := eq_take_drop_of_append h2 h3
        exact Or.inl ⟨by rw [h1, e1], e3, e2, h4⟩
      · exact Or.inr (Or.inl h)
      · exact Or.inr (Or.inr h)

theorem progress_cons (ev : RecvEv) (rest : List RecvEv) :
    progress (ev :: rest) = progress rest + (if isChunk ev = true then 1 else 0) := by
  simp [progress, List.countP_cons]

theorem readLoop_benign (retry : Bool) (maxChunk : Nat) (hmax : 1 ≤ maxChunk) :
    ∀ (script : List RecvEv) (wire : Bytes) (count : Nat) (acc : List Bytes),
      (∀ ev ∈ script, benign retry ev = true) → count ≤ wire.length →
      (readLoop retry maxChunk script wire count acc).1 ≠ .eof ∧
      (count ≤ progress script →
        (readLoop retry maxChunk script wire count acc).1 ≠ .starved ∧
        progress script ≤ progress (readLoop retry maxChunk script wire count acc).2.script + count) := by
  intro script
  induction script with
  | nil =>
    intro wire count acc _ _
    unfold readLoop
    by_cases hc : count = 0
    · subst hc; simp [progress]
    · rw [if_neg hc]
      refine ⟨by simp, fun h => ?_⟩
      simp [progress] at h; exact absurd h hc
  | cons ev rest ih =>
    intro wire count acc hb hw
    unfold readLoop
    by_cases hc : count = 0
    · subst hc; simp
    · rw [if_neg hc]
      have hbev : benign retry ev = true := hb ev (by simp)
      have hbrest : ∀ e ∈ rest, benign retry e = true := fun e he => hb e (by simp [he])
      have hnf := recvStep_benign (wire := wire) hbev hmax hc hw
      cases hstep : recvStep retry maxChunk count wire ev with
      | data buf =>
        obtain ⟨hne, hsplit, hle, hch⟩ := recvStep_data hstep
        have hpos : 1 ≤ buf.length := by
          cases buf with
          | nil => exact absurd rfl hne
          | cons _ _ => simp
        have hwl : wire.length = buf.length + (wire.drop buf.length).length := by
          conv => lhs; rw [← hsplit]
          simp
        obtain ⟨i1, i2⟩ := ih (wire.drop buf.length) (count - buf.length) (buf :: acc) hbrest (by omega)
        refine ⟨i1, fun hp => ?_⟩
        rw [progress_cons, hch] at hp ⊢
        simp only [if_true] at hp ⊢
        obtain ⟨j1, j2⟩ := i2 (by omega)
        exact ⟨j1, by omega⟩
      | again =>
        have hch := recvStep_again hstep
        obtain ⟨i1, i2⟩ := ih wire count acc hbrest hw
        refine ⟨i1, fun hp => ?_⟩
        rw [progress_cons, hch] at hp ⊢
        simp only [Bool.false_eq_true, if_false, Nat.add_zero] at hp ⊢
        exact i2 hp
      | fatal => exact absurd hstep hnf

/-- under a script without failures that still has enough data events, `read(n)` returns the next `n`
bytes and leaves a script of the same kind -/
theorem readExact_benign (retry : Bool) (maxChunk : Nat) (hmax : 1 ≤ maxChunk) (n : Nat) (s : RState)
    (hb : ∀ ev ∈ s.script, benign retry ev = true) (hcl : s.closed = false)
    (hw : n ≤ s.wire.length) (hp : n ≤ progress s.script) :
    (readExact retry maxChunk n s).1 = .ok (s.wire.take n) ∧
    (readExact retry maxChunk n s).2.wire = s.wire.drop n ∧
    (readExact retry maxChunk n s).2.closed = false ∧
    (∀ ev ∈ (readExact retry maxChunk n s).2.script, benign retry ev = true) ∧
    progress s.script ≤ progress (readExact retry maxChunk n s).2.script + n := by
  obtain ⟨⟨pre, hpre⟩, hres⟩ := readExact_cases retry maxChunk n s
  have hb' : ∀ ev ∈ (readExact retry maxChunk n s).2.script, benign retry ev = true := by
    intro ev hev
    exact hb ev (by rw [hpre]; simp [hev])
  have hprog : progress s.script ≤ progress (readExact retry maxChunk n s).2.script + n ∧
      (readExact retry maxChunk n s).1 ≠ .eof ∧ (readExact retry maxChunk n s).1 ≠ .starved := by
    unfold readExact
    by_cases hn : n = 0
    · subst hn; simp
    · rw [if_neg hn, hcl]
      simp only [Bool.false_eq_true, if_false]
      obtain ⟨i1, i2⟩ := readLoop_benign retry maxChunk hmax s.script s.wire n [] hb hw
      obtain ⟨j1, j2⟩ := i2 hp
      exact ⟨j2, i1, j1⟩
  obtain ⟨hp', hne, hns⟩ := hprog
  rcases hres with ⟨h1, _, h3, h4⟩ | ⟨h, _⟩ | ⟨h, _⟩
  · exact ⟨h1, h3, by rw [h4, hcl], hb', hp'⟩
  · exact absurd h hne
  · exact absurd h hns

end Rpyc.Wire
