import RpycModel.Wire.Model
/-
L2 "Wire", second part: ONE stream object used in both directions with calls in any order —
`Channel.send`, `Channel.recv`, `Stream.poll` (rpyc/core/stream.py `Stream.poll`, `SocketStream.fileno`,
`PipeStream.fileno`), `stream.close()` — and the descriptor's own `close()` raising inside the failure
path of `read` / `write` (`SocketStream.close`, `PipeStream.close`).

What is added to Model.lean:
* one `closed` flag shared by both directions (a failed write makes the next `recv` raise `EOFError`);
* `CloseFault`: the descriptor's own `close()` raises once — `sock.close()`, or `incoming.close()`
  (`first`) / `outgoing.close()` (`second`) of a pipe pair.  The exception (an `OSError`) then
  propagates INSTEAD of `EOFError`, and `self.sock = ClosedFile` / `self.incoming = ClosedFile` is
  never reached: `stream.closed` stays `False`.  The descriptor object itself is closed by then (as
  CPython's socket and file objects are after a failing `close()`): a later `recv`/`send` on the
  socket raises EBADF (→ `close()` again, now clean → `EOFError`), a later `fileno()` of the pipe's
  file object raises `ValueError`, which `PipeStream.read/write` do not catch.
* `Stream.poll`: a script of poll events.  `fileno()` failing with EBADF closes and raises `EOFError`;
  with another errno it closes and re-raises that `OSError`; a failing `poll()` system call (other than
  EINTR, which is retried) and a descriptor `register` refuses (`ValueError`) are re-raised as
  `select_error` (= `OSError`) with the stream left OPEN.  `poll` never reads from the transport.
-/
namespace Rpyc.Wire
open Rpyc

/-- outcome of any stream / channel call here -/
inductive XRes (α : Type) where
  | ok (a : α)
  | eof                 -- EOFError
  | starved             -- blocked for ever (script exhausted)
  | oserr               -- an OSError (socket.error / select.error) other than EOFError propagated
  | valerr              -- a ValueError propagated
  | other (e : Err)     -- zlib.error, struct.error
  deriving DecidableEq, Repr

/-- which `close()` of the descriptor(s) raises, once -/
inductive CloseFault where
  | none | first | second
  deriving DecidableEq, Repr

/-- what happens inside one `Stream.poll` call -/
inductive PollEv where
  /-- `p.poll(t)` reports the descriptor (readable, or hung up / in error: any non-empty list) -/
  | ready
  /-- `p.poll(t)` returns `[]` (the timeout elapsed) -/
  | idle
  /-- `p.poll(t)` raises `select_error(EINTR)` -/
  | eintr
  /-- `p.poll(t)` raises `select_error(errno)`, errno ≠ EINTR -/
  | selErr (errno : Nat)
  /-- `self.sock.fileno()` raises `socket.error(errno)` (sockets only) -/
  | fdErr (errno : Nat)
  /-- `fileno()` returns a number `register` refuses with `ValueError` (e.g. -1) -/
  | fdNeg
  deriving DecidableEq, Repr

/-- one duplex stream: the reading side, the writing side, and the descriptor's condition -/
structure DState where
  r : RState
  w : WState
  pipe : Bool
  fault : CloseFault
  inDead : Bool
  outDead : Bool
  pscript : List PollEv
  deriving Repr

/-- `self.sock = ClosedFile` / `self.incoming = self.outgoing = ClosedFile` -/
def DState.markClosed (d : DState) : DState :=
  { d with r := { d.r with closed := true }, w := { d.w with closed := true } }

/-- `stream.close()`; `true` = the descriptor's own `close()` raised (and the stream is NOT marked closed).
`shutdown()` raising is swallowed by the code and has no effect. -/
def dClose (d : DState) : Bool × DState :=
  if d.r.closed then (false, d)
  else match d.fault with
    | .none => (false, ({ d with inDead := true, outDead := true }).markClosed)
    | .first =>
      if d.pipe then (true, { d with fault := .none, inDead := true })
      else (true, { d with fault := .none, inDead := true, outDead := true })
    | .second => (true, { d with fault := .none, inDead := true, outDead := true })

/-- the failure path of `read` / `write`: `self.close()`, then `raise EOFError` -/
def dFail {α : Type} (d : DState) : XRes α × DState :=
  match dClose d with
  | (true, d') => (.oserr, d')
  | (false, d') => (.eof, d')

def dReadBase (d : DState) : ReadRes × RState → XRes Bytes × DState
  | (.ok b, r') => (.ok b, { d with r := r' })
  | (.starved, r') => (.starved, { d with r := r' })
  | (.eof, r') => dFail { d with r := { r' with closed := false } }

/-- `stream.read(n)` -/
def dRead (retry : Bool) (maxChunk n : Nat) (d : DState) : XRes Bytes × DState :=
  if n = 0 then (.ok [], d)
  else if d.r.closed then (.eof, d)
  else if d.inDead then (if d.pipe then (.valerr, d) else dFail d)
  else dReadBase d (readExact retry maxChunk n d.r)

def dWriteBase (d : DState) : WriteRes × WState → XRes Unit × DState
  | (.ok, w') => (.ok (), { d with w := w' })
  | (.starved, w') => (.starved, { d with w := w' })
  | (.eof, w') => dFail { d with w := { w' with closed := false } }

/-- `stream.write(data)` -/
def dWrite (maxChunk : Nat) (data : Bytes) (d : DState) : XRes Unit × DState :=
  if data = [] then (.ok (), d)
  else if d.r.closed then (.eof, d)
  else if d.outDead then (if d.pipe then (.valerr, d) else dFail d)
  else dWriteBase d (writeAll maxChunk data d.w)

def liftFinish : RecvRes → XRes Bytes
  | .ok p => .ok p
  | .err e => .other e
  | .starved => .starved

def dRecvBody (z : ZlibFns) (h : Bytes) : XRes Bytes × DState → XRes Bytes × DState
  | (.ok b, d) => (liftFinish (finishPacket z h b), d)
  | other => other

def dRecvHeader (z : ZlibFns) (retry : Bool) (maxChunk : Nat) : XRes Bytes × DState → XRes Bytes × DState
  | (.ok h, d) => dRecvBody z h (dRead retry maxChunk (headerLen h + Gen.flusher.length) d)
  | other => other

/-- `Channel.recv()` on the duplex stream -/
def dRecv (z : ZlibFns) (retry : Bool) (maxChunk : Nat) (d : DState) : XRes Bytes × DState :=
  dRecvHeader z retry maxChunk (dRead retry maxChunk Gen.frameHeaderSize d)

def dWriteSeq (maxChunk : Nat) : List Bytes → DState → XRes Unit × DState
  | [], d => (.ok (), d)
  | x :: xs, d =>
    match dWrite maxChunk x d with
    | (.ok (), d') => dWriteSeq maxChunk xs d'
    | other => other

/-- `Channel.send(data)` on the duplex stream -/
def dSend (z : ZlibFns) (compress : Bool) (maxChunk : Nat) (data : Bytes) (d : DState) : XRes Unit × DState :=
  match sendWrites z compress maxChunk data with
  | .error e => (.other e, d)
  | .ok ws => dWriteSeq maxChunk ws d

/-- the `while True: try: rl = p.poll(...)` loop of `Stream.poll` -/
def pollLoop : List PollEv → XRes Bool × List PollEv
  | [] => (.starved, [])
  | .ready :: rest => (.ok true, rest)
  | .idle :: rest => (.ok false, rest)
  | .eintr :: rest => pollLoop rest
  | .selErr _ :: rest => (.oserr, rest)
  | .fdErr _ :: rest => (.oserr, rest)     -- not a `p.poll` answer: the scripted poll object raises ValueError,
  | .fdNeg :: rest => (.oserr, rest)       -- which `Stream.poll` turns into select_error (as for a real ValueError)

def dPollLoop (d : DState) : XRes Bool × DState :=
  ((pollLoop d.pscript).1, { d with pscript := (pollLoop d.pscript).2 })

/-- `SocketStream.fileno` meeting `socket.error(e)`: `self.close()`, then `EOFError` for EBADF, else re-raise -/
def dFilenoErr (e : Nat) (d : DState) : XRes Bool × DState :=
  match dClose d with
  | (true, d') => (.oserr, d')
  | (false, d') => (if e = Gen.ebadf then .eof else .oserr, d')

/-- `stream.poll(timeout)` -/
def dPoll (d : DState) : XRes Bool × DState :=
  if d.r.closed then (.eof, d)                       -- ClosedFile.fileno() raises EOFError
  else if d.inDead then
    (if d.pipe then (.oserr, d)                      -- ValueError from the closed file object → select_error
     else dFilenoErr Gen.ebadf d)                    -- the dead socket's fileno() raises EBADF
  else match d.pscript with
    | .fdErr e :: rest =>
      if d.pipe then dPollLoop d                     -- `PipeStream.fileno` has no failure path of its own
      else dFilenoErr e { d with pscript := rest }
    | .fdNeg :: rest => (.oserr, { d with pscript := rest })
    | _ => dPollLoop d

/-- an application-level `stream.close()` call -/
def dCloseCall (d : DState) : XRes Unit × DState :=
  match dClose d with
  | (true, d') => (.oserr, d')
  | (false, d') => (.ok (), d')

/-- one call on the duplex channel -/
inductive DOp where
  | send (p : Bytes) | recv | poll | close | read (n : Nat) | write (data : Bytes)
  deriving Repr

end Rpyc.Wire
