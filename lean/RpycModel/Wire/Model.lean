import RpycModel.Gen.Wire
import RpycModel.Base.Bytes
/-
L2 "Wire" — rpyc/core/channel.py (`Channel.send`, `Channel.recv`) over rpyc/core/stream.py
(`SocketStream.read/write/close`, `PipeStream.read/write/close`, `ClosedFile`).

The transport is a *script*: what the socket / pipe answers to each `recv`/`os.read` and each
`send`/`os.write` call.  Every behaviour a stream socket or a pipe may show to those calls is a script
(any split or coalescing of the byte stream, transient would-block / timeout conditions, a reset or
an end of stream at any byte offset).  A script that runs out means "the call blocks forever"
(`starved`): the peer has not sent / accepted more yet.

zlib is NOT modelled: it is the opaque pair `ZlibFns`; the theorems assume only the round-trip law
(structure `Zlib`).  Constants come from `Rpyc.Gen` (generated from the live modules).
-/
namespace Rpyc.Wire
open Rpyc

/-! ### zlib as an opaque parameter -/

/-- `zlib.compress(data, COMPRESSION_LEVEL)` and `zlib.decompress(data)` (`none` = `zlib.error`) -/
structure ZlibFns where
  compress : Bytes → Bytes
  decompress : Bytes → Option Bytes

/-- the only assumption made about zlib: decompressing what it compressed gives the data back -/
structure Zlib extends ZlibFns where
  round_trip : ∀ b : Bytes, decompress (compress b) = some b

/-! ### `Channel.send`: frame layout and the one-write / three-write split -/

/-- the test `self.compress and len(data) > COMPRESSION_THRESHOLD` (strict), with
`Channel.__init__`'s `if not zlib: compress = False` -/
def useCompression (compress : Bool) (data : Bytes) : Bool :=
  compress && Gen.zlibAvailable && decide (data.length > Gen.compressionThreshold)

/-- the bytes that travel between header and flusher -/
def payload (z : ZlibFns) (compress : Bool) (data : Bytes) : Bytes :=
  if useCompression compress data then z.compress data else data

/-- the `compressed` flag of the header -/
def flag (compress : Bool) (data : Bytes) : Nat :=
  if useCompression compress data then 1 else 0

/-- `FRAME_HEADER.pack(data_size, compressed)` without the range check -/
def headerBytes (len flg : Nat) : Bytes := beN Gen.frameLenWidth len ++ beN Gen.frameFlagWidth flg

/-- `FRAME_HEADER.pack(data_size, compressed)`: `struct.error` when a field does not fit -/
def packHeader (len flg : Nat) : Except Err Bytes :=
  if len < 256 ^ Gen.frameLenWidth ∧ flg < 256 ^ Gen.frameFlagWidth then .ok (headerBytes len flg)
  else .error .structError

/-- the bytes of one frame: header, payload, flusher -/
def frameBytes (z : ZlibFns) (compress : Bool) (data : Bytes) : Bytes :=
  headerBytes (payload z compress data).length (flag compress data) ++ (payload z compress data ++ Gen.flusher)

/-- the frame `Channel.send` emits for `data`, or the `struct.error` of an oversized payload -/
def frame (z : ZlibFns) (compress : Bool) (data : Bytes) : Except Err Bytes :=
  match packHeader (payload z compress data).length (flag compress data) with
  | .error e => .error e
  | .ok h => .ok (h ++ (payload z compress data ++ Gen.flusher))

/-- the `stream.write` calls of `Channel.send`: one if
`FRAME_HEADER.size + data_size + len(FLUSHER) <= stream.MAX_IO_CHUNK`, else three with the first cut at
`part1 = MAX_IO_CHUNK - FRAME_HEADER.size`.  (`part1 < 0` would make `data[:part1]` count from the end;
that configuration is not modelled.) -/
def sendWrites (z : ZlibFns) (compress : Bool) (maxChunk : Nat) (data : Bytes) : Except Err (List Bytes) :=
  match packHeader (payload z compress data).length (flag compress data) with
  | .error e => .error e
  | .ok h =>
    if Gen.frameHeaderSize + (payload z compress data).length + Gen.flusher.length ≤ maxChunk then
      .ok [h ++ (payload z compress data ++ Gen.flusher)]
    else if maxChunk < Gen.frameHeaderSize then .error .notModelled
    else .ok [h ++ (payload z compress data).take (maxChunk - Gen.frameHeaderSize),
              (payload z compress data).drop (maxChunk - Gen.frameHeaderSize), Gen.flusher]

/-! ### the reading side: `SocketStream.read` / `PipeStream.read` over a scripted transport -/

/-- what one `sock.recv(n)` / `os.read(fd, n)` call does -/
inductive RecvEv where
  /-- returns the next `min k n` bytes of the wire (an empty result — `k = 0` or nothing left because
  the peer has finished — is what a socket returns at end of stream) -/
  | chunk (k : Nat)
  /-- raises `socket.timeout` -/
  | timeout
  /-- raises `socket.error` / `OSError` with this errno -/
  | err (errno : Nat)
  /-- returns `b""` -/
  | eof
  deriving DecidableEq, Repr

/-- the receiving stream: the bytes the peer's transport will deliver, the script, `stream.closed` -/
structure RState where
  wire : Bytes
  script : List RecvEv
  closed : Bool
  deriving DecidableEq, Repr

/-- result of `stream.read(count)`: the bytes, `EOFError`, or blocked forever (script exhausted) -/
inductive ReadRes where
  | ok (d : Bytes) | eof | starved
  deriving DecidableEq, Repr

/-- one turn of the `while count > 0` loop -/
inductive Step where
  | data (buf : Bytes) | again | fatal
  deriving DecidableEq, Repr

/-- does `SocketStream.read` `continue` on an `OSError` with this errno: it is in `retry_errnos`, or the
interpreter makes it an instance of `socket.timeout` -/
def retryErrno (e : Nat) : Bool := Gen.retryErrnos.contains e || Gen.timeoutErrnos.contains e

/-- One turn of the read loop.  `retry = true` is `SocketStream.read` (`except socket.timeout: continue`,
`except socket.error: if errno in retry_errnos: continue`); `retry = false` is `PipeStream.read`, where
every `EnvironmentError` is fatal.  `buf = sock.recv(min(MAX_IO_CHUNK, count))`; `if not buf:` close and
raise `EOFError`. -/
def recvStep (retry : Bool) (maxChunk count : Nat) (wire : Bytes) : RecvEv → Step
  | .chunk k =>
    if wire.take (min k (min maxChunk count)) = [] then .fatal
    else .data (wire.take (min k (min maxChunk count)))
  | .eof => .fatal
  | .timeout => if retry then .again else .fatal
  | .err e => if retry && retryErrno e then .again else .fatal

/-- the loop of `read`: `acc` is the list `data` (most recent first), `count` the bytes still wanted.
A fatal turn closes the stream (`self.close()`) and raises `EOFError`. -/
def readLoop (retry : Bool) (maxChunk : Nat) : List RecvEv → Bytes → Nat → List Bytes → ReadRes × RState
  | [], wire, count, acc =>
    if count = 0 then (.ok acc.reverse.flatten, ⟨wire, [], false⟩) else (.starved, ⟨wire, [], false⟩)
  | ev :: rest, wire, count, acc =>
    if count = 0 then (.ok acc.reverse.flatten, ⟨wire, ev :: rest, false⟩)
    else match recvStep retry maxChunk count wire ev with
      | .data buf => readLoop retry maxChunk rest (wire.drop buf.length) (count - buf.length) (buf :: acc)
      | .again => readLoop retry maxChunk rest wire count acc
      | .fatal => (.eof, ⟨wire, rest, true⟩)

/-- `stream.read(count)`.  `count = 0` returns `b""` without touching the transport (also on a closed
stream); on a closed stream `self.sock` is `ClosedFile`, whose `recv` attribute raises `EOFError`. -/
def readExact (retry : Bool) (maxChunk : Nat) (count : Nat) (s : RState) : ReadRes × RState :=
  if count = 0 then (.ok [], s)
  else if s.closed then (.eof, s)
  else readLoop retry maxChunk s.script s.wire count []

/-! ### `Channel.recv` -/

inductive RecvRes where
  | ok (p : Bytes) | err (e : Err) | starved
  deriving DecidableEq, Repr

/-- `data[:-len(FLUSHER)]` (Python: `[:-0]` is the empty string; a too-short string gives `b""`).
The stripped bytes are NOT compared with `FLUSHER`. -/
def stripFlusher (d : Bytes) : Bytes :=
  if Gen.flusher.length = 0 then [] else d.take (d.length - Gen.flusher.length)

/-- `length, compressed = FRAME_HEADER.unpack(header)` -/
def headerLen (h : Bytes) : Nat := unbe (h.take Gen.frameLenWidth)
def headerFlag (h : Bytes) : Nat := unbe (h.drop Gen.frameLenWidth)

/-- `if compressed: data = zlib.decompress(data)` -/
def finishPacket (z : ZlibFns) (h d : Bytes) : RecvRes :=
  if headerFlag h ≠ 0 then
    match z.decompress (stripFlusher d) with
    | none => .err .zlibError
    | some p => .ok p
  else .ok (stripFlusher d)

/-- second half of `recv`: `self.stream.read(length + len(self.FLUSHER))` and what follows -/
def recvBody (z : ZlibFns) (h : Bytes) : ReadRes × RState → RecvRes × RState
  | (.ok d, s) => (finishPacket z h d, s)
  | (.eof, s) => (.err .eofError, s)
  | (.starved, s) => (.starved, s)

/-- first half of `recv`, after `header = self.stream.read(self.FRAME_HEADER.size)` -/
def recvHeader (z : ZlibFns) (retry : Bool) (maxChunk : Nat) : ReadRes × RState → RecvRes × RState
  | (.ok h, s) => recvBody z h (readExact retry maxChunk (headerLen h + Gen.flusher.length) s)
  | (.eof, s) => (.err .eofError, s)
  | (.starved, s) => (.starved, s)

/-- `Channel.recv()`.  The receiving channel's own `compress` setting plays no part. -/
def recvPacket (z : ZlibFns) (retry : Bool) (maxChunk : Nat) (s : RState) : RecvRes × RState :=
  recvHeader z retry maxChunk (readExact retry maxChunk Gen.frameHeaderSize s)

/-- how a series of calls ended -/
inductive Outcome where
  | done | err (e : Err) | starved
  deriving DecidableEq, Repr

def recvCons (p : Bytes) : List Bytes × Outcome × RState → List Bytes × Outcome × RState
  | (ps, o, s) => (p :: ps, o, s)

/-- `n` calls of `recv()`, stopping at the first that does not return: the packets, how it ended, the stream -/
def recvMany (z : ZlibFns) (retry : Bool) (maxChunk : Nat) : Nat → RState → List Bytes × Outcome × RState
  | 0, s => ([], .done, s)
  | n + 1, s =>
    match recvPacket z retry maxChunk s with
    | (.ok p, s') => recvCons p (recvMany z retry maxChunk n s')
    | (.err e, s') => ([], .err e, s')
    | (.starved, s') => ([], .starved, s')

/-! ### the writing side: `SocketStream.write` / `PipeStream.write` -/

/-- what one `sock.send(data)` / `os.write(fd, data)` call does -/
inductive SendEv where
  /-- accepts the first `min k len(data)` bytes and returns that number -/
  | accept (k : Nat)
  /-- raises `socket.timeout` -/
  | timeout
  /-- raises `socket.error` / `OSError` with this errno -/
  | err (errno : Nat)
  deriving DecidableEq, Repr

/-- the sending stream: what the transport has accepted so far (chunks, most recent first), the
script, `stream.closed` -/
structure WState where
  chunks : List Bytes
  script : List SendEv
  closed : Bool
  deriving DecidableEq, Repr

/-- every byte the transport has accepted, in order -/
def WState.sent (s : WState) : Bytes := s.chunks.reverse.flatten

inductive WriteRes where
  | ok | eof | starved
  deriving DecidableEq, Repr

/-- `while data: count = self.sock.send(data[:MAX_IO_CHUNK]); data = data[count:]`; every `socket.error`
(a timeout and EAGAIN included) closes the stream and raises `EOFError` -/
def writeLoop (maxChunk : Nat) : List SendEv → Bytes → List Bytes → WriteRes × WState
  | script, [], acc => (.ok, ⟨acc, script, false⟩)
  | [], _ :: _, acc => (.starved, ⟨acc, [], false⟩)
  | .accept k :: rest, b :: bs, acc =>
    writeLoop maxChunk rest ((b :: bs).drop (min k (min maxChunk (b :: bs).length)))
      ((b :: bs).take (min k (min maxChunk (b :: bs).length)) :: acc)
  | .timeout :: rest, _ :: _, acc => (.eof, ⟨acc, rest, true⟩)
  | .err _ :: rest, _ :: _, acc => (.eof, ⟨acc, rest, true⟩)

/-- `stream.write(data)`.  Empty data does nothing (also on a closed stream); on a closed stream the
`send` attribute of `ClosedFile` raises `EOFError`. -/
def writeAll (maxChunk : Nat) (data : Bytes) (s : WState) : WriteRes × WState :=
  if data = [] then (.ok, s)
  else if s.closed then (.eof, s)
  else writeLoop maxChunk s.script data s.chunks

def writeSeqNext (r : WriteRes × WState) (k : WState → WriteRes × WState) : WriteRes × WState :=
  match r with
  | (.ok, s) => k s
  | other => other

/-- consecutive `stream.write` calls; an exception ends the series -/
def writeSeq (maxChunk : Nat) : List Bytes → WState → WriteRes × WState
  | [], s => (.ok, s)
  | w :: ws, s => writeSeqNext (writeAll maxChunk w s) (writeSeq maxChunk ws)

inductive SendRes where
  | ok | err (e : Err) | starved
  deriving DecidableEq, Repr

def sendResOf : WriteRes × WState → SendRes × WState
  | (.ok, s) => (.ok, s)
  | (.eof, s) => (.err .eofError, s)
  | (.starved, s) => (.starved, s)

/-- `Channel.send(data)` on a stream whose `MAX_IO_CHUNK` is `maxChunk` -/
def chanSend (z : ZlibFns) (compress : Bool) (maxChunk : Nat) (data : Bytes) (s : WState) : SendRes × WState :=
  match sendWrites z compress maxChunk data with
  | .error e => (.err e, s)
  | .ok ws => sendResOf (writeSeq maxChunk ws s)

def sendCount : Nat × Outcome × WState → Nat × Outcome × WState
  | (n, o, s) => (n + 1, o, s)

/-- `send(p)` for each packet in turn, stopping at the first that raises: how many returned, how it ended -/
def sendMany (z : ZlibFns) (compress : Bool) (maxChunk : Nat) : List Bytes → WState → Nat × Outcome × WState
  | [], s => (0, .done, s)
  | p :: ps, s =>
    match chanSend z compress maxChunk p s with
    | (.ok, s') => sendCount (sendMany z compress maxChunk ps s')
    | (.err e, s') => (0, .err e, s')
    | (.starved, s') => (0, .starved, s')

/-- the byte stream of a sequence of packets -/
def wireOf (z : ZlibFns) (compress : Bool) (ps : List Bytes) : Bytes :=
  ps.flatMap (frameBytes z compress)

/-- the payload's length fits the header's length field (Python: `struct.error` otherwise) -/
def Fits (z : ZlibFns) (compress : Bool) (p : Bytes) : Prop :=
  (payload z compress p).length < 256 ^ Gen.frameLenWidth

/-! ### script vocabulary used by the theorems -/

/-- an event that is not a failure: data (at least one byte offered), or — on a socket — a transient
timeout / would-block condition -/
def benign (retry : Bool) : RecvEv → Bool
  | .chunk k => decide (1 ≤ k)
  | .timeout => retry
  | .err e => retry && retryErrno e
  | .eof => false

def isChunk : RecvEv → Bool
  | .chunk _ => true
  | _ => false

/-- number of data-delivering events of a script -/
def progress (script : List RecvEv) : Nat := script.countP isChunk

/-- a send event that accepts at least one byte -/
def accepting : SendEv → Bool
  | .accept k => decide (1 ≤ k)
  | _ => false

end Rpyc.Wire
