import RpycModel.Wire.Lemmas
/-
`Channel.recv` over a wire that is a prefix of a stream of frames: helper lemmas for C05.
-/
namespace Rpyc.Wire
open Rpyc

/-- the three ways a call can end, for `recv()` -/
def RecvEnd (r : RecvRes × RState) : Prop :=
  (r.1 = .err .eofError ∧ r.2.closed = true) ∨ (r.1 = .starved ∧ r.2.script = [] ∧ r.2.closed = false)

/-- One `recv()` when the stream still to come is ANY prefix of `frame p ++ rest` (the sender may have
died anywhere), under ANY script: it returns exactly `p` having consumed exactly that frame, or raises
`EOFError` with the stream closed, or blocks with the script used up. -/
theorem recvPacket_prefix (z : Zlib) (c retry : Bool) (maxChunk : Nat) (p rest : Bytes) (s : RState)
    (hf : Fits z.toZlibFns c p) (hw : s.wire <+: frameBytes z.toZlibFns c p ++ rest) :
    (∃ pre, s.script = pre ++ (recvPacket z.toZlibFns retry maxChunk s).2.script) ∧
    (((recvPacket z.toZlibFns retry maxChunk s).1 = .ok p
        ∧ s.wire = frameBytes z.toZlibFns c p ++ (recvPacket z.toZlibFns retry maxChunk s).2.wire
        ∧ (recvPacket z.toZlibFns retry maxChunk s).2.closed = s.closed) ∨
     RecvEnd (recvPacket z.toZlibFns retry maxChunk s)) := by
  unfold recvPacket RecvEnd
  have H1 := readExact_cases retry maxChunk Gen.frameHeaderSize s
  cases hr1 : readExact retry maxChunk Gen.frameHeaderSize s with
  | mk res1 s1 =>
  rw [hr1] at H1
  obtain ⟨⟨pre1, hpre1⟩, H1⟩ := H1
  simp only at hpre1 H1
  rcases H1 with ⟨e1, hle1, hw1, hc1⟩ | ⟨e1, hc1⟩ | ⟨e1, hs1, hc1⟩
  · -- the header arrived
    subst e1
    simp only [recvHeader]
    have hh : s.wire.take Gen.frameHeaderSize
        = headerBytes (payload z.toZlibFns c p).length (flag c p) := by
      rw [← prefix_take hw hle1]
      unfold frameBytes
      rw [List.append_assoc]
      exact List.take_left' (headerBytes_length _ _)
    rw [hh, headerLen_headerBytes _ hf]
    have hw1' : s1.wire <+: (payload z.toZlibFns c p ++ Gen.flusher) ++ rest := by
      have := prefix_drop hw hle1
      rw [← hw1] at this
      unfold frameBytes at this
      rw [List.append_assoc, List.drop_left' (headerBytes_length _ _)] at this
      exact this
    have H2 := readExact_cases retry maxChunk ((payload z.toZlibFns c p).length + Gen.flusher.length) s1
    cases hr2 : readExact retry maxChunk ((payload z.toZlibFns c p).length + Gen.flusher.length) s1 with
    | mk res2 s2 =>
    rw [hr2] at H2
    obtain ⟨⟨pre2, hpre2⟩, H2⟩ := H2
    simp only at hpre2 H2
    refine ⟨⟨pre1 ++ pre2, ?_⟩, ?_⟩
    · cases res2 <;> simp only [recvBody] <;> rw [hpre1, hpre2, List.append_assoc]
    rcases H2 with ⟨e2, hle2, hw2, hc2⟩ | ⟨e2, hc2⟩ | ⟨e2, hs2, hc2⟩
    · subst e2
      simp only [recvBody]
      have hd : s1.wire.take ((payload z.toZlibFns c p).length + Gen.flusher.length)
          = payload z.toZlibFns c p ++ Gen.flusher := by
        rw [← prefix_take hw1' hle2]
        exact List.take_left' (by simp)
      rw [hd, finishPacket_frame]
      refine Or.inl ⟨rfl, ?_, by rw [hc2, hc1]⟩
      have e := List.take_append_drop Gen.frameHeaderSize s.wire
      have e2 := List.take_append_drop ((payload z.toZlibFns c p).length + Gen.flusher.length) s1.wire
      rw [hh, ← hw1, ← e2, hd, ← hw2] at e
      rw [← e]
      unfold frameBytes
      simp [List.append_assoc]
    · subst e2
      simp only [recvBody]
      exact Or.inr (Or.inl ⟨trivial, hc2⟩)
    · subst e2
      simp only [recvBody]
      exact Or.inr (Or.inr ⟨trivial, hs2, hc2⟩)
  · subst e1
    simp only [recvHeader]
    exact ⟨⟨pre1, hpre1⟩, Or.inr (Or.inl ⟨trivial, hc1⟩)⟩
  · subst e1
    simp only [recvHeader]
    exact ⟨⟨pre1, hpre1⟩, Or.inr (Or.inr ⟨trivial, hs1, hc1⟩)⟩

/-- `recv()` with nothing left to come never returns a packet -/
theorem recvPacket_nil (z : ZlibFns) (retry : Bool) (maxChunk : Nat) (s : RState) (hw : s.wire = []) :
    RecvEnd (recvPacket z retry maxChunk s) := by
  unfold recvPacket RecvEnd
  have H1 := readExact_cases retry maxChunk Gen.frameHeaderSize s
  cases hr1 : readExact retry maxChunk Gen.frameHeaderSize s with
  | mk res1 s1 =>
  rw [hr1] at H1
  obtain ⟨_, H1⟩ := H1
  simp only at H1
  rcases H1 with ⟨_, hle1, _, _⟩ | ⟨e1, hc1⟩ | ⟨e1, hs1, hc1⟩
  · rw [hw] at hle1
    have := hdrSize_pos
    simp at hle1; omega
  · subst e1; simp only [recvHeader]; exact Or.inl ⟨trivial, hc1⟩
  · subst e1; simp only [recvHeader]; exact Or.inr ⟨trivial, hs1, hc1⟩

/-- how a series of `recv()` calls on a dying / misbehaving transport can end -/
def ManyEnd (n : Nat) (r : List Bytes × Outcome × RState) : Prop :=
  (r.2.1 = .done ∧ r.1.length = n) ∨
  (r.2.1 = .err .eofError ∧ r.2.2.closed = true) ∨
  (r.2.1 = .starved ∧ r.2.2.script = [] ∧ r.2.2.closed = false)

theorem recvMany_prefix_aux (z : Zlib) (c retry : Bool) (maxChunk : Nat) :
    ∀ (n : Nat) (ps : List Bytes) (s : RState),
      (∀ p ∈ ps, Fits z.toZlibFns c p) → s.wire <+: wireOf z.toZlibFns c ps →
      (recvMany z.toZlibFns retry maxChunk n s).1 <+: ps ∧ ManyEnd n (recvMany z.toZlibFns retry maxChunk n s) := by
  intro n
  induction n with
  | zero =>
    intro ps s _ _
    simp only [recvMany]
    exact ⟨List.nil_prefix, Or.inl ⟨rfl, rfl⟩⟩
  | succ n ih =>
    intro ps s hf hw
    simp only [recvMany]
    cases ps with
    | nil =>
      have hnil : s.wire = [] := by simpa using hw
      have H := recvPacket_nil z.toZlibFns retry maxChunk s hnil
      cases hr : recvPacket z.toZlibFns retry maxChunk s with
      | mk res s' =>
      rw [hr] at H
      unfold RecvEnd at H
      simp only at H
      rcases H with ⟨e, hc⟩ | ⟨e, hs, hc⟩
      · subst e; exact ⟨List.nil_prefix, Or.inr (Or.inl ⟨rfl, hc⟩)⟩
      · subst e; exact ⟨List.nil_prefix, Or.inr (Or.inr ⟨rfl, hs, hc⟩)⟩
    | cons p ps' =>
      rw [wireOf_cons] at hw
      have H := recvPacket_prefix z c retry maxChunk p (wireOf z.toZlibFns c ps') s (hf p (by simp)) hw
      cases hr : recvPacket z.toZlibFns retry maxChunk s with
      | mk res s' =>
      rw [hr] at H
      obtain ⟨_, H⟩ := H
      unfold RecvEnd at H
      simp only at H
      rcases H with ⟨e, hsw, _⟩ | ⟨e, hc⟩ | ⟨e, hs, hc⟩
      · subst e
        simp only
        have hw' : s'.wire <+: wireOf z.toZlibFns c ps' := by
          rw [hsw] at hw
          exact (List.prefix_append_right_inj _).mp hw
        obtain ⟨i1, i2⟩ := ih ps' s' (fun q hq => hf q (by simp [hq])) hw'
        cases hrm : recvMany z.toZlibFns retry maxChunk n s' with
        | mk got rest =>
        cases rest with
        | mk o s'' =>
        rw [hrm] at i1 i2
        simp only [recvCons]
        refine ⟨(List.prefix_cons_inj p).mpr i1, ?_⟩
        unfold ManyEnd at i2 ⊢
        simp only at i2 ⊢
        rcases i2 with ⟨a, b⟩ | h | h
        · exact Or.inl ⟨a, by simp [b]⟩
        · exact Or.inr (Or.inl h)
        · exact Or.inr (Or.inr h)
      · subst e; exact ⟨List.nil_prefix, Or.inr (Or.inl ⟨rfl, hc⟩)⟩
      · subst e; exact ⟨List.nil_prefix, Or.inr (Or.inr ⟨rfl, hs, hc⟩)⟩

/-! ### scripts without failures -/

/-- one `recv()` on a full frame under a failure-free script with enough data events -/
theorem recvPacket_benign (z : Zlib) (c retry : Bool) (maxChunk : Nat) (hmax : 1 ≤ maxChunk)
    (p rest : Bytes) (s : RState) (hf : Fits z.toZlibFns c p)
    (hw : s.wire = frameBytes z.toZlibFns c p ++ rest)
    (hb : ∀ ev ∈ s.script, benign retry ev = true) (hcl : s.closed = false)
    (hp : (frameBytes z.toZlibFns c p).length ≤ progress s.script) :
    (recvPacket z.toZlibFns retry maxChunk s).1 = .ok p ∧
    (recvPacket z.toZlibFns retry maxChunk s).2.wire = rest ∧
    (recvPacket z.toZlibFns retry maxChunk s).2.closed = false ∧
    (∀ ev ∈ (recvPacket z.toZlibFns retry maxChunk s).2.script, benign retry ev = true) ∧
    progress s.script ≤ progress (recvPacket z.toZlibFns retry maxChunk s).2.script
      + (frameBytes z.toZlibFns c p).length := by
  rw [frameBytes_length] at hp ⊢
  have hlen : s.wire.length = Gen.frameHeaderSize + ((payload z.toZlibFns c p).length + Gen.flusher.length)
      + rest.length := by
    rw [hw, List.length_append, frameBytes_length]
  have H1 := readExact_benign retry maxChunk hmax Gen.frameHeaderSize s hb hcl (by omega) (by omega)
  unfold recvPacket
  cases hr1 : readExact retry maxChunk Gen.frameHeaderSize s with
  | mk res1 s1 =>
  rw [hr1] at H1
  simp only at H1
  obtain ⟨e1, hw1, hc1, hb1, hp1⟩ := H1
  subst e1
  simp only [recvHeader]
  have hh : s.wire.take Gen.frameHeaderSize = headerBytes (payload z.toZlibFns c p).length (flag c p) := by
    rw [hw]; unfold frameBytes; rw [List.append_assoc]
    exact List.take_left' (headerBytes_length _ _)
  have hw1' : s1.wire = (payload z.toZlibFns c p ++ Gen.flusher) ++ rest := by
    rw [hw1, hw]; unfold frameBytes; rw [List.append_assoc]
    exact List.drop_left' (headerBytes_length _ _)
  rw [hh, headerLen_headerBytes _ hf]
  have hlen1 : s1.wire.length = (payload z.toZlibFns c p).length + Gen.flusher.length + rest.length := by
    rw [hw1']; simp; omega
  have H2 := readExact_benign retry maxChunk hmax ((payload z.toZlibFns c p).length + Gen.flusher.length) s1
    hb1 hc1 (by omega) (by omega)
  cases hr2 : readExact retry maxChunk ((payload z.toZlibFns c p).length + Gen.flusher.length) s1 with
  | mk res2 s2 =>
  rw [hr2] at H2
  simp only at H2
  obtain ⟨e2, hw2, hc2, hb2, hp2⟩ := H2
  subst e2
  simp only [recvBody]
  have hd : s1.wire.take ((payload z.toZlibFns c p).length + Gen.flusher.length)
      = payload z.toZlibFns c p ++ Gen.flusher := by
    rw [hw1']; exact List.take_left' (by simp)
  rw [hd, finishPacket_frame]
  refine ⟨rfl, ?_, hc2, hb2, by omega⟩
  rw [hw2, hw1']
  exact List.drop_left' (by simp)

theorem wireOf_length_cons (z : ZlibFns) (c : Bool) (p : Bytes) (ps : List Bytes) :
    (wireOf z c (p :: ps)).length = (frameBytes z c p).length + (wireOf z c ps).length := by
  rw [wireOf_cons, List.length_append]

theorem recvMany_benign (z : Zlib) (c retry : Bool) (maxChunk : Nat) (hmax : 1 ≤ maxChunk) :
    ∀ (ps : List Bytes) (rest : Bytes) (s : RState),
      (∀ p ∈ ps, Fits z.toZlibFns c p) → s.wire = wireOf z.toZlibFns c ps ++ rest →
      (∀ ev ∈ s.script, benign retry ev = true) → s.closed = false →
      (wireOf z.toZlibFns c ps).length ≤ progress s.script →
      (recvMany z.toZlibFns retry maxChunk ps.length s).1 = ps ∧
      (recvMany z.toZlibFns retry maxChunk ps.length s).2.1 = .done ∧
      (recvMany z.toZlibFns retry maxChunk ps.length s).2.2.wire = rest ∧
      (recvMany z.toZlibFns retry maxChunk ps.length s).2.2.closed = false := by
  intro ps
  induction ps with
  | nil =>
    intro rest s _ hw _ hcl _
    simp only [List.length_nil, recvMany]
    exact ⟨trivial, trivial, by simpa using hw, hcl⟩
  | cons p ps ih =>
    intro rest s hf hw hb hcl hp
    rw [wireOf_cons, List.append_assoc] at hw
    rw [wireOf_length_cons] at hp
    have H := recvPacket_benign z c retry maxChunk hmax p (wireOf z.toZlibFns c ps ++ rest) s
      (hf p (by simp)) hw hb hcl (by omega)
    simp only [List.length_cons, recvMany]
    cases hr : recvPacket z.toZlibFns retry maxChunk s with
    | mk res s' =>
    rw [hr] at H
    simp only at H
    obtain ⟨e, hw', hc', hb', hp'⟩ := H
    subst e
    simp only
    obtain ⟨i1, i2, i3, i4⟩ := ih rest s' (fun q hq => hf q (by simp [hq])) hw' hb' hc' (by omega)
    cases hrm : recvMany z.toZlibFns retry maxChunk ps.length s' with
    | mk got r2 =>
    cases r2 with
    | mk o s'' =>
    rw [hrm] at i1 i2 i3 i4
    simp only at i1 i2 i3 i4
    simp only [recvCons]
    exact ⟨by rw [i1], i2, i3, i4⟩

end Rpyc.Wire
