import RpycModel.Wire.Lemmas
/-
`SocketStream.write` / `PipeStream.write` and `Channel.send` over a scripted transport: helper lemmas for C05.
-/
namespace Rpyc.Wire
open Rpyc

/-! ### `Channel.send`'s writes -/

theorem sendWrites_flatten (z : ZlibFns) (c : Bool) (maxChunk : Nat) (p : Bytes) (ws : List Bytes)
    (h : sendWrites z c maxChunk p = .ok ws) : frame z c p = .ok ws.flatten := by
  unfold sendWrites at h
  unfold frame
  cases hp : packHeader (payload z c p).length (flag c p) with
  | error e => rw [hp] at h; cases h
  | ok hd =>
    rw [hp] at h
    simp only at h ⊢
    split at h
    · injection h with h; subst h; simp
    · split at h
      · cases h
      · injection h with h; subst h
        simp only [List.flatten_cons, List.flatten_nil, List.append_nil, List.append_assoc]
        rw [← List.append_assoc ((payload z c p).take _), List.take_append_drop]

theorem sendWrites_ok (z : ZlibFns) (c : Bool) (maxChunk : Nat) (p : Bytes) (hf : Fits z c p)
    (hmax : Gen.frameHeaderSize ≤ maxChunk) :
    ∃ ws, sendWrites z c maxChunk p = .ok ws ∧ ws.flatten = frameBytes z c p := by
  have hok : ∃ ws, sendWrites z c maxChunk p = .ok ws := by
    unfold sendWrites
    rw [packHeader_of_fits hf]
    simp only
    split
    · exact ⟨_, rfl⟩
    · rw [if_neg (by omega)]; exact ⟨_, rfl⟩
  obtain ⟨ws, hws⟩ := hok
  refine ⟨ws, hws, ?_⟩
  have := sendWrites_flatten z c maxChunk p ws hws
  rw [frame_of_fits hf] at this
  injection this with this
  exact this.symm

/-! ### `write` -/

/-- the three ways a `write`-like call can end; `full` says whether everything was accepted -/
def WriteEnd (closed0 full : Bool) (r : WriteRes × WState) : Prop :=
  (r.1 = .ok ∧ full = true ∧ r.2.closed = closed0) ∨
  (r.1 = .eof ∧ r.2.closed = true) ∨
  (r.1 = .starved ∧ r.2.script = [] ∧ r.2.closed = false)

/-- what a `write`-like call did to the transport: it accepted the first `m` bytes of `data` more -/
def WriteSpec (data : Bytes) (s : WState) (r : WriteRes × WState) : Prop :=
  (∃ pre, s.script = pre ++ r.2.script) ∧
  ∃ m, m ≤ data.length ∧ r.2.sent = s.sent ++ data.take m ∧ WriteEnd s.closed (decide (m = data.length)) r

theorem sent_cons (b : Bytes) (acc : List Bytes) (sc : List SendEv) (cl : Bool) :
    (WState.mk (b :: acc) sc cl).sent = (WState.mk acc sc cl).sent ++ b := by
  simp [WState.sent]

theorem sent_irrel (acc : List Bytes) (sc sc' : List SendEv) (cl cl' : Bool) :
    (WState.mk acc sc cl).sent = (WState.mk acc sc' cl').sent := rfl

theorem writeLoop_spec (maxChunk : Nat) : ∀ (script : List SendEv) (data : Bytes) (acc : List Bytes),
    WriteSpec data ⟨acc, script, false⟩ (writeLoop maxChunk script data acc) := by
  intro script
  induction script with
  | nil =>
    intro data acc
    cases data with
    | nil =>
      simp only [writeLoop]
      exact ⟨⟨[], rfl⟩, 0, Nat.le_refl _, by simp, Or.inl ⟨rfl, by simp, rfl⟩⟩
    | cons b bs =>
      simp only [writeLoop]
      exact ⟨⟨[], rfl⟩, 0, Nat.zero_le _, by simp, Or.inr (Or.inr ⟨rfl, rfl, rfl⟩)⟩
  | cons ev rest ih =>
    intro data acc
    cases data with
    | nil =>
      simp only [writeLoop]
      exact ⟨⟨[], rfl⟩, 0, Nat.le_refl _, by simp, Or.inl ⟨rfl, by simp, rfl⟩⟩
    | cons b bs =>
      cases ev with
      | accept k =>
        simp only [writeLoop]
        generalize hn : min k (min maxChunk (b :: bs).length) = n
        have hnle : n ≤ (b :: bs).length := by omega
        obtain ⟨⟨pre, hpre⟩, m', hm', hsent, hend⟩ := ih ((b :: bs).drop n) ((b :: bs).take n :: acc)
        refine ⟨⟨.accept k :: pre, by simp only [List.cons_append]; exact congrArg _ hpre⟩, n + m', ?_, ?_, ?_⟩
        · rw [List.length_drop] at hm'; omega
        · rw [hsent, sent_cons, List.append_assoc, ← List.take_add]; rfl
        · rw [List.length_drop] at hend
          unfold WriteEnd at hend ⊢
          rcases hend with ⟨a, b', c'⟩ | h | h
          · refine Or.inl ⟨a, ?_, c'⟩
            simp only [decide_eq_true_eq] at b' ⊢; omega
          · exact Or.inr (Or.inl h)
          · exact Or.inr (Or.inr h)
      | timeout =>
        simp only [writeLoop]
        exact ⟨⟨[.timeout], rfl⟩, 0, Nat.zero_le _, by simp [WState.sent], Or.inr (Or.inl ⟨rfl, rfl⟩)⟩
      | err e =>
        simp only [writeLoop]
        exact ⟨⟨[.err e], rfl⟩, 0, Nat.zero_le _, by simp [WState.sent], Or.inr (Or.inl ⟨rfl, rfl⟩)⟩

theorem writeAll_spec (maxChunk : Nat) (data : Bytes) (s : WState) :
    WriteSpec data s (writeAll maxChunk data s) := by
  unfold writeAll
  by_cases hd : data = []
  · rw [if_pos hd]; subst hd
    exact ⟨⟨[], rfl⟩, 0, Nat.le_refl _, by simp, Or.inl ⟨rfl, by simp, rfl⟩⟩
  · rw [if_neg hd]
    obtain ⟨chunks, script, closed⟩ := s
    cases closed with
    | true =>
      rw [if_pos rfl]
      exact ⟨⟨[], rfl⟩, 0, Nat.zero_le _, by simp, Or.inr (Or.inl ⟨rfl, rfl⟩)⟩
    | false =>
      rw [if_neg (by simp)]
      exact writeLoop_spec maxChunk script data chunks

theorem writeSeq_spec (maxChunk : Nat) : ∀ (ws : List Bytes) (s : WState),
    WriteSpec ws.flatten s (writeSeq maxChunk ws s) := by
  intro ws
  induction ws with
  | nil =>
    intro s
    simp only [writeSeq]
    exact ⟨⟨[], rfl⟩, 0, Nat.le_refl _, by simp, Or.inl ⟨rfl, by simp, rfl⟩⟩
  | cons w ws ih =>
    intro s
    simp only [writeSeq]
    have H1 := writeAll_spec maxChunk w s
    cases hr1 : writeAll maxChunk w s with
    | mk res1 s1 =>
    rw [hr1] at H1
    obtain ⟨⟨pre1, hpre1⟩, m1, hm1, hsent1, hend1⟩ := H1
    simp only at hpre1 hsent1
    unfold WriteEnd at hend1
    simp only at hend1
    rcases hend1 with ⟨e, hfull, hc⟩ | ⟨e, hc⟩ | ⟨e, hs, hc⟩
    · subst e
      simp only [writeSeqNext]
      simp only [decide_eq_true_eq] at hfull
      subst hfull
      rw [List.take_length] at hsent1
      obtain ⟨⟨pre2, hpre2⟩, m2, hm2, hsent2, hend2⟩ := ih s1
      refine ⟨⟨pre1 ++ pre2, by rw [hpre1, hpre2, List.append_assoc]⟩, w.length + m2, ?_, ?_, ?_⟩
      · simp only [List.flatten_cons, List.length_append]; omega
      · rw [hsent2, hsent1, List.flatten_cons, List.take_length_add_append, List.append_assoc]
      · unfold WriteEnd at hend2 ⊢
        rw [hc] at hend2
        rcases hend2 with ⟨a, b, c'⟩ | h | h
        · refine Or.inl ⟨a, ?_, c'⟩
          simp only [decide_eq_true_eq, List.flatten_cons, List.length_append] at b ⊢; omega
        · exact Or.inr (Or.inl h)
        · exact Or.inr (Or.inr h)
    · subst e
      simp only [writeSeqNext]
      refine ⟨⟨pre1, hpre1⟩, m1, ?_, ?_, Or.inr (Or.inl ⟨rfl, hc⟩)⟩
      · simp only [List.flatten_cons, List.length_append]; omega
      · rw [hsent1, List.flatten_cons, List.take_append_of_le_length hm1]
    · subst e
      simp only [writeSeqNext]
      refine ⟨⟨pre1, hpre1⟩, m1, ?_, ?_, Or.inr (Or.inr ⟨rfl, hs, hc⟩)⟩
      · simp only [List.flatten_cons, List.length_append]; omega
      · rw [hsent1, List.flatten_cons, List.take_append_of_le_length hm1]

/-! ### `Channel.send` -/

def SendEnd (closed0 full : Bool) (r : SendRes × WState) : Prop :=
  (r.1 = .ok ∧ full = true ∧ r.2.closed = closed0) ∨
  (r.1 = .err .eofError ∧ r.2.closed = true) ∨
  (r.1 = .starved ∧ r.2.script = [] ∧ r.2.closed = false)

/-- `Channel.send(p)` under ANY script: the transport has accepted a prefix of the frame; all of it whenever
`send` returned; otherwise `EOFError` with the stream closed, or blocked with the script used up -/
theorem chanSend_spec (z : ZlibFns) (c : Bool) (maxChunk : Nat) (hmax : Gen.frameHeaderSize ≤ maxChunk)
    (p : Bytes) (s : WState) (hf : Fits z c p) :
    (∃ pre, s.script = pre ++ (chanSend z c maxChunk p s).2.script) ∧
    ∃ m, m ≤ (frameBytes z c p).length ∧
      (chanSend z c maxChunk p s).2.sent = s.sent ++ (frameBytes z c p).take m ∧
      SendEnd s.closed (decide (m = (frameBytes z c p).length)) (chanSend z c maxChunk p s) := by
  obtain ⟨ws, hws, hflat⟩ := sendWrites_ok z c maxChunk p hf hmax
  unfold chanSend
  rw [hws]
  simp only
  have H := writeSeq_spec maxChunk ws s
  rw [hflat] at H
  cases hr : writeSeq maxChunk ws s with
  | mk res s' =>
  rw [hr] at H
  obtain ⟨hpre, m, hm, hsent, hend⟩ := H
  unfold WriteEnd at hend
  simp only at hpre hsent hend
  unfold SendEnd
  rcases hend with ⟨e, a, b⟩ | ⟨e, b⟩ | ⟨e, a, b⟩
  · subst e; exact ⟨hpre, m, hm, hsent, Or.inl ⟨rfl, a, b⟩⟩
  · subst e; exact ⟨hpre, m, hm, hsent, Or.inr (Or.inl ⟨rfl, b⟩)⟩
  · subst e; exact ⟨hpre, m, hm, hsent, Or.inr (Or.inr ⟨rfl, a, b⟩)⟩

def SendManyEnd (closed0 full : Bool) (npk : Nat) (r : Nat × Outcome × WState) : Prop :=
  (r.2.1 = .done ∧ r.1 = npk ∧ full = true ∧ r.2.2.closed = closed0) ∨
  (r.2.1 = .err .eofError ∧ r.2.2.closed = true) ∨
  (r.2.1 = .starved ∧ r.2.2.script = [] ∧ r.2.2.closed = false)

theorem sendMany_spec (z : ZlibFns) (c : Bool) (maxChunk : Nat) (hmax : Gen.frameHeaderSize ≤ maxChunk) :
    ∀ (ps : List Bytes) (s : WState), (∀ p ∈ ps, Fits z c p) →
      (∃ pre, s.script = pre ++ (sendMany z c maxChunk ps s).2.2.script) ∧
      ∃ m, m ≤ (wireOf z c ps).length ∧
        (sendMany z c maxChunk ps s).2.2.sent = s.sent ++ (wireOf z c ps).take m ∧
        SendManyEnd s.closed (decide (m = (wireOf z c ps).length)) ps.length (sendMany z c maxChunk ps s) := by
  intro ps
  induction ps with
  | nil =>
    intro s _
    simp only [sendMany]
    exact ⟨⟨[], rfl⟩, 0, Nat.le_refl _, by simp, Or.inl ⟨rfl, rfl, by simp, rfl⟩⟩
  | cons p ps ih =>
    intro s hf
    simp only [sendMany]
    have H1 := chanSend_spec z c maxChunk hmax p s (hf p (by simp))
    cases hr1 : chanSend z c maxChunk p s with
    | mk res1 s1 =>
    rw [hr1] at H1
    obtain ⟨⟨pre1, hpre1⟩, m1, hm1, hsent1, hend1⟩ := H1
    unfold SendEnd at hend1
    simp only at hpre1 hsent1 hend1
    rcases hend1 with ⟨e, hfull, hc⟩ | ⟨e, hc⟩ | ⟨e, hs, hc⟩
    · subst e
      simp only
      simp only [decide_eq_true_eq] at hfull
      subst hfull
      rw [List.take_length] at hsent1
      obtain ⟨⟨pre2, hpre2⟩, m2, hm2, hsent2, hend2⟩ := ih s1 (fun q hq => hf q (by simp [hq]))
      cases hr2 : sendMany z c maxChunk ps s1 with
      | mk k r2 =>
      cases r2 with
      | mk o s2 =>
      rw [hr2] at hpre2 hsent2 hend2
      simp only at hpre2 hsent2
      simp only [sendCount]
      refine ⟨⟨pre1 ++ pre2, by rw [hpre1, hpre2, List.append_assoc]⟩, (frameBytes z c p).length + m2, ?_, ?_, ?_⟩
      · rw [wireOf_cons, List.length_append]; omega
      · rw [hsent2, hsent1, wireOf_cons, List.take_length_add_append, List.append_assoc]
      · unfold SendManyEnd at hend2 ⊢
        rw [hc] at hend2
        simp only at hend2 ⊢
        rcases hend2 with ⟨a, b, c', d⟩ | h | h
        · refine Or.inl ⟨a, by simp [b], ?_, d⟩
          simp only [decide_eq_true_eq] at c' ⊢
          rw [wireOf_cons, List.length_append]; omega
        · exact Or.inr (Or.inl h)
        · exact Or.inr (Or.inr h)
    · subst e
      simp only
      refine ⟨⟨pre1, hpre1⟩, m1, ?_, ?_, Or.inr (Or.inl ⟨rfl, hc⟩)⟩
      · rw [wireOf_cons, List.length_append]; omega
      · rw [hsent1, wireOf_cons, List.take_append_of_le_length hm1]
    · subst e
      simp only
      refine ⟨⟨pre1, hpre1⟩, m1, ?_, ?_, Or.inr (Or.inr ⟨rfl, hs, hc⟩)⟩
      · rw [wireOf_cons, List.length_append]; omega
      · rw [hsent1, wireOf_cons, List.take_append_of_le_length hm1]

/-! ### transports that accept everything, in pieces of any size -/

theorem writeLoop_accepting (maxChunk : Nat) (hmax : 1 ≤ maxChunk) :
    ∀ (script : List SendEv) (data : Bytes) (acc : List Bytes),
      (∀ ev ∈ script, accepting ev = true) → data.length ≤ script.length →
      (writeLoop maxChunk script data acc).1 = .ok ∧
      script.length ≤ (writeLoop maxChunk script data acc).2.script.length + data.length := by
  intro script
  induction script with
  | nil =>
    intro data acc _ hl
    cases data with
    | nil => simp [writeLoop]
    | cons b bs => simp at hl
  | cons ev rest ih =>
    intro data acc hacc hl
    cases data with
    | nil => simp [writeLoop]
    | cons b bs =>
      have hev := hacc ev (by simp)
      cases ev with
      | accept k =>
        simp only [accepting, decide_eq_true_eq] at hev
        simp only [writeLoop]
        generalize hn : min k (min maxChunk (b :: bs).length) = n
        have hn1 : 1 ≤ n := by simp only [List.length_cons] at hn; omega
        have hnle : n ≤ (b :: bs).length := by omega
        obtain ⟨i1, i2⟩ := ih ((b :: bs).drop n) ((b :: bs).take n :: acc)
          (fun e he => hacc e (by simp [he])) (by rw [List.length_drop]; simp only [List.length_cons] at hl ⊢; omega)
        refine ⟨i1, ?_⟩
        rw [List.length_drop] at i2
        simp only [List.length_cons] at i2 hnle ⊢; omega
      | timeout => simp [accepting] at hev
      | err e => simp [accepting] at hev

theorem accepting_suffix {sc pre sc' : List SendEv} (h : sc = pre ++ sc')
    (hacc : ∀ ev ∈ sc, accepting ev = true) : ∀ ev ∈ sc', accepting ev = true := by
  intro ev hev
  exact hacc ev (by rw [h]; simp [hev])

theorem writeAll_accepting (maxChunk : Nat) (hmax : 1 ≤ maxChunk) (data : Bytes) (s : WState)
    (hcl : s.closed = false) (hacc : ∀ ev ∈ s.script, accepting ev = true)
    (hl : data.length ≤ s.script.length) :
    (writeAll maxChunk data s).1 = .ok ∧
    s.script.length ≤ (writeAll maxChunk data s).2.script.length + data.length := by
  unfold writeAll
  by_cases hd : data = []
  · rw [if_pos hd]; simp
  · rw [if_neg hd, hcl, if_neg (by simp)]
    exact writeLoop_accepting maxChunk hmax s.script data s.chunks hacc hl

theorem writeSeq_accepting (maxChunk : Nat) (hmax : 1 ≤ maxChunk) : ∀ (ws : List Bytes) (s : WState),
    s.closed = false → (∀ ev ∈ s.script, accepting ev = true) → ws.flatten.length ≤ s.script.length →
    (writeSeq maxChunk ws s).1 = .ok ∧
    s.script.length ≤ (writeSeq maxChunk ws s).2.script.length + ws.flatten.length := by
  intro ws
  induction ws with
  | nil => intro s _ _ _; simp [writeSeq]
  | cons w ws ih =>
    intro s hcl hacc hl
    simp only [List.flatten_cons, List.length_append] at hl ⊢
    simp only [writeSeq]
    obtain ⟨a1, a2⟩ := writeAll_accepting maxChunk hmax w s hcl hacc (by omega)
    have H1 := writeAll_spec maxChunk w s
    cases hr1 : writeAll maxChunk w s with
    | mk res1 s1 =>
    rw [hr1] at H1 a1 a2
    simp only at a1 a2
    subst a1
    simp only [writeSeqNext]
    obtain ⟨⟨pre1, hpre1⟩, m1, _, _, hend1⟩ := H1
    simp only at hpre1
    have hc1 : s1.closed = false := by
      unfold WriteEnd at hend1
      simp only at hend1
      rcases hend1 with ⟨_, _, c⟩ | ⟨e, _⟩ | ⟨e, _⟩
      · rw [c, hcl]
      · cases e
      · cases e
    obtain ⟨i1, i2⟩ := ih s1 hc1 (accepting_suffix hpre1 hacc) (by omega)
    exact ⟨i1, by omega⟩

theorem chanSend_accepting (z : ZlibFns) (c : Bool) (maxChunk : Nat)
    (hmax : Gen.frameHeaderSize ≤ maxChunk) (hmax1 : 1 ≤ maxChunk) (p : Bytes) (s : WState)
    (hf : Fits z c p) (hcl : s.closed = false) (hacc : ∀ ev ∈ s.script, accepting ev = true)
    (hl : (frameBytes z c p).length ≤ s.script.length) :
    (chanSend z c maxChunk p s).1 = .ok ∧
    s.script.length ≤ (chanSend z c maxChunk p s).2.script.length + (frameBytes z c p).length := by
  obtain ⟨ws, hws, hflat⟩ := sendWrites_ok z c maxChunk p hf hmax
  unfold chanSend
  rw [hws]
  simp only
  rw [← hflat] at hl ⊢
  obtain ⟨a1, a2⟩ := writeSeq_accepting maxChunk hmax1 ws s hcl hacc hl
  cases hr : writeSeq maxChunk ws s with
  | mk res s' =>
  rw [hr] at a1 a2
  simp only at a1 a2
  subst a1
  exact ⟨rfl, a2⟩

/-- everything is sent when the transport keeps accepting at least one byte per call often enough -/
theorem sendMany_accepting (z : ZlibFns) (c : Bool) (maxChunk : Nat)
    (hmax : Gen.frameHeaderSize ≤ maxChunk) (hmax1 : 1 ≤ maxChunk) :
    ∀ (ps : List Bytes) (s : WState), (∀ p ∈ ps, Fits z c p) → s.closed = false →
      (∀ ev ∈ s.script, accepting ev = true) → (wireOf z c ps).length ≤ s.script.length →
      (sendMany z c maxChunk ps s).1 = ps.length ∧ (sendMany z c maxChunk ps s).2.1 = .done ∧
      (sendMany z c maxChunk ps s).2.2.sent = s.sent ++ wireOf z c ps ∧
      (sendMany z c maxChunk ps s).2.2.closed = false := by
  intro ps
  induction ps with
  | nil => intro s _ hcl _ _; simp [sendMany, hcl]
  | cons p ps ih =>
    intro s hf hcl hacc hl
    rw [wireOf_cons, List.length_append] at hl
    simp only [sendMany]
    obtain ⟨a1, a2⟩ := chanSend_accepting z c maxChunk hmax hmax1 p s (hf p (by simp)) hcl hacc (by omega)
    have H1 := chanSend_spec z c maxChunk hmax p s (hf p (by simp))
    cases hr1 : chanSend z c maxChunk p s with
    | mk res1 s1 =>
    rw [hr1] at H1 a1 a2
    simp only at a1 a2
    subst a1
    simp only
    obtain ⟨⟨pre1, hpre1⟩, m1, _, hsent1, hend1⟩ := H1
    simp only at hpre1 hsent1
    unfold SendEnd at hend1
    simp only at hend1
    rcases hend1 with ⟨_, hfull, hc⟩ | ⟨e, _⟩ | ⟨e, _⟩
    · simp only [decide_eq_true_eq] at hfull
      subst hfull
      rw [List.take_length] at hsent1
      obtain ⟨i1, i2, i3, i4⟩ := ih s1 (fun q hq => hf q (by simp [hq])) (by rw [hc, hcl])
        (accepting_suffix hpre1 hacc) (by omega)
      cases hr2 : sendMany z c maxChunk ps s1 with
      | mk k r2 =>
      cases r2 with
      | mk o s2 =>
      rw [hr2] at i1 i2 i3 i4
      simp only at i1 i2 i3 i4
      simp only [sendCount]
      exact ⟨by simp [i1], i2, by rw [i3, hsent1, wireOf_cons, List.append_assoc], i4⟩
    · cases e
    · cases e

end Rpyc.Wire
