import RpycModel.Vinegar.Model
/-
Helper lemmas for Props/C09.lean: facts about the generated constants (each is a named obligation that
breaks when `vinegar.py` changes one side of a pair of constants that must agree), the attribute loop,
the load of a genuine record, and what every load — of any payload — can and cannot do.
-/
namespace Rpyc.Vinegar
open Rpyc

/-! ### obligations about the generated constants -/

/-- the name `dump` treats as the argument tuple is the attribute `load` assigns with `exc.args = ...` -/
theorem gen_argsName : Gen.Vinegar.argsName = argsAttr := by decide
/-- `dump` sends the version under the name `load` reads it from -/
theorem gen_versionAttr : Gen.Vinegar.loadVersionAttr = Gen.Vinegar.versionAttr := by decide
/-- the version travels under a private name, so `dump` never forwards a received one; same for the traceback -/
theorem gen_versionAttr_ne_args : Gen.Vinegar.versionAttr ≠ argsAttr := by decide
theorem gen_remoteTb_ne_version : Gen.Vinegar.remoteTbAttr ≠ Gen.Vinegar.versionAttr := by decide
theorem gen_versionAttr_skipped : skipped Gen.Vinegar.versionAttr = true := by decide
theorem gen_remoteTb_skipped : skipped Gen.Vinegar.remoteTbAttr = true := by decide
/-- the marker `dump` sends when the version is withheld is the one `load` compares with: no warning -/
theorem versionCheck_denied (tb : Val) : versionCheck tb (.str Gen.Vinegar.versionDenied) = .ok tb := by
  unfold versionCheck
  have h : (Gen.Vinegar.versionDenied == Gen.Vinegar.loadVersionCompare) = true := by decide
  simp [h]
/-- a peer of the same version: the major versions agree, no warning -/
theorem versionCheck_same (tb : Val) : versionCheck tb (.str Gen.Vinegar.versionString) = .ok tb := by
  unfold versionCheck
  have h1 : (Gen.Vinegar.versionString == Gen.Vinegar.loadVersionCompare) = false := by decide
  have h2 : (majorOf Gen.Vinegar.versionString == Gen.Vinegar.versionMajor) = true := by decide
  simp [h1, h2]
/-- `1` is the marker; the fast path exists and (after the repair) requires empty arguments -/
theorem gen_fastPath_shape : Gen.Vinegar.stopFastPathExists = true ∧ Gen.Vinegar.stopFastPathRequiresNoArgs = true := by decide
theorem gen_sliceHashable : Gen.Vinegar.sliceHashable = true := by decide
/-- measured on a probe module with a PEP 562 canary: looking the peer-chosen class name up runs no module code -/
theorem gen_moduleLookupPure : Gen.Vinegar.moduleLookupPure = true := by decide
theorem moduleCodeEvents_nil (r : RecvCfg) (env : Env) (m c : Val) : moduleCodeEvents r env m c = [] := by
  simp [moduleCodeEvents, gen_moduleLookupPure]
theorem moduleLookup_str (env : Env) (m : Val) (c : Str) : moduleLookup env m (.str c) = .ok (env.modAttr m c, c) := by
  simp [moduleLookup, gen_moduleLookupPure]
theorem moduleLookup_exc (env : Env) (m c : Val) (nn : Bool) (cn : Str)
    (h : moduleLookup env m c = .ok (.excClass nn, cn)) : env.modAttr m cn = .excClass nn := by
  unfold moduleLookup at h
  split at h
  · simp only [gen_moduleLookupPure, Bool.not_true, Bool.false_and, Bool.false_eq_true, ↓reduceIte] at h
    have h' := Except.ok.inj h
    have h1 := congrArg Prod.fst h'
    have h2 := congrArg Prod.snd h'
    simp only at h1 h2
    rw [← h2]; exact h1
  · split at h
    · cases h
    · have h' := Except.ok.inj h
      have h1 := congrArg Prod.fst h'
      simp at h1
/-- measured on a probe class with canaries: the instance is made by `cls.__new__(cls)`; `__init__` does not run -/
theorem gen_instantiatesByNew : Gen.Vinegar.instantiatesByNew = true := by decide
theorem instantiationEvent_eq (c : ClsRef) : instantiationEvent c = .new c := by
  simp [instantiationEvent, gen_instantiatesByNew]
/-- measured: `instantiate_oldstyle_exceptions` changes no outcome -/
theorem gen_oldstyleSwitchInert : Gen.Vinegar.oldstyleSwitchInert = true := by decide
theorem loadExc_eq_core (r : RecvCfg) (env : Env) (p : Val) : loadExc r env p = loadCore r env p := by
  simp [loadExc, gen_oldstyleSwitchInert]

/-! ### small facts -/

mutual
theorem hashable_all : ∀ v : Val, hashable v = true
  | .slice a b c => by simp [hashable, gen_sliceHashable, hashable_all a, hashable_all b, hashable_all c]
  | .tuple xs => by simp [hashable, hashableL_all xs]
  | .none | .notImpl | .ellipsis | .bool _ | .int _ | .float _ | .complex _ _ | .bytes _ | .str _ | .fset _ | .other _ => by
    simp [hashable]
theorem hashableL_all : ∀ xs : List Val, hashableL xs = true
  | [] => by simp [hashableL]
  | x :: xs => by simp [hashableL, hashable_all x, hashableL_all xs]
end

theorem lookupAttr_append (n : Str) (xs ys : List (Str × Val)) :
    lookupAttr n (xs ++ ys) = match lookupAttr n xs with
      | some v => some v
      | none => lookupAttr n ys := by
  induction xs with
  | nil => simp [lookupAttr]
  | cons p ps ih =>
    obtain ⟨k, v⟩ := p
    simp only [List.cons_append, lookupAttr]
    split <;> simp_all

theorem lookupAttr_none_of_not_mem (n : Str) (xs : List (Str × Val)) (h : ∀ p ∈ xs, p.1 ≠ n) : lookupAttr n xs = none := by
  induction xs with
  | nil => rfl
  | cons p ps ih =>
    obtain ⟨k, v⟩ := p
    have hk : k ≠ n := h (k, v) (by simp)
    simp only [lookupAttr]
    rw [if_neg (by simpa using hk)]
    exact ih (fun q hq => h q (by simp [hq]))

/-- in an association list with distinct names, looking a member's name up (from either end) finds that member -/
theorem lookupAttr_reverse_of_mem (n : Str) (v : Val) (xs : List (Str × Val))
    (hnd : (xs.map (·.1)).Nodup) (hm : (n, v) ∈ xs) : lookupAttr n xs.reverse = some v := by
  induction xs with
  | nil => cases hm
  | cons p ps ih =>
    obtain ⟨k, w⟩ := p
    simp only [List.map_cons, List.nodup_cons] at hnd
    simp only [List.reverse_cons, lookupAttr_append]
    rcases List.mem_cons.mp hm with heq | hmem
    · cases heq
      have : lookupAttr n ps.reverse = none := by
        apply lookupAttr_none_of_not_mem
        intro q hq
        have hq' : q ∈ ps := by simpa using hq
        intro hqn
        exact hnd.1 (by rw [← hqn]; exact List.mem_map_of_mem hq')
      simp [this, lookupAttr]
    · rw [ih hnd.2 hmem]

/-! ### the sender's lists, as data -/

/-- the (name, value) pairs `dump` sends for a `dir` list -/
def sentAttrs : List DirEntry → List (Str × Val)
  | [] => []
  | d :: ds =>
    if d.name == Gen.Vinegar.argsName then sentAttrs ds
    else if dropped d then sentAttrs ds
    else match d.value with
      | none => sentAttrs ds
      | some o => (d.name, sendable o) :: sentAttrs ds

def pairOf (p : Str × Val) : Val := .tuple [.str p.1, p.2]

theorem walkAttrs_eq (ds : List DirEntry) : walkAttrs ds = (sentAttrs ds).map pairOf := by
  induction ds with
  | nil => rfl
  | cons d ds ih =>
    simp only [walkAttrs, sentAttrs]
    split
    · exact ih
    · split
      · exact ih
      · cases hv : d.value <;> simp [ih, pairOf]

/-- measured: a callable value is not sent -/
theorem gen_skipsCallables : Gen.Vinegar.skipsCallables = true := by decide

theorem dropped_false_of (d : DirEntry) (hs : skipped d.name = false) (hdata : d.isData = true) : dropped d = false := by
  simp [dropped, hs, hdata]

theorem skipped_of_dropped_false (d : DirEntry) (h : dropped d = false) : skipped d.name = false ∧ d.isData = true := by
  simp only [dropped, gen_skipsCallables, Bool.true_and, Bool.or_eq_false_iff, Bool.not_eq_false'] at h
  exact h

theorem sentAttrs_mem (ds : List DirEntry) (d : DirEntry) (o : PyObj) (hd : d ∈ ds) (hv : d.value = some o)
    (hs : dropped d = false) (ha : (d.name == Gen.Vinegar.argsName) = false) :
    (d.name, sendable o) ∈ sentAttrs ds := by
  induction ds with
  | nil => cases hd
  | cons x xs ih =>
    rcases List.mem_cons.mp hd with rfl | hx
    · simp [sentAttrs, hs, ha, hv]
    · have := ih hx
      simp only [sentAttrs]
      split
      · exact this
      · split
        · exact this
        · split
          · exact this
          · exact List.mem_cons_of_mem _ this

theorem sentAttrs_names_sub (ds : List DirEntry) : ∀ p ∈ sentAttrs ds,
    (∃ d ∈ ds, d.name = p.1) ∧ skipped p.1 = false ∧ (p.1 == Gen.Vinegar.argsName) = false := by
  induction ds with
  | nil => intro p hp; cases hp
  | cons x xs ih =>
    intro p hp
    simp only [sentAttrs] at hp
    split at hp
    · obtain ⟨⟨d, hd, hn⟩, h2⟩ := ih p hp; exact ⟨⟨d, List.mem_cons_of_mem _ hd, hn⟩, h2⟩
    · split at hp
      · obtain ⟨⟨d, hd, hn⟩, h2⟩ := ih p hp; exact ⟨⟨d, List.mem_cons_of_mem _ hd, hn⟩, h2⟩
      · split at hp
        · obtain ⟨⟨d, hd, hn⟩, h2⟩ := ih p hp; exact ⟨⟨d, List.mem_cons_of_mem _ hd, hn⟩, h2⟩
        · rcases List.mem_cons.mp hp with rfl | hp'
          · have hdrop : dropped x = false := by
              cases hc : dropped x
              · rfl
              · simp_all
            refine ⟨⟨x, by simp, rfl⟩, (skipped_of_dropped_false x hdrop).1, ?_⟩
            simp_all
          · obtain ⟨⟨d, hd, hn⟩, h2⟩ := ih p hp'; exact ⟨⟨d, List.mem_cons_of_mem _ hd, hn⟩, h2⟩

theorem sentAttrs_nodup (ds : List DirEntry) (h : (ds.map (·.name)).Nodup) : ((sentAttrs ds).map (·.1)).Nodup := by
  induction ds with
  | nil => simp [sentAttrs]
  | cons x xs ih =>
    simp only [List.map_cons, List.nodup_cons] at h
    simp only [sentAttrs]
    split
    · exact ih h.2
    · split
      · exact ih h.2
      · split
        · exact ih h.2
        · simp only [List.map_cons, List.nodup_cons]
          refine ⟨?_, ih h.2⟩
          intro hmem
          obtain ⟨p, hp, hpn⟩ := List.mem_map.mp hmem
          obtain ⟨⟨d, hd, hn⟩, _⟩ := sentAttrs_names_sub xs p hp
          exact h.1 (by rw [← hpn, ← hn]; exact List.mem_map_of_mem hd)

/-- how many times `dir(val)` lists `args` -/
def argsCount (ds : List DirEntry) : Nat := (ds.filter (fun d => d.name == Gen.Vinegar.argsName)).length

theorem walkArgs_once (e : ExcRec) (ds : List DirEntry) (h : argsCount ds = 1) : walkArgs e ds = e.args.map sendable := by
  have zero : ∀ ds : List DirEntry, argsCount ds = 0 → walkArgs e ds = [] := by
    intro ds
    induction ds with
    | nil => intro _; rfl
    | cons d ds ih =>
      intro h0
      simp only [argsCount, List.filter_cons] at h0
      simp only [walkArgs]
      split
      · rename_i hd; simp [hd] at h0
      · rename_i hd; simp [hd] at h0; exact ih (by simpa [argsCount] using h0)
  induction ds with
  | nil => simp [argsCount] at h
  | cons d ds ih =>
    simp only [argsCount, List.filter_cons] at h
    simp only [walkArgs]
    split
    · rename_i hd
      simp [hd] at h
      rw [zero ds (by simpa [argsCount] using h)]
      simp
    · rename_i hd
      simp [hd] at h
      exact ih (by simpa [argsCount] using h)

/-! ### the attribute loop -/

theorem assignAttr_cls (env : Env) (o o' : ExcObj) (n v : Val) (h : assignAttr env o n v = .ok o') : o'.cls = o.cls := by
  unfold assignAttr at h
  split at h
  · split at h
    · split at h
      · cases h
      · cases h; rfl
    · split at h
      · cases h; rfl
      · cases h; rfl
      · cases h
  · cases h

theorem assignAll_cls (env : Env) (items : List Val) : ∀ (o o' : ExcObj), assignAll env o items = .ok o' → o'.cls = o.cls := by
  induction items with
  | nil => intro o o' h; simp [assignAll] at h; cases h; rfl
  | cons x xs ih =>
    intro o o' h
    simp only [assignAll] at h
    split at h
    · cases h
    · split at h
      · cases h
      · rename_i o1 h1
        rw [ih o1 o' h, assignAttr_cls env o o1 _ _ h1]

/-- a list of well-formed pairs whose names are plain attributes the class stores: every one is stored, in order -/
theorem assignAll_store (env : Env) (ps : List (Str × Val)) : ∀ (o : ExcObj),
    (∀ p ∈ ps, p.1 ≠ argsAttr ∧ env.setattr o.cls p.1 p.2 = .store) →
    assignAll env o (ps.map pairOf) = .ok { o with attrs := ps.reverse ++ o.attrs } := by
  induction ps with
  | nil => intro o _; simp [assignAll]
  | cons p ps ih =>
    intro o h
    obtain ⟨hn, hs⟩ := h p (by simp)
    have hne : (p.1 == argsAttr) = false := by simpa using hn
    simp only [List.map_cons, assignAll, pairOf, unpack2, iter, assignAttr, hne, hs, Bool.false_eq_true, ↓reduceIte]
    rw [ih]
    · simp
    · intro q hq
      exact h q (List.mem_cons_of_mem _ hq)

theorem build_cls (env : Env) (cls : ClsRef) (args attrs tb : Val) (o : ExcObj)
    (h : build env cls args attrs tb = .ok o) : o.cls = cls := by
  unfold build at h
  split at h
  · cases h
  · split at h
    · cases h
    · split at h
      · cases h
      · rename_i o1 h1
        split at h
        · cases h
        · cases h
          exact assignAll_cls env _ _ _ h1

end Rpyc.Vinegar
