import RpycModel.Vinegar.Lemmas
/-
The load of a genuine record (what `dumpExc` produced), and what the load of ANY payload can do:
which events it can produce and which classes it can instantiate.
-/
namespace Rpyc.Vinegar
open Rpyc

/-! ### a genuine record -/

def verText (s : SendCfg) : Str := if s.includeVer then Gen.Vinegar.versionString else Gen.Vinegar.versionDenied

/-- the text that travels in the traceback field: the formatted traceback when the sender allows it — the "unavailable"
literal when the traceback module itself fails on this exception —, the "denied" marker otherwise -/
def tbShown (s : SendCfg) (e : ExcRec) : Str :=
  if s.includeTb then
    match e.tbText with
    | .ok t => t
    | .error _ => Gen.Vinegar.tracebackUnavailable
  else Gen.Vinegar.tracebackDenied

/-- obligation on the source: formatting the traceback is guarded (a failure of the traceback module must not cost the
exception its arguments) -/
theorem gen_tbFormatGuarded : Gen.Vinegar.tbFormatGuarded = true := by decide

theorem tbField_eq (s : SendCfg) (e : ExcRec) : tbField s e = .ok (.str (tbShown s e)) := by
  unfold tbField tbShown
  cases s.includeTb
  · simp
  · cases e.tbText <;> simp [gen_tbFormatGuarded]

theorem dumpExc_ok (s : SendCfg) (e : ExcRec) (hnf : fastPath e = false) (hw : e.walkRaises = none) :
    dumpExc s e = .ok (recordPayload s e (.str (tbShown s e))) := by
  simp [dumpExc, hnf, tbField_eq, hw]

/-- the object the receiver builds from a genuine record once the class is settled -/
def received (s : SendCfg) (e : ExcRec) (cls : ClsRef) : ExcObj :=
  ⟨cls, walkArgs e e.dir,
   (Gen.Vinegar.remoteTbAttr, Val.str (tbShown s e))
     :: (sentAttrs e.dir ++ [(Gen.Vinegar.versionAttr, Val.str (verText s))]).reverse⟩

/-- the receiver's class stores every attribute the sender sends, and the version attribute
(an environment hypothesis: instances get a `__dict__` from `Derived`, and the data attributes of the built-in
classes are writable members; a read-only property would be `swallowed` instead) -/
def Writable (env : Env) (cls : ClsRef) (e : ExcRec) : Prop :=
  (∀ p ∈ sentAttrs e.dir, env.setattr cls p.1 p.2 = .store) ∧ ∀ v, env.setattr cls Gen.Vinegar.versionAttr v = .store

theorem versionCheck_verText (s : SendCfg) (tb : Val) : versionCheck tb (.str (verText s)) = .ok tb := by
  unfold verText
  cases s.includeVer
  · simpa using versionCheck_denied tb
  · simpa using versionCheck_same tb

theorem build_record (env : Env) (s : SendCfg) (e : ExcRec) (cls : ClsRef) (hw : Writable env cls e) :
    build env cls (.tuple (walkArgs e e.dir)) (.tuple (walkAttrs e.dir ++ [versionPair s])) (.str (tbShown s e))
      = .ok (received s e cls) := by
  have hlist : walkAttrs e.dir ++ [versionPair s]
      = (sentAttrs e.dir ++ [(Gen.Vinegar.versionAttr, Val.str (verText s))]).map pairOf := by
    simp [walkAttrs_eq, versionPair, pairOf, verText]
  have hall : ∀ p ∈ sentAttrs e.dir ++ [(Gen.Vinegar.versionAttr, Val.str (verText s))],
      p.1 ≠ argsAttr ∧ env.setattr (ExcObj.mk cls (walkArgs e e.dir) []).cls p.1 p.2 = .store := by
    intro p hp
    rcases List.mem_append.mp hp with h1 | h2
    · obtain ⟨_, _, ha⟩ := sentAttrs_names_sub e.dir p h1
      refine ⟨?_, hw.1 p h1⟩
      rw [← gen_argsName]
      simpa using ha
    · have : p = (Gen.Vinegar.versionAttr, Val.str (verText s)) := by simpa using h2
      subst this
      exact ⟨gen_versionAttr_ne_args, hw.2 _⟩
  unfold build
  simp only [iter]
  rw [hlist, assignAll_store env _ _ hall]
  simp [remoteVersion, ExcObj.get, lookupAttr, gen_versionAttr, versionCheck_verText, received]

theorem isStopMarker_tuple (xs : List Val) : isStopMarker (.tuple xs) = false := rfl

/-- loading what `dump` made of a record that did not take the fast path: straight to `instantiate` -/
theorem loadExc_record (s : SendCfg) (r : RecvCfg) (env : Env) (e : ExcRec) (cls : ClsRef) (nn : Bool)
    (tb : Val)
    (hres : resolveClass r env (.str e.cls.modname) (.str e.cls.name) = .ok (cls, nn)) :
    loadExc r env (recordPayload s e tb)
      = instantiate env (importEvents r env (.str e.cls.modname)) cls nn (.tuple (walkArgs e e.dir))
          (.tuple (walkAttrs e.dir ++ [versionPair s])) tb := by
  rw [loadExc_eq_core]
  unfold recordPayload loadCore
  simp only [isStopMarker_tuple, Bool.false_eq_true, ↓reduceIte, unpack4, iter, unpack2, loadRecord, hashable_all,
    Bool.not_true, Bool.and_false, hres, moduleCodeEvents_nil, List.append_nil]

theorem instantiate_ok (env : Env) (evs : List Event) (cls : ClsRef) (a b t : Val) (o : ExcObj)
    (h : build env cls a b t = .ok o) :
    instantiate env evs cls false a b t = ⟨evs ++ [.new cls], .ok (.exc o)⟩ := by
  simp [instantiate, h, instantiationEvent_eq]

theorem instantiate_needsArgs (env : Env) (evs : List Event) (cls : ClsRef) (a b t : Val) :
    instantiate env evs cls true a b t = ⟨evs ++ [.new cls], .error .typeError⟩ := by
  simp [instantiate, instantiationEvent_eq]

/-! ### which class -/

def ObjKind.isExc : ObjKind → Bool
  | .excClass _ => true
  | _ => false

/-- a built-in class the receiver knows (under either lookup route) -/
def Known (env : Env) (n : Str) (nn : Bool) : Prop :=
  env.loaded (.str Gen.Vinegar.exceptionsModule) = true
    ∧ env.modAttr (.str Gen.Vinegar.exceptionsModule) n = .excClass nn
    ∧ env.builtinAttr n = .excClass nn

theorem resolveClass_builtin (r : RecvCfg) (env : Env) (n : Str) (nn : Bool) (hk : Known env n nn) :
    resolveClass r env (.str Gen.Vinegar.exceptionsModule) (.str n)
      = .ok (.real (.str Gen.Vinegar.exceptionsModule) n, nn) := by
  obtain ⟨h1, h2, h3⟩ := hk
  unfold resolveClass lookupClass
  cases hi : r.instCustom
  · simp [isBuiltinsName, getattrKind, h3]
  · simp [inModules, h1, moduleLookup_str, h2]

/-- the module route is open: custom instantiation allowed and the module is (or has just been) loaded -/
def moduleRoute (r : RecvCfg) (env : Env) (m : Str) : Bool := r.instCustom && inModules r env (.str m)

/-- the class a non-built-in exception is rebuilt as -/
def customClass (r : RecvCfg) (env : Env) (m c : Str) : ClsRef :=
  if moduleRoute r env m && (env.modAttr (.str m) c).isExc then .real (.str m) c else .generic (m ++ [46] ++ c)

theorem resolveClass_custom (r : RecvCfg) (env : Env) (m c : Str) (hm : m ≠ Gen.Vinegar.exceptionsModule)
    (hname : typeNameCheck (m ++ [46] ++ c) = .ok ()) :
    ∃ nn, resolveClass r env (.str m) (.str c) = .ok (customClass r env m c, nn)
      ∧ (nn = true → customClass r env m c = .real (.str m) c ∧ env.modAttr (.str m) c = .excClass true) := by
  have hb : isBuiltinsName (.str m) = false := by simpa [isBuiltinsName] using hm
  have hgen : genericClass env (.str m) (.str c) = .ok (.generic (m ++ [46] ++ c), false) := by
    simp only [genericClass, fullName, hname]
  unfold resolveClass lookupClass customClass moduleRoute
  cases hi : r.instCustom
  · refine ⟨false, ?_, by simp⟩
    simp [hb, hgen]
  · cases him : inModules r env (.str m)
    · refine ⟨false, ?_, by simp⟩
      simp [hgen]
    · cases hk : env.modAttr (.str m) c with
      | excClass nn => exact ⟨nn, by simp [moduleLookup_str, hk, ObjKind.isExc], by intro h; simp [ObjKind.isExc, h]⟩
      | missing => exact ⟨false, by simp [moduleLookup_str, hk, ObjKind.isExc, hgen], by simp⟩
      | notType => exact ⟨false, by simp [moduleLookup_str, hk, ObjKind.isExc, hgen], by simp⟩
      | typeNotExc => exact ⟨false, by simp [moduleLookup_str, hk, ObjKind.isExc, hgen], by simp⟩

/-! ### every payload -/

/-- what an event of a load may be: an import only when allowed and the module was not loaded; never a constructor -/
def EvOK (r : RecvCfg) (env : Env) : Event → Prop
  | .importAttempt m => r.importCustom = true ∧ env.loaded m = false
  | .new _ => True
  | .init _ => False
  | .moduleCode _ _ => False

theorem importEvents_ok (r : RecvCfg) (env : Env) (m : Val) : ∀ ev ∈ importEvents r env m, EvOK r env ev := by
  intro ev hev
  unfold importEvents at hev
  split at hev
  · rename_i h
    have : ev = .importAttempt m := by simpa using hev
    subst this
    simpa [EvOK, importAttempted] using h
  · cases hev

theorem instantiate_events (env : Env) (evs : List Event) (cls : ClsRef) (nn : Bool) (a b t : Val) :
    (instantiate env evs cls nn a b t).events = evs ++ [.new cls] := by
  unfold instantiate
  rw [instantiationEvent_eq]
  split
  · rfl
  · split <;> rfl

theorem loadRecord_events (r : RecvCfg) (env : Env) (m c a b t : Val) :
    ∀ ev ∈ (loadRecord r env m c a b t).events, EvOK r env ev := by
  intro ev hev
  unfold loadRecord at hev
  split at hev
  · cases hev
  · split at hev
    · rw [moduleCodeEvents_nil, List.append_nil] at hev
      exact importEvents_ok r env m ev hev
    · rw [instantiate_events, moduleCodeEvents_nil, List.append_nil] at hev
      rcases List.mem_append.mp hev with h | h
      · exact importEvents_ok r env m ev h
      · rcases List.mem_singleton.mp h with rfl
        trivial

theorem loadExc_events (r : RecvCfg) (env : Env) (p : Val) : ∀ ev ∈ (loadExc r env p).events, EvOK r env ev := by
  intro ev hev
  rw [loadExc_eq_core] at hev
  unfold loadCore at hev
  split at hev
  · cases hev
  · split at hev
    · cases hev
    · split at hev
      · cases hev
      · split at hev
        · cases hev
        · exact loadRecord_events r env _ _ _ _ _ ev hev

/-- the classes a load may instantiate: the generic stand-in, or an exception class found where the configuration
allows looking -/
def ClsAllowed (r : RecvCfg) (env : Env) : ClsRef → Prop
  | .generic _ => True
  | .real m c => ∃ nn,
      if r.instCustom then inModules r env m = true ∧ env.modAttr m c = .excClass nn
      else isBuiltinsName m = true ∧ env.builtinAttr c = .excClass nn

theorem genericClass_generic (env : Env) (m c : Val) (cls : ClsRef) (nn : Bool)
    (h : genericClass env m c = .ok (cls, nn)) : ∃ fn, cls = .generic fn := by
  unfold genericClass at h
  split at h
  · cases h
  · split at h
    · cases h
    · cases h; exact ⟨_, rfl⟩

theorem getattrKind_ok (c : Val) (f : Str → ObjKind) (k : ObjKind) (cn : Str) (h : getattrKind c f = .ok (k, cn)) :
    c = .str cn ∧ k = f cn := by
  unfold getattrKind at h
  split at h
  · cases h; exact ⟨rfl, rfl⟩
  · cases h

theorem resolveClass_allowed (r : RecvCfg) (env : Env) (m c : Val) (cls : ClsRef) (nn : Bool)
    (h : resolveClass r env m c = .ok (cls, nn)) : ClsAllowed r env cls := by
  unfold resolveClass at h
  split at h
  · cases h
  · rename_i nn' cn hl
    cases h
    unfold lookupClass at hl
    cases hi : r.instCustom
    · simp only [hi, Bool.false_eq_true, ↓reduceIte] at hl
      split at hl
      · rename_i hb
        obtain ⟨_, hk⟩ := getattrKind_ok _ _ _ _ hl
        exact ⟨nn, by simp [hi, hb, ← hk]⟩
      · cases hl
    · simp only [hi, ↓reduceIte] at hl
      split at hl
      · rename_i him
        have hk := moduleLookup_exc env m c _ _ hl
        exact ⟨nn, by simp [hi, him, hk]⟩
      · cases hl
  · obtain ⟨fn, rfl⟩ := genericClass_generic env m c cls nn h
    trivial

theorem instantiate_out (env : Env) (evs : List Event) (cls : ClsRef) (nn : Bool) (a b t : Val) (o : ExcObj)
    (h : (instantiate env evs cls nn a b t).out = .ok (.exc o)) : o.cls = cls := by
  unfold instantiate at h
  split at h
  · cases h
  · split at h
    · cases h
    · rename_i o' hb
      have : o' = o := by simpa using h
      subst this
      exact build_cls env cls a b t _ hb

theorem loadExc_out (r : RecvCfg) (env : Env) (p : Val) (o : ExcObj)
    (h : (loadExc r env p).out = .ok (.exc o)) : ClsAllowed r env o.cls := by
  rw [loadExc_eq_core] at h
  unfold loadCore at h
  split at h
  · cases h
  · split at h
    · cases h
    · split at h
      · cases h
      · split at h
        · cases h
        · unfold loadRecord at h
          split at h
          · cases h
          · split at h
            · cases h
            · rename_i cls nn hres
              rw [instantiate_out env _ cls nn _ _ _ o h]
              exact resolveClass_allowed r env _ _ cls nn hres

/-! ### reading the received object -/

theorem sent_full_nodup (s : SendCfg) (e : ExcRec) (h : (e.dir.map (·.name)).Nodup) :
    ((sentAttrs e.dir ++ [(Gen.Vinegar.versionAttr, Val.str (verText s))]).map (·.1)).Nodup := by
  rw [List.map_append, List.nodup_append]
  refine ⟨sentAttrs_nodup e.dir h, by simp, ?_⟩
  intro a ha b hb
  have hb' : b = Gen.Vinegar.versionAttr := by simpa using hb
  subst hb'
  obtain ⟨p, hp, hpn⟩ := List.mem_map.mp ha
  obtain ⟨_, hsk, _⟩ := sentAttrs_names_sub e.dir p hp
  intro heq
  rw [← hpn] at heq
  rw [heq, gen_versionAttr_skipped] at hsk
  cases hsk

theorem received_get_tb (s : SendCfg) (e : ExcRec) (cls : ClsRef) :
    (received s e cls).get Gen.Vinegar.remoteTbAttr = some (.str (tbShown s e)) := by
  simp [received, ExcObj.get, lookupAttr]

theorem received_get_ver (s : SendCfg) (e : ExcRec) (cls : ClsRef) (h : (e.dir.map (·.name)).Nodup) :
    (received s e cls).get Gen.Vinegar.versionAttr = some (.str (verText s)) := by
  have hne : (Gen.Vinegar.remoteTbAttr == Gen.Vinegar.versionAttr) = false := by decide
  simp only [received, ExcObj.get, lookupAttr, hne, Bool.false_eq_true, ↓reduceIte]
  exact lookupAttr_reverse_of_mem _ _ _ (sent_full_nodup s e h) (by simp)

theorem received_get_attr (s : SendCfg) (e : ExcRec) (cls : ClsRef) (d : DirEntry) (a : PyObj)
    (h : (e.dir.map (·.name)).Nodup) (hd : d ∈ e.dir) (hv : d.value = some a) (hs : skipped d.name = false)
    (hdata : d.isData = true) (ha : (d.name == Gen.Vinegar.argsName) = false) :
    (received s e cls).get d.name = some (sendable a) := by
  have hne : (Gen.Vinegar.remoteTbAttr == d.name) = false := by
    cases hc : Gen.Vinegar.remoteTbAttr == d.name
    · rfl
    · have : Gen.Vinegar.remoteTbAttr = d.name := by simpa using hc
      rw [← this, gen_remoteTb_skipped] at hs
      cases hs
  simp only [received, ExcObj.get, lookupAttr, hne, Bool.false_eq_true, ↓reduceIte]
  exact lookupAttr_reverse_of_mem _ _ _ (sent_full_nodup s e h)
    (List.mem_append_left _ (sentAttrs_mem e.dir d a hd hv (dropped_false_of d hs hdata) ha))

theorem customClass_real_iff (r : RecvCfg) (env : Env) (m c : Str) :
    customClass r env m c = .real (.str m) c
      ↔ (r.instCustom = true ∧ inModules r env (.str m) = true ∧ (env.modAttr (.str m) c).isExc = true) := by
  unfold customClass moduleRoute
  constructor
  · intro h
    split at h
    · rename_i hc; simpa [Bool.and_eq_true, and_assoc] using hc
    · cases h
  · intro ⟨h1, h2, h3⟩
    simp [h1, h2, h3]

theorem inModules_iff (r : RecvCfg) (env : Env) (m : Val) :
    inModules r env m = true ↔ (env.loaded m = true ∨ (r.importCustom = true ∧ env.importable m = true)) := by
  unfold inModules importAttempted
  cases env.loaded m <;> cases r.importCustom <;> cases env.importable m <;> simp

/-! ### the fallback record of `_send_exception` -/

theorem gen_fallbackExists : Gen.Vinegar.fallbackExists = true := by decide

theorem boxExc_ok (s : SendCfg) (e : ExcRec) (p : Val) (bs : Bytes) (hd : dumpExc s e = .ok p)
    (hb : Brine.dump p = .ok bs) : boxExc s e = .ok p := by
  simp [boxExc, hd, hb]

theorem boxExc_dump_raises (s : SendCfg) (e : ExcRec) (err : Err) (hd : dumpExc s e = .error err) :
    boxExc s e = .ok (fallbackPayload e) := by
  simp [boxExc, hd, gen_fallbackExists]

theorem boxExc_wire_raises (s : SendCfg) (e : ExcRec) (p : Val) (err : Err) (hd : dumpExc s e = .ok p)
    (hb : Brine.dump p = .error err) : boxExc s e = .ok (fallbackPayload e) := by
  simp [boxExc, hd, hb, gen_fallbackExists]

/-- the object built from the fallback record: the note as only argument, the fixed text as traceback, nothing else -/
def fallbackObj (cls : ClsRef) : ExcObj :=
  ⟨cls, [.str Gen.Vinegar.fallbackNote], [(Gen.Vinegar.remoteTbAttr, .str Gen.Vinegar.fallbackTb)]⟩

theorem loadExc_fallback (r : RecvCfg) (env : Env) (e : ExcRec) (cls : ClsRef)
    (hres : resolveClass r env (.str e.cls.modname) (.str e.cls.name) = .ok (cls, false)) :
    loadExc r env (fallbackPayload e)
      = ⟨importEvents r env (.str e.cls.modname) ++ [.new cls], .ok (.exc (fallbackObj cls))⟩ := by
  have hv : versionCheck (.str Gen.Vinegar.fallbackTb) (.str Gen.Vinegar.loadVersionDefault)
      = .ok (.str Gen.Vinegar.fallbackTb) := by
    unfold versionCheck
    have h : (Gen.Vinegar.loadVersionDefault == Gen.Vinegar.loadVersionCompare) = true := by decide
    simp [h]
  rw [loadExc_eq_core]
  unfold fallbackPayload loadCore
  simp only [isStopMarker_tuple, Bool.false_eq_true, ↓reduceIte, unpack4, iter, unpack2, loadRecord, hashable_all,
    Bool.not_true, Bool.and_false, hres, moduleCodeEvents_nil, List.append_nil]
  simp [instantiate, instantiationEvent_eq, build, iter, assignAll, remoteVersion, ExcObj.get, lookupAttr, hv, fallbackObj]

/-- a class name `builtins` does not hold (here) as an exception class — a built-in class of the SENDER's interpreter that
this one lacks —: the generic stand-in `builtins.<name>`, under every switch setting -/
theorem resolveClass_builtin_unknown (r : RecvCfg) (env : Env) (n : Str)
    (hb : (env.builtinAttr n).isExc = false) (hm : (env.modAttr (.str Gen.Vinegar.exceptionsModule) n).isExc = false)
    (hname : typeNameCheck (Gen.Vinegar.exceptionsModule ++ [46] ++ n) = .ok ()) :
    resolveClass r env (.str Gen.Vinegar.exceptionsModule) (.str n)
      = .ok (.generic (Gen.Vinegar.exceptionsModule ++ [46] ++ n), false) := by
  have hgen : genericClass env (.str Gen.Vinegar.exceptionsModule) (.str n)
      = .ok (.generic (Gen.Vinegar.exceptionsModule ++ [46] ++ n), false) := by
    simp only [genericClass, fullName, hname]
  have hbn : isBuiltinsName (.str Gen.Vinegar.exceptionsModule) = true := by simp [isBuiltinsName]
  unfold resolveClass lookupClass
  cases hi : r.instCustom
  · cases hk : env.builtinAttr n with
    | excClass nn => simp [hk, ObjKind.isExc] at hb
    | missing => simp [hbn, getattrKind, hk, hgen]
    | notType => simp [hbn, getattrKind, hk, hgen]
    | typeNotExc => simp [hbn, getattrKind, hk, hgen]
  · cases him : inModules r env (.str Gen.Vinegar.exceptionsModule)
    · simp [hgen]
    · cases hk : env.modAttr (.str Gen.Vinegar.exceptionsModule) n with
      | excClass nn => simp [hk, ObjKind.isExc] at hm
      | missing => simp [moduleLookup_str, hk, hgen]
      | notType => simp [moduleLookup_str, hk, hgen]
      | typeNotExc => simp [moduleLookup_str, hk, hgen]

end Rpyc.Vinegar
