import RpycModel.Gen.Vinegar
import RpycModel.Brine.Model
/-
L5 — rpyc/core/vinegar.py and the three places of rpyc/core/protocol.py that use it
(`Connection._box_exc`, `_unbox_exc`, the local re-raise in `_dispatch_request`, and what
`AsyncResult.value` does with the loaded object).

Sender: `dumpExc cfg e` follows `vinegar.dump` over an *exception record* — what Python shows the code:
the class (module, name, is it the built-in object of that name), `val.args`, and what `dir(val)` /
`getattr(val, name)` yield.  Receiver: `loadExc cfg env payload` follows `vinegar.load` for an ARBITRARY
payload value, statement by statement, with Python's unpacking semantics and the error class of every
shape that does not fit.  Everything the code asks the interpreter is a parameter (`Env`): is the module
loaded, does importing it work, what does `getattr(module, name)` give, does `cls.__new__(cls)` need
arguments, what does `setattr` on an instance of that class do.  The model records the import attempts
and the constructor events of a run; `Event.init` exists so that "never" is a statement, not a type error.

Not modelled: "string exceptions" on the sender (`type(typ) is str`: cannot be raised on Python 3);
old-style classes (`ClassType is type` on Python 3, generated as `Gen.Vinegar.classTypeIsType`);
`Derived.__str__` (presentation only); an import that raises a non-`Exception` `BaseException`;
a custom class whose `__new__`, metaclass or `args` descriptor runs code of its own.
-/
namespace Rpyc.Vinegar
open Rpyc

/-- Python `str` as code points -/
abbrev Str := List Nat

/-- names that are Python's, not rpyc's: the built-in classes `dump` / `_dispatch_request` compare with `is`,
and the attribute `load` assigns with `exc.args = args` -/
def stopIterationName : Str := [83, 116, 111, 112, 73, 116, 101, 114, 97, 116, 105, 111, 110]
def systemExitName : Str := [83, 121, 115, 116, 101, 109, 69, 120, 105, 116]
def keyboardInterruptName : Str := [75, 101, 121, 98, 111, 97, 114, 100, 73, 110, 116, 101, 114, 114, 117, 112, 116]
def argsAttr : Str := [97, 114, 103, 115]

/-! ### configuration -/

/-- the sender's switches: `include_local_traceback`, `include_local_version`, and the two `propagate_*_locally` -/
structure SendCfg where
  includeTb : Bool
  includeVer : Bool
  propSystemExit : Bool
  propKeyboardInterrupt : Bool
  deriving DecidableEq, Repr

/-- the receiver's switches: `import_custom_exceptions`, `instantiate_custom_exceptions`,
`instantiate_oldstyle_exceptions` (read by `_unbox_exc`, without effect on Python 3) -/
structure RecvCfg where
  importCustom : Bool
  instCustom : Bool
  instOldstyle : Bool
  deriving DecidableEq, Repr

def defaultSendCfg : SendCfg :=
  ⟨Gen.Vinegar.cfgIncludeLocalTraceback, Gen.Vinegar.cfgIncludeLocalVersion,
   Gen.Vinegar.cfgPropagateSystemExitLocally, Gen.Vinegar.cfgPropagateKeyboardInterruptLocally⟩
def defaultRecvCfg : RecvCfg :=
  ⟨Gen.Vinegar.cfgImportCustomExceptions, Gen.Vinegar.cfgInstantiateCustomExceptions,
   Gen.Vinegar.cfgInstantiateOldstyleExceptions⟩

/-! ### the sender: `vinegar.dump` -/

inductive ClsKind where
  | builtin   -- the class IS the object `builtins.<name>`
  | custom
  deriving DecidableEq, Repr

/-- `typ.__module__`, `typ.__name__`, and whether `typ` is the built-in object of that name -/
structure ClsId where
  modname : Str
  name : Str
  kind : ClsKind
  deriving DecidableEq, Repr

/-- a Python object as `dump` sees it: the value when brine can carry it (else `.other k`), and `repr(obj)` -/
structure PyObj where
  val : Val
  repr : Str
  deriving Repr

/-- one name of `dir(val)`: what `getattr(val, name)` gives (`none` = AttributeError), and whether it is a data attribute
(`not callable(value)`: the repaired `dump` looks and leaves methods out) -/
structure DirEntry where
  name : Str
  value : Option PyObj
  isData : Bool
  deriving Repr

structure ExcRec where
  cls : ClsId
  args : List PyObj
  dir : List DirEntry
  /-- `"".join(traceback.format_exception(typ, val, tb))`, or the error the traceback module itself raises
  (a SyntaxError whose detail tuple holds a non-text `text`, ...) -/
  tbText : Except Err Str
  /-- the first error raised by something `dump`'s walk over `dir(val)` calls: `repr()` of an argument or attribute
  brine cannot carry, `getattr` raising something other than AttributeError; `none` for an exception that can be dumped -/
  walkRaises : Option Err

instance : Repr ExcRec := ⟨fun e _ => repr e.cls⟩

/-- `a if brine.dumpable(a) else repr(a)` -/
def sendable (o : PyObj) : Val := if dumpable o.val then o.val else .str o.repr

/-- `name.startswith("_") or name in ignored_attrs` -/
def skipped (n : Str) : Bool := Gen.Vinegar.privatePrefix.isPrefixOf n || Gen.Vinegar.ignoredAttrs.contains n

/-- is the `dir` entry left out of the attributes: a private or ignored name, or — measured by the generator
(`Gen.Vinegar.skipsCallables`) — a value that is callable (`isData = false`: a method is not data) -/
def dropped (d : DirEntry) : Bool := skipped d.name || (Gen.Vinegar.skipsCallables && !d.isData)

/-- the `args` list `dump` builds: one copy of the normalised arguments per `dir` entry named `args` -/
def walkArgs (e : ExcRec) : List DirEntry → List Val
  | [] => []
  | d :: ds => if d.name == Gen.Vinegar.argsName then e.args.map sendable ++ walkArgs e ds else walkArgs e ds

/-- the `attrs` list `dump` builds from `dir(val)` -/
def walkAttrs : List DirEntry → List Val
  | [] => []
  | d :: ds =>
    if d.name == Gen.Vinegar.argsName then walkAttrs ds
    else if dropped d then walkAttrs ds
    else match d.value with
      | none => walkAttrs ds
      | some o => .tuple [.str d.name, sendable o] :: walkAttrs ds

def versionPair (c : SendCfg) : Val :=
  .tuple [.str Gen.Vinegar.versionAttr,
          .str (if c.includeVer then Gen.Vinegar.versionString else Gen.Vinegar.versionDenied)]

/-- the traceback field: the formatted text when allowed — or, when formatting raises inside the (generated) `try`, the
"unavailable" literal; the "denied" marker otherwise -/
def tbField (c : SendCfg) (e : ExcRec) : Except Err Val :=
  if c.includeTb then
    match e.tbText with
    | .ok t => .ok (.str t)
    | .error err => if Gen.Vinegar.tbFormatGuarded then .ok (.str Gen.Vinegar.tracebackUnavailable) else .error err
  else .ok (.str Gen.Vinegar.tracebackDenied)

/-- `typ is StopIteration` -/
def isStopIteration (c : ClsId) : Bool := c.kind == .builtin && c.name == stopIterationName

/-- the condition of `dump`'s first `if` (its shape is observed by the generator on probe exceptions) -/
def fastPath (e : ExcRec) : Bool :=
  Gen.Vinegar.stopFastPathExists && isStopIteration e.cls
    && (!Gen.Vinegar.stopFastPathRequiresNoArgs || e.args.isEmpty)

def recordPayload (c : SendCfg) (e : ExcRec) (tb : Val) : Val :=
  .tuple [.tuple [.str e.cls.modname, .str e.cls.name], .tuple (walkArgs e e.dir),
          .tuple (walkAttrs e.dir ++ [versionPair c]), tb]

/-- `vinegar.dump(typ, val, tb, include_local_traceback, include_local_version)`; an error = `dump` raises -/
def dumpExc (c : SendCfg) (e : ExcRec) : Except Err Val :=
  if fastPath e then .ok (.int Gen.Vinegar.excStopIteration)
  else match tbField c e with
    | .error err => .error err
    | .ok tb => match e.walkRaises with
      | some err => .error err
      | none => .ok (recordPayload c e tb)

/-- the record `_send_exception` sends when the exception cannot be dumped or put on the wire: class name, a note in
place of the arguments, no attributes, a fixed text in place of the traceback — whatever the sender's switches say -/
def fallbackPayload (e : ExcRec) : Val :=
  .tuple [.tuple [.str e.cls.modname, .str e.cls.name], .tuple [.str Gen.Vinegar.fallbackNote], .tuple [],
          .str Gen.Vinegar.fallbackTb]

/-- `Connection._send_exception`: `try: self._send(MSG_EXCEPTION, seq, self._box_exc(t, v, tb))` and, when `dump` or
brine raises (nothing has been sent yet), the fallback record; an error = nothing is sent and the error leaves `serve()` -/
def boxExc (c : SendCfg) (e : ExcRec) : Except Err Val :=
  match dumpExc c e with
  | .ok p =>
    match Brine.dump p with
    | .ok _ => .ok p
    | .error err => if Gen.Vinegar.fallbackExists then .ok (fallbackPayload e) else .error err
  | .error err => if Gen.Vinegar.fallbackExists then .ok (fallbackPayload e) else .error err

/-- `_dispatch_request`: `if t is SystemExit and config[...]: raise` / the same for `KeyboardInterrupt` —
the exception is re-raised in the serving side and nothing is sent -/
def routedLocally (c : SendCfg) (e : ExcRec) : Bool :=
  e.cls.kind == .builtin &&
    ((e.cls.name == systemExitName && c.propSystemExit)
      || (e.cls.name == keyboardInterruptName && c.propKeyboardInterrupt))

/-! ### the receiver: `vinegar.load` -/

/-- what `getattr(module, clsname, None)` turned out to be -/
inductive ObjKind where
  | missing
  | notType                                -- `isinstance(cls, type)` is false
  | typeNotExc                             -- a type, `issubclass(cls, BaseException)` is false
  | excClass (newNeedsArgs : Bool)         -- usable; does `cls.__new__(cls)` raise TypeError
  deriving DecidableEq, Repr

/-- the class `load` instantiates: the real object found under a module, or the generic stand-in of that name -/
inductive ClsRef where
  | real (modname : Val) (clsname : Str)
  | generic (fullname : Str)
  deriving Repr

/-- what `setattr(exc, name, value)` does on a fresh instance of the class -/
inductive SetRes where
  | store | swallowed | raises (e : Err)
  deriving DecidableEq, Repr

/-- everything `load` asks the interpreter -/
structure Env where
  loaded : Val → Bool                      -- `modname in sys.modules` on entry
  importable : Val → Bool                  -- `modname in sys.modules` after `__import__(modname, None, None, "*")` was tried
  modAttr : Val → Str → ObjKind            -- what the module's OWN namespace holds under clsname: `vars(module).get(clsname)`
  lazy : Val → Bool                        -- the module defines a module-level `__getattr__` (PEP 562): `getattr` runs module code
  builtinAttr : Str → ObjKind              -- `getattr(builtins, clsname, None)`
  fmtName : Val → Val → Except Err Str     -- `"%s.%s" % (modname, clsname)` when one of them is not a str
  setattr : ClsRef → Str → Val → SetRes    -- names other than `args`; `swallowed` = AttributeError

inductive Event where
  | importAttempt (modname : Val)
  | new (c : ClsRef)                        -- `cls.__new__(cls)`: no argument, `__init__` does not run
  | init (c : ClsRef)                       -- a constructor call `cls(...)`
  | moduleCode (m : Val) (c : Str)          -- a module-level `__getattr__` ran with the peer-chosen name (it may import)
  deriving Repr

/-- how `load` makes the instance — observed by the generator on a probe class with `__new__` / `__init__` canaries
(`Gen.Vinegar.instantiatesByNew`): `cls.__new__(cls)`, or a constructor call -/
def instantiationEvent (c : ClsRef) : Event :=
  if Gen.Vinegar.instantiatesByNew then .new c else .init c

/-- everything `vinegar.load` and the module functions it uses may call (compared with the generated, normalised call list
of the source: `Gen.Vinegar.loadCalls`).  Each entry is a step of this model or a pure helper of the language:
`__import__` = `importEvents`; `getattr`/`vars`/`.get`/`isinstance`/`issubclass` = `lookupClass`/`moduleLookup`/`resolveClass`; `type`/`ClassType`/`str` =
`genericClass`; `.__new__`/`InstanceType` = `instantiationEvent`; `setattr`/`getattr` = `assignAttr`/`remoteVersion`;
`.split`/`.format` = `versionCheck`; `.__str__`/`.count`/`hasattr` = `derivedStr`.  A call of a local name or of an
expression (`cls(...)`) is in no list. -/
def loadCallsAllowed : List String :=
  ["ClassType", "InstanceType", "__import__", "getattr", "vars", "hasattr", "isinstance", "issubclass", "setattr", "str", "type",
   "tuple", "list", "dict", "len", "bool", "repr", "format", "iter", "next", "zip", "enumerate", "any", "all", "frozenset",
   ".__new__", ".__str__", ".split", ".partition", ".format", ".count", ".get", ".join", ".startswith", ".items",
   ".setdefault", ".append"]

/-- what the functions that build the `Derived` subclass may call -/
def derivedCallsAllowed : List String := [".__str__", ".count", ".format", ".join", "hasattr", "str", "repr", "len"]

/-- the object `load` returns: instance attributes most recent first -/
structure ExcObj where
  cls : ClsRef
  args : List Val
  attrs : List (Str × Val)
  deriving Repr

def lookupAttr (n : Str) : List (Str × Val) → Option Val
  | [] => none
  | (k, v) :: rest => if k == n then some v else lookupAttr n rest

def ExcObj.get (o : ExcObj) (n : Str) : Option Val := lookupAttr n o.attrs

inductive Outcome where
  | stopIterationClass            -- `return StopIteration` (the class itself)
  | strExc (s : Str)              -- `return val` for a str payload ("deprecated string exceptions")
  | exc (o : ExcObj)
  deriving Repr

structure LoadResult where
  events : List Event
  out : Except Err Outcome

/-- `val == consts.EXC_STOP_ITERATION`: true for the int, and for every bool / float / complex equal to it -/
def isStopMarker : Val → Bool
  | .int i => i == Gen.Vinegar.excStopIteration
  | .bool b => (if b then (1 : Int) else 0) == Gen.Vinegar.excStopIteration
  | .float bits => Gen.Vinegar.excStopFloatBits.contains bits
  | .complex re im => Gen.Vinegar.excStopFloatBits.contains re && (im == 0 || im == 0x8000000000000000)
  | _ => false

/-- Python's `iter(v)` run to the end -/
def iter : Val → Except Err (List Val)
  | .tuple xs => .ok xs
  | .fset xs => .ok xs
  | .bytes b => .ok (b.map (fun x => .int (x : Nat)))
  | .str s => .ok (s.map (fun c => .str [c]))
  | _ => .error .typeError

/-- `a, b, c, d = v`: TypeError when not iterable, ValueError when the count is wrong -/
def unpack4 (v : Val) : Except Err (Val × Val × Val × Val) :=
  match iter v with
  | .error e => .error e
  | .ok [a, b, c, d] => .ok (a, b, c, d)
  | .ok _ => .error .valueError

/-- `a, b = v` -/
def unpack2 (v : Val) : Except Err (Val × Val) :=
  match iter v with
  | .error e => .error e
  | .ok [a, b] => .ok (a, b)
  | .ok _ => .error .valueError

mutual
/-- can `v` be a dictionary key (`modname in sys.modules`) -/
def hashable : Val → Bool
  | .slice a b c => Gen.Vinegar.sliceHashable && hashable a && hashable b && hashable c
  | .tuple xs => hashableL xs
  | _ => true
def hashableL : List Val → Bool
  | [] => true
  | x :: xs => hashable x && hashableL xs
end

/-- `import_custom_exceptions and modname not in sys.modules` -/
def importAttempted (r : RecvCfg) (env : Env) (m : Val) : Bool := r.importCustom && !env.loaded m

def importEvents (r : RecvCfg) (env : Env) (m : Val) : List Event :=
  if importAttempted r env m then [.importAttempt m] else []

/-- `modname in sys.modules` after the (possibly attempted) import -/
def inModules (r : RecvCfg) (env : Env) (m : Val) : Bool :=
  env.loaded m || (importAttempted r env m && env.importable m)

/-- `modname == exceptions_module.__name__` -/
def isBuiltinsName : Val → Bool
  | .str m => m == Gen.Vinegar.exceptionsModule
  | _ => false

/-- `getattr(<module>, clsname, None)` with a non-text name is a TypeError, not the default -/
def getattrKind (clsname : Val) (f : Str → ObjKind) : Except Err (ObjKind × Str) :=
  match clsname with
  | .str c => .ok (f c, c)
  | _ => .error .typeError

/-- the lookup of the class name in `sys.modules[modname]`.  Observed by the generator on a probe module with a PEP 562
canary: the repaired code reads the module's own namespace (`vars(module).get(clsname)`: no module code runs, a name that is
not text is simply absent); `getattr(module, clsname, None)` instead runs a lazy module's `__getattr__` for a name the
namespace lacks — what that returns is the module's business (`notModelled`) — and raises TypeError for a non-text name -/
def moduleLookup (env : Env) (m c : Val) : Except Err (ObjKind × Str) :=
  match c with
  | .str cn =>
    if !Gen.Vinegar.moduleLookupPure && env.lazy m && env.modAttr m cn == .missing then .error .notModelled
    else .ok (env.modAttr m cn, cn)
  | _ => if Gen.Vinegar.moduleLookupNonTextRaises then .error .typeError else .ok (.missing, [])

/-- module code run by that lookup -/
def moduleCodeEvents (r : RecvCfg) (env : Env) (m c : Val) : List Event :=
  if !Gen.Vinegar.moduleLookupPure && r.instCustom && inModules r env m && env.lazy m then
    match c with
    | .str cn => if env.modAttr m cn == .missing then [.moduleCode m cn] else []
    | _ => []
  else []

/-- the `if instantiate_custom_exceptions: ... elif modname == "builtins": ... else: cls = None` block -/
def lookupClass (r : RecvCfg) (env : Env) (m c : Val) : Except Err (ObjKind × Str) :=
  if r.instCustom then
    if inModules r env m then moduleLookup env m c else .ok (.missing, [])
  else if isBuiltinsName m then getattrKind c env.builtinAttr
  else .ok (.missing, [])

/-- `"%s.%s" % (modname, clsname)` -/
def fullName (env : Env) (m c : Val) : Except Err Str :=
  match m, c with
  | .str ms, .str cs => .ok (ms ++ [46] ++ cs)
  | _, _ => env.fmtName m c

def isSurrogate (c : Nat) : Bool := 0xD800 ≤ c && c ≤ 0xDFFF

/-- `type(fullname, (GenericException,), ...)`: the name is encoded (lone surrogates fail), then must not hold NUL -/
def typeNameCheck (n : Str) : Except Err Unit :=
  if n.any isSurrogate then .error .unicodeEncodeError
  else if n.contains 0 then .error .valueError
  else .ok ()

def genericClass (env : Env) (m c : Val) : Except Err (ClsRef × Bool) :=
  match fullName env m c with
  | .error e => .error e
  | .ok fn => match typeNameCheck fn with
    | .error e => .error e
    | .ok _ => .ok (.generic fn, false)

/-- which class is instantiated, and whether its `__new__` needs arguments:
`if not isinstance(cls, type) or not issubclass(cls, BaseException): cls = None`, then the generic stand-in -/
def resolveClass (r : RecvCfg) (env : Env) (m c : Val) : Except Err (ClsRef × Bool) :=
  match lookupClass r env m c with
  | .error e => .error e
  | .ok (.excClass nn, cn) => .ok (.real m cn, nn)
  | .ok _ => genericClass env m c

/-- `setattr(exc, name, attrval)` inside `try: ... except AttributeError: pass`; `args` goes through
`BaseException.args`' setter, which stores `tuple(value)` -/
def assignAttr (env : Env) (o : ExcObj) (name v : Val) : Except Err ExcObj :=
  match name with
  | .str n =>
    if n == argsAttr then
      match iter v with
      | .error _ => .error .typeError
      | .ok xs => .ok { o with args := xs }
    else match env.setattr o.cls n v with
      | .store => .ok { o with attrs := (n, v) :: o.attrs }
      | .swallowed => .ok o
      | .raises e => .error e
  | _ => .error .typeError

/-- `for name, attrval in attrs: ...` -/
def assignAll (env : Env) (o : ExcObj) : List Val → Except Err ExcObj
  | [] => .ok o
  | item :: rest =>
    match unpack2 item with
    | .error e => .error e
    | .ok (n, v) => match assignAttr env o n v with
      | .error e => .error e
      | .ok o' => assignAll env o' rest

/-- `remote_ver.split('.')[0]` -/
def majorOf (s : Str) : Str := s.takeWhile (· != Gen.Vinegar.versionSeparator)

def warning (remoteVer : Str) : Str :=
  Gen.Vinegar.warnPre ++ remoteVer ++ Gen.Vinegar.warnMid ++ Gen.Vinegar.versionString ++ Gen.Vinegar.warnSuf

/-- `getattr(exc, "_remote_version", "<version denied>")` -/
def remoteVersion (o : ExcObj) : Val :=
  match o.get Gen.Vinegar.loadVersionAttr with
  | some v => v
  | none => .str Gen.Vinegar.loadVersionDefault

/-- `if remote_ver != "<version denied>" and remote_ver.split('.')[0] != str(version.version[0]): tbtext += warning` -/
def versionCheck (tb rv : Val) : Except Err Val :=
  match rv with
  | .str s =>
    if s == Gen.Vinegar.loadVersionCompare then .ok tb
    else if majorOf s == Gen.Vinegar.versionMajor then .ok tb
    else match tb with
      | .str t => .ok (.str (t ++ warning s))
      | _ => .error .typeError
  | .bytes _ => .error .typeError          -- `bytes.split(str)`
  | .other _ => .error .notModelled
  | _ => .error .attributeError            -- no `.split`

/-- `exc.args = args`, the attribute loop, the version check, `exc._remote_tb = tbtext` -/
def build (env : Env) (cls : ClsRef) (args attrs tb : Val) : Except Err ExcObj :=
  match iter args with
  | .error _ => .error .typeError
  | .ok as => match iter attrs with
    | .error _ => .error .typeError
    | .ok items => match assignAll env ⟨cls, as, []⟩ items with
      | .error e => .error e
      | .ok o => match versionCheck tb (remoteVersion o) with
        | .error e => .error e
        | .ok tb' => .ok { o with attrs := (Gen.Vinegar.remoteTbAttr, tb') :: o.attrs }

/-- `exc = cls.__new__(cls)` and everything after it -/
def instantiate (env : Env) (evs : List Event) (cls : ClsRef) (newNeedsArgs : Bool) (args attrs tb : Val) : LoadResult :=
  if newNeedsArgs then ⟨evs ++ [instantiationEvent cls], .error .typeError⟩
  else match build env cls args attrs tb with
    | .error e => ⟨evs ++ [instantiationEvent cls], .error e⟩
    | .ok o => ⟨evs ++ [instantiationEvent cls], .ok (.exc o)⟩

/-- `load` after `(modname, clsname), args, attrs, tbtext = val` -/
def loadRecord (r : RecvCfg) (env : Env) (m c args attrs tb : Val) : LoadResult :=
  if (r.importCustom || r.instCustom) && !hashable m then ⟨[], .error .typeError⟩
  else match resolveClass r env m c with
    | .error e => ⟨importEvents r env m ++ moduleCodeEvents r env m c, .error e⟩
    | .ok (cls, nn) => instantiate env (importEvents r env m ++ moduleCodeEvents r env m c) cls nn args attrs tb

/-- `vinegar.load` with the old-style switch left aside -/
def loadCore (r : RecvCfg) (env : Env) (payload : Val) : LoadResult :=
  if isStopMarker payload then ⟨[], .ok .stopIterationClass⟩
  else match payload with
    | .str s => ⟨[], .ok (.strExc s)⟩
    | _ => match unpack4 payload with
      | .error e => ⟨[], .error e⟩
      | .ok (hd, args, attrs, tb) => match unpack2 hd with
        | .error e => ⟨[], .error e⟩
        | .ok (m, c) => loadRecord r env m c args attrs tb

/-- `vinegar.load(val, import_custom_exceptions, instantiate_custom_exceptions, instantiate_oldstyle_exceptions)`.
The third switch only matters where `ClassType is not type` (Python 2); the generator measures that it changes no outcome
(`Gen.Vinegar.oldstyleSwitchInert`); were that to change, the model declines to answer for the switch set -/
def loadExc (r : RecvCfg) (env : Env) (payload : Val) : LoadResult :=
  if Gen.Vinegar.oldstyleSwitchInert || !r.instOldstyle then loadCore r env payload
  else ⟨[], .error .notModelled⟩

/-! ### the class of the received object: `_get_exception_class` -/

/-- `type(exc)` as `load` leaves it: a cached subclass `Derived(cls)` of the class found (or of the generic stand-in), which
copies `cls.__name__` and `cls.__module__` and overrides `__str__` / `__repr__` -/
structure ObjType where
  base : ClsRef            -- `type(exc).__mro__[1]`: the object is an instance of it, `except base:` catches it
  namedAfter : ClsRef      -- whose `__name__` and `__module__` the subclass carries
  deriving Repr

def getExceptionClass (c : ClsRef) : ObjType := ⟨c, c⟩

def ExcObj.type (o : ExcObj) : ObjType := getExceptionClass o.cls

/-- the class `dump` sees when a RECEIVED exception is raised on to another peer (a callback's exception passing through a
server method, rpyc over rpyc): `typ` is the `Derived` subclass — never the built-in object itself — and `typ.__module__`,
`typ.__name__` are the copies `_get_exception_class` made of the class it subclasses -/
def ObjType.presentedAs (t : ObjType) : Option ClsId :=
  match t.namedAfter with
  | .real (.str m) c => some ⟨m, c, .custom⟩
  | _ => none

/-- `s.count(sub)`: non-overlapping occurrences, left to right -/
def countSubAux (sub : Str) : Nat → Str → Nat
  | 0, _ => 0
  | _, [] => 0
  | fuel+1, c :: cs =>
    if sub.isPrefixOf (c :: cs) then 1 + countSubAux sub fuel ((c :: cs).drop sub.length)
    else countSubAux sub fuel cs
def countSub (sub s : Str) : Nat := if sub.isEmpty then s.length + 1 else countSubAux sub s.length s

/-- `Derived.__str__` (and `__repr__`): the class's own `__str__` — or "<Unprintable exception>" when that raises —, then,
if the object has `_remote_tb`, `REMOTE_LINE_START (n) REMOTE_LINE_END` with n = 1 + the markers already in the text, and the
remote traceback text.  `base` = what `cls.__str__(self)` gives (environment). -/
def derivedStr (base : Except Err Str) (remoteTb : Option Val) : Except Err Str :=
  match remoteTb with
  | none => .ok (match base with | .ok t => t | .error _ => Gen.Vinegar.unprintable)
  | some (.str t) =>
    .ok ((match base with | .ok b => b | .error _ => Gen.Vinegar.unprintable)
          ++ Gen.Vinegar.remoteLineStart ++ [40] ++ natDigits (countSub Gen.Vinegar.remoteLineStart t + 1) ++ [41]
          ++ Gen.Vinegar.remoteLineEnd ++ t)
  | some (.tuple _) => .error .typeError       -- `tuple.count` works, `text += tuple` does not
  | some (.bytes _) => .error .typeError       -- `bytes.count(str)`
  | some (.other _) => .error .notModelled
  | some _ => .error .attributeError           -- no `.count`

def ExcObj.str (o : ExcObj) (base : Except Err Str) : Except Err Str :=
  derivedStr base (o.get Gen.Vinegar.remoteTbAttr)

/-! ### what the requester sees: `AsyncResult.value` does `raise self._obj` -/

inductive Seen where
  | raised (o : ExcObj)
  | error (e : Err)          -- `load` raised (`_deliver_response` hands that error to the request) / the `raise` statement refused
  deriving Repr

def builtinStopIteration : ClsRef := .real (.str Gen.Vinegar.exceptionsModule) stopIterationName

def requesterSees (res : LoadResult) : Seen :=
  match res.out with
  | .error e => .error e
  | .ok .stopIterationClass => .raised ⟨builtinStopIteration, [], []⟩     -- `raise StopIteration`
  | .ok (.strExc _) => .error .typeError                                   -- "exceptions must derive from BaseException"
  | .ok (.exc o) => .raised o

end Rpyc.Vinegar
