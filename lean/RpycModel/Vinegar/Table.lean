import RpycModel.Vinegar.Load
/-
The receiver as THIS interpreter is measured to be (`Gen.Vinegar.builtinExcTable`, regenerated on every run): which names
of `builtins` are exception classes, whether `cls.__new__(cls)` needs arguments, and which attributes have typed setters.
`tableEnv` is the environment built from that table; `Known` and `Writable` — the hypotheses of the general fidelity
theorem — are discharged for it, class by class, so that the property can be stated for "every built-in exception class of
this interpreter" without an environment hypothesis.
-/
namespace Rpyc.Vinegar
open Rpyc

/-- (class name, `__new__` needs arguments, [(attribute with a typed setter, kinds stored faithfully, kinds seen from its getter)]) -/
abbrev Row := List Nat × Bool × List (List Nat × List Nat × List Nat)

/-- the kind codes of the generated table -/
def kindOf : Val → Nat
  | .none => 0 | .notImpl => 1 | .ellipsis => 2 | .bool _ => 3 | .int _ => 4 | .float _ => 5 | .complex _ _ => 6
  | .bytes _ => 7 | .str _ => 8 | .tuple _ => 9 | .fset _ => 10 | .slice _ _ _ => 11 | .other _ => 12

def findIn (rows : List Row) (n : Str) : Option Row := rows.find? (fun r => r.1 == n)
def findRow (n : Str) : Option Row := findIn Gen.Vinegar.builtinExcTable n
def findAttr (r : Row) (a : Str) : Option (List Nat) := (r.2.2.find? (fun x => x.1 == a)).map (·.2.1)

def rowKind (n : Str) : ObjKind :=
  match findRow n with
  | some r => .excClass r.2.1
  | none => .missing

/-- `setattr` on an instance (made by `__new__`) of a subclass of the built-in class `c`: a typed setter stores the kinds
it was measured to store and raises otherwise; every other name lands in the instance `__dict__` -/
def rowSetattr (c a : Str) (v : Val) : SetRes :=
  match findRow c with
  | some r => match findAttr r a with
    | some acc => if acc.contains (kindOf v) then .store else .raises .typeError
    | none => .store
  | none => .store

/-- this interpreter with only `builtins` loaded -/
def tableEnv : Env :=
  { loaded := isBuiltinsName
    importable := fun _ => false
    lazy := fun _ => false
    modAttr := fun m n => if isBuiltinsName m then rowKind n else .missing
    builtinAttr := rowKind
    fmtName := fun _ _ => .error .notModelled
    setattr := fun cls a v => match cls with
      | .real m c => if isBuiltinsName m then rowSetattr c a v else .store
      | .generic _ => .store }

/-- an exception record of the built-in class of row `r`, as Python presents one: `dir()` lists each name once and `args`
among them (measured for every class: `Gen.Vinegar.builtinDirSane`), nothing `dump` calls on it raises (its arguments have a
`repr()`; `getattr` of the class's attributes was measured not to raise: `builtinGetattrClean`), and an attribute with a typed
setter shows a value of a kind its own getter returns (measured: `observed ⊆ stored`, `table_getters_within_setters`) -/
def RecOf (r : Row) (e : ExcRec) : Prop :=
  e.cls = ⟨Gen.Vinegar.exceptionsModule, r.1, .builtin⟩
    ∧ argsCount e.dir = 1
    ∧ (e.dir.map (·.name)).Nodup
    ∧ e.walkRaises = none
    ∧ ∀ d ∈ e.dir, ∀ a acc, d.value = some a → findAttr r d.name = some acc → acc.contains (kindOf (sendable a)) = true

/-! ### obligations about the measured table -/

theorem table_names_nodup : (Gen.Vinegar.builtinExcTable.map (·.1)).Nodup := by decide

/-- no class has a typed setter for the name the version travels under -/
theorem table_version_untyped :
    Gen.Vinegar.builtinExcTable.all (fun r => (findAttr r Gen.Vinegar.versionAttr).isNone) = true := by decide

/-- what a typed getter was seen to return, its setter stores -/
theorem table_getters_within_setters :
    Gen.Vinegar.builtinExcTable.all (fun r => r.2.2.all (fun a => a.2.2.all (fun k => a.2.1.contains k))) = true := by
  decide

theorem table_dir_and_getattr_sane :
    Gen.Vinegar.builtinDirSane = true ∧ Gen.Vinegar.builtinGetattrClean = true ∧ Gen.Vinegar.derivedKeepsNames = true := by
  decide

/-! ### discharging `Known` and `Writable` -/

theorem findIn_of_mem (rows : List Row) (r : Row) (hnd : (rows.map (·.1)).Nodup) (hm : r ∈ rows) :
    findIn rows r.1 = some r := by
  induction rows with
  | nil => cases hm
  | cons x xs ih =>
    simp only [List.map_cons, List.nodup_cons] at hnd
    unfold findIn
    rcases List.mem_cons.mp hm with rfl | hx
    · simp [List.find?]
    · have hne : (x.1 == r.1) = false := by
        cases hc : x.1 == r.1
        · rfl
        · exfalso
          have : x.1 = r.1 := by simpa using hc
          exact hnd.1 (by rw [this]; exact List.mem_map_of_mem hx)
      simp only [List.find?, hne]
      exact ih hnd.2 hx

theorem findRow_of_mem (r : Row) (hm : r ∈ Gen.Vinegar.builtinExcTable) : findRow r.1 = some r :=
  findIn_of_mem _ r table_names_nodup hm

theorem isBuiltinsName_builtins : isBuiltinsName (.str Gen.Vinegar.exceptionsModule) = true := by
  simp [isBuiltinsName]

theorem known_of_mem (r : Row) (hm : r ∈ Gen.Vinegar.builtinExcTable) : Known tableEnv r.1 r.2.1 := by
  refine ⟨isBuiltinsName_builtins, ?_, ?_⟩
  · simp [tableEnv, isBuiltinsName_builtins, rowKind, findRow_of_mem r hm]
  · simp [tableEnv, rowKind, findRow_of_mem r hm]

theorem sentAttrs_origin (ds : List DirEntry) : ∀ p ∈ sentAttrs ds,
    ∃ d ∈ ds, ∃ o, d.value = some o ∧ p = (d.name, sendable o) ∧ dropped d = false := by
  induction ds with
  | nil => intro p hp; cases hp
  | cons x xs ih =>
    intro p hp
    simp only [sentAttrs] at hp
    have lift : (∃ d ∈ xs, ∃ o, d.value = some o ∧ p = (d.name, sendable o) ∧ dropped d = false) →
        ∃ d ∈ x :: xs, ∃ o, d.value = some o ∧ p = (d.name, sendable o) ∧ dropped d = false :=
      fun ⟨d, hd, h⟩ => ⟨d, List.mem_cons_of_mem _ hd, h⟩
    split at hp
    · exact lift (ih p hp)
    · split at hp
      · exact lift (ih p hp)
      · split at hp
        · exact lift (ih p hp)
        · rename_i o hv
          rcases List.mem_cons.mp hp with rfl | hp'
          · have hdrop : dropped x = false := by
              cases hc : dropped x
              · rfl
              · simp_all
            exact ⟨x, by simp, o, hv, rfl, hdrop⟩
          · exact lift (ih p hp')

theorem writable_of_recOf (r : Row) (e : ExcRec) (hm : r ∈ Gen.Vinegar.builtinExcTable) (he : RecOf r e) :
    Writable tableEnv (.real (.str e.cls.modname) e.cls.name) e := by
  obtain ⟨hcls, _, _, _, hkinds⟩ := he
  have hmod : e.cls.modname = Gen.Vinegar.exceptionsModule := by rw [hcls]
  have hname : e.cls.name = r.1 := by rw [hcls]
  constructor
  · intro p hp
    obtain ⟨d, hd, o, hv, rfl, _⟩ := sentAttrs_origin e.dir p hp
    simp only [tableEnv, hmod, hname, isBuiltinsName_builtins, ↓reduceIte, rowSetattr, findRow_of_mem r hm]
    cases hfa : findAttr r d.name with
    | none => rfl
    | some acc =>
      have hc := hkinds d hd o acc hv hfa
      simp only [hc, ↓reduceIte]
  · intro v
    have hall := table_version_untyped
    rw [List.all_eq_true] at hall
    have hnone : findAttr r Gen.Vinegar.versionAttr = none := by
      have := hall r hm
      simpa [Option.isNone_iff_eq_none] using this
    simp [tableEnv, hmod, hname, isBuiltinsName_builtins, rowSetattr, findRow_of_mem r hm, hnone]

end Rpyc.Vinegar
