import RpycModel.Props.C04
import RpycModel.Props.C05
/-
Composition of the layers proved separately for C04 (brine) and C05 (channel over stream):
what `Connection._send` does to a message — `brine.dump`, then `Channel.send` over a stream — followed
by what `Connection.serve` does at the other end — `Channel.recv`, then `brine.load` — is the identity
on every sequence of messages, under every failure-free fragmentation of the byte stream; and under
ANY behaviour of the two transports the messages decoded are a prefix of the messages sent.

The theorems live in the namespace of C05 (they strengthen its statement from byte strings to values)
and are audited with it (harness/props/c05.py names this module).
-/
namespace Rpyc.Props.C05
open Rpyc Rpyc.Wire Rpyc.Brine

/-- `packets` are the brine encodings of `msgs`, message by message -/
def EncodedAs : List Val → List Bytes → Prop
  | [], [] => True
  | m :: ms, p :: ps => dump m = .ok p ∧ EncodedAs ms ps
  | _, _ => False

theorem EncodedAs.length_eq : ∀ (msgs : List Val) (packets : List Bytes), EncodedAs msgs packets →
    msgs.length = packets.length
  | [], [], _ => rfl
  | _ :: ms, _ :: ps, h => by simp [EncodedAs.length_eq ms ps h.2]
  | [], _ :: _, h => by simp [EncodedAs] at h
  | _ :: _, [], h => by simp [EncodedAs] at h

/-- every list of dumpable values inside brine's domain has such encodings -/
theorem encodedAs_exists (msgs : List Val) (h : ∀ m ∈ msgs, dumpable m = true ∧ InDomain m = true) :
    ∃ packets, EncodedAs msgs packets := by
  induction msgs with
  | nil => exact ⟨[], trivial⟩
  | cons m ms ih =>
    obtain ⟨ps, hps⟩ := ih (fun x hx => h x (List.mem_cons_of_mem _ hx))
    obtain ⟨p, hp⟩ := Rpyc.Props.C04.dump_total m (h m (by simp)).1 (h m (by simp)).2
    exact ⟨p :: ps, hp, hps⟩

theorem load_all_of_encodedAs : ∀ (msgs : List Val) (packets : List Bytes), (∀ m ∈ msgs, m.wf = true) →
    EncodedAs msgs packets → packets.map load = msgs.map Except.ok
  | [], [], _, _ => rfl
  | m :: ms, p :: ps, hwf, h => by
    have h1 := Rpyc.Props.C04.load_dump m p (hwf m (by simp)) h.1
    have h2 := load_all_of_encodedAs ms ps (fun x hx => hwf x (List.mem_cons_of_mem _ hx)) h.2
    simp [h1, h2]
  | [], _ :: _, _, h => by simp [EncodedAs] at h
  | _ :: _, [], _, h => by simp [EncodedAs] at h

theorem load_prefix_of_encodedAs (msgs : List Val) (packets got : List Bytes) (hwf : ∀ m ∈ msgs, m.wf = true)
    (h : EncodedAs msgs packets) (hp : got <+: packets) :
    ∃ k, k ≤ msgs.length ∧ got.map load = (msgs.take k).map Except.ok := by
  obtain ⟨rest, rfl⟩ := hp
  refine ⟨got.length, ?_, ?_⟩
  · have := EncodedAs.length_eq _ _ h; simp at this; omega
  · have hall := load_all_of_encodedAs msgs (got ++ rest) hwf h
    have : (List.map load (got ++ rest)).take got.length = (List.map Except.ok msgs).take got.length := by
      rw [hall]
    simpa [List.map_append, List.take_append_of_le_length, ← List.map_take] using this

/-- **End to end, exact.** For every sequence of messages (any values brine accepts), any compression
setting at the sender, any stream classes and chunk sizes, a sending transport accepting the data in
pieces of any sizes and a receiving transport delivering it in pieces of any sizes with any transient
would-block/timeout conditions: decoding what the receiver's channel returns yields exactly the messages
sent, in order. -/
theorem messages_end_to_end (z : Zlib) (c retry : Bool) (maxS maxR : Nat)
    (hS : Gen.frameHeaderSize ≤ maxS) (hS1 : 1 ≤ maxS) (hR : 1 ≤ maxR)
    (msgs : List Val) (packets : List Bytes) (sscript : List SendEv) (rscript : List RecvEv)
    (hwf : ∀ m ∈ msgs, m.wf = true) (henc : EncodedAs msgs packets)
    (hf : ∀ p ∈ packets, Fits z.toZlibFns c p)
    (hsa : sscript.all accepting = true) (hsl : (wireOf z.toZlibFns c packets).length ≤ sscript.length)
    (hrb : rscript.all (benign retry) = true) (hrp : (wireOf z.toZlibFns c packets).length ≤ progress rscript) :
    ((recvMany z.toZlibFns retry maxR packets.length
      ⟨(sendMany z.toZlibFns c maxS packets ⟨[], sscript, false⟩).2.2.sent, rscript, false⟩).1).map load
      = msgs.map Except.ok := by
  obtain ⟨_, _, hrecv, _⟩ := transfer_exact z c retry maxS maxR hS hS1 hR packets sscript rscript hf hsa hsl hrb hrp
  rw [hrecv]
  exact load_all_of_encodedAs msgs packets hwf henc

/-- **End to end, safe.** With NO assumption on either transport (failures and ends of stream at any
call, i.e. at any byte offset) and any number of `recv()` calls: what the receiver decodes is a prefix of
the messages sent — never an altered, truncated, merged or invented message. -/
theorem messages_end_to_end_safe (z : Zlib) (c retry : Bool) (maxS maxR n : Nat)
    (hS : Gen.frameHeaderSize ≤ maxS)
    (msgs : List Val) (packets : List Bytes) (sscript : List SendEv) (rscript : List RecvEv)
    (hwf : ∀ m ∈ msgs, m.wf = true) (henc : EncodedAs msgs packets)
    (hf : ∀ p ∈ packets, Fits z.toZlibFns c p) :
    ∃ k, k ≤ msgs.length ∧
      ((recvMany z.toZlibFns retry maxR n
        ⟨(sendMany z.toZlibFns c maxS packets ⟨[], sscript, false⟩).2.2.sent, rscript, false⟩).1).map load
        = (msgs.take k).map Except.ok := by
  obtain ⟨hpre, _⟩ := transfer_safe z c retry maxS maxR n hS packets sscript rscript hf
  exact load_prefix_of_encodedAs msgs packets _ hwf henc hpre

end Rpyc.Props.C05
