import RpycModel.Files.Model
/-
Helper lemmas for C20 (property theorems in Props/C20.lean).
-/
namespace Rpyc.Files
open Rpyc

/-! ### the chunk loop -/

theorem copyLoop_spec (chunk : Nat) (hc : 1 ≤ chunk) :
    ∀ (f : Nat) (src dst : Bytes), src.length < f → copyLoop chunk f src dst = dst ++ src := by
  intro f
  induction f with
  | zero => intro src dst h; omega
  | succ f ih =>
    intro src dst h
    unfold copyLoop
    cases src with
    | nil => simp
    | cons a tl =>
      have hne : ((a :: tl).take chunk).isEmpty = false := by
        obtain ⟨c, rfl⟩ : ∃ c, chunk = c + 1 := ⟨chunk - 1, by omega⟩
        simp
      rw [hne]
      simp only [Bool.false_eq_true, if_false]
      rw [ih _ _ (by simp [List.length_drop] at *; omega)]
      rw [List.append_assoc, List.take_append_drop]

/-! ### upload = prune -/

/-- what `upload` reports for a pruned source -/
def outcome (ignoreInvalid : Bool) : Option Tree → Except FErr (Option Tree)
  | some t => .ok (some t)
  | none => if ignoreInvalid then .ok none else .error .valueError

mutual
theorem upload_eq (chunk : Nat) (hc : 1 ≤ chunk) (f : Filter) (ii : Bool) :
    ∀ t : Tree, upload chunk f ii t = outcome ii (prune f t)
  | .dir es => by
    simp only [upload, prune, outcome]
    rw [uploadDir_eq chunk hc f es]
  | .file b => by
    simp only [upload, prune, outcome, copyFile]
    rw [copyLoop_spec chunk hc _ _ _ (Nat.lt_succ_self _)]
    simp
  | .other => by
    simp only [upload, prune, outcome]
theorem uploadDir_eq (chunk : Nat) (hc : 1 ≤ chunk) (f : Filter) :
    ∀ es : Entries, uploadDir chunk f es = .ok (pruneEntries f es)
  | .nil => by simp only [uploadDir, pruneEntries]
  | .cons n t rest => by
    simp only [uploadDir, pruneEntries]
    split
    · rw [upload_eq chunk hc f true t, uploadDir_eq chunk hc f rest]
      cases prune f t with
      | none => simp [outcome]
      | some t' => simp [outcome]
    · exact uploadDir_eq chunk hc f rest
end

/-! ### pruning with no filter keeps a regular tree as it is -/

mutual
theorem prune_none_regular : ∀ t : Tree, regular t = true → prune none t = some t
  | .dir es, h => by
    simp only [regular] at h
    simp only [prune]
    rw [pruneEntries_none_regular es h]
  | .file b, _ => by simp only [prune]
  | .other, h => by simp [regular] at h
theorem pruneEntries_none_regular : ∀ es : Entries, regularEntries es = true → pruneEntries none es = es
  | .nil, _ => by simp only [pruneEntries]
  | .cons n t rest, h => by
    simp only [regularEntries, Bool.and_eq_true] at h
    simp only [pruneEntries, passes, if_true]
    rw [prune_none_regular t h.1, pruneEntries_none_regular rest h.2]
end

/-! ### pruning, path by path -/

def itemsOpt (pre : List Name) : Option Tree → List Item
  | some t => items pre t
  | none => []

mutual
theorem items_path : ∀ (t : Tree) (pre : List Name), ∀ i ∈ items pre t, ∃ suf, i.path = pre ++ suf
  | .dir es, pre, i, hi => by
    simp only [items, List.mem_cons] at hi
    rcases hi with rfl | hi
    · exact ⟨[], by simp [Item.path]⟩
    · exact itemsOf_path es pre i hi
  | .file b, pre, i, hi => by
    simp only [items, List.mem_singleton] at hi
    subst hi; exact ⟨[], by simp [Item.path]⟩
  | .other, pre, i, hi => by
    simp only [items, List.mem_singleton] at hi
    subst hi; exact ⟨[], by simp [Item.path]⟩
theorem itemsOf_path : ∀ (es : Entries) (pre : List Name), ∀ i ∈ itemsOf pre es, ∃ suf, i.path = pre ++ suf
  | .nil, pre, i, hi => by simp [itemsOf] at hi
  | .cons n t rest, pre, i, hi => by
    simp only [itemsOf, List.mem_append] at hi
    rcases hi with hi | hi
    · obtain ⟨suf, h⟩ := items_path t (pre ++ [n]) i hi
      exact ⟨n :: suf, by simp [h]⟩
    · exact itemsOf_path rest pre i hi
end

/-- below an entry whose name passes, "kept relative to the parent" = "kept relative to the entry" -/
theorem keeps_step (f : Filter) (pre : List Name) (n : Name) (hp : passes f n = true) (i : Item)
    (hi : ∃ suf, i.path = (pre ++ [n]) ++ suf) : keeps f pre.length i = keeps f (pre.length + 1) i := by
  obtain ⟨suf, h⟩ := hi
  have h1 : List.drop pre.length i.path = n :: suf := by rw [h]; simp
  have h2 : List.drop (pre.length + 1) i.path = suf := by
    have : pre.length + 1 = (pre ++ [n]).length := by simp
    rw [h, this, List.drop_left]
  simp [keeps, h1, h2, hp]

/-- below an entry whose name is rejected nothing is kept -/
theorem keeps_rejected (f : Filter) (pre : List Name) (n : Name) (hp : passes f n = false) (i : Item)
    (hi : ∃ suf, i.path = (pre ++ [n]) ++ suf) : keeps f pre.length i = false := by
  obtain ⟨suf, h⟩ := hi
  have h1 : List.drop pre.length i.path = n :: suf := by rw [h]; simp
  simp [keeps, h1, hp]

mutual
theorem prune_items (f : Filter) :
    ∀ (t : Tree) (pre : List Name), itemsOpt pre (prune f t) = (items pre t).filter (keeps f pre.length)
  | .dir es, pre => by
    simp only [prune, itemsOpt, items, List.filter_cons]
    have hk : keeps f pre.length (.dirAt pre) = true := by simp [keeps, Item.isOther, Item.path]
    rw [hk, if_pos rfl, pruneEntries_items f es pre]
  | .file b, pre => by
    simp [prune, itemsOpt, items, keeps, Item.isOther, Item.path]
  | .other, pre => by
    simp [prune, itemsOpt, items, keeps, Item.isOther]
theorem pruneEntries_items (f : Filter) :
    ∀ (es : Entries) (pre : List Name),
      itemsOf pre (pruneEntries f es) = (itemsOf pre es).filter (keeps f pre.length)
  | .nil, pre => by simp [pruneEntries, itemsOf]
  | .cons n t rest, pre => by
    simp only [pruneEntries, itemsOf, List.filter_append]
    cases hp : passes f n with
    | true =>
      simp only [if_true]
      have hsub : (items (pre ++ [n]) t).filter (keeps f pre.length)
          = (items (pre ++ [n]) t).filter (keeps f (pre.length + 1)) := by
        apply List.filter_congr
        intro i hi
        exact keeps_step f pre n hp i (items_path t _ i hi)
      have ht := prune_items f t (pre ++ [n])
      simp only [List.length_append, List.length_singleton] at ht
      rw [hsub, ← ht]
      cases hpr : prune f t with
      | none => simp [itemsOpt, pruneEntries_items f rest pre]
      | some t' => simp [itemsOpt, itemsOf, pruneEntries_items f rest pre]
    | false =>
      simp only [Bool.false_eq_true, if_false]
      have hnone : (items (pre ++ [n]) t).filter (keeps f pre.length) = [] := by
        rw [List.filter_eq_nil_iff]
        intro i hi
        simp [keeps_rejected f pre n hp i (items_path t _ i hi)]
      rw [hnone, List.nil_append]
      exact pruneEntries_items f rest pre
end

/-! ### transfers onto an existing destination -/

theorem Entries.append_nil : ∀ a : Entries, a.append .nil = a
  | .nil => rfl
  | .cons n t rest => by simp [Entries.append, Entries.append_nil rest]

theorem Entries.append_assoc : ∀ a b c : Entries, (a.append b).append c = a.append (b.append c)
  | .nil, _, _ => rfl
  | .cons n t rest, b, c => by simp [Entries.append, Entries.append_assoc rest b c]

theorem Entries.names_append : ∀ a b : Entries, (a.append b).names = a.names ++ b.names
  | .nil, _ => rfl
  | .cons n t rest, b => by simp [Entries.append, Entries.names, Entries.names_append rest b]

theorem Entries.find_append_notin : ∀ (pre ds : Entries) (n : Name), n ∉ pre.names →
    (pre.append ds).find n = ds.find n
  | .nil, _, _, _ => rfl
  | .cons m t rest, ds, n, h => by
    simp only [Entries.names, List.mem_cons, not_or] at h
    have hm : ¬ m = n := fun e => h.1 e.symm
    simp [Entries.append, Entries.find, hm, Entries.find_append_notin rest ds n h.2]

theorem Entries.set_append_notin : ∀ (pre ds : Entries) (n : Name) (t : Tree), n ∉ pre.names →
    (pre.append ds).set n t = pre.append (ds.set n t)
  | .nil, _, _, _, _ => rfl
  | .cons m d rest, ds, n, t, h => by
    simp only [Entries.names, List.mem_cons, not_or] at h
    have hm : ¬ m = n := fun e => h.1 e.symm
    simp [Entries.append, Entries.set, hm, Entries.set_append_notin rest ds n t h.2]

theorem Entries.find_notin : ∀ (ds : Entries) (n : Name), n ∉ ds.names → ds.find n = none
  | .nil, _, _ => rfl
  | .cons m t rest, n, h => by
    simp only [Entries.names, List.mem_cons, not_or] at h
    have hm : ¬ m = n := fun e => h.1 e.symm
    simp [Entries.find, hm, Entries.find_notin rest n h.2]

theorem Entries.set_notin : ∀ (ds : Entries) (n : Name) (t : Tree), n ∉ ds.names →
    ds.set n t = ds.append (.cons n t .nil)
  | .nil, _, _, _ => rfl
  | .cons m d rest, n, t, h => by
    simp only [Entries.names, List.mem_cons, not_or] at h
    have hm : ¬ m = n := fun e => h.1 e.symm
    simp [Entries.set, Entries.append, hm, Entries.set_notin rest n t h.2]

theorem Entries.set_find_self : ∀ (ds : Entries) (n : Name) (x : Tree), ds.find n = some x → ds.set n x = ds
  | .nil, _, _, h => by simp [Entries.find] at h
  | .cons m d rest, n, x, h => by
    by_cases hm : m = n
    · simp [Entries.find, hm] at h
      simp [Entries.set, hm, h]
    · simp [Entries.find, hm] at h
      simp [Entries.set, hm, Entries.set_find_self rest n x h]

/-- an entry that is neither file nor directory leaves the destination directory as it is -/
theorem uploadDirOver_other_step (chunk : Nat) (f : Filter) (n : Name) (rest ds : Entries)
    (hp : passes f n = true) :
    uploadDirOver chunk f (.cons n .other rest) ds = uploadDirOver chunk f rest ds := by
  simp only [uploadDirOver, hp, if_true, uploadOver]
  cases hf : ds.find n with
  | none => rfl
  | some x => simp [Entries.set_find_self ds n x hf]

theorem prune_none_iff (f : Filter) (t : Tree) : prune f t = none ↔ t = .other := by
  cases t <;> simp [prune]

mutual
/-- into an absent destination `uploadOver` is `upload` -/
theorem uploadOver_absent (chunk : Nat) (hc : 1 ≤ chunk) (f : Filter) (ii : Bool) :
    ∀ t : Tree, distinctNames t = true → uploadOver chunk f ii t none = outcome ii (prune f t)
  | .dir es, hd => by
    simp only [distinctNames] at hd
    have := uploadDirOver_fresh chunk hc f es .nil hd (fun n _ h => by simp [Entries.names] at h)
    simp only [Entries.append] at this
    simp [uploadOver, prune, outcome, this]
  | .file b, _ => by
    simp only [uploadOver, prune, outcome, copyFile]
    rw [copyLoop_spec chunk hc _ _ _ (Nat.lt_succ_self _)]
    simp
  | .other, _ => by
    simp only [uploadOver, prune, outcome]
theorem uploadDirOver_fresh (chunk : Nat) (hc : 1 ≤ chunk) (f : Filter) :
    ∀ (es acc : Entries), distinctEntries es = true → (∀ n ∈ es.names, n ∉ acc.names) →
      uploadDirOver chunk f es acc = .ok (acc.append (pruneEntries f es))
  | .nil, acc, _, _ => by simp [uploadDirOver, pruneEntries, Entries.append_nil]
  | .cons n t rest, acc, hd, hdis => by
    simp only [distinctEntries, Bool.and_eq_true, Bool.not_eq_true', List.contains_eq_mem,
      decide_eq_false_iff_not] at hd
    obtain ⟨⟨hn, hdt⟩, hdr⟩ := hd
    have hrest : ∀ m ∈ rest.names, m ∉ acc.names := fun m hm => hdis m (by simp [Entries.names, hm])
    have hnacc : n ∉ acc.names := hdis n (by simp [Entries.names])
    cases hp : passes f n with
    | false =>
      simp only [uploadDirOver, pruneEntries, hp, Bool.false_eq_true, if_false]
      exact uploadDirOver_fresh chunk hc f rest acc hdr hrest
    | true =>
      cases hpr : prune f t with
      | none =>
        have ht := (prune_none_iff f t).mp hpr
        subst ht
        rw [uploadDirOver_other_step chunk f n rest acc hp]
        simp only [pruneEntries, hp, if_true, prune]
        exact uploadDirOver_fresh chunk hc f rest acc hdr hrest
      | some pt =>
        have h1 := uploadOver_absent chunk hc f true t hdt
        rw [hpr] at h1
        simp only [outcome] at h1
        simp only [uploadDirOver, pruneEntries, hp, if_true, hpr, Entries.find_notin acc n hnacc, h1]
        rw [Entries.set_notin acc n pt hnacc]
        have := uploadDirOver_fresh chunk hc f rest (acc.append (.cons n pt .nil)) hdr (by
          intro m hm hin
          rw [Entries.names_append] at hin
          simp only [Entries.names, List.mem_append, List.mem_cons, List.not_mem_nil, or_false] at hin
          rcases hin with hin | hin
          · exact hrest m hm hin
          · subst hin; exact hn hm)
        rw [this, Entries.append_assoc]
        rfl
end

mutual
/-- **the last transfer wins**: transferring `t` onto any destination that has the shape of what `t`
transfers to (for instance what an earlier transfer of a tree with the same names left there) leaves exactly
what `t` transfers to — every byte of every file replaced -/
theorem uploadOver_sameShape (chunk : Nat) (hc : 1 ≤ chunk) (f : Filter) (ii : Bool) :
    ∀ (t d pt : Tree), distinctNames t = true → prune f t = some pt → sameShape pt d = true →
      uploadOver chunk f ii t (some d) = .ok (some pt)
  | .dir es, d, pt, hd, hp, hs => by
    simp only [prune, Option.some.injEq] at hp
    subst hp
    simp only [distinctNames] at hd
    cases d with
    | dir ds =>
      simp only [sameShape] at hs
      have := uploadDirOver_sameShape chunk hc f es .nil ds hd (fun n _ h => by simp [Entries.names] at h) hs
      simp only [Entries.append] at this
      simp [uploadOver, this]
    | file b => simp [sameShape] at hs
    | other => simp [sameShape] at hs
  | .file b, d, pt, _, hp, hs => by
    simp only [prune, Option.some.injEq] at hp
    subst hp
    cases d with
    | file old =>
      simp only [uploadOver, copyFile]
      rw [copyLoop_spec chunk hc _ _ _ (Nat.lt_succ_self _)]
      simp
    | dir ds => simp [sameShape] at hs
    | other => simp [sameShape] at hs
  | .other, _, _, _, hp, _ => by simp [prune] at hp
theorem uploadDirOver_sameShape (chunk : Nat) (hc : 1 ≤ chunk) (f : Filter) :
    ∀ (es pre ds : Entries), distinctEntries es = true → (∀ n ∈ es.names, n ∉ pre.names) →
      sameShapeEntries (pruneEntries f es) ds = true →
      uploadDirOver chunk f es (pre.append ds) = .ok (pre.append (pruneEntries f es))
  | .nil, pre, ds, _, _, hs => by
    cases ds with
    | nil => simp [uploadDirOver, pruneEntries]
    | cons m d ds' => simp [pruneEntries, sameShapeEntries] at hs
  | .cons n t rest, pre, ds, hd, hdis, hs => by
    simp only [distinctEntries, Bool.and_eq_true, Bool.not_eq_true', List.contains_eq_mem,
      decide_eq_false_iff_not] at hd
    obtain ⟨⟨hn, hdt⟩, hdr⟩ := hd
    have hrest : ∀ m ∈ rest.names, m ∉ pre.names := fun m hm => hdis m (by simp [Entries.names, hm])
    have hnpre : n ∉ pre.names := hdis n (by simp [Entries.names])
    cases hp : passes f n with
    | false =>
      simp only [pruneEntries, hp, Bool.false_eq_true, if_false] at hs ⊢
      simp only [uploadDirOver, hp, Bool.false_eq_true, if_false]
      exact uploadDirOver_sameShape chunk hc f rest pre ds hdr hrest hs
    | true =>
      cases hpr : prune f t with
      | none =>
        have ht := (prune_none_iff f t).mp hpr
        subst ht
        rw [uploadDirOver_other_step chunk f n rest _ hp]
        simp only [pruneEntries, hp, if_true, prune] at hs ⊢
        exact uploadDirOver_sameShape chunk hc f rest pre ds hdr hrest hs
      | some pt =>
        simp only [pruneEntries, hp, if_true, hpr] at hs ⊢
        cases ds with
        | nil => simp [sameShapeEntries] at hs
        | cons m d0 ds' =>
          simp only [sameShapeEntries, Bool.and_eq_true, beq_iff_eq] at hs
          obtain ⟨⟨hnm, hsd⟩, hsr⟩ := hs
          subst hnm
          have h1 := uploadOver_sameShape chunk hc f true t d0 pt hdt hpr hsd
          have hfind : (pre.append (.cons n d0 ds')).find n = some d0 := by
            rw [Entries.find_append_notin pre _ n hnpre]; simp [Entries.find]
          have hset : (pre.append (.cons n d0 ds')).set n pt = (pre.append (.cons n pt .nil)).append ds' := by
            rw [Entries.set_append_notin pre _ n pt hnpre, Entries.append_assoc]
            simp [Entries.set, Entries.append]
          simp only [uploadDirOver, hp, if_true, hfind, h1, hset]
          have := uploadDirOver_sameShape chunk hc f rest (pre.append (.cons n pt .nil)) ds' hdr (by
            intro k hk hin
            rw [Entries.names_append] at hin
            simp only [Entries.names, List.mem_append, List.mem_cons, List.not_mem_nil, or_false] at hin
            rcases hin with hin | hin
            · exact hrest k hk hin
            · subst hin; exact hn hk) hsr
          rw [this, Entries.append_assoc]
          rfl
end

/-! ### `download` is `upload` -/

theorem downloadLoop_eq (chunk : Nat) : ∀ (f : Nat) (a b : Bytes), downloadLoop chunk f a b = copyLoop chunk f a b := by
  intro f
  induction f with
  | zero => intro a b; rfl
  | succ f ih => intro a b; simp [downloadLoop, copyLoop, ih]

theorem downloadFile_eq (chunk : Nat) (b : Bytes) : downloadFile chunk b = copyFile chunk b := by
  simp [downloadFile, copyFile, downloadLoop_eq]

mutual
theorem download_eq_upload (chunk : Nat) (f : Filter) (ii : Bool) : ∀ t : Tree, download chunk f ii t = upload chunk f ii t
  | .dir es => by simp only [download, upload, downloadDir_eq_uploadDir chunk f es]
  | .file b => by simp only [download, upload, downloadFile_eq]
  | .other => by simp only [download, upload]
theorem downloadDir_eq_uploadDir (chunk : Nat) (f : Filter) :
    ∀ es : Entries, downloadDir chunk f es = uploadDir chunk f es
  | .nil => by simp only [downloadDir, uploadDir]
  | .cons n t rest => by
    simp only [downloadDir, uploadDir, download_eq_upload chunk f true t, downloadDir_eq_uploadDir chunk f rest]
end

/-! ### a transfer onto any destination = the pruned source laid over it -/

/-- the specification: prune, then overlay -/
def overSpec (f : Filter) (ii : Bool) (t : Tree) (dst : Option Tree) : Except FErr (Option Tree) :=
  match prune f t with
  | none => if ii then .ok dst else .error .valueError
  | some pt =>
    match overlay pt dst with
    | .ok r => .ok (some r)
    | .error e => .error e

mutual
theorem uploadOver_eq_overlay (chunk : Nat) (hc : 1 ≤ chunk) (f : Filter) (ii : Bool) :
    ∀ (t : Tree) (dst : Option Tree), uploadOver chunk f ii t dst = overSpec f ii t dst
  | .dir es, dst => by
    simp only [overSpec, prune]
    cases dst with
    | none => simp only [uploadOver, overlay, uploadDirOver_eq_overlay chunk hc f es .nil]; split <;> rfl
    | some d =>
      cases d with
      | dir ds => simp only [uploadOver, overlay, uploadDirOver_eq_overlay chunk hc f es ds]; split <;> rfl
      | file b => simp only [uploadOver, overlay]
      | other => simp only [uploadOver, overlay]
  | .file b, dst => by
    have hcopy : copyFile chunk b = b := by
      unfold copyFile; rw [copyLoop_spec chunk hc _ _ _ (Nat.lt_succ_self _)]; simp
    simp only [overSpec, prune]
    cases dst with
    | none => simp only [uploadOver, overlay, hcopy]
    | some d => cases d <;> simp only [uploadOver, overlay, hcopy]
  | .other, dst => by simp only [overSpec, prune, uploadOver]
theorem uploadDirOver_eq_overlay (chunk : Nat) (hc : 1 ≤ chunk) (f : Filter) :
    ∀ (es ds : Entries), uploadDirOver chunk f es ds = overlayEntries (pruneEntries f es) ds
  | .nil, ds => by simp only [uploadDirOver, pruneEntries, overlayEntries]
  | .cons n t rest, ds => by
    cases hp : passes f n with
    | false =>
      simp only [uploadDirOver, pruneEntries, hp, Bool.false_eq_true, if_false]
      exact uploadDirOver_eq_overlay chunk hc f rest ds
    | true =>
      cases hpr : prune f t with
      | none =>
        have ht := (prune_none_iff f t).mp hpr
        subst ht
        rw [uploadDirOver_other_step chunk f n rest ds hp]
        simp only [pruneEntries, hp, if_true, prune]
        exact uploadDirOver_eq_overlay chunk hc f rest ds
      | some pt =>
        have h1 := uploadOver_eq_overlay chunk hc f true t (ds.find n)
        simp only [overSpec, hpr] at h1
        simp only [uploadDirOver, pruneEntries, hp, if_true, hpr, overlayEntries, h1]
        cases overlay pt (ds.find n) with
        | error e => rfl
        | ok r => exact uploadDirOver_eq_overlay chunk hc f rest (ds.set n r)
end

/-! ### shape is reflexive; what a transfer produces is regular (for idempotence and round trips) -/

mutual
theorem sameShape_refl : ∀ t : Tree, sameShape t t = true
  | .file _ => by simp only [sameShape]
  | .other => by simp only [sameShape]
  | .dir es => by simp only [sameShape]; exact sameShapeEntries_refl es
theorem sameShapeEntries_refl : ∀ es : Entries, sameShapeEntries es es = true
  | .nil => by simp only [sameShapeEntries]
  | .cons n t rest => by
    simp only [sameShapeEntries, beq_self_eq_true, Bool.true_and, sameShape_refl t, sameShapeEntries_refl rest]
end

mutual
theorem prune_regular (f : Filter) : ∀ (t pt : Tree), prune f t = some pt → regular pt = true
  | .dir es, pt, h => by
    simp only [prune] at h
    injection h with h; subst h
    simp only [regular]; exact pruneEntries_regular f es
  | .file b, pt, h => by
    simp only [prune] at h
    injection h with h; subst h
    simp only [regular]
  | .other, pt, h => by simp [prune] at h
theorem pruneEntries_regular (f : Filter) : ∀ es : Entries, regularEntries (pruneEntries f es) = true
  | .nil => by simp only [pruneEntries, regularEntries]
  | .cons n t rest => by
    simp only [pruneEntries]
    split
    · cases hp : prune f t with
      | some t' =>
        simp only [regularEntries, Bool.and_eq_true]
        exact ⟨prune_regular f t t' hp, pruneEntries_regular f rest⟩
      | none => exact pruneEntries_regular f rest
    · exact pruneEntries_regular f rest
end

/-! ### definitional lemmas (one-step unfoldings; not counted as property theorems) -/

/-- a path that is neither a directory nor a regular file: `ValueError`, unless `ignore_invalid` (then
nothing is created); inside a tree such entries are skipped -/
theorem invalid_top_level (chunk : Nat) (f : Filter) :
    upload chunk f false .other = .error .valueError ∧ upload chunk f true .other = .ok none := by
  simp [upload]

/-- the filter sees the entry's name, never the top-level path: a single file is always transferred -/
theorem top_level_not_filtered (chunk : Nat) (hc : 1 ≤ chunk) (f : Filter) (ii : Bool) (b : Bytes) :
    upload chunk f ii (.file b) = .ok (some (.file b)) := by
  rw [upload_eq chunk hc]; rfl


/-! definitional (not counted as a property theorem) -/

/-- **A filter object that is falsy is no filter** (the code tests `not filter or filter(fn)`): a callable
defining `__bool__`/`__len__` as false is ignored and everything is transferred, whatever it would reject.
With a truthy callable the filter is its predicate. -/
theorem falsy_filter_is_no_filter (p : Name → Bool) :
    effective (some ⟨false, p⟩) = none ∧ effective (some ⟨true, p⟩) = some p ∧ effective none = none :=
  ⟨rfl, rfl, rfl⟩

end Rpyc.Files
