import RpycModel.Files.Model
/-
Helper lemmas for C20 (property theorems in Props/C20.lean).
-/
namespace Rpyc.Files
open Rpyc

/-! ### the chunk loop -/

theorem copyLoop_spec (chunk : Nat) (hc : 1 ≤ chunk) :
    ∀ (f : Nat) (src dst : Bytes), src.length < f → copyLoop chunk f src dst = dst ++ src := by
  intro f
  induction f with
  | zero => intro src dst h; omega
  | succ f ih =>
    intro src dst h
    unfold copyLoop
    cases src with
    | nil => simp
    | cons a tl =>
      have hne : ((a :: tl).take chunk).isEmpty = false := by
        obtain ⟨c, rfl⟩ : ∃ c, chunk = c + 1 := ⟨chunk - 1, by omega⟩
        simp
      rw [hne]
      simp only [Bool.false_eq_true, if_false]
      rw [ih _ _ (by simp [List.length_drop] at *; omega)]
      rw [List.append_assoc, List.take_append_drop]

/-! ### upload = prune -/

/-- what `upload` reports for a pruned source -/
def outcome (ignoreInvalid : Bool) : Option Tree → Except Err (Option Tree)
  | some t => .ok (some t)
  | none => if ignoreInvalid then .ok none else .error .valueError

mutual
theorem upload_eq (chunk : Nat) (hc : 1 ≤ chunk) (f : Filter) (ii : Bool) :
    ∀ t : Tree, upload chunk f ii t = outcome ii (prune f t)
  | .dir es => by
    simp only [upload, prune, outcome]
    rw [uploadDir_eq chunk hc f es]
  | .file b => by
    simp only [upload, prune, outcome, copyFile]
    rw [copyLoop_spec chunk hc _ _ _ (Nat.lt_succ_self _)]
    simp
  | .other => by
    simp only [upload, prune, outcome]
theorem uploadDir_eq (chunk : Nat) (hc : 1 ≤ chunk) (f : Filter) :
    ∀ es : Entries, uploadDir chunk f es = .ok (pruneEntries f es)
  | .nil => by simp only [uploadDir, pruneEntries]
  | .cons n t rest => by
    simp only [uploadDir, pruneEntries]
    split
    · rw [upload_eq chunk hc f true t, uploadDir_eq chunk hc f rest]
      cases prune f t with
      | none => simp [outcome]
      | some t' => simp [outcome]
    · exact uploadDir_eq chunk hc f rest
end

/-! ### pruning with no filter keeps a regular tree as it is -/

mutual
theorem prune_none_regular : ∀ t : Tree, regular t = true → prune none t = some t
  | .dir es, h => by
    simp only [regular] at h
    simp only [prune]
    rw [pruneEntries_none_regular es h]
  | .file b, _ => by simp only [prune]
  | .other, h => by simp [regular] at h
theorem pruneEntries_none_regular : ∀ es : Entries, regularEntries es = true → pruneEntries none es = es
  | .nil, _ => by simp only [pruneEntries]
  | .cons n t rest, h => by
    simp only [regularEntries, Bool.and_eq_true] at h
    simp only [pruneEntries, passes, if_true]
    rw [prune_none_regular t h.1, pruneEntries_none_regular rest h.2]
end

/-! ### pruning, path by path -/

def itemsOpt (pre : List String) : Option Tree → List Item
  | some t => items pre t
  | none => []

mutual
theorem items_path : ∀ (t : Tree) (pre : List String), ∀ i ∈ items pre t, ∃ suf, i.path = pre ++ suf
  | .dir es, pre, i, hi => by
    simp only [items, List.mem_cons] at hi
    rcases hi with rfl | hi
    · exact ⟨[], by simp [Item.path]⟩
    · exact itemsOf_path es pre i hi
  | .file b, pre, i, hi => by
    simp only [items, List.mem_singleton] at hi
    subst hi; exact ⟨[], by simp [Item.path]⟩
  | .other, pre, i, hi => by
    simp only [items, List.mem_singleton] at hi
    subst hi; exact ⟨[], by simp [Item.path]⟩
theorem itemsOf_path : ∀ (es : Entries) (pre : List String), ∀ i ∈ itemsOf pre es, ∃ suf, i.path = pre ++ suf
  | .nil, pre, i, hi => by simp [itemsOf] at hi
  | .cons n t rest, pre, i, hi => by
    simp only [itemsOf, List.mem_append] at hi
    rcases hi with hi | hi
    · obtain ⟨suf, h⟩ := items_path t (pre ++ [n]) i hi
      exact ⟨n :: suf, by simp [h]⟩
    · exact itemsOf_path rest pre i hi
end

/-- below an entry whose name passes, "kept relative to the parent" = "kept relative to the entry" -/
theorem keeps_step (f : Filter) (pre : List String) (n : String) (hp : passes f n = true) (i : Item)
    (hi : ∃ suf, i.path = (pre ++ [n]) ++ suf) : keeps f pre.length i = keeps f (pre.length + 1) i := by
  obtain ⟨suf, h⟩ := hi
  have h1 : List.drop pre.length i.path = n :: suf := by rw [h]; simp
  have h2 : List.drop (pre.length + 1) i.path = suf := by
    have : pre.length + 1 = (pre ++ [n]).length := by simp
    rw [h, this, List.drop_left]
  simp [keeps, h1, h2, hp]

/-- below an entry whose name is rejected nothing is kept -/
theorem keeps_rejected (f : Filter) (pre : List String) (n : String) (hp : passes f n = false) (i : Item)
    (hi : ∃ suf, i.path = (pre ++ [n]) ++ suf) : keeps f pre.length i = false := by
  obtain ⟨suf, h⟩ := hi
  have h1 : List.drop pre.length i.path = n :: suf := by rw [h]; simp
  simp [keeps, h1, hp]

mutual
theorem prune_items (f : Filter) :
    ∀ (t : Tree) (pre : List String), itemsOpt pre (prune f t) = (items pre t).filter (keeps f pre.length)
  | .dir es, pre => by
    simp only [prune, itemsOpt, items, List.filter_cons]
    have hk : keeps f pre.length (.dirAt pre) = true := by simp [keeps, Item.isOther, Item.path]
    rw [hk, if_pos rfl, pruneEntries_items f es pre]
  | .file b, pre => by
    simp [prune, itemsOpt, items, keeps, Item.isOther, Item.path]
  | .other, pre => by
    simp [prune, itemsOpt, items, keeps, Item.isOther]
theorem pruneEntries_items (f : Filter) :
    ∀ (es : Entries) (pre : List String),
      itemsOf pre (pruneEntries f es) = (itemsOf pre es).filter (keeps f pre.length)
  | .nil, pre => by simp [pruneEntries, itemsOf]
  | .cons n t rest, pre => by
    simp only [pruneEntries, itemsOf, List.filter_append]
    cases hp : passes f n with
    | true =>
      simp only [if_true]
      have hsub : (items (pre ++ [n]) t).filter (keeps f pre.length)
          = (items (pre ++ [n]) t).filter (keeps f (pre.length + 1)) := by
        apply List.filter_congr
        intro i hi
        exact keeps_step f pre n hp i (items_path t _ i hi)
      have ht := prune_items f t (pre ++ [n])
      simp only [List.length_append, List.length_singleton] at ht
      rw [hsub, ← ht]
      cases hpr : prune f t with
      | none => simp [itemsOpt, pruneEntries_items f rest pre]
      | some t' => simp [itemsOpt, itemsOf, pruneEntries_items f rest pre]
    | false =>
      simp only [Bool.false_eq_true, if_false]
      have hnone : (items (pre ++ [n]) t).filter (keeps f pre.length) = [] := by
        rw [List.filter_eq_nil_iff]
        intro i hi
        simp [keeps_rejected f pre n hp i (items_path t _ i hi)]
      rw [hnone, List.nil_append]
      exact pruneEntries_items f rest pre
end

end Rpyc.Files
