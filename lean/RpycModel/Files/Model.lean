import RpycModel.Base.Bytes
/-
L9 Files — `rpyc/utils/classic.py`: `upload`, `upload_file`, `upload_dir`, `download`, `download_file`,
`download_dir`.

`download*` is `upload*` with the roles of the two sides swapped (the local calls `open`, `os.listdir`,
`os.path.isdir|isfile|join`, `os.makedirs` become remote calls and vice versa).  The model has no local/remote
state: `download…` is a second copy of the same recursion (`download_eq_upload`); the two real code paths are
distinguished by the correspondence only.

Names are lists of code points (`Name`): a file name that is not valid UTF-8 reaches Python as a `str` with
lone surrogates (`os.fsdecode`, surrogateescape) and travels through brine as such.

The filesystem is the trusted part: a path is a regular file with contents, a directory with named
entries (in the order `os.listdir` returned them), or something else (`other`: neither `isdir` nor
`isfile` — a dangling link, a fifo, a socket, a device).  The destination path does not exist (or is an
empty directory) before the transfer.
-/
namespace Rpyc.Files
open Rpyc

/-! ### the chunk loop of `upload_file` / `download_file` -/

/-- `while True: buf = src.read(chunk); if not buf: break; dst.write(buf)` — `read(n)` on a regular file
yields the next `min n remaining` bytes; fuel = one iteration per byte plus the final empty read. -/
def copyLoop (chunk : Nat) : Nat → Bytes → Bytes → Bytes
  | 0, _, dst => dst
  | f + 1, src, dst =>
    if (src.take chunk).isEmpty then dst
    else copyLoop chunk f (src.drop chunk) (dst ++ src.take chunk)

/-- contents of the destination file after `upload_file` / `download_file` with this chunk size -/
def copyFile (chunk : Nat) (src : Bytes) : Bytes := copyLoop chunk (src.length + 1) src []

/-! ### trees -/

/-- a file name as Python has it: code points, lone surrogates (undecodable bytes) included -/
abbrev Name := List Nat

/-- the code points of a literal (for examples) -/
def nm (s : String) : Name := s.toList.map Char.toNat

/-- the errors of the transfer functions: `ValueError` of `upload`/`download` themselves, and the `OSError`s
of the calls they make when a file is where a directory is needed or the reverse -/
inductive FErr where
  | valueError
  /-- `open(path, "wb")` on a directory -/
  | isADirectoryError
  /-- `os.makedirs(path)` on a regular file -/
  | fileExistsError
  /-- `open(path, "wb")` / `os.makedirs(path)` when a component of the path is a regular file -/
  | notADirectoryError
  /-- `open(path, "wb")` when the directory the file is to be created in does not exist -/
  | fileNotFoundError
  /-- the destination is a fifo / device / dangling link: what the real calls do there is not modelled -/
  | notModelled
  deriving DecidableEq, Repr

def FErr.name : FErr → String
  | .valueError => "ValueError"
  | .isADirectoryError => "IsADirectoryError"
  | .fileExistsError => "FileExistsError"
  | .notADirectoryError => "NotADirectoryError"
  | .fileNotFoundError => "FileNotFoundError"
  | .notModelled => "NOT-MODELLED"

mutual
inductive Tree where
  | file (b : Bytes)
  | dir (es : Entries)
  | other
  deriving DecidableEq
inductive Entries where
  | nil
  | cons (name : Name) (t : Tree) (rest : Entries)
  deriving DecidableEq
end

/-- `filter`: `None`, or a predicate on the entry's *name* (`filter(fn)` with `fn` from `os.listdir`,
not the joined path) -/
abbrev Filter := Option (Name → Bool)

/-- what the caller passes as `filter`: `None`, or a callable with its truth value.  The code tests
`not filter or filter(fn)`: a callable object that is *falsy* (defines `__bool__`/`__len__`) is treated like
`None`. -/
structure FilterArg where
  truthy : Bool
  pred : Name → Bool

/-- the filter the code actually applies -/
def effective : Option FilterArg → Filter
  | none => none
  | some a => if a.truthy then some a.pred else none

/-- `not filter or filter(fn)` -/
def passes (f : Filter) (name : Name) : Bool :=
  match f with
  | none => true
  | some p => p name

mutual
/-- `upload(conn, localpath, remotepath, filter, ignore_invalid, chunk_size)`: what exists at the
destination path afterwards (`none`: nothing was created), or the error raised.
`isdir` → `upload_dir`; `isfile` → `upload_file`; otherwise `ValueError` unless `ignore_invalid`. -/
def upload (chunk : Nat) (f : Filter) (ignoreInvalid : Bool) : Tree → Except FErr (Option Tree)
  | .dir es =>
    match uploadDir chunk f es with
    | .ok es' => .ok (some (.dir es'))
    | .error e => .error e
  | .file b => .ok (some (.file (copyFile chunk b)))
  | .other => if ignoreInvalid then .ok none else .error .valueError
/-- `upload_dir`: make the directory, then for every listed name that passes the filter
`upload(join(local, fn), join(remote, fn), filter=filter, ignore_invalid=True, chunk_size=chunk_size)` -/
def uploadDir (chunk : Nat) (f : Filter) : Entries → Except FErr Entries
  | .nil => .ok .nil
  | .cons n t rest =>
    if passes f n then
      match upload chunk f true t with
      | .error e => .error e
      | .ok r =>
        match uploadDir chunk f rest with
        | .error e => .error e
        | .ok rest' =>
          match r with
          | some t' => .ok (.cons n t' rest')
          | none => .ok rest'
    else uploadDir chunk f rest
end

/-! ### transfers onto a destination that already exists -/

/-- the entry called `n`, if any (`os.path.isdir/isfile(join(dst, n))`) -/
def Entries.find : Entries → Name → Option Tree
  | .nil, _ => none
  | .cons m t rest, n => if m = n then some t else rest.find n

/-- create or replace the entry called `n` -/
def Entries.set : Entries → Name → Tree → Entries
  | .nil, n, t => .cons n t .nil
  | .cons m d rest, n, t => if m = n then .cons m t rest else .cons m d (rest.set n t)

def Entries.append : Entries → Entries → Entries
  | .nil, b => b
  | .cons n t rest, b => .cons n t (rest.append b)

def Entries.names : Entries → List Name
  | .nil => []
  | .cons n _ rest => n :: rest.names

mutual
/-- `upload` when the destination path may already exist (`dst`): a regular file is opened with `"wb"`, i.e.
truncated and rewritten whatever it held; an existing directory is kept (`makedirs` only `if not isdir`) and
each transferred entry is created or overwritten inside it, other entries stay; a regular file where a
directory is needed makes `os.makedirs` raise `FileExistsError`, a directory where a file is to be written makes
`open(…, "wb")` raise `IsADirectoryError` (the transfer stops there, what was done before stays). -/
def uploadOver (chunk : Nat) (f : Filter) (ignoreInvalid : Bool) : Tree → Option Tree → Except FErr (Option Tree)
  | .dir es, dst =>
    match dst with
    | none =>
      match uploadDirOver chunk f es .nil with
      | .ok es' => .ok (some (.dir es'))
      | .error e => .error e
    | some (.dir ds) =>
      match uploadDirOver chunk f es ds with
      | .ok es' => .ok (some (.dir es'))
      | .error e => .error e
    | some (.file _) => .error .fileExistsError
    | some .other => .error .notModelled
  | .file b, dst =>
    match dst with
    | none => .ok (some (.file (copyFile chunk b)))
    | some (.file _) => .ok (some (.file (copyFile chunk b)))
    | some (.dir _) => .error .isADirectoryError
    | some .other => .error .notModelled
  | .other, dst => if ignoreInvalid then .ok dst else .error .valueError
/-- `upload_dir` into the directory whose entries are `ds` -/
def uploadDirOver (chunk : Nat) (f : Filter) : Entries → Entries → Except FErr Entries
  | .nil, ds => .ok ds
  | .cons n t rest, ds =>
    if passes f n then
      match uploadOver chunk f true t (ds.find n) with
      | .error e => .error e
      | .ok (some t') => uploadDirOver chunk f rest (ds.set n t')
      | .ok none => uploadDirOver chunk f rest ds
    else uploadDirOver chunk f rest ds
end

mutual
/-- same shape: the same names in the same order, files where files are and directories where directories are;
contents free -/
def sameShape : Tree → Tree → Bool
  | .file _, .file _ => true
  | .dir es, .dir ds => sameShapeEntries es ds
  | .other, .other => true
  | _, _ => false
def sameShapeEntries : Entries → Entries → Bool
  | .nil, .nil => true
  | .cons n t rest, .cons m d ds => n == m && sameShape t d && sameShapeEntries rest ds
  | _, _ => false
end

mutual
/-- no directory lists a name twice (true of every filesystem) -/
def distinctNames : Tree → Bool
  | .dir es => distinctEntries es
  | _ => true
def distinctEntries : Entries → Bool
  | .nil => true
  | .cons n t rest => !rest.names.contains n && distinctNames t && distinctEntries rest
end

/-- what the destination path's parent is -/
inductive Parent where
  | dir
  | file
  | missing
  deriving DecidableEq, Repr

/-- `upload` to a destination path that does not exist, below a parent that is a directory, a regular file, or is
missing itself: under a regular file both `open(…, "wb")` and `os.makedirs` raise `NotADirectoryError`; with the parent
missing `open` raises `FileNotFoundError` while `os.makedirs` creates the missing directories; a source that is neither
file nor directory touches nothing -/
def uploadUnder (chunk : Nat) (f : Filter) (ignoreInvalid : Bool) (p : Parent) (t : Tree) : Except FErr (Option Tree) :=
  match p, t with
  | .dir, t => upload chunk f ignoreInvalid t
  | _, .other => upload chunk f ignoreInvalid .other
  | .file, _ => .error .notADirectoryError
  | .missing, .file _ => .error .fileNotFoundError
  | .missing, .dir es => upload chunk f ignoreInvalid (.dir es)

/-! ### `download`: the same recursion written down a second time

The model has no local / remote state, so this is a copy of `upload…` with the names of the download functions; the two
real code paths are told apart by the correspondence only. -/

/-- `download_file`: `while True: buf = rf.read(chunk_size); if not buf: break; lf.write(buf)` -/
def downloadLoop (chunk : Nat) : Nat → Bytes → Bytes → Bytes
  | 0, _, lf => lf
  | f + 1, rf, lf =>
    if (rf.take chunk).isEmpty then lf
    else downloadLoop chunk f (rf.drop chunk) (lf ++ rf.take chunk)

def downloadFile (chunk : Nat) (remote : Bytes) : Bytes := downloadLoop chunk (remote.length + 1) remote []

mutual
/-- `download(conn, remotepath, localpath, filter, ignore_invalid, chunk_size)`:
`conn.modules.os.path.isdir(remotepath)` → `download_dir`; `…isfile(remotepath)` → `download_file`; otherwise
`ValueError` unless `ignore_invalid` -/
def download (chunk : Nat) (f : Filter) (ignoreInvalid : Bool) : Tree → Except FErr (Option Tree)
  | .dir es =>
    match downloadDir chunk f es with
    | .ok es' => .ok (some (.dir es'))
    | .error e => .error e
  | .file b => .ok (some (.file (downloadFile chunk b)))
  | .other => if ignoreInvalid then .ok none else .error .valueError
/-- `download_dir`: local `makedirs`, then for every name of the *remote* listing that passes the filter
`download(join(remote, fn), join(local, fn), filter=filter, ignore_invalid=True, chunk_size=chunk_size)` -/
def downloadDir (chunk : Nat) (f : Filter) : Entries → Except FErr Entries
  | .nil => .ok .nil
  | .cons n t rest =>
    if passes f n then
      match download chunk f true t with
      | .error e => .error e
      | .ok r =>
        match downloadDir chunk f rest with
        | .error e => .error e
        | .ok rest' =>
          match r with
          | some t' => .ok (.cons n t' rest')
          | none => .ok rest'
    else downloadDir chunk f rest
end

/-! ### the specification side: pruning, and trees as lists of paths -/

mutual
/-- the source tree without the entries whose name the filter rejects (with everything below them) and
without non-files; names and bytes of everything else untouched -/
def prune (f : Filter) : Tree → Option Tree
  | .dir es => some (.dir (pruneEntries f es))
  | .file b => some (.file b)
  | .other => none
def pruneEntries (f : Filter) : Entries → Entries
  | .nil => .nil
  | .cons n t rest =>
    if passes f n then
      match prune f t with
      | some t' => .cons n t' (pruneEntries f rest)
      | none => pruneEntries f rest
    else pruneEntries f rest
end

mutual
/-- the specification of a transfer onto an existing destination: the (already pruned) source tree laid over
what is there — files replace files, directories are merged entry by entry, entries only the destination has
stay; a file over a directory or the reverse is the `OSError` of the call that meets it -/
def overlay : Tree → Option Tree → Except FErr Tree
  | .file b, none => .ok (.file b)
  | .file b, some (.file _) => .ok (.file b)
  | .file _, some (.dir _) => .error .isADirectoryError
  | .file _, some .other => .error .notModelled
  | .dir es, none =>
    match overlayEntries es .nil with
    | .ok es' => .ok (.dir es')
    | .error e => .error e
  | .dir es, some (.dir ds) =>
    match overlayEntries es ds with
    | .ok es' => .ok (.dir es')
    | .error e => .error e
  | .dir _, some (.file _) => .error .fileExistsError
  | .dir _, some .other => .error .notModelled
  | .other, _ => .error .notModelled
def overlayEntries : Entries → Entries → Except FErr Entries
  | .nil, ds => .ok ds
  | .cons n t rest, ds =>
    match overlay t (ds.find n) with
    | .error e => .error e
    | .ok t' => overlayEntries rest (ds.set n t')
end

/-- what a tree contains, path by path (relative names, outermost first) -/
inductive Item where
  | fileAt (path : List Name) (b : Bytes)
  | dirAt (path : List Name)
  | otherAt (path : List Name)
  deriving DecidableEq, Repr

def Item.path : Item → List Name
  | .fileAt p _ => p
  | .dirAt p => p
  | .otherAt p => p

def Item.isOther : Item → Bool
  | .otherAt _ => true
  | _ => false

mutual
/-- every file, directory (empty ones too) and other object below `pre`, in listing order -/
def items (pre : List Name) : Tree → List Item
  | .dir es => .dirAt pre :: itemsOf pre es
  | .file b => [.fileAt pre b]
  | .other => [.otherAt pre]
def itemsOf (pre : List Name) : Entries → List Item
  | .nil => []
  | .cons n t rest => items (pre ++ [n]) t ++ itemsOf pre rest
end

/-- an item is kept iff it is a file or directory and every name on its path *below `pre`* passes the filter -/
def keeps (f : Filter) (skip : Nat) (i : Item) : Bool :=
  !i.isOther && (i.path.drop skip).all (passes f)

mutual
/-- only regular files and directories -/
def regular : Tree → Bool
  | .dir es => regularEntries es
  | .file _ => true
  | .other => false
def regularEntries : Entries → Bool
  | .nil => true
  | .cons _ t rest => regular t && regularEntries rest
end

end Rpyc.Files
