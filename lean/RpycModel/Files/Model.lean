import RpycModel.Base.Bytes
/-
L9 Files — `rpyc/utils/classic.py`: `upload`, `upload_file`, `upload_dir`, `download`, `download_file`,
`download_dir`.

`download*` is `upload*` with the roles of the two sides swapped (the local calls `open`, `os.listdir`,
`os.path.isdir|isfile|join`, `os.makedirs` become remote calls and vice versa): one model serves both; the
correspondence runs the two real code paths against it separately.

The filesystem is the trusted part: a path is a regular file with contents, a directory with named
entries (in the order `os.listdir` returned them), or something else (`other`: neither `isdir` nor
`isfile` — a dangling link, a fifo, a socket, a device).  The destination path does not exist (or is an
empty directory) before the transfer.
-/
namespace Rpyc.Files
open Rpyc

/-! ### the chunk loop of `upload_file` / `download_file` -/

/-- `while True: buf = src.read(chunk); if not buf: break; dst.write(buf)` — `read(n)` on a regular file
yields the next `min n remaining` bytes; fuel = one iteration per byte plus the final empty read. -/
def copyLoop (chunk : Nat) : Nat → Bytes → Bytes → Bytes
  | 0, _, dst => dst
  | f + 1, src, dst =>
    if (src.take chunk).isEmpty then dst
    else copyLoop chunk f (src.drop chunk) (dst ++ src.take chunk)

/-- contents of the destination file after `upload_file` / `download_file` with this chunk size -/
def copyFile (chunk : Nat) (src : Bytes) : Bytes := copyLoop chunk (src.length + 1) src []

/-! ### trees -/

mutual
inductive Tree where
  | file (b : Bytes)
  | dir (es : Entries)
  | other
  deriving DecidableEq
inductive Entries where
  | nil
  | cons (name : String) (t : Tree) (rest : Entries)
  deriving DecidableEq
end

/-- `filter`: `None`, or a predicate on the entry's *name* (`filter(fn)` with `fn` from `os.listdir`,
not the joined path) -/
abbrev Filter := Option (String → Bool)

/-- `not filter or filter(fn)` -/
def passes (f : Filter) (name : String) : Bool :=
  match f with
  | none => true
  | some p => p name

mutual
/-- `upload(conn, localpath, remotepath, filter, ignore_invalid, chunk_size)`: what exists at the
destination path afterwards (`none`: nothing was created), or the error raised.
`isdir` → `upload_dir`; `isfile` → `upload_file`; otherwise `ValueError` unless `ignore_invalid`. -/
def upload (chunk : Nat) (f : Filter) (ignoreInvalid : Bool) : Tree → Except Err (Option Tree)
  | .dir es =>
    match uploadDir chunk f es with
    | .ok es' => .ok (some (.dir es'))
    | .error e => .error e
  | .file b => .ok (some (.file (copyFile chunk b)))
  | .other => if ignoreInvalid then .ok none else .error .valueError
/-- `upload_dir`: make the directory, then for every listed name that passes the filter
`upload(join(local, fn), join(remote, fn), filter=filter, ignore_invalid=True, chunk_size=chunk_size)` -/
def uploadDir (chunk : Nat) (f : Filter) : Entries → Except Err Entries
  | .nil => .ok .nil
  | .cons n t rest =>
    if passes f n then
      match upload chunk f true t with
      | .error e => .error e
      | .ok r =>
        match uploadDir chunk f rest with
        | .error e => .error e
        | .ok rest' =>
          match r with
          | some t' => .ok (.cons n t' rest')
          | none => .ok rest'
    else uploadDir chunk f rest
end

/-! ### transfers onto a destination that already exists -/

/-- the entry called `n`, if any (`os.path.isdir/isfile(join(dst, n))`) -/
def Entries.find : Entries → String → Option Tree
  | .nil, _ => none
  | .cons m t rest, n => if m = n then some t else rest.find n

/-- create or replace the entry called `n` -/
def Entries.set : Entries → String → Tree → Entries
  | .nil, n, t => .cons n t .nil
  | .cons m d rest, n, t => if m = n then .cons m t rest else .cons m d (rest.set n t)

def Entries.append : Entries → Entries → Entries
  | .nil, b => b
  | .cons n t rest, b => .cons n t (rest.append b)

def Entries.names : Entries → List String
  | .nil => []
  | .cons n _ rest => n :: rest.names

mutual
/-- `upload` when the destination path may already exist (`dst`): a regular file is opened with `"wb"`, i.e.
truncated and rewritten whatever it held; an existing directory is kept (`makedirs` only `if not isdir`) and
each transferred entry is created or overwritten inside it, other entries stay; a file where a directory is
needed or the reverse is an `OSError` of the real calls and is not modelled. -/
def uploadOver (chunk : Nat) (f : Filter) (ignoreInvalid : Bool) : Tree → Option Tree → Except Err (Option Tree)
  | .dir es, dst =>
    match dst with
    | none =>
      match uploadDirOver chunk f es .nil with
      | .ok es' => .ok (some (.dir es'))
      | .error e => .error e
    | some (.dir ds) =>
      match uploadDirOver chunk f es ds with
      | .ok es' => .ok (some (.dir es'))
      | .error e => .error e
    | some _ => .error .notModelled
  | .file b, dst =>
    match dst with
    | none => .ok (some (.file (copyFile chunk b)))
    | some (.file _) => .ok (some (.file (copyFile chunk b)))
    | some _ => .error .notModelled
  | .other, dst => if ignoreInvalid then .ok dst else .error .valueError
/-- `upload_dir` into the directory whose entries are `ds` -/
def uploadDirOver (chunk : Nat) (f : Filter) : Entries → Entries → Except Err Entries
  | .nil, ds => .ok ds
  | .cons n t rest, ds =>
    if passes f n then
      match uploadOver chunk f true t (ds.find n) with
      | .error e => .error e
      | .ok (some t') => uploadDirOver chunk f rest (ds.set n t')
      | .ok none => uploadDirOver chunk f rest ds
    else uploadDirOver chunk f rest ds
end

mutual
/-- same shape: the same names in the same order, files where files are and directories where directories are;
contents free -/
def sameShape : Tree → Tree → Bool
  | .file _, .file _ => true
  | .dir es, .dir ds => sameShapeEntries es ds
  | .other, .other => true
  | _, _ => false
def sameShapeEntries : Entries → Entries → Bool
  | .nil, .nil => true
  | .cons n t rest, .cons m d ds => n == m && sameShape t d && sameShapeEntries rest ds
  | _, _ => false
end

mutual
/-- no directory lists a name twice (true of every filesystem) -/
def distinctNames : Tree → Bool
  | .dir es => distinctEntries es
  | _ => true
def distinctEntries : Entries → Bool
  | .nil => true
  | .cons n t rest => !rest.names.contains n && distinctNames t && distinctEntries rest
end

/-- `download` is the same procedure with the two sides swapped -/
def download (chunk : Nat) (f : Filter) (ignoreInvalid : Bool) (t : Tree) : Except Err (Option Tree) :=
  upload chunk f ignoreInvalid t

/-! ### the specification side: pruning, and trees as lists of paths -/

mutual
/-- the source tree without the entries whose name the filter rejects (with everything below them) and
without non-files; names and bytes of everything else untouched -/
def prune (f : Filter) : Tree → Option Tree
  | .dir es => some (.dir (pruneEntries f es))
  | .file b => some (.file b)
  | .other => none
def pruneEntries (f : Filter) : Entries → Entries
  | .nil => .nil
  | .cons n t rest =>
    if passes f n then
      match prune f t with
      | some t' => .cons n t' (pruneEntries f rest)
      | none => pruneEntries f rest
    else pruneEntries f rest
end

/-- what a tree contains, path by path (relative names, outermost first) -/
inductive Item where
  | fileAt (path : List String) (b : Bytes)
  | dirAt (path : List String)
  | otherAt (path : List String)
  deriving DecidableEq, Repr

def Item.path : Item → List String
  | .fileAt p _ => p
  | .dirAt p => p
  | .otherAt p => p

def Item.isOther : Item → Bool
  | .otherAt _ => true
  | _ => false

mutual
/-- every file, directory (empty ones too) and other object below `pre`, in listing order -/
def items (pre : List String) : Tree → List Item
  | .dir es => .dirAt pre :: itemsOf pre es
  | .file b => [.fileAt pre b]
  | .other => [.otherAt pre]
def itemsOf (pre : List String) : Entries → List Item
  | .nil => []
  | .cons n t rest => items (pre ++ [n]) t ++ itemsOf pre rest
end

/-- an item is kept iff it is a file or directory and every name on its path *below `pre`* passes the filter -/
def keeps (f : Filter) (skip : Nat) (i : Item) : Bool :=
  !i.isOther && (i.path.drop skip).all (passes f)

mutual
/-- only regular files and directories -/
def regular : Tree → Bool
  | .dir es => regularEntries es
  | .file _ => true
  | .other => false
def regularEntries : Entries → Bool
  | .nil => true
  | .cons _ t rest => regular t && regularEntries rest
end

end Rpyc.Files
