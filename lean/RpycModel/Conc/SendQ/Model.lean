import RpycModel.Gen.Sendq
/-
L8 — the send side of a connection shared by several threads (C12).

Models `rpyc.core.protocol.Connection._send` at source-line granularity:

    self._send_queue.append(data)                     -- pc `append m`
    while self._send_queue:                           -- pc `check`
        if not self._sendlock.acquire(False):         -- pc `tryLock`
            return                                    --   (failure: back to `idle`)
        try:
            if not self._send_queue:                  -- pc `recheck`
                continue                              --   (runs the `finally`: pc `release`)
            data = self._send_queue.pop(0)            -- pc `pop`
            self._channel.send(data)                  -- pc `write`: 1 or 3 `stream.write` calls
        finally:                                         (`Channel.send`: one write if the frame fits
            self._sendlock.release()                  -- pc `release`      `MAX_IO_CHUNK`, else three)

Any number of logical threads (`Tid := Nat`), any number of messages each (`todo`).  The lock is a plain
`threading.Lock`: one bit, no owner, not re-entrant.  A send started re-entrantly while a thread is
already inside `_send` (a proxy finalizer running during transmission) is a *fresh logical thread*
created by `reenter`; its parent is suspended (`wait`) until the nested call has returned, exactly as
the nested Python call suspends its caller.

Transport failure: `breakTransport` kills the stream (every rpyc stream closes itself when a write fails, so
every later write fails too).  A write on a dead stream raises out of `Channel.send`: the popped datum is
dropped, the `finally` releases the lock (pc `releaseX`) and the exception leaves `_send` — the loop is NOT
re-entered, so whatever other threads queued meanwhile stays queued.

Ghost fields (never read by `step`): `out`, `lost`, `stub`, `appended`, `started`, `prog`, `holder`, `root`.
Imports only generated constants: this file is compiled into the driver.
-/
namespace Rpyc.Conc.SendQ

/-- logical thread ids (a notation rather than a definition so that `omega` sees `Nat`) -/
scoped notation "Tid" => Nat

/-- one `_send` call's datum: `id` identifies it, `big` says whether `Channel.send` needs three stream
writes (frame larger than `MAX_IO_CHUNK`) or one -/
structure Msg where
  id : Nat
  big : Bool
  kind : Nat := 1        -- the message type `_send` is called with (`MSG_REQUEST` = 1, `MSG_REPLY`, `MSG_EXCEPTION`)
  deriving DecidableEq, Repr

/-- queue element: the message together with the (ghost) logical thread that appended it -/
abbrev Item := Tid × Msg
/-- what one `stream.write` call puts on the wire: the `k`-th piece of an item's frame -/
abbrev Piece := Item × Nat

/-- does `_send` put a datum of this kind at the BACK of the queue?  Regenerated from the live code
(`Gen/Sendq.lean`: measured with the lock busy and two data queued); a kind that was not measured counts as back -/
def enqueueAtBack (k : Nat) : Bool := !(Rpyc.Gen.Sendq.enqueuedAtBack.any (fun p => p.1 == k && !p.2))

/-- `self._send_queue.append(data)` as the live code performs it for this kind of message -/
def enqueue (q : List Item) (x : Item) : List Item := if enqueueAtBack x.2.kind then q ++ [x] else x :: q

/-- number of `stream.write` calls `Channel.send` makes for the item -/
def nparts (it : Item) : Nat := if it.2.big then 3 else 1

/-- the pieces of one packet, in order -/
def pieces (it : Item) : List Piece := (List.range (nparts it)).map (fun k => (it, k))

inductive PC where
  | idle                 -- outside `_send` (before the first / between two / after the last call)
  | append (m : Msg)     -- inside `_send(m)`, about to `self._send_queue.append(data)`
  | check                -- about to evaluate `while self._send_queue`
  | tryLock              -- about to `self._sendlock.acquire(False)`
  | recheck              -- holds the lock, about to evaluate `if not self._send_queue`
  | pop                  -- holds the lock, about to `self._send_queue.pop(0)`
  | write                -- holds the lock, inside `self._channel.send(data)`, about to do stream write number `nw`
  | release              -- holds the lock, about to `self._sendlock.release()` (the `finally`)
  | releaseX             -- holds the lock, `Channel.send` raised: about to run the `finally` with the exception in flight
  | crash                -- an exception left `_send` (`IndexError` from `pop(0)`, `RuntimeError` from `release()`)
  deriving DecidableEq, Repr

/-- the pcs at which a thread holds the lock -/
def inCS : PC → Bool
  | .recheck | .pop | .write | .release | .releaseX => true
  | _ => false

/-- the pcs at which a thread is inside `_send` and has already appended its datum -/
def pastAppend : PC → Bool
  | .check | .tryLock | .recheck | .pop | .write | .release | .releaseX => true
  | _ => false

structure St where
  queue : List Item            -- `self._send_queue`
  lock : Bool                  -- `self._sendlock` (locked?)
  hand : Option Item           -- the lock holder's local `data` while it is being transmitted
  nw : Nat                     -- stream writes already done for `hand`
  wire : List Piece            -- everything written to the stream, in order
  dead : Bool                  -- the transport has failed: every stream write raises from now on
  out : List Item              -- ghost: items completely transmitted, in order
  lost : List Item             -- ghost: items popped and dropped by a failed write, in order
  stub : List Piece            -- ghost: the pieces of the packet that was cut by the failure
  appended : List Item         -- ghost: every item ever appended, in order
  started : List Item          -- ghost: every `_send` call, in the order the calls started
  root : Tid → Tid             -- ghost: the OS thread a logical thread runs on (a nested activation runs on its parent's)
  holder : Option Tid          -- ghost: which logical thread took the lock
  pc : Tid → PC
  todo : Tid → List Msg        -- the `_send` calls the thread has still to start
  prog : Tid → List Msg        -- ghost: all `_send` calls of the thread, in the order it makes them
  wait : Tid → Option Tid      -- `wait p = some c`: `p` started the nested activation `c` and is suspended until it returns
  next : Nat                   -- logical thread ids `≥ next` are unused

def St.setPc (s : St) (t : Tid) (p : PC) : St := { s with pc := fun u => if u = t then p else s.pc u }
def St.setTodo (s : St) (t : Tid) (l : List Msg) : St := { s with todo := fun u => if u = t then l else s.todo u }

/-- one source line of thread `t`.  `none`: the thread has nothing to do (all its calls returned) or
has crashed.  Every line of `_send` is non-blocking, so every other case is `some`. -/
def step (s : St) (t : Tid) : Option St :=
  match s.pc t with
  | .idle =>
    match s.todo t with
    | [] => none
    | m :: rest => some (({ s with started := s.started ++ [(t, m)] }.setTodo t rest).setPc t (.append m))
  | .append m =>
    some ({ s with queue := enqueue s.queue (t, m), appended := s.appended ++ [(t, m)] }.setPc t .check)
  | .check =>
    match s.queue with
    | [] => some (s.setPc t .idle)
    | _ :: _ => some (s.setPc t .tryLock)
  | .tryLock =>
    match s.lock with
    | true => some (s.setPc t .idle)
    | false => some ({ s with lock := true, holder := some t }.setPc t .recheck)
  | .recheck =>
    match s.queue with
    | [] => some (s.setPc t .release)
    | _ :: _ => some (s.setPc t .pop)
  | .pop =>
    match s.queue with
    | [] => some ({ s with lock := false, holder := none }.setPc t .crash)   -- IndexError; `finally` releases
    | h :: q => some ({ s with queue := q, hand := some h, nw := 0 }.setPc t .write)
  | .write =>
    match s.hand with
    | none => some (s.setPc t .crash)
    | some h =>
      if s.dead then                                                           -- EOFError out of `Channel.send`
        some ({ s with hand := none, nw := 0, lost := s.lost ++ [h],
                       stub := s.stub ++ (pieces h).take s.nw }.setPc t .releaseX)
      else if s.nw + 1 < nparts h then
        some { s with wire := s.wire ++ [(h, s.nw)], nw := s.nw + 1 }
      else
        some ({ s with wire := s.wire ++ [(h, s.nw)], nw := 0, hand := none, out := s.out ++ [h] }.setPc t .release)
  | .release =>
    match s.lock with
    | true => some ({ s with lock := false, holder := none }.setPc t .check)
    | false => some (s.setPc t .crash)                                        -- RuntimeError: release unlocked lock
  | .releaseX =>
    match s.lock with
    | true => some ({ s with lock := false, holder := none }.setPc t .idle)    -- the exception leaves `_send`
    | false => some (s.setPc t .crash)
  | .crash => none

/-- thread `p`, wherever it is, calls `_send(m)` re-entrantly: the nested activation is the fresh
logical thread `s.next`; `p` is suspended until it has returned -/
def reenter (s : St) (p : Tid) (m : Msg) : St :=
  { s with todo := fun u => if u = s.next then [m] else s.todo u,
           prog := fun u => if u = s.next then [m] else s.prog u,
           wait := fun u => if u = p then some s.next else s.wait u,
           root := fun u => if u = s.next then s.root p else s.root u,
           next := s.next + 1 }

/-- the transport fails (peer gone, socket error): from now on every stream write raises -/
def breakTransport (s : St) : St := { s with dead := true }

/-- every `_send` call of the thread has returned -/
def isDone (s : St) (t : Tid) : Prop := s.pc t = .idle ∧ s.todo t = []

/-- suspended under a nested activation that has not returned -/
def blocked (s : St) (p : Tid) : Prop := ∃ c, s.wait p = some c ∧ ¬ isDone s c

def init (n : Nat) (prog : Tid → List Msg) : St :=
  { queue := [], lock := false, hand := none, nw := 0, wire := [], dead := false, out := [], lost := [], stub := [],
    appended := [], started := [], root := fun t => t, holder := none,
    pc := fun _ => .idle,
    todo := fun t => if t < n then prog t else [],
    prog := fun t => if t < n then prog t else [],
    wait := fun _ => none, next := n }

/-- all interleavings: any non-suspended thread executes its next line, or starts a nested send (anywhere),
or the transport fails -/
inductive Reachable (n : Nat) (prog : Tid → List Msg) : St → Prop where
  | init : Reachable n prog (init n prog)
  | step {s s' : St} (t : Tid) : Reachable n prog s → ¬ blocked s t → step s t = some s' → Reachable n prog s'
  | reenter {s : St} (p : Tid) (m : Msg) : Reachable n prog s → ¬ blocked s p → p < s.next →
      Reachable n prog (reenter s p m)
  | brk {s : St} : Reachable n prog s → Reachable n prog (breakTransport s)

/-- the same, but a nested send starts only while its parent is inside `_send` PAST the append (in
particular at every point where the parent holds the lock, e.g. inside the transport write) -/
inductive ReachableR (n : Nat) (prog : Tid → List Msg) : St → Prop where
  | init : ReachableR n prog (init n prog)
  | step {s s' : St} (t : Tid) : ReachableR n prog s → ¬ blocked s t → step s t = some s' → ReachableR n prog s'
  | reenter {s : St} (p : Tid) (m : Msg) : ReachableR n prog s → ¬ blocked s p → p < s.next →
      pastAppend (s.pc p) = true → ReachableR n prog (reenter s p m)
  | brk {s : St} : ReachableR n prog s → ReachableR n prog (breakTransport s)

/-! ### observations used by the theorems -/

/-- the part of the packet in transmission that is already on the wire -/
def partialPkt (s : St) : List Piece :=
  match s.hand with
  | some h => (pieces h).take s.nw
  | none => []

/-- the items of OS thread `r` in a list of items, in order -/
def onThread (s : St) (r : Tid) (l : List Item) : List Item := l.filter (fun it => s.root it.1 == r)

/-- messages appended so far by thread `t`, in order -/
def issued (s : St) (t : Tid) : List Msg := (s.appended.filter (fun it => it.1 == t)).map (·.2)

/-- messages thread `t` has still to append (the one it is inside of first) -/
def pending (s : St) (t : Tid) : List Msg :=
  match s.pc t with
  | .append m => m :: s.todo t
  | _ => s.todo t

/-! ### executable versions for the driver -/

def isDoneB (s : St) (t : Tid) : Bool := s.pc t == .idle && (s.todo t).isEmpty

def blockedB (s : St) (p : Tid) : Bool :=
  match s.wait p with
  | some c => !isDoneB s c
  | none => false

/-- one scheduling event: thread `t` executes its next line, or thread `p` starts a nested `_send(m)` -/
inductive Ev where
  | run (t : Tid)
  | reent (p : Tid) (m : Msg)
  | brk
  deriving Repr

/-- executable `Reachable` step (refuses suspended threads and unused thread ids) -/
def exec (s : St) : Ev → Option St
  | .run t => if blockedB s t then none else step s t
  | .reent p m => if blockedB s p then none else if p < s.next then some (reenter s p m) else none
  | .brk => some (breakTransport s)

def execAll (s : St) : List Ev → Option St
  | [] => some s
  | e :: l =>
    match exec s e with
    | none => none
    | some s' => execAll s' l

end Rpyc.Conc.SendQ
