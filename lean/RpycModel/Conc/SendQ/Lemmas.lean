import RpycModel.Conc.SendQ.Model
/-
Inductive invariants of the send-queue model (helper lemmas for Props/C12.lean).
-/
namespace Rpyc.Conc.SendQ

/-! ### projections of the state updates -/
section proj
variable (s : St) (t : Tid) (p : PC) (l : List Msg) (u : Tid)
@[simp, grind =] theorem setPc_pc : (s.setPc t p).pc u = if u = t then p else s.pc u := rfl
@[simp, grind =] theorem setPc_queue : (s.setPc t p).queue = s.queue := rfl
@[simp, grind =] theorem setPc_lock : (s.setPc t p).lock = s.lock := rfl
@[simp, grind =] theorem setPc_hand : (s.setPc t p).hand = s.hand := rfl
@[simp, grind =] theorem setPc_nw : (s.setPc t p).nw = s.nw := rfl
@[simp, grind =] theorem setPc_wire : (s.setPc t p).wire = s.wire := rfl
@[simp, grind =] theorem setPc_out : (s.setPc t p).out = s.out := rfl
@[simp, grind =] theorem setPc_appended : (s.setPc t p).appended = s.appended := rfl
@[simp, grind =] theorem setPc_holder : (s.setPc t p).holder = s.holder := rfl
@[simp, grind =] theorem setPc_todo : (s.setPc t p).todo = s.todo := rfl
@[simp, grind =] theorem setPc_prog : (s.setPc t p).prog = s.prog := rfl
@[simp, grind =] theorem setPc_wait : (s.setPc t p).wait = s.wait := rfl
@[simp, grind =] theorem setPc_dead : (s.setPc t p).dead = s.dead := rfl
@[simp, grind =] theorem setPc_lost : (s.setPc t p).lost = s.lost := rfl
@[simp, grind =] theorem setPc_stub : (s.setPc t p).stub = s.stub := rfl
@[simp, grind =] theorem setPc_started : (s.setPc t p).started = s.started := rfl
@[simp, grind =] theorem setPc_root : (s.setPc t p).root = s.root := rfl
@[simp, grind =] theorem setPc_next : (s.setPc t p).next = s.next := rfl
@[simp, grind =] theorem setTodo_todo : (s.setTodo t l).todo u = if u = t then l else s.todo u := rfl
@[simp, grind =] theorem setTodo_pc : (s.setTodo t l).pc = s.pc := rfl
@[simp, grind =] theorem setTodo_queue : (s.setTodo t l).queue = s.queue := rfl
@[simp, grind =] theorem setTodo_lock : (s.setTodo t l).lock = s.lock := rfl
@[simp, grind =] theorem setTodo_hand : (s.setTodo t l).hand = s.hand := rfl
@[simp, grind =] theorem setTodo_nw : (s.setTodo t l).nw = s.nw := rfl
@[simp, grind =] theorem setTodo_wire : (s.setTodo t l).wire = s.wire := rfl
@[simp, grind =] theorem setTodo_out : (s.setTodo t l).out = s.out := rfl
@[simp, grind =] theorem setTodo_appended : (s.setTodo t l).appended = s.appended := rfl
@[simp, grind =] theorem setTodo_holder : (s.setTodo t l).holder = s.holder := rfl
@[simp, grind =] theorem setTodo_prog : (s.setTodo t l).prog = s.prog := rfl
@[simp, grind =] theorem setTodo_wait : (s.setTodo t l).wait = s.wait := rfl
@[simp, grind =] theorem setTodo_dead : (s.setTodo t l).dead = s.dead := rfl
@[simp, grind =] theorem setTodo_lost : (s.setTodo t l).lost = s.lost := rfl
@[simp, grind =] theorem setTodo_stub : (s.setTodo t l).stub = s.stub := rfl
@[simp, grind =] theorem setTodo_started : (s.setTodo t l).started = s.started := rfl
@[simp, grind =] theorem setTodo_root : (s.setTodo t l).root = s.root := rfl
@[simp, grind =] theorem setTodo_next : (s.setTodo t l).next = s.next := rfl
end proj

@[simp, grind =] theorem partialPkt_setPc (s : St) (t : Tid) (p : PC) : partialPkt (s.setPc t p) = partialPkt s := rfl
@[simp, grind =] theorem partialPkt_setTodo (s : St) (t : Tid) (l : List Msg) : partialPkt (s.setTodo t l) = partialPkt s := rfl

/-- **the model's append is kind-blind because the code's is**: every measured kind is enqueued at the back
(`decide` over the regenerated table; a `_send` that inserts replies at the front breaks this obligation, and
with it every theorem below, instead of being silently mis-modelled) -/
theorem enqueuedAtBack_all : Rpyc.Gen.Sendq.enqueuedAtBack.all (·.2) = true := by decide

theorem enqueueAtBack_true (k : Nat) : enqueueAtBack k = true := by
  unfold enqueueAtBack
  have h := enqueuedAtBack_all
  rw [List.all_eq_true] at h
  simp only [Bool.not_eq_true', List.any_eq_false, Bool.and_eq_true, beq_iff_eq, Bool.not_eq_true', not_and]
  intro p hp _
  simpa using h p hp

@[simp] theorem enqueue_eq (q : List Item) (x : Item) : enqueue q x = q ++ [x] := by
  unfold enqueue; rw [enqueueAtBack_true]; rfl

/-- the safety invariant (Appendix C.2 of DESIGN.md) -/
structure Inv (s : St) : Prop where
  lock_holder : s.lock = s.holder.isSome
  cs_iff : ∀ t, inCS (s.pc t) = true ↔ s.holder = some t
  hand_w : ∀ t, s.pc t = .write → ∃ h, s.hand = some h ∧ s.nw < nparts h
  hand_n : s.hand = none ∨ ∃ t, s.holder = some t ∧ s.pc t = .write
  conserve : s.out ++ s.lost ++ s.hand.toList ++ s.queue = s.appended
  contig : s.wire = s.out.flatMap pieces ++ s.stub ++ partialPkt s
  pop_ok : ∀ t, s.pc t = .pop → s.queue ≠ []
  live : s.queue ≠ [] → s.dead = true ∨ s.lock = true ∨ ∃ t, s.pc t = .check ∨ s.pc t = .tryLock
  nocrash : ∀ t, s.pc t ≠ .crash
  alive : s.dead = false → s.lost = [] ∧ s.stub = []
  relx_dead : ∀ t, s.pc t = .releaseX → s.dead = true
  cut : s.stub = [] ∨ (s.nw = 0 ∧ ∃ x k, s.stub = (pieces x).take k)

theorem Inv.init (n : Nat) (prog : Tid → List Msg) : Inv (init n prog) := by
  refine ⟨rfl, ?_, ?_, Or.inl rfl, rfl, rfl, ?_, ?_, ?_, ?_, ?_, Or.inl rfl⟩ <;> simp [SendQ.init, inCS]

theorem Inv.setTodo {s : St} (h : Inv s) (t : Tid) (l : List Msg) : Inv (s.setTodo t l) :=
  ⟨h.lock_holder, h.cs_iff, h.hand_w, h.hand_n, h.conserve, h.contig, h.pop_ok, h.live, h.nocrash, h.alive, h.relx_dead, h.cut⟩

theorem Inv.setStarted {s : St} (h : Inv s) (l : List Item) : Inv { s with started := l } :=
  ⟨h.lock_holder, h.cs_iff, h.hand_w, h.hand_n, h.conserve, h.contig, h.pop_ok, h.live, h.nocrash, h.alive, h.relx_dead, h.cut⟩

theorem nparts_pos (it : Item) : 0 < nparts it := by unfold nparts; split <;> decide

theorem pieces_take_succ (it : Item) (k : Nat) (hk : k < nparts it) :
    (pieces it).take (k + 1) = (pieces it).take k ++ [(it, k)] := by
  unfold pieces
  rw [← List.map_take, ← List.map_take, List.take_range, List.take_range,
    Nat.min_eq_left (by omega), Nat.min_eq_left (by omega), List.range_succ, List.map_append]
  rfl

theorem pieces_take_all (it : Item) : (pieces it).take (nparts it) = pieces it := by
  unfold pieces; rw [← List.map_take, List.take_range, Nat.min_self]

/-- a transition of thread `t` that only moves its program counter -/
theorem Inv.pcOnly {s : St} {t : Tid} {p1 : PC} (h : Inv s)
    (hcs : inCS p1 = inCS (s.pc t))
    (hw : p1 = .write ↔ s.pc t = .write)
    (hpop : p1 = .pop → s.queue ≠ [])
    (hcr : p1 ≠ .crash) (hrx : p1 ≠ .releaseX)
    (hlive : s.pc t = .check ∨ s.pc t = .tryLock → p1 = .check ∨ p1 = .tryLock ∨ s.queue = [] ∨ s.lock = true) :
    Inv (s.setPc t p1) := by
  obtain ⟨h1, h2, h3, h4, h5, h6, h7, h8, h9, h10, h11, h12⟩ := h
  refine ⟨h1, ?_, ?_, ?_, h5, h6, ?_, ?_, ?_, h10, ?_, h12⟩
  · intro u; by_cases hu : u = t
    · subst hu; simpa [hcs] using h2 u
    · simpa [hu] using h2 u
  · intro u; by_cases hu : u = t
    · subst hu; intro hh; simp at hh; exact h3 u (hw.1 hh)
    · simpa [hu] using h3 u
  · rcases h4 with h4 | ⟨v, hv, hvw⟩
    · exact Or.inl h4
    · refine Or.inr ⟨v, hv, ?_⟩
      by_cases hvt : v = t
      · subst hvt; simpa using hw.2 hvw
      · simpa [hvt] using hvw
  · intro u; by_cases hu : u = t
    · subst hu; intro hh; simp at hh; exact hpop hh
    · simpa [hu] using h7 u
  · intro hq
    show s.dead = true ∨ s.lock = true ∨ _
    rcases h8 hq with hd | hl | ⟨v, hv⟩
    · exact Or.inl hd
    · exact Or.inr (Or.inl hl)
    · by_cases hvt : v = t
      · subst hvt
        rcases hlive hv with a | a | a | a
        · exact Or.inr (Or.inr ⟨v, by simp [a]⟩)
        · exact Or.inr (Or.inr ⟨v, by simp [a]⟩)
        · exact absurd a hq
        · exact Or.inr (Or.inl a)
      · exact Or.inr (Or.inr ⟨v, by simpa [hvt] using hv⟩)
  · intro u; by_cases hu : u = t
    · subst hu; simpa using hcr
    · simpa [hu] using h9 u
  · intro u; by_cases hu : u = t
    · subst hu; intro hh; simp at hh; exact absurd hh hrx
    · simpa [hu] using h11 u

theorem Inv.cs_unique {s : St} (h : Inv s) {t u : Tid} (ht : s.holder = some t) (hu : inCS (s.pc u) = true) :
    u = t := by
  have := (h.cs_iff u).1 hu
  rw [ht] at this
  exact (Option.some.inj this).symm

theorem Inv.append {s : St} {t : Tid} {m : Msg} (h : Inv s) (hpc : s.pc t = .append m) :
    Inv ({ s with queue := s.queue ++ [(t, m)], appended := s.appended ++ [(t, m)] }.setPc t .check) := by
  obtain ⟨h1, h2, h3, h4, h5, h6, h7, h8, h9, h10, h11, h12⟩ := h
  refine ⟨h1, ?_, ?_, ?_, ?_, h6, ?_, ?_, ?_, h10, ?_, h12⟩
  · intro u; by_cases hu : u = t
    · subst hu; simpa [hpc, inCS] using h2 u
    · simpa [hu] using h2 u
  · intro u; by_cases hu : u = t
    · subst hu; simp
    · simpa [hu] using h3 u
  · rcases h4 with h4 | ⟨v, hv, hvw⟩
    · exact Or.inl h4
    · refine Or.inr ⟨v, hv, ?_⟩
      have hvt : v ≠ t := by rintro rfl; simp [hpc] at hvw
      simpa [hvt] using hvw
  · simp [← h5, List.append_assoc]
  · intro u; by_cases hu : u = t
    · subst hu; simp
    · simp [hu]
  · intro _; exact Or.inr (Or.inr ⟨t, by simp⟩)
  · intro u; by_cases hu : u = t
    · subst hu; simp
    · simpa [hu] using h9 u
  · intro u; by_cases hu : u = t
    · subst hu; simp
    · simpa [hu] using h11 u

theorem Inv.acquire {s : St} {t : Tid} (h : Inv s) (hpc : s.pc t = .tryLock) (hl : s.lock = false) :
    Inv ({ s with lock := true, holder := some t }.setPc t .recheck) := by
  obtain ⟨h1, h2, h3, h4, h5, h6, h7, h8, h9, h10, h11, h12⟩ := h
  have hnone : s.holder = none := by
    rw [hl] at h1; cases hh : s.holder with
    | none => rfl
    | some v => simp [hh] at h1
  refine ⟨rfl, ?_, ?_, ?_, h5, h6, ?_, ?_, ?_, h10, ?_, h12⟩
  · intro u; by_cases hu : u = t
    · subst hu; simp [inCS]
    · have := h2 u
      simp [hnone] at this
      have hne : ¬ t = u := fun e => hu e.symm
      simp [hu, this, hne]
  · intro u; by_cases hu : u = t
    · subst hu; simp
    · simpa [hu] using h3 u
  · rcases h4 with h4 | ⟨v, hv, _⟩
    · exact Or.inl h4
    · rw [hnone] at hv; cases hv
  · intro u; by_cases hu : u = t
    · subst hu; simp
    · simpa [hu] using h7 u
  · intro _; exact Or.inr (Or.inl rfl)
  · intro u; by_cases hu : u = t
    · subst hu; simp
    · simpa [hu] using h9 u
  · intro u; by_cases hu : u = t
    · subst hu; simp
    · simpa [hu] using h11 u

theorem Inv.holder_of_cs {s : St} (h : Inv s) {t : Tid} (hcs : inCS (s.pc t) = true) :
    s.holder = some t ∧ s.lock = true := by
  have := (h.cs_iff t).1 hcs
  exact ⟨this, by rw [h.lock_holder, this]; rfl⟩

theorem Inv.hand_none {s : St} (h : Inv s) {t : Tid} (hcs : inCS (s.pc t) = true) (hnw : s.pc t ≠ .write) :
    s.hand = none := by
  rcases h.hand_n with h4 | ⟨v, hv, hvw⟩
  · exact h4
  · have hv' : inCS (s.pc v) = true := by rw [hvw]; rfl
    have := h.cs_unique hv hcs
    subst this
    exact absurd hvw hnw

theorem Inv.pop {s : St} {t : Tid} {x : Item} {q : List Item} (h : Inv s) (hpc : s.pc t = .pop)
    (hq : s.queue = x :: q) :
    Inv ({ s with queue := q, hand := some x, nw := 0 }.setPc t .write) := by
  have hcs : inCS (s.pc t) = true := by rw [hpc]; rfl
  obtain ⟨ht, hlk⟩ := h.holder_of_cs hcs
  have hnone := h.hand_none hcs (by rw [hpc]; simp)
  have huniq := fun u => h.cs_unique (u := u) ht
  obtain ⟨h1, h2, h3, h4, h5, h6, h7, h8, h9, h10, h11, h12⟩ := h
  refine ⟨h1, ?_, ?_, ?_, ?_, ?_, ?_, ?_, ?_, h10, ?_, ?_⟩
  · intro u; by_cases hu : u = t
    · subst hu; simpa [inCS] using ht
    · simpa [hu] using h2 u
  · intro u; by_cases hu : u = t
    · subst hu; intro _; exact ⟨x, rfl, nparts_pos x⟩
    · intro hw; simp [hu] at hw
      exact absurd (huniq u (by rw [hw]; rfl)) hu
  · exact Or.inr ⟨t, ht, by simp⟩
  · rw [hnone, hq] at h5; simpa using h5
  · simp only [partialPkt, hnone] at h6
    simpa [partialPkt] using h6
  · intro u; by_cases hu : u = t
    · subst hu; simp
    · intro hw; simp [hu] at hw
      exact absurd (huniq u (by rw [hw]; rfl)) hu
  · intro _; exact Or.inr (Or.inl hlk)
  · intro u; by_cases hu : u = t
    · subst hu; simp
    · simpa [hu] using h9 u
  · intro u; by_cases hu : u = t
    · subst hu; simp
    · simpa [hu] using h11 u
  · rcases h12 with hc | ⟨_, hc⟩
    · exact Or.inl hc
    · exact Or.inr ⟨rfl, hc⟩

theorem Inv.writeMid {s : St} {t : Tid} {x : Item} (h : Inv s) (_hpc : s.pc t = .write)
    (hh : s.hand = some x) (hlt : s.nw + 1 < nparts x) (hd : s.dead = false) :
    Inv { s with wire := s.wire ++ [(x, s.nw)], nw := s.nw + 1 } := by
  obtain ⟨h1, h2, h3, h4, h5, h6, h7, h8, h9, h10, h11, h12⟩ := h
  refine ⟨h1, h2, ?_, h4, h5, ?_, h7, h8, h9, h10, h11, Or.inl (h10 hd).2⟩
  · intro u _; exact ⟨x, hh, hlt⟩
  · simp only [partialPkt, hh] at h6 ⊢
    rw [h6, pieces_take_succ x s.nw (by omega), List.append_assoc]

theorem Inv.writeLast {s : St} {t : Tid} {x : Item} (h : Inv s) (hpc : s.pc t = .write)
    (hh : s.hand = some x) (hlt : ¬ s.nw + 1 < nparts x) (hd : s.dead = false) :
    Inv ({ s with wire := s.wire ++ [(x, s.nw)], nw := 0, hand := none, out := s.out ++ [x] }.setPc t .release) := by
  have hcs : inCS (s.pc t) = true := by rw [hpc]; rfl
  obtain ⟨ht, hlk⟩ := h.holder_of_cs hcs
  have huniq := fun u => h.cs_unique (u := u) ht
  obtain ⟨h1, h2, h3, h4, h5, h6, h7, h8, h9, h10, h11, h12⟩ := h
  have hnw : s.nw + 1 = nparts x := by
    obtain ⟨y, hy, hlt'⟩ := h3 t hpc
    rw [hh] at hy; cases hy; omega
  obtain ⟨hlost, hstub⟩ := h10 hd
  refine ⟨h1, ?_, ?_, Or.inl rfl, ?_, ?_, ?_, ?_, ?_, h10, ?_, Or.inl hstub⟩
  · intro u; by_cases hu : u = t
    · subst hu; simpa [inCS] using ht
    · simpa [hu] using h2 u
  · intro u; by_cases hu : u = t
    · subst hu; simp
    · intro hw; simp [hu] at hw
      exact absurd (huniq u (by rw [hw]; rfl)) hu
  · rw [hh, hlost] at h5; simpa [hlost] using h5
  · simp only [partialPkt, hh, hstub, List.append_nil] at h6
    simp only [setPc_wire, setPc_out, setPc_stub, partialPkt, setPc_hand, List.flatMap_append, List.append_nil, hstub]
    rw [h6, List.append_assoc]
    congr 1
    rw [← pieces_take_succ x s.nw (by omega), hnw, pieces_take_all]
    simp
  · intro u; by_cases hu : u = t
    · subst hu; simp
    · simpa [hu] using h7 u
  · intro _; exact Or.inr (Or.inl hlk)
  · intro u; by_cases hu : u = t
    · subst hu; simp
    · simpa [hu] using h9 u
  · intro u; by_cases hu : u = t
    · subst hu; simp
    · simpa [hu] using h11 u

theorem Inv.writeFail {s : St} {t : Tid} {x : Item} (h : Inv s) (hpc : s.pc t = .write)
    (hh : s.hand = some x) (hd : s.dead = true) :
    Inv ({ s with hand := none, nw := 0, lost := s.lost ++ [x],
                  stub := s.stub ++ (pieces x).take s.nw }.setPc t .releaseX) := by
  have hcs : inCS (s.pc t) = true := by rw [hpc]; rfl
  obtain ⟨ht, hlk⟩ := h.holder_of_cs hcs
  have huniq := fun u => h.cs_unique (u := u) ht
  obtain ⟨h1, h2, h3, h4, h5, h6, h7, h8, h9, h10, h11, h12⟩ := h
  refine ⟨h1, ?_, ?_, Or.inl rfl, ?_, ?_, ?_, ?_, ?_, ?_, ?_, ?_⟩
  · intro u; by_cases hu : u = t
    · subst hu; simpa [inCS] using ht
    · simpa [hu] using h2 u
  · intro u; by_cases hu : u = t
    · subst hu; simp
    · intro hw; simp [hu] at hw
      exact absurd (huniq u (by rw [hw]; rfl)) hu
  · rw [hh] at h5; simpa [List.append_assoc] using h5
  · simp only [partialPkt, hh] at h6
    simp only [setPc_wire, setPc_out, setPc_stub, partialPkt, setPc_hand, List.append_nil]
    rw [h6]; simp [List.append_assoc]
  · intro u; by_cases hu : u = t
    · subst hu; simp
    · simpa [hu] using h7 u
  · intro _; exact Or.inl hd
  · intro u; by_cases hu : u = t
    · subst hu; simp
    · simpa [hu] using h9 u
  · intro hd'; simp only [setPc_dead] at hd'; rw [hd] at hd'; cases hd'
  · intro u _; exact hd
  · refine Or.inr ⟨rfl, ?_⟩
    rcases h12 with hc | ⟨hnw, y, k, hc⟩
    · exact ⟨x, s.nw, by simp [hc]⟩
    · exact ⟨y, k, by simp [hc, hnw]⟩

theorem Inv.release {s : St} {t : Tid} (h : Inv s) (hpc : s.pc t = .release) :
    Inv ({ s with lock := false, holder := none }.setPc t .check) := by
  have hcs : inCS (s.pc t) = true := by rw [hpc]; rfl
  obtain ⟨ht, hlk⟩ := h.holder_of_cs hcs
  have hnone := h.hand_none hcs (by rw [hpc]; simp)
  have huniq := fun u => h.cs_unique (u := u) ht
  obtain ⟨h1, h2, h3, h4, h5, h6, h7, h8, h9, h10, h11, h12⟩ := h
  refine ⟨rfl, ?_, ?_, Or.inl hnone, h5, h6, ?_, ?_, ?_, h10, ?_, h12⟩
  · intro u; by_cases hu : u = t
    · subst hu; simp [inCS]
    · have : inCS (s.pc u) = false := by
        cases hc : inCS (s.pc u) with
        | false => rfl
        | true => exact absurd (huniq u hc) hu
      simp [hu, this]
  · intro u; by_cases hu : u = t
    · subst hu; simp
    · simpa [hu] using h3 u
  · intro u; by_cases hu : u = t
    · subst hu; simp
    · simpa [hu] using h7 u
  · intro _; exact Or.inr (Or.inr ⟨t, by simp⟩)
  · intro u; by_cases hu : u = t
    · subst hu; simp
    · simpa [hu] using h9 u
  · intro u; by_cases hu : u = t
    · subst hu; simp
    · simpa [hu] using h11 u

theorem Inv.releaseX {s : St} {t : Tid} (h : Inv s) (hpc : s.pc t = .releaseX) :
    Inv ({ s with lock := false, holder := none }.setPc t .idle) := by
  have hcs : inCS (s.pc t) = true := by rw [hpc]; rfl
  obtain ⟨ht, hlk⟩ := h.holder_of_cs hcs
  have hnone := h.hand_none hcs (by rw [hpc]; simp)
  have huniq := fun u => h.cs_unique (u := u) ht
  have hdead := h.relx_dead t hpc
  obtain ⟨h1, h2, h3, h4, h5, h6, h7, h8, h9, h10, h11, h12⟩ := h
  refine ⟨rfl, ?_, ?_, Or.inl hnone, h5, h6, ?_, ?_, ?_, h10, ?_, h12⟩
  · intro u; by_cases hu : u = t
    · subst hu; simp [inCS]
    · have : inCS (s.pc u) = false := by
        cases hc : inCS (s.pc u) with
        | false => rfl
        | true => exact absurd (huniq u hc) hu
      simp [hu, this]
  · intro u; by_cases hu : u = t
    · subst hu; simp
    · simpa [hu] using h3 u
  · intro u; by_cases hu : u = t
    · subst hu; simp
    · simpa [hu] using h7 u
  · intro _; exact Or.inl hdead
  · intro u; by_cases hu : u = t
    · subst hu; simp
    · simpa [hu] using h9 u
  · intro u; by_cases hu : u = t
    · subst hu; simp
    · simpa [hu] using h11 u

/-- the invariant is preserved by every line of every thread -/
theorem Inv.step {s s' : St} {t : Tid} (h : Inv s) (hs : step s t = some s') : Inv s' := by
  unfold SendQ.step at hs
  simp only [enqueue_eq] at hs
  split at hs
  next hpc => -- idle
    split at hs
    · cases hs
    next m rest htodo =>
      cases hs
      exact ((h.setStarted _).setTodo t rest).pcOnly (by simp [hpc, inCS]) (by simp [hpc]) (by simp) (by simp) (by simp)
        (by simp [hpc])
  next m hpc => -- append
    cases hs; exact h.append hpc
  next hpc => -- check
    split at hs
    next hq => cases hs; exact h.pcOnly (by simp [hpc, inCS]) (by simp [hpc]) (by simp) (by simp) (by simp) (by simp [hq])
    next hq => cases hs; exact h.pcOnly (by simp [hpc, inCS]) (by simp [hpc]) (by simp) (by simp) (by simp) (by simp)
  next hpc => -- tryLock
    split at hs
    next hl => cases hs; exact h.pcOnly (by simp [hpc, inCS]) (by simp [hpc]) (by simp) (by simp) (by simp) (by simp [hl])
    next hl => cases hs; exact h.acquire hpc hl
  next hpc => -- recheck
    split at hs
    next hq => cases hs; exact h.pcOnly (by simp [hpc, inCS]) (by simp [hpc]) (by simp) (by simp) (by simp) (by simp [hpc])
    next x q hq => cases hs; exact h.pcOnly (by simp [hpc, inCS]) (by simp [hpc]) (by simp [hq]) (by simp) (by simp) (by simp [hpc])
  next hpc => -- pop
    split at hs
    next hq => exact absurd hq (h.pop_ok t hpc)
    next x q hq => cases hs; exact h.pop hpc hq
  next hpc => -- write
    split at hs
    next hh => obtain ⟨x, hx, _⟩ := h.hand_w t hpc; rw [hh] at hx; cases hx
    next x hh =>
      split at hs
      next hd => cases hs; exact h.writeFail hpc hh hd
      next hd =>
        have hd' : s.dead = false := by cases hx : s.dead <;> simp_all
        split at hs
        next hlt => cases hs; exact h.writeMid hpc hh hlt hd'
        next hlt => cases hs; exact h.writeLast hpc hh hlt hd'
  next hpc => -- release
    split at hs
    next hl => cases hs; exact h.release hpc
    next hl =>
      have := (h.holder_of_cs (t := t) (by rw [hpc]; rfl)).2
      rw [hl] at this; cases this
  next hpc => -- releaseX
    split at hs
    next hl => cases hs; exact h.releaseX hpc
    next hl =>
      have := (h.holder_of_cs (t := t) (by rw [hpc]; rfl)).2
      rw [hl] at this; cases this
  next hpc => cases hs

theorem Inv.reenter {s : St} (h : Inv s) (p : Tid) (m : Msg) : Inv (reenter s p m) :=
  ⟨h.lock_holder, h.cs_iff, h.hand_w, h.hand_n, h.conserve, h.contig, h.pop_ok, h.live, h.nocrash, h.alive, h.relx_dead, h.cut⟩

theorem Inv.brk {s : St} (h : Inv s) : Inv (breakTransport s) :=
  ⟨h.lock_holder, h.cs_iff, h.hand_w, h.hand_n, h.conserve, h.contig, h.pop_ok, fun _ => Or.inl rfl, h.nocrash,
   fun hd => by simp [breakTransport] at hd, fun _ _ => rfl, h.cut⟩

/-! ### what a line of thread `t` can change (frame) -/

theorem issued_append (x : Item) (u : Tid) (a : List Item) :
    ((a ++ [x]).filter (fun it => it.1 == u)).map (·.2)
      = (a.filter (fun it => it.1 == u)).map (·.2) ++ (if x.1 = u then [x.2] else []) := by
  by_cases h : x.1 = u <;> simp [List.filter_append, h]

/-- one line of thread `t` is of one of three kinds with respect to the call log -/
inductive StepKind (s s' : St) (t : Tid) : Prop where
  | start (m : Msg) : s.pc t = .idle → s'.pc t = .append m → s.todo t = m :: s'.todo t →
      s'.started = s.started ++ [(t, m)] → s'.appended = s.appended → StepKind s s' t
  | append (m : Msg) : s.pc t = .append m → s'.pc t = .check → s'.todo t = s.todo t →
      s'.started = s.started → s'.appended = s.appended ++ [(t, m)] → StepKind s s' t
  | other : (∀ m, s.pc t ≠ .append m) → (∀ m, s'.pc t ≠ .append m) → s'.todo t = s.todo t →
      s'.started = s.started → s'.appended = s.appended → StepKind s s' t

theorem step_frame {s s' : St} {t : Tid} (hs : step s t = some s') :
    s'.wait = s.wait ∧ s'.next = s.next ∧ s'.prog = s.prog ∧ s'.root = s.root
    ∧ (∀ u, u ≠ t → s'.pc u = s.pc u ∧ s'.todo u = s.todo u)
    ∧ StepKind s s' t := by
  unfold SendQ.step at hs
  simp only [enqueue_eq] at hs
  split at hs
  next hpc =>
    split at hs
    · cases hs
    next m rest htodo =>
      cases hs
      exact ⟨rfl, rfl, rfl, rfl, fun u hu => by simp [hu], .start m hpc (by simp) (by simp [htodo]) rfl rfl⟩
  next m hpc =>
    cases hs
    exact ⟨rfl, rfl, rfl, rfl, fun u hu => by simp [hu], .append m hpc (by simp) rfl rfl rfl⟩
  next hpc =>
    split at hs <;> cases hs <;>
      exact ⟨rfl, rfl, rfl, rfl, fun u hu => by simp [hu], .other (by simp [hpc]) (by simp) rfl rfl rfl⟩
  next hpc =>
    split at hs <;> cases hs <;>
      exact ⟨rfl, rfl, rfl, rfl, fun u hu => by simp [hu], .other (by simp [hpc]) (by simp) rfl rfl rfl⟩
  next hpc =>
    split at hs <;> cases hs <;>
      exact ⟨rfl, rfl, rfl, rfl, fun u hu => by simp [hu], .other (by simp [hpc]) (by simp) rfl rfl rfl⟩
  next hpc =>
    split at hs <;> cases hs <;>
      exact ⟨rfl, rfl, rfl, rfl, fun u hu => by simp [hu], .other (by simp [hpc]) (by simp) rfl rfl rfl⟩
  next hpc =>
    split at hs
    · cases hs
      exact ⟨rfl, rfl, rfl, rfl, fun u hu => by simp [hu], .other (by simp [hpc]) (by simp) rfl rfl rfl⟩
    · split at hs
      · cases hs
        exact ⟨rfl, rfl, rfl, rfl, fun u hu => by simp [hu], .other (by simp [hpc]) (by simp) rfl rfl rfl⟩
      · split at hs <;> cases hs
        · exact ⟨rfl, rfl, rfl, rfl, fun u hu => ⟨rfl, rfl⟩, .other (by simp [hpc]) (by simp [hpc]) rfl rfl rfl⟩
        · exact ⟨rfl, rfl, rfl, rfl, fun u hu => by simp [hu], .other (by simp [hpc]) (by simp) rfl rfl rfl⟩
  next hpc =>
    split at hs <;> cases hs <;>
      exact ⟨rfl, rfl, rfl, rfl, fun u hu => by simp [hu], .other (by simp [hpc]) (by simp) rfl rfl rfl⟩
  next hpc =>
    split at hs <;> cases hs <;>
      exact ⟨rfl, rfl, rfl, rfl, fun u hu => by simp [hu], .other (by simp [hpc]) (by simp) rfl rfl rfl⟩
  next hpc => cases hs

theorem StepKind.pending {s s' : St} {t : Tid} (k : StepKind s s' t) :
    (s'.appended = s.appended ∧ pending s' t = pending s t)
    ∨ (∃ m, s'.appended = s.appended ++ [(t, m)] ∧ pending s t = m :: pending s' t) := by
  cases k with
  | start m h1 h2 h3 h4 h5 => exact Or.inl ⟨h5, by simp [SendQ.pending, h1, h2, h3]⟩
  | append m h1 h2 h3 h4 h5 => exact Or.inr ⟨m, h5, by simp [SendQ.pending, h1, h2, h3]⟩
  | other h1 h2 h3 h4 h5 =>
    refine Or.inl ⟨h5, ?_⟩
    unfold SendQ.pending
    rw [h3]
    cases hp : s.pc t <;> cases hp' : s'.pc t <;> simp_all

theorem step_none_of_done {s : St} {t : Tid} (h : isDone s t) : step s t = none := by
  unfold SendQ.step; simp [h.1, h.2]

theorem step_isSome {s : St} {t : Tid} (hc : s.pc t ≠ .crash) (hd : ¬ isDone s t) : (step s t).isSome = true := by
  unfold SendQ.step
  split
  next hpc =>
    split
    next htodo => exact absurd ⟨hpc, htodo⟩ hd
    · rfl
  all_goals first | rfl | (split <;> first | rfl | (split <;> first | rfl | (split <;> rfl))) | exact absurd ‹_› hc

/-- nesting discipline of re-entrant sends, thread tags, and each thread's program order -/
structure Nest (s : St) : Prop where
  wait_lt : ∀ p c, s.wait p = some c → p < c ∧ c < s.next
  fresh : ∀ t, s.next ≤ t → s.pc t = .idle ∧ s.todo t = [] ∧ s.wait t = none
  tags : ∀ it ∈ s.appended, it.1 < s.next
  stags : ∀ it ∈ s.started, it.1 < s.next
  order : ∀ t, issued s t ++ pending s t = s.prog t

theorem Nest.init (n : Nat) (prog : Tid → List Msg) : Nest (init n prog) := by
  refine ⟨?_, ?_, ?_, ?_, ?_⟩
  · intro p c h; simp [SendQ.init] at h
  · intro t ht
    have : ¬ t < n := by simpa [SendQ.init] using ht
    simp [SendQ.init, this]
  · intro it h; simp [SendQ.init] at h
  · intro it h; simp [SendQ.init] at h
  · intro t; simp [SendQ.init, issued, pending]

theorem issued_eq_nil_of_tags {s : St} (h : ∀ it ∈ s.appended, it.1 < s.next) {t : Tid} (ht : s.next ≤ t) :
    issued s t = [] := by
  unfold issued
  rw [List.map_eq_nil_iff, List.filter_eq_nil_iff]
  intro it hit
  have := h it hit
  simp; omega

theorem Nest.lt_next {s s' : St} {t : Tid} (h : Nest s) (hs : step s t = some s') : t < s.next := by
  apply Classical.byContradiction
  intro hn
  have hf := h.fresh t (by omega)
  rw [step_none_of_done ⟨hf.1, hf.2.1⟩] at hs
  cases hs

theorem Nest.step {s s' : St} {t : Tid} (h : Nest s) (hs : step s t = some s') : Nest s' := by
  have ht := h.lt_next hs
  obtain ⟨hw, hn, hp, _, hoth, hk⟩ := step_frame hs
  have happ := hk.pending
  have hpend : ∀ u, u ≠ t → pending s' u = pending s u := by
    intro u hu; unfold pending; rw [(hoth u hu).1, (hoth u hu).2]
  refine ⟨?_, ?_, ?_, ?_, ?_⟩
  · intro p c hpc; rw [hw] at hpc; rw [hn]; exact h.wait_lt p c hpc
  · intro u hu
    rw [hn] at hu
    have hne : u ≠ t := by omega
    rw [(hoth u hne).1, (hoth u hne).2, hw]
    exact h.fresh u hu
  · intro it hit
    rw [hn]
    rcases happ with ⟨ha, _⟩ | ⟨m, ha, _⟩
    · rw [ha] at hit; exact h.tags it hit
    · rw [ha] at hit
      rcases List.mem_append.1 hit with hit | hit
      · exact h.tags it hit
      · simp at hit; subst hit; exact ht
  · intro it hit
    rw [hn]
    cases hk with
    | start m _ _ _ h4 _ =>
      rw [h4] at hit
      rcases List.mem_append.1 hit with hit | hit
      · exact h.stags it hit
      · simp at hit; subst hit; exact ht
    | append m _ _ _ h4 _ => rw [h4] at hit; exact h.stags it hit
    | other _ _ _ h4 _ => rw [h4] at hit; exact h.stags it hit
  · intro u
    rw [hp, ← h.order u]
    rcases happ with ⟨ha, hpe⟩ | ⟨m, ha, hpe⟩
    · have hi : issued s' u = issued s u := by unfold issued; rw [ha]
      rw [hi]
      by_cases hu : u = t
      · subst hu; rw [hpe]
      · rw [hpend u hu]
    · have hi : issued s' u = issued s u ++ (if t = u then [m] else []) := by
        unfold issued; rw [ha]; exact issued_append (t, m) u s.appended
      rw [hi]
      by_cases hu : u = t
      · subst hu; rw [hpe]; simp
      · rw [hpend u hu]
        have : ¬ t = u := fun e => hu e.symm
        simp [this]

theorem Nest.reenter {s : St} {p : Tid} (h : Nest s) (hp : p < s.next) (m : Msg) : Nest (reenter s p m) := by
  have hf := h.fresh s.next (Nat.le_refl _)
  refine ⟨?_, ?_, ?_, ?_, ?_⟩
  · intro q c hqc
    simp only [SendQ.reenter] at hqc ⊢
    by_cases hq : q = p
    · subst hq; simp at hqc; subst hqc; omega
    · simp [hq] at hqc
      have := h.wait_lt q c hqc
      omega
  · intro u hu
    simp only [SendQ.reenter] at hu ⊢
    have h1 : u ≠ s.next := by omega
    have h2 : u ≠ p := by omega
    simp only [h1, h2, if_false]
    exact h.fresh u (by omega)
  · intro it hit
    have := h.tags it hit
    simp only [SendQ.reenter]; omega
  · intro it hit
    have := h.stags it hit
    simp only [SendQ.reenter]; omega
  · intro u
    by_cases hu : u = s.next
    · subst hu
      have hi : issued (SendQ.reenter s p m) s.next = [] := issued_eq_nil_of_tags (s := s) h.tags (Nat.le_refl _)
      rw [hi]
      simp [pending, SendQ.reenter, hf.1]
    · have := h.order u
      simp only [issued, pending, SendQ.reenter, hu, if_false] at this ⊢
      exact this

theorem Nest.brk {s : St} (h : Nest s) : Nest (breakTransport s) :=
  ⟨h.wait_lt, h.fresh, h.tags, h.stags, h.order⟩

theorem reachable_inv {n : Nat} {prog : Tid → List Msg} {s : St} (h : Reachable n prog s) : Inv s ∧ Nest s := by
  induction h with
  | init => exact ⟨Inv.init n prog, Nest.init n prog⟩
  | step t _ _ hs ih => exact ⟨ih.1.step hs, ih.2.step hs⟩
  | reenter p m _ _ hp ih => exact ⟨ih.1.reenter p m, ih.2.reenter hp m⟩
  | brk _ ih => exact ⟨ih.1.brk, ih.2.brk⟩

theorem ReachableR.toReachable {n : Nat} {prog : Tid → List Msg} {s : St} (h : ReachableR n prog s) :
    Reachable n prog s := by
  induction h with
  | init => exact .init
  | step t _ hb hs ih => exact .step t ih hb hs
  | reenter p m _ hb hp _ ih => exact .reenter p m ih hb hp
  | brk _ ih => exact .brk ih

/-- the innermost activation on a thread's chain of nested sends can always execute its next line -/
theorem exists_enabled {s : St} (hI : Inv s) (hN : Nest s) :
    ∀ (k : Nat) (t : Tid), s.next - t ≤ k → ¬ isDone s t →
      ∃ u, t ≤ u ∧ ¬ blocked s u ∧ ¬ isDone s u ∧ (step s u).isSome = true := by
  intro k
  induction k with
  | zero =>
    intro t hk hd
    have := hN.fresh t (by omega)
    exact absurd ⟨this.1, this.2.1⟩ hd
  | succ k ih =>
    intro t hk hd
    by_cases hb : blocked s t
    · obtain ⟨c, hc, hcd⟩ := hb
      have := hN.wait_lt t c hc
      obtain ⟨u, hu, r⟩ := ih c (by omega) hcd
      exact ⟨u, by omega, r⟩
    · exact ⟨t, Nat.le_refl _, hb, hd, step_isSome (hI.nocrash t) hd⟩

theorem isDoneB_iff (s : St) (t : Tid) : isDoneB s t = true ↔ isDone s t := by
  simp [isDoneB, isDone, List.isEmpty_iff]

theorem blockedB_iff (s : St) (p : Tid) : blockedB s p = true ↔ blocked s p := by
  unfold blockedB blocked
  cases hw : s.wait p with
  | none => simp
  | some c =>
    have := isDoneB_iff s c
    cases hd : isDoneB s c <;> simp_all

theorem reachable_exec {n : Nat} {prog : Tid → List Msg} {s s' : St} (h : Reachable n prog s) (e : Ev)
    (he : exec s e = some s') : Reachable n prog s' := by
  cases e with
  | run t =>
    simp only [exec] at he
    split at he
    · cases he
    next hb => exact Reachable.step t h (fun hbl => hb ((blockedB_iff s t).2 hbl)) he
  | reent p m =>
    simp only [exec] at he
    split at he
    · cases he
    next hb =>
      split at he
      next hp => cases he; exact Reachable.reenter p m h (fun hbl => hb ((blockedB_iff s p).2 hbl)) hp
      · cases he
  | brk => simp only [exec] at he; cases he; exact .brk h

theorem reachable_execAll {n : Nat} {prog : Tid → List Msg} (l : List Ev) :
    ∀ {s s' : St}, Reachable n prog s → execAll s l = some s' → Reachable n prog s' := by
  induction l with
  | nil => intro s s' h he; cases he; exact h
  | cons e l ih =>
    intro s s' h he
    simp only [execAll] at he
    split at he
    · cases he
    next s1 h1 => exact ih (reachable_exec h e h1) he

/-- only the stream writes of `Channel.send` touch the wire -/
theorem step_wire {s s' : St} {t : Tid} (hs : step s t = some s') : s'.wire = s.wire ∨ s.pc t = .write := by
  unfold SendQ.step at hs
  simp only [enqueue_eq] at hs
  split at hs
  next hpc => split at hs <;> cases hs; exact Or.inl rfl
  next m hpc => cases hs; exact Or.inl rfl
  next hpc => split at hs <;> cases hs <;> exact Or.inl rfl
  next hpc => split at hs <;> cases hs <;> exact Or.inl rfl
  next hpc => split at hs <;> cases hs <;> exact Or.inl rfl
  next hpc => split at hs <;> cases hs <;> exact Or.inl rfl
  next hpc => exact Or.inr hpc
  next hpc => split at hs <;> cases hs <;> exact Or.inl rfl
  next hpc => split at hs <;> cases hs <;> exact Or.inl rfl
  next hpc => cases hs

/-- the initial threads keep the programs they were given -/
theorem reachable_prog {n : Nat} {prog : Tid → List Msg} {s : St} (h : Reachable n prog s) :
    n ≤ s.next ∧ ∀ t, t < n → s.prog t = prog t := by
  induction h with
  | init => exact ⟨Nat.le_refl _, fun t ht => by simp [SendQ.init, ht]⟩
  | step t _ _ hs ih =>
    obtain ⟨_, hn, hp, _⟩ := step_frame hs
    rw [hn, hp]; exact ih
  | reenter p m _ _ _ ih =>
    refine ⟨by simp only [SendQ.reenter]; omega, fun t ht => ?_⟩
    have : t ≠ _ := Nat.ne_of_lt (Nat.lt_of_lt_of_le ht ih.1)
    simp only [SendQ.reenter, this, if_false]
    exact ih.2 t ht
  | brk _ ih => exact ih

end Rpyc.Conc.SendQ
