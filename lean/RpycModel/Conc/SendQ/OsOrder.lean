import RpycModel.Conc.SendQ.Lemmas
/-
Order of the messages of one OS thread (a thread together with the nested activations that run on it),
when nested sends start only past the parent's append (`ReachableR`): the order in which the thread's
messages are appended — hence transmitted — is the order in which its `_send` calls started.
-/
namespace Rpyc.Conc.SendQ

theorem onThread_append (s : St) (r : Tid) (l : List Item) (x : Item) :
    onThread s r (l ++ [x]) = onThread s r l ++ (if s.root x.1 = r then [x] else []) := by
  unfold onThread
  by_cases h : s.root x.1 = r <;> simp [List.filter_append, h]

theorem onThread_congr {s s' : St} (h : s'.root = s.root) (r : Tid) (l : List Item) :
    onThread s' r l = onThread s r l := by
  unfold onThread; rw [h]

/-- one OS thread has at most one runnable activation; only it can be between call start and append -/
structure OsInv (s : St) : Prop where
  uniq : ∀ u v, s.root u = s.root v → ¬ isDone s u → ¬ isDone s v → ¬ blocked s u → ¬ blocked s v → u = v
  app_unblocked : ∀ v m, s.pc v = .append m → ¬ blocked s v
  wait_inj : ∀ q q' c, s.wait q = some c → s.wait q' = some c → q = q'
  wait_root : ∀ q c, s.wait q = some c → s.root c = s.root q
  k1 : ∀ u m, s.pc u = .append m →
    onThread s (s.root u) s.started = onThread s (s.root u) s.appended ++ [(u, m)]
  k2 : ∀ r, (∀ u, s.root u = r → ∀ m, s.pc u ≠ .append m) → onThread s r s.started = onThread s r s.appended

theorem OsInv.init (n : Nat) (prog : Tid → List Msg) : OsInv (init n prog) := by
  refine ⟨?_, ?_, ?_, ?_, ?_, ?_⟩
  · intro u v h _ _ _ _; simpa [SendQ.init] using h
  · intro v m h; simp [SendQ.init] at h
  · intro q q' c h; simp [SendQ.init] at h
  · intro q c h; simp [SendQ.init] at h
  · intro u m h; simp [SendQ.init] at h
  · intro r _; simp [SendQ.init, onThread]

theorem OsInv.brk {s : St} (h : OsInv s) : OsInv (breakTransport s) :=
  ⟨h.uniq, h.app_unblocked, h.wait_inj, h.wait_root, h.k1, h.k2⟩

theorem OsInv.step {s s' : St} {t : Tid} (h : OsInv s) (hb : ¬ blocked s t) (hs : step s t = some s') :
    OsInv s' := by
  obtain ⟨hw, _, _, hr, hoth, hk⟩ := step_frame hs
  have hnd : ¬ isDone s t := fun hd => by rw [step_none_of_done hd] at hs; cases hs
  have hdone_ne : ∀ u, u ≠ t → (isDone s' u ↔ isDone s u) := by
    intro u hu; unfold isDone; rw [(hoth u hu).1, (hoth u hu).2]
  have hmono : ∀ u, isDone s u → isDone s' u := by
    intro u hd
    by_cases hu : u = t
    · subst hu; exact absurd hd hnd
    · exact (hdone_ne u hu).2 hd
  have hblk : ∀ w, blocked s' w → blocked s w := by
    rintro w ⟨c, hc, hcd⟩
    rw [hw] at hc
    exact ⟨c, hc, fun hd => hcd (hmono c hd)⟩
  have hunb : ∀ w, ¬ blocked s' w → ¬ blocked s w ∨ (s.wait w = some t ∧ isDone s' t) := by
    intro w hnb
    by_cases hbw : blocked s w
    · obtain ⟨c, hc, hcd⟩ := hbw
      have hd' : isDone s' c := by
        apply Classical.byContradiction
        intro hnd'
        exact hnb ⟨c, by rw [hw]; exact hc, hnd'⟩
      have hct : c = t := by
        apply Classical.byContradiction
        intro hne
        exact hcd ((hdone_ne c hne).1 hd')
      subst hct
      exact Or.inr ⟨hc, hd'⟩
    · exact Or.inl hbw
  have noapp : ∀ u, s.root u = s.root t → u ≠ t → ∀ m, s.pc u ≠ .append m := by
    intro u hru hut m hpc
    have hlive : ¬ isDone s u := fun hd => by rw [hd.1] at hpc; cases hpc
    exact hut (h.uniq u t hru hlive hnd (h.app_unblocked u m hpc) hb)
  refine ⟨?_, ?_, ?_, ?_, ?_, ?_⟩
  · intro u v hroot hlu hlv hbu hbv
    rw [hr] at hroot
    have hlu0 : ¬ isDone s u := fun hd => hlu (hmono u hd)
    have hlv0 : ¬ isDone s v := fun hd => hlv (hmono v hd)
    rcases hunb u hbu with hu0 | ⟨hwu, hdt⟩ <;> rcases hunb v hbv with hv0 | ⟨hwv, hdt'⟩
    · exact h.uniq u v hroot hlu0 hlv0 hu0 hv0
    · have hrt : s.root u = s.root t := by rw [hroot, h.wait_root v t hwv]
      have : u = t := h.uniq u t hrt hlu0 hnd hu0 hb
      subst this
      exact absurd hdt' hlu
    · have hrt : s.root v = s.root t := by rw [← hroot, h.wait_root u t hwu]
      have : v = t := h.uniq v t hrt hlv0 hnd hv0 hb
      subst this
      exact absurd hdt hlv
    · exact h.wait_inj u v t hwu hwv
  · intro v m hpc hbv
    have hbv0 := hblk v hbv
    by_cases hv : v = t
    · subst hv; exact hb hbv0
    · rw [(hoth v hv).1] at hpc
      exact h.app_unblocked v m hpc hbv0
  · intro q q' c hq hq'
    rw [hw] at hq hq'
    exact h.wait_inj q q' c hq hq'
  · intro q c hq
    rw [hw] at hq; rw [hr]
    exact h.wait_root q c hq
  · intro u m' hpc'
    rw [hr, onThread_congr hr, onThread_congr hr]
    cases hk with
    | start m h1 h2 h3 h4 h5 =>
      rw [h4, h5, onThread_append]
      by_cases hu : u = t
      · subst hu
        rw [h2] at hpc'; cases hpc'
        simp only [if_true]
        rw [h.k2 (s.root u)]
        intro v hv m''
        by_cases hvu : v = u
        · subst hvu; rw [h1]; simp
        · exact noapp v hv hvu m''
      · have hpc : s.pc u = .append m' := by rw [← (hoth u hu).1]; exact hpc'
        have hne : s.root t ≠ s.root u := fun e => noapp u e.symm hu m' hpc
        simp only [hne, if_false, List.append_nil]
        exact h.k1 u m' hpc
    | append m h1 h2 h3 h4 h5 =>
      have hu : u ≠ t := by rintro rfl; rw [h2] at hpc'; cases hpc'
      have hpc : s.pc u = .append m' := by rw [← (hoth u hu).1]; exact hpc'
      have hne : s.root t ≠ s.root u := fun e => noapp u e.symm hu m' hpc
      rw [h4, h5, onThread_append]
      simp only [hne, if_false, List.append_nil]
      exact h.k1 u m' hpc
    | other h1 h2 h3 h4 h5 =>
      have hu : u ≠ t := by rintro rfl; exact h2 m' hpc'
      have hpc : s.pc u = .append m' := by rw [← (hoth u hu).1]; exact hpc'
      rw [h4, h5]
      exact h.k1 u m' hpc
  · intro r hno
    rw [onThread_congr hr, onThread_congr hr]
    rw [hr] at hno
    cases hk with
    | start m h1 h2 h3 h4 h5 =>
      have hrt : s.root t ≠ r := fun e => hno t e m h2
      rw [h4, h5, onThread_append]
      simp only [hrt, if_false, List.append_nil]
      apply h.k2 r
      intro u hu m'
      have hut : u ≠ t := by rintro rfl; exact hrt hu
      rw [← (hoth u hut).1]; exact hno u hu m'
    | append m h1 h2 h3 h4 h5 =>
      rw [h4, h5, onThread_append]
      by_cases hrt : s.root t = r
      · subst hrt
        simp only [if_true]
        exact h.k1 t m h1
      · simp only [hrt, if_false, List.append_nil]
        apply h.k2 r
        intro u hu m'
        have hut : u ≠ t := by rintro rfl; exact hrt hu
        rw [← (hoth u hut).1]; exact hno u hu m'
    | other h1 h2 h3 h4 h5 =>
      rw [h4, h5]
      apply h.k2 r
      intro u hu m'
      by_cases hut : u = t
      · subst hut; exact h1 m'
      · rw [← (hoth u hut).1]; exact hno u hu m'

theorem onThread_reenter {s : St} (p : Tid) (m : Msg) (r : Tid) (l : List Item) (hl : ∀ it ∈ l, it.1 < s.next) :
    onThread (reenter s p m) r l = onThread s r l := by
  unfold onThread
  apply List.filter_congr
  intro it hit
  have : it.1 ≠ s.next := Nat.ne_of_lt (hl it hit)
  simp [SendQ.reenter, this]

theorem OsInv.reenter {s : St} {p : Tid} (h : OsInv s) (hN : Nest s) (hb : ¬ blocked s p) (hp : p < s.next)
    (hpa : pastAppend (s.pc p) = true) (m : Msg) : OsInv (reenter s p m) := by
  have hf := hN.fresh s.next (Nat.le_refl _)
  have hlive : ¬ isDone s p := fun hd => by rw [hd.1] at hpa; cases hpa
  have hpc_ne : p ≠ s.next := Nat.ne_of_lt hp
  have hdone : ∀ u, u ≠ s.next → (isDone (SendQ.reenter s p m) u ↔ isDone s u) := by
    intro u hu; simp [isDone, SendQ.reenter, hu]
  have hcnd : ¬ isDone (SendQ.reenter s p m) s.next := by simp [isDone, SendQ.reenter]
  have hblk : ∀ w, w ≠ p → (blocked (SendQ.reenter s p m) w ↔ blocked s w) := by
    intro w hwp
    constructor
    · rintro ⟨c, hc, hcd⟩
      simp only [SendQ.reenter, hwp, if_false] at hc
      have hcn : c ≠ s.next := Nat.ne_of_lt (hN.wait_lt w c hc).2
      exact ⟨c, hc, fun hd => hcd ((hdone c hcn).2 hd)⟩
    · rintro ⟨c, hc, hcd⟩
      have hcn : c ≠ s.next := Nat.ne_of_lt (hN.wait_lt w c hc).2
      exact ⟨c, by simp only [SendQ.reenter, hwp, if_false]; exact hc, fun hd => hcd ((hdone c hcn).1 hd)⟩
  have hbp : blocked (SendQ.reenter s p m) p := ⟨s.next, by simp [SendQ.reenter], hcnd⟩
  have hroot : ∀ u, u ≠ s.next → (SendQ.reenter s p m).root u = s.root u := by
    intro u hu; simp [SendQ.reenter, hu]
  have hrootc : (SendQ.reenter s p m).root s.next = s.root p := by simp [SendQ.reenter]
  refine ⟨?_, ?_, ?_, ?_, ?_, ?_⟩
  · intro u v hr hlu hlv hbu hbv
    have hup : u ≠ p := by rintro rfl; exact hbu hbp
    have hvp : v ≠ p := by rintro rfl; exact hbv hbp
    by_cases huc : u = s.next <;> by_cases hvc : v = s.next
    · rw [huc, hvc]
    · subst huc
      rw [hrootc, hroot v hvc] at hr
      have := h.uniq v p hr.symm (fun hd => hlv ((hdone v hvc).2 hd)) hlive
        (fun hbb => hbv ((hblk v hvp).2 hbb)) hb
      exact absurd this hvp
    · subst hvc
      rw [hrootc, hroot u huc] at hr
      have := h.uniq u p hr (fun hd => hlu ((hdone u huc).2 hd)) hlive
        (fun hbb => hbu ((hblk u hup).2 hbb)) hb
      exact absurd this hup
    · rw [hroot u huc, hroot v hvc] at hr
      exact h.uniq u v hr (fun hd => hlu ((hdone u huc).2 hd)) (fun hd => hlv ((hdone v hvc).2 hd))
        (fun hbb => hbu ((hblk u hup).2 hbb)) (fun hbb => hbv ((hblk v hvp).2 hbb))
  · intro v m' hpc hbv
    have hpc0 : s.pc v = .append m' := hpc
    have hvp : v ≠ p := by rintro rfl; rw [hpc0] at hpa; cases hpa
    exact h.app_unblocked v m' hpc0 ((hblk v hvp).1 hbv)
  · intro q q' c hq hq'
    simp only [SendQ.reenter] at hq hq'
    by_cases hqp : q = p <;> by_cases hqp' : q' = p
    · rw [hqp, hqp']
    · simp only [hqp, if_true, hqp', if_false] at hq hq'
      cases hq
      exact absurd (hN.wait_lt q' _ hq').2 (Nat.lt_irrefl _)
    · simp only [hqp, if_false, hqp', if_true] at hq hq'
      cases hq'
      exact absurd (hN.wait_lt q _ hq).2 (Nat.lt_irrefl _)
    · simp only [hqp, hqp', if_false] at hq hq'
      exact h.wait_inj q q' c hq hq'
  · intro q c hq
    simp only [SendQ.reenter] at hq
    by_cases hqp : q = p
    · simp only [hqp, if_true] at hq
      cases hq
      rw [hqp, hrootc, hroot p hpc_ne]
    · simp only [hqp, if_false] at hq
      have hlt := hN.wait_lt q c hq
      rw [hroot c (Nat.ne_of_lt hlt.2), hroot q (Nat.ne_of_lt (Nat.lt_trans hlt.1 hlt.2))]
      exact h.wait_root q c hq
  · intro u m' hpc
    have hpc0 : s.pc u = .append m' := hpc
    have huc : u ≠ s.next := by rintro rfl; rw [hf.1] at hpc0; cases hpc0
    rw [hroot u huc]
    show onThread _ _ s.started = onThread _ _ s.appended ++ _
    rw [onThread_reenter p m _ _ hN.stags, onThread_reenter p m _ _ hN.tags]
    exact h.k1 u m' hpc0
  · intro r hno
    show onThread _ _ s.started = onThread _ _ s.appended
    rw [onThread_reenter p m _ _ hN.stags, onThread_reenter p m _ _ hN.tags]
    apply h.k2 r
    intro u hu m'
    by_cases huc : u = s.next
    · subst huc; rw [hf.1]; simp
    · exact hno u (by rw [hroot u huc]; exact hu) m'

theorem reachableR_os {n : Nat} {prog : Tid → List Msg} {s : St} (h : ReachableR n prog s) : OsInv s := by
  induction h with
  | init => exact OsInv.init n prog
  | step t _ hb hs ih => exact ih.step hb hs
  | reenter p m hprev hb hp hpa ih => exact ih.reenter (reachable_inv hprev.toReachable).2 hb hp hpa m
  | brk _ ih => exact ih.brk

end Rpyc.Conc.SendQ
