import RpycModel.Conc.SendQ.Lemmas
/-
Progress of an undisturbed sender (obstruction-freedom with an explicit bound): a decreasing measure over
the lines of `_send`.  Covers in particular a nested (re-entrant) activation, which by construction runs
while its parent stands still.
-/
namespace Rpyc.Conc.SendQ

/-- lines thread `t` still executes inside its current call, at most, when nobody interferes and the queue
holds `q` items: the part that depends on where it is -/
def soloPc (p : PC) (empty : Bool) (nw : Nat) : Nat :=
  match p, empty with
  | .idle, _ => 0
  | .append _, _ => 14
  | .check, true => 1
  | .check, false => 4
  | .tryLock, true => 4
  | .tryLock, false => 3
  | .recheck, true => 3
  | .recheck, false => 2
  | .pop, _ => 1
  | .write, true => 5 - nw
  | .write, false => 8 - nw
  | .release, true => 2
  | .release, false => 5
  | .releaseX, _ => 1
  | .crash, _ => 0

/-- a bound on the number of lines thread `t` executes before all its calls have returned, if it runs
undisturbed from `s`: 9 per queued item (test, try-lock, re-check, pop, up to 3 writes, release, and the
item's share of the next test), 25 per call it has still to start -/
def soloFuel (s : St) (t : Tid) : Nat :=
  9 * s.queue.length + 25 * (s.todo t).length + soloPc (s.pc t) s.queue.isEmpty s.nw

theorem nparts_le (it : Item) : nparts it ≤ 3 := by unfold nparts; split <;> decide

/-- every line of an undisturbed thread strictly decreases its fuel -/
theorem solo_step {s : St} {t : Tid} (h : Inv s) (hd : ¬ isDone s t) :
    ∃ s', step s t = some s' ∧ soloFuel s' t < soloFuel s t := by
  unfold SendQ.step
  simp only [enqueue_eq]
  split
  next hpc =>
    split
    next htodo => exact absurd ⟨hpc, htodo⟩ hd
    next m rest htodo =>
      refine ⟨_, rfl, ?_⟩
      simp [soloFuel, soloPc, hpc, htodo]
      omega
  next m hpc =>
    refine ⟨_, rfl, ?_⟩
    have hne : (s.queue ++ [(t, m)]).isEmpty = false := by cases s.queue <;> rfl
    simp [soloFuel, soloPc, hpc, hne]
    omega
  next hpc =>
    split
    next hq => refine ⟨_, rfl, ?_⟩; simp [soloFuel, soloPc, hpc, hq]
    next x q hq => refine ⟨_, rfl, ?_⟩; simp [soloFuel, soloPc, hpc, hq]
  next hpc =>
    split
    next hl =>
      refine ⟨_, rfl, ?_⟩
      cases hq : s.queue <;> simp [soloFuel, soloPc, hpc, hq]
    next hl =>
      refine ⟨_, rfl, ?_⟩
      cases hq : s.queue <;> simp [soloFuel, soloPc, hpc, hq]
  next hpc =>
    split
    next hq => refine ⟨_, rfl, ?_⟩; simp [soloFuel, soloPc, hpc, hq]
    next x q hq => refine ⟨_, rfl, ?_⟩; simp [soloFuel, soloPc, hpc, hq]
  next hpc =>
    split
    next hq => exact absurd hq (h.pop_ok t hpc)
    next x q hq =>
      refine ⟨_, rfl, ?_⟩
      cases hq' : q <;> simp [soloFuel, soloPc, hpc, hq, hq'] <;> omega
  next hpc =>
    obtain ⟨x, hx, hlt⟩ := h.hand_w t hpc
    have h3 := nparts_le x
    split
    next hh => rw [hh] at hx; cases hx
    next y hh =>
      rw [hh] at hx; cases hx
      split
      next hdead =>
        refine ⟨_, rfl, ?_⟩
        cases hq : s.queue <;> simp [soloFuel, soloPc, hpc, hq] <;> omega
      next hdead =>
      split
      next hlt' =>
        refine ⟨_, rfl, ?_⟩
        cases hq : s.queue <;> simp [soloFuel, soloPc, hpc, hq] <;> omega
      next hlt' =>
        refine ⟨_, rfl, ?_⟩
        cases hq : s.queue <;> simp [soloFuel, soloPc, hpc, hq] <;> omega
  next hpc =>
    split
    next hl =>
      refine ⟨_, rfl, ?_⟩
      cases hq : s.queue <;> simp [soloFuel, soloPc, hpc, hq]
    next hl =>
      have := (h.holder_of_cs (t := t) (by rw [hpc]; rfl)).2
      rw [hl] at this; cases this
  next hpc =>
    split
    next hl =>
      refine ⟨_, rfl, ?_⟩
      cases hq : s.queue <;> simp [soloFuel, soloPc, hpc, hq]
    next hl =>
      have := (h.holder_of_cs (t := t) (by rw [hpc]; rfl)).2
      rw [hl] at this; cases this
  next hpc => exact absurd hpc (h.nocrash t)

/-- thread `t` alone executes `k` lines (or stops earlier when it has nothing left to do) -/
def runSolo (s : St) (t : Tid) : Nat → St
  | 0 => s
  | k + 1 =>
    match step s t with
    | some s' => runSolo s' t k
    | none => s

theorem runSolo_done {s : St} {t : Tid} (hd : isDone s t) (k : Nat) : runSolo s t k = s := by
  cases k with
  | zero => rfl
  | succ k => simp [runSolo, step_none_of_done hd]

theorem solo_returns_aux (t : Tid) : ∀ (k : Nat) (s : St), Inv s → soloFuel s t ≤ k → isDone (runSolo s t k) t := by
  intro k
  induction k with
  | zero =>
    intro s h hk
    apply Classical.byContradiction
    intro hd
    obtain ⟨s', _, hlt⟩ := solo_step h hd
    omega
  | succ k ih =>
    intro s h hk
    by_cases hd : isDone s t
    · rw [runSolo_done hd]; exact hd
    · obtain ⟨s', hs, hlt⟩ := solo_step h hd
      simp only [runSolo, hs]
      exact ih s' (h.step hs) (by omega)

theorem not_blocked_step {s s' : St} {t : Tid} (hN : Nest s) (hb : ¬ blocked s t) (hs : step s t = some s') :
    ¬ blocked s' t := by
  obtain ⟨hw, _, _, _, hoth, _⟩ := step_frame hs
  rintro ⟨c, hc, hcd⟩
  rw [hw] at hc
  have hct : c ≠ t := Nat.ne_of_gt (hN.wait_lt t c hc).1
  refine hb ⟨c, hc, fun hd => hcd ?_⟩
  unfold isDone at hd ⊢
  rw [(hoth c hct).1, (hoth c hct).2]; exact hd

/-- the undisturbed run of a thread that is not suspended is a real execution -/
theorem runSolo_reachable {n : Nat} {prog : Tid → List Msg} (t : Tid) :
    ∀ (k : Nat) (s : St), Reachable n prog s → ¬ blocked s t → Reachable n prog (runSolo s t k) := by
  intro k
  induction k with
  | zero => intro s h _; exact h
  | succ k ih =>
    intro s h hb
    simp only [runSolo]
    split
    next s' hs => exact ih s' (.step t h hb hs) (not_blocked_step (reachable_inv h).2 hb hs)
    · exact h

/-! ### a sender that does not obtain the lock is gone after three of its own lines -/

theorem line_append {s s' : St} {t : Tid} {m : Msg} (hpc : s.pc t = .append m) (hs : step s t = some s') :
    s'.pc t = .check := by
  unfold SendQ.step at hs; simp only [hpc, enqueue_eq] at hs; cases hs; simp

theorem line_check {s s' : St} {t : Tid} (hpc : s.pc t = .check) (hs : step s t = some s') :
    s'.pc t = .idle ∨ s'.pc t = .tryLock := by
  unfold SendQ.step at hs; simp only [hpc] at hs
  split at hs <;> cases hs <;> simp

theorem line_tryLock {s s' : St} {t : Tid} (hpc : s.pc t = .tryLock) (hs : step s t = some s') :
    (s'.pc t = .idle ∧ s.lock = true) ∨ (s'.pc t = .recheck ∧ s'.lock = true ∧ s'.holder = some t) := by
  unfold SendQ.step at hs; simp only [hpc] at hs
  split at hs
  next hl => cases hs; exact Or.inl ⟨by simp, hl⟩
  next hl => cases hs; exact Or.inr ⟨by simp, rfl, rfl⟩

theorem others_do_not_move {s s' : St} {t u : Tid} (hu : u ≠ t) (hs : step s u = some s') : s'.pc t = s.pc t :=
  ((step_frame hs).2.2.2.2.1 t (fun e => hu e.symm)).1

/-- anything the rest of the system does while thread `t` does not execute a line: lines of other threads,
nested sends started by anybody (also on `t`), transport failure -/
inductive Others (t : Tid) : St → St → Prop where
  | refl (s : St) : Others t s s
  | step {s s1 s2 : St} (u : Tid) : u ≠ t → Others t s s1 → step s1 u = some s2 → Others t s s2
  | reenter {s s1 : St} (p : Tid) (m : Msg) : Others t s s1 → Others t s (reenter s1 p m)
  | brk {s s1 : St} : Others t s s1 → Others t s (breakTransport s1)

theorem Others.pc_eq {t : Tid} {s s' : St} (h : Others t s s') : s'.pc t = s.pc t := by
  induction h with
  | refl => rfl
  | step u hu _ hs ih => rw [others_do_not_move hu hs]; exact ih
  | reenter p m _ ih => exact ih
  | brk _ ih => exact ih

/-- a freshly started nested activation needs at most 9 lines per queued item plus 25 -/
theorem soloFuel_reenter {s : St} (hN : Nest s) (p : Tid) (m : Msg) :
    soloFuel (reenter s p m) s.next = 9 * s.queue.length + 25 := by
  have hf := hN.fresh s.next (Nat.le_refl _)
  simp [soloFuel, SendQ.reenter, hf.1, soloPc]

end Rpyc.Conc.SendQ
