/-
L8 `Serve` — the receive side of a connection shared by several threads (C13, C14).

Follows `rpyc/core/protocol.py` (`Connection._async_request`, `async_request`, `serve`, `_dispatch`,
`_seq_request_callback`), `rpyc/core/async_.py` (`AsyncResult.__call__`, `wait`, `value`),
`rpyc/utils/helpers.py` (`BgServingThread._bg_server`) and `rpyc/lib/__init__.py` (`Timeout`)
statement by statement; DESIGN.md Appendix C.1 is the step table.  Every thread has a program
counter at source-line granularity; `step : St → Actor → Option St` (`none` = the actor is blocked or
the action is not the thread's next one); `Reachable` = any number of threads, any interleaving.

What is atomic here and why: `next(self._seqcounter)` (`itertools.count`, one C call),
`dict.__setitem__`/`dict.pop`, `Lock.acquire(False)`/`release`, attribute stores; `_send` is atomic
here (C12 is the theorem about it); `poll(timeout) and recv()` is one step because both reads happen
under the receive lock (`recv_exclusive` below is the theorem that nobody else is in that region).
The `Condition`'s own lock is modelled explicitly (`condLock`): `_recvlock.release()` is *not* under it.
Executable; nothing here imports `Lean` or Mathlib.
-/
namespace Rpyc.Conc.Serve

abbrev Tid := Nat
abbrev Seq := Nat
abbrev Time := Nat

/-- a reply frame put into the channel by the peer: `MSG_REPLY`/`MSG_EXCEPTION`, seq, payload.
`id` is ghost: the index of the frame in the peer's output (k-th frame ever sent). -/
structure Frame where
  id : Nat
  seq : Seq
  exc : Bool
  val : Nat
  deriving DecidableEq, Repr

/-- program counters; names as in DESIGN.md Appendix C.1 -/
inductive PC
  | idle  -- not in a call (client) / not started
  | c1    -- `self._request_callbacks[seq] = callback`
  | c2    -- `self._send(MSG_REQUEST, seq, …)`
  | c3    -- `res.set_expiry(timeout)`
  | w0    -- `while not self._is_ready and not self._ttl.expired():`
  | s0    -- `timeout = Timeout(timeout)`
  | s1    -- `with self._recv_event:` (acquire the condition's lock)
  | s2    -- `if not self._recvlock.acquire(False):`
  | s2w   -- `self._recv_event.wait(timeout.timeleft())`: join the wait-set, free the condition's lock
  | s2f   -- `wait_for_lock` is False (`Connection.poll`): leave `with` (free the condition's lock), return False
  | zz    -- asleep inside `Condition.wait`
  | s2r   -- woken: retake the condition's lock, leave `with` (free it), `serve` returns
  | s3    -- leave `with` after a successful try-lock (free the condition's lock)
  | p0    -- `data = self._channel.poll(timeout) and self._channel.recv()`
  | x0    -- `except EOFError: self.close(); raise` (poll/recv met the end of the stream)
  | r0    -- `self._recvlock.release()`
  | n0    -- `with self._recv_event:` in the `finally`
  | n1    -- `self._recv_event.notify_all()`
  | n2    -- leave that `with`
  | d0    -- `if not data: return False`
  | d1    -- `_dispatch(data)` → `_seq_request_callback`: `self._request_callbacks.pop(seq, None)`
  | d2    -- `AsyncResult.__call__`: `if self.expired: return`
  | d3    -- `self._is_exc = is_exc`
  | d4    -- `self._obj = obj`
  | d5    -- `self._is_ready = True`
  | w9    -- `if not self._is_ready: raise AsyncResultTimeout`
  | w10   -- `value`: `if self._is_exc: raise self._obj else: return self._obj`
  | b0    -- `BgServingThread._bg_server`: `while self._active:` → `self._conn.serve(0)`
  | bS    -- `time.sleep(SLEEP_INTERVAL)`
  | q1    -- `Connection.poll_all`: `if timeout.expired(): break` (else `self.poll(timeout)` again)
  deriving DecidableEq, Repr

/-- what a finished call handed to its caller -/
inductive Outcome
  | value (exc : Option Bool) (obj : Option Nat)   -- what `value` read from `_is_exc`, `_obj`
  | timeout                                        -- `AsyncResultTimeout`
  | eof                                            -- `EOFError`: the stream ended / the connection is closed
  deriving DecidableEq, Repr

/-- thread-local state -/
structure Loc where
  pc : PC := .idle
  bg : Bool := false              -- a background serving thread (`serve(0)` loop)
  seq : Seq := 0                  -- seq of the current (or last) call
  tmo : Option Nat := none        -- `timeout=` of the current call
  dl : Option Time := none        -- `serve`'s `Timeout.tmax` (`none` = infinite)
  wdl : Option Time := none       -- absolute deadline of `Condition.wait`
  data : Option Frame := none     -- the frame this thread received
  cb : Option Seq := none         -- the callback (= result cell) popped by `_seq_request_callback`
  nowait : Bool := false          -- a polling thread: inside `poll_all` → `poll` = `serve(timeout, wait_for_lock=False)`
  pdl : Option Time := none       -- `poll_all`'s `Timeout(timeout).tmax`
  raising : Bool := false         -- an `EOFError` is propagating out of `serve` (through its `finally`)
  result : Option Outcome := none -- outcome of the last finished call (for `seq`)
  deriving Repr

/-- `AsyncResult` of the request with a given seq, plus its entry in `_request_callbacks` -/
structure Cell where
  reg : Bool := false             -- `seq in self._request_callbacks`
  isExc : Option Bool := none     -- `_is_exc` (`None` initially)
  obj : Option Nat := none        -- `_obj`
  ready : Bool := false           -- `_is_ready`
  ttl : Option Time := none       -- `_ttl.tmax`, `none` = `Timeout(None)`
  eofed : Bool := false           -- ghost: completed by `_cleanup` with `EOFError("connection closed")`
  deriving DecidableEq, Repr

/-- ghost status of the k-th frame the peer sent -/
inductive FStat
  | unsent | inChan | held (t : Tid) | dispatched
  deriving DecidableEq, Repr

structure St where
  loc : Tid → Loc := fun _ => {}
  recvLock : Option Tid := none          -- `_recvlock` (holder is ghost; the real lock has no owner)
  condLock : Option Tid := none          -- the lock inside `_recv_event`
  waiters : List Tid := []               -- `_recv_event._waiters`
  chan : List Frame := []                -- bytes the peer has written and nobody has read
  cells : Seq → Cell := fun _ => {}
  seqCounter : Nat := 0                  -- `_seqcounter`
  now : Time := 0
  outstanding : List Seq := []           -- requests the peer has received and not answered
  eof : Bool := false                    -- the peer has closed the stream (after the frames already in `chan`)
  closed : Bool := false                 -- `Connection.close()` ran: `_closed`, channel closed, callbacks cleared
  -- ghost history
  issued : List Seq := []                -- every seq `_get_seq_id` has handed out, newest first
  nsent : Nat := 0                       -- frames the peer has sent so far
  answer : Seq → Option (Bool × Nat) := fun _ => none   -- what the peer answered to a seq
  fstat : Nat → FStat := fun _ => .unsent
  dcount : Nat → Nat := fun _ => 0       -- how often the k-th frame was dispatched
  popper : Seq → Option Tid := fun _ => none            -- who popped the callback of a seq
  completions : Seq → Nat := fun _ => 0  -- how often `_is_ready = True` ran for a seq

def init : St := {}

inductive Actor
  | call (t : Tid) (tmo : Option Nat)   -- an idle client thread starts `async_request(..., timeout=tmo).value`
  | bg (t : Tid)                        -- an idle thread becomes a background serving thread
  | stop (t : Tid)                      -- `_active` is false at the loop test
  | pollAll (t : Tid) (d : Nat)         -- an idle thread calls `conn.poll_all(d)` (`AsyncResult.ready`: d = 0)
  | run (t : Tid)                       -- thread `t` executes its next line
  | peer (q : Seq) (exc : Bool) (v : Nat)   -- the peer answers an outstanding request
  | peerDup (q : Seq) (exc : Bool) (v : Nat)   -- the peer repeats the answer it already gave to a request
  | peerEof                             -- the peer closes the stream
  | tick (d : Nat)                      -- time passes
  deriving DecidableEq, Repr

def setLoc (s : St) (t : Tid) (l : Loc) : St :=
  { s with loc := fun u => if u = t then l else s.loc u }

def setCell (s : St) (q : Seq) (c : Cell) : St :=
  { s with cells := fun r => if r = q then c else s.cells r }

/-- `Timeout.expired()`: `finite and time() >= tmax` -/
def expiredAt (ttl : Option Time) (now : Time) : Bool :=
  match ttl with
  | none => false
  | some d => decide (d ≤ now)

/-- where a thread goes when its `serve()` returns -/
def afterServe (l : Loc) : PC := if l.nowait then .q1 else if l.bg then .bS else .w0

def leaveServe (l : Loc) : Loc := { l with pc := afterServe l, data := none, cb := none }

/-! ### one function per program counter -/

def doCall (s : St) (t : Tid) (l : Loc) (tmo : Option Nat) : St :=
  { setLoc s t { l with pc := .c1, seq := s.seqCounter, tmo := tmo, result := none, data := none, cb := none }
    with seqCounter := s.seqCounter + 1, issued := s.seqCounter :: s.issued }

def doC1 (s : St) (t : Tid) (l : Loc) : St :=
  setLoc (setCell s l.seq { s.cells l.seq with reg := true }) t { l with pc := .c2 }

/-- `_send` on a closed channel raises `EOFError`; `_async_request` pops the callback and re-raises -/
def doC2 (s : St) (t : Tid) (l : Loc) : St :=
  if s.closed then
    setLoc (setCell s l.seq { s.cells l.seq with reg := false }) t { l with pc := .idle, result := some .eof }
  else
    { setLoc s t { l with pc := if l.tmo.isSome then .c3 else .w0 } with outstanding := s.outstanding ++ [l.seq] }

def doC3 (s : St) (t : Tid) (l : Loc) : St :=
  setLoc (setCell s l.seq { s.cells l.seq with ttl := l.tmo.map (s.now + ·) }) t { l with pc := .w0 }

def doW0 (s : St) (t : Tid) (l : Loc) : St :=
  setLoc s t { l with pc := if !(s.cells l.seq).ready && !expiredAt (s.cells l.seq).ttl s.now then .s0 else .w9 }

def doS0 (s : St) (t : Tid) (l : Loc) : St :=
  setLoc s t { l with pc := .s1, dl := if l.nowait then l.pdl else if l.bg then some s.now else (s.cells l.seq).ttl }

def doS1 (s : St) (t : Tid) (l : Loc) : Option St :=
  if s.condLock = none then some { setLoc s t { l with pc := .s2 } with condLock := some t } else none

def doS2 (s : St) (t : Tid) (l : Loc) : St :=
  if s.recvLock = none then { setLoc s t { l with pc := .s3 } with recvLock := some t }
  else setLoc s t { l with pc := if l.nowait then .s2f else .s2w }

def doS2w (s : St) (t : Tid) (l : Loc) : St :=
  { setLoc s t { l with pc := .zz, wdl := l.dl.map (max s.now) } with
    waiters := s.waiters ++ [t], condLock := none }

def doZz (s : St) (t : Tid) (l : Loc) : Option St :=
  if t ∉ s.waiters then some (setLoc s t { l with pc := .s2r })
  else if expiredAt l.wdl s.now then some { setLoc s t { l with pc := .s2r } with waiters := s.waiters.erase t }
  else none

def doS2r (s : St) (t : Tid) (l : Loc) : Option St :=
  if s.condLock = none then some (setLoc s t (leaveServe l)) else none

def doS3 (s : St) (t : Tid) (l : Loc) : St :=
  { setLoc s t { l with pc := .p0 } with condLock := none }

/-- a locally closed channel raises at once; otherwise pending frames are delivered first, then the end of
the stream (readable, `recv` raises `EOFError`), then the timeout -/
def doP0 (s : St) (t : Tid) (l : Loc) : Option St :=
  if s.closed then some (setLoc s t { l with pc := .x0, data := none }) else
  match s.chan with
  | f :: rest => some { setLoc s t { l with pc := .r0, data := some f } with
                        chan := rest, fstat := fun k => if k = f.id then .held t else s.fstat k }
  | [] => if s.eof then some (setLoc s t { l with pc := .x0, data := none })
          else if expiredAt l.dl s.now then some (setLoc s t { l with pc := .r0, data := none }) else none

/-- the payload standing for `EOFError("connection closed")` in a result cell -/
def eofVal : Nat := 1

/-- `_cleanup` completes this still-registered request with the end of the connection (`AsyncResult.__call__` drops
it if the result has expired meanwhile) -/
def closePublishes (s : St) (q : Seq) : Bool := (s.cells q).reg && !expiredAt (s.cells q).ttl s.now

/-- `self.close()` (atomic here): the first caller marks the connection closed, spends one sequence number on
its `HANDLE_CLOSE` request (nobody answers it), closes the channel, takes every callback out of the table and
completes each still-pending request with `(True, EOFError("connection closed"))` — its result becomes ready
with that error (unless expired), the ghost `answer` of that seq becomes the end-of-connection marker (a reply
that is still in the channel or in a thread's hand will find no callback and be dropped); later callers return at
once.  Then `raise`: the `EOFError` leaves `serve` through its `finally`. -/
def doX0 (s : St) (t : Tid) (l : Loc) : St :=
  if s.closed then setLoc s t { l with pc := .r0, raising := true }
  else { setLoc s t { l with pc := .r0, raising := true } with
         closed := true, seqCounter := s.seqCounter + 1,
         cells := fun q =>
           if (s.cells q).reg then
             (if expiredAt (s.cells q).ttl s.now then { s.cells q with reg := false }
              else { s.cells q with reg := false, isExc := some true, obj := some eofVal, ready := true, eofed := true })
           else s.cells q,
         answer := fun q => if closePublishes s q then some (true, eofVal) else s.answer q,
         completions := fun q => if closePublishes s q then s.completions q + 1 else s.completions q,
         popper := fun q => if (s.cells q).reg then some t else s.popper q,
         outstanding := s.outstanding.filter (fun q => !closePublishes s q) }

def doR0 (s : St) (t : Tid) (l : Loc) : St :=
  { setLoc s t { l with pc := .n0 } with recvLock := none }

def doN0 (s : St) (t : Tid) (l : Loc) : Option St :=
  if s.condLock = none then some { setLoc s t { l with pc := .n1 } with condLock := some t } else none

def doN1 (s : St) (t : Tid) (l : Loc) : St :=
  { setLoc s t { l with pc := .n2 } with waiters := [] }

def doN2 (s : St) (t : Tid) (l : Loc) : St :=
  { setLoc s t { l with pc := .d0 } with condLock := none }

/-- after the `finally`: dispatch the frame, or return `False`, or let the `EOFError` out: a client's call
ends with it, a background thread dies (`_bg_server` re-raises), `poll_all` swallows it and returns -/
def doD0 (s : St) (t : Tid) (l : Loc) : St :=
  match l.data with
  | some _ => setLoc s t { l with pc := .d1 }
  | none =>
    if l.raising then
      (if l.bg then setLoc s t { l with pc := .idle, bg := false, nowait := false, raising := false, cb := none }
       else setLoc s t { l with pc := .idle, result := some .eof, raising := false, cb := none })
    else setLoc s t (leaveServe l)

def markDispatched (s : St) (f : Frame) : St :=
  { s with fstat := fun k => if k = f.id then .dispatched else s.fstat k,
           dcount := fun k => if k = f.id then s.dcount k + 1 else s.dcount k }

def doD1 (s : St) (t : Tid) (l : Loc) : Option St :=
  match l.data with
  | none => none
  | some f =>
    if (s.cells f.seq).reg then
      some { setLoc (setCell (markDispatched s f) f.seq { s.cells f.seq with reg := false }) t
               { l with pc := .d2, cb := some f.seq }
             with popper := fun q => if q = f.seq then some t else s.popper q }
    else some (setLoc (markDispatched s f) t (leaveServe l))

def doD2 (s : St) (t : Tid) (l : Loc) : Option St :=
  match l.cb with
  | none => none
  | some q =>
    if !(s.cells q).ready && expiredAt (s.cells q).ttl s.now then some (setLoc s t (leaveServe l))
    else some (setLoc s t { l with pc := .d3 })

def doD3 (s : St) (t : Tid) (l : Loc) : Option St :=
  match l.cb, l.data with
  | some q, some f => some (setLoc (setCell s q { s.cells q with isExc := some f.exc }) t { l with pc := .d4 })
  | _, _ => none

def doD4 (s : St) (t : Tid) (l : Loc) : Option St :=
  match l.cb, l.data with
  | some q, some f => some (setLoc (setCell s q { s.cells q with obj := some f.val }) t { l with pc := .d5 })
  | _, _ => none

def doD5 (s : St) (t : Tid) (l : Loc) : Option St :=
  match l.cb with
  | some q => some { setLoc (setCell s q { s.cells q with ready := true }) t (leaveServe l)
                     with completions := fun r => if r = q then s.completions r + 1 else s.completions r }
  | none => none

def doW9 (s : St) (t : Tid) (l : Loc) : St :=
  if (s.cells l.seq).ready then setLoc s t { l with pc := .w10 }
  else setLoc s t { l with pc := .idle, result := some .timeout }

def doW10 (s : St) (t : Tid) (l : Loc) : St :=
  setLoc s t { l with pc := .idle, result := some (.value (s.cells l.seq).isExc (s.cells l.seq).obj) }

def stepRun (s : St) (t : Tid) : Option St :=
  match (s.loc t).pc with
  | .idle => none
  | .c1 => some (doC1 s t (s.loc t))
  | .c2 => some (doC2 s t (s.loc t))
  | .c3 => some (doC3 s t (s.loc t))
  | .w0 => some (doW0 s t (s.loc t))
  | .s0 => some (doS0 s t (s.loc t))
  | .s1 => doS1 s t (s.loc t)
  | .s2 => some (doS2 s t (s.loc t))
  | .s2w => some (doS2w s t (s.loc t))
  | .s2f => some { setLoc s t (leaveServe (s.loc t)) with condLock := none }
  | .zz => doZz s t (s.loc t)
  | .s2r => doS2r s t (s.loc t)
  | .s3 => some (doS3 s t (s.loc t))
  | .p0 => doP0 s t (s.loc t)
  | .x0 => some (doX0 s t (s.loc t))
  | .r0 => some (doR0 s t (s.loc t))
  | .n0 => doN0 s t (s.loc t)
  | .n1 => some (doN1 s t (s.loc t))
  | .n2 => some (doN2 s t (s.loc t))
  | .d0 => some (doD0 s t (s.loc t))
  | .d1 => doD1 s t (s.loc t)
  | .d2 => doD2 s t (s.loc t)
  | .d3 => doD3 s t (s.loc t)
  | .d4 => doD4 s t (s.loc t)
  | .d5 => doD5 s t (s.loc t)
  | .w9 => some (doW9 s t (s.loc t))
  | .w10 => some (doW10 s t (s.loc t))
  | .b0 => some (setLoc s t { s.loc t with pc := .s0 })
  | .bS => some (setLoc s t { s.loc t with pc := .b0 })
  | .q1 => some (if expiredAt (s.loc t).pdl s.now
                 then setLoc s t { s.loc t with pc := .idle, bg := false, nowait := false }
                 else setLoc s t { s.loc t with pc := .s0 })

def doPeer (s : St) (q : Seq) (exc : Bool) (v : Nat) : St :=
  { s with outstanding := s.outstanding.erase q,
           chan := s.chan ++ [⟨s.nsent, q, exc, v⟩],
           nsent := s.nsent + 1,
           answer := fun r => if r = q then some (exc, v) else s.answer r,
           fstat := fun k => if k = s.nsent then .inChan else s.fstat k }

def step (s : St) : Actor → Option St
  | .call t tmo => if (s.loc t).pc = .idle ∧ (s.loc t).bg = false then some (doCall s t (s.loc t) tmo) else none
  | .bg t => if (s.loc t).pc = .idle ∧ (s.loc t).bg = false
             then some (setLoc s t { s.loc t with pc := .b0, bg := true }) else none
  | .stop t => if (s.loc t).pc = .b0 then some (setLoc s t { s.loc t with pc := .idle, bg := false }) else none
  | .pollAll t d => if (s.loc t).pc = .idle ∧ (s.loc t).bg = false
             then some (setLoc s t { s.loc t with pc := .s0, bg := true, nowait := true, pdl := some (s.now + d) })
             else none
  | .run t => stepRun s t
  | .peer q exc v => if q ∈ s.outstanding ∧ s.eof = false then some (doPeer s q exc v) else none
  | .peerDup q exc v => if s.answer q = some (exc, v) ∧ s.eof = false then some (doPeer s q exc v) else none
  | .peerEof => if s.eof = false then some { s with eof := true } else none
  | .tick d => some { s with now := s.now + d }

inductive Reachable : St → Prop
  | init : Reachable init
  | step {s s' : St} (a : Actor) : Reachable s → step s a = some s' → Reachable s'

/-- run a schedule; `none` if some actor in it was not enabled -/
def run : St → List Actor → Option St
  | s, [] => some s
  | s, a :: as => match step s a with
    | some s' => run s' as
    | none => none

theorem reachable_run {s s' : St} (h : Reachable s) : ∀ (as : List Actor) , run s as = some s' → Reachable s'
  := by
  intro as
  induction as generalizing s with
  | nil => intro e; simp [run] at e; exact e ▸ h
  | cons a as ih =>
    intro e
    simp only [run] at e
    cases hs : step s a with
    | none => simp [hs] at e
    | some s1 => simp [hs] at e; exact ih (Reachable.step a h hs) e

/-! ### blocked states (C14, deadlock freedom) -/

/-- blocked inside `poll()`: nothing to read and the deadline not reached -/
def blockedInPoll (s : St) (t : Tid) : Bool :=
  (s.loc t).pc = .p0 && s.chan.isEmpty && !expiredAt (s.loc t).dl s.now && !s.eof && !s.closed

/-- asleep on the condition: not notified and the deadline not reached -/
def blockedOnCond (s : St) (t : Tid) : Bool :=
  (s.loc t).pc = .zz && s.waiters.contains t && !expiredAt (s.loc t).wdl s.now

def blocked (s : St) (t : Tid) : Bool := blockedInPoll s t || blockedOnCond s t

/-- thread `t` is a client inside a call -/
def inCall (s : St) (t : Tid) : Bool := (s.loc t).pc ≠ .idle && !(s.loc t).bg

end Rpyc.Conc.Serve
