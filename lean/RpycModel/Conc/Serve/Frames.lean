import RpycModel.Conc.Serve.Basic
/-
`InvF` (frames: each is in the channel, in exactly one hand, or dispatched once) holds in every
reachable state of the receive-side machine, and its consequences: a frame is dispatched at most once,
a frame in hand is in exactly one hand, every sent frame is accounted for, the channel is FIFO.

`InvF` as stated in `Basic.lean` is inductive by itself; nothing had to be strengthened.
-/
namespace Rpyc.Conc.Serve

/-! ### closed facts about the pc classes -/

theorem PC.not_holding_of_completing {p : PC} (h : p.completing = true) : p.holding = false := by
  cases p <;> simp [PC.completing, PC.holding] at h ⊢

theorem PC.holding_completing_absurd {p : PC} (h1 : p.holding = true) (h2 : p.completing = true) : False := by
  rw [PC.not_holding_of_completing h2] at h1; cases h1

/-! ### small consequences of `InvF` -/

theorem InvF.sent_of_ne_unsent {s : St} (h : InvF s) {k : Nat} (hk : s.fstat k ≠ .unsent) : k < s.nsent := by
  apply Nat.lt_of_not_ge
  intro hge
  exact hk ((h.unsent_iff k).2 hge)

theorem InvF.chan_lt {s : St} (h : InvF s) : ∀ f ∈ s.chan, f.id < s.nsent := by
  intro f hf
  apply h.sent_of_ne_unsent
  rw [h.chan_stat f hf]; intro hc; cases hc

theorem InvF.dcount_zero {s : St} (h : InvF s) {k : Nat} (hk : s.fstat k ≠ .dispatched) : s.dcount k = 0 := by
  rw [h.dcount_eq k, if_neg hk]

/-! ### the initial state -/

theorem invF_init : InvF init := by
  refine ⟨?_, ?_, ?_, ?_, ?_, ?_, ?_, ?_, ?_⟩ <;> simp [init]

/-! ### frame lemma: a step of thread `t` that does not touch the frame ghost state -/

/-- `s'` has the same channel and frame ghost state as `s`; only thread `t` moved, and it either kept
its `data` (and, if it has a frame, its pc class), or dropped its `data` while not `holding`. -/
theorem invF_thread {s s' : St} (h : InvF s) (t : Tid)
    (hchan : s'.chan = s.chan) (hfstat : s'.fstat = s.fstat) (hd : s'.dcount = s.dcount)
    (hn : s'.nsent = s.nsent)
    (hu : ∀ u, u ≠ t → s'.loc u = s.loc u)
    (ht : ((s'.loc t).data = (s.loc t).data ∧
            ((s.loc t).data ≠ none → (s'.loc t).pc.holding = (s.loc t).pc.holding ∧
                                      (s'.loc t).pc.completing = (s.loc t).pc.completing)) ∨
          ((s'.loc t).data = none ∧ (s.loc t).pc.holding = false)) : InvF s' := by
  refine ⟨?_, ?_, ?_, ?_, ?_, ?_, ?_, ?_, ?_⟩
  · intro k; rw [hfstat, hn]; exact h.unsent_iff k
  · rw [hchan]; exact h.chan_sorted
  · intro f hf; rw [hfstat]; rw [hchan] at hf; exact h.chan_stat f hf
  · intro k hk; rw [hfstat] at hk; rw [hchan]; exact h.stat_chan k hk
  · intro u f hf
    by_cases hut : u = t
    · subst hut
      rcases ht with ⟨hdat, hcls⟩ | ⟨hnone, _⟩
      · rw [hdat] at hf
        have hne : (s.loc u).data ≠ none := by rw [hf]; intro hc; cases hc
        rw [(hcls hne).1, (hcls hne).2]
        exact h.data_pc u f hf
      · rw [hnone] at hf; cases hf
    · rw [hu u hut] at hf ⊢; exact h.data_pc u f hf
  · intro u f hf hp
    rw [hfstat]
    by_cases hut : u = t
    · subst hut
      rcases ht with ⟨hdat, hcls⟩ | ⟨hnone, _⟩
      · rw [hdat] at hf
        have hne : (s.loc u).data ≠ none := by rw [hf]; intro hc; cases hc
        rw [(hcls hne).1] at hp
        exact h.holding_stat u f hf hp
      · rw [hnone] at hf; cases hf
    · rw [hu u hut] at hf hp; exact h.holding_stat u f hf hp
  · intro u f hf hp
    rw [hfstat]
    by_cases hut : u = t
    · subst hut
      rcases ht with ⟨hdat, hcls⟩ | ⟨hnone, _⟩
      · rw [hdat] at hf
        have hne : (s.loc u).data ≠ none := by rw [hf]; intro hc; cases hc
        rw [(hcls hne).2] at hp
        exact h.completing_stat u f hf hp
      · rw [hnone] at hf; cases hf
    · rw [hu u hut] at hf hp; exact h.completing_stat u f hf hp
  · intro k u hk
    rw [hfstat] at hk
    obtain ⟨f, hf, hid, hp⟩ := h.held_data k u hk
    by_cases hut : u = t
    · subst hut
      rcases ht with ⟨hdat, hcls⟩ | ⟨_, hnh⟩
      · have hne : (s.loc u).data ≠ none := by rw [hf]; intro hc; cases hc
        exact ⟨f, by rw [hdat]; exact hf, hid, by rw [(hcls hne).1]; exact hp⟩
      · rw [hnh] at hp; cases hp
    · exact ⟨f, by rw [hu u hut]; exact hf, hid, by rw [hu u hut]; exact hp⟩
  · intro k; rw [hd, hfstat]; exact h.dcount_eq k

/-! ### the peer writes a frame -/

theorem invF_peer {s : St} (h : InvF s) (q : Seq) (exc : Bool) (v : Nat) : InvF (doPeer s q exc v) := by
  have hstat : ∀ k, k ≠ s.nsent → (doPeer s q exc v).fstat k = s.fstat k := by
    intro k hk; simp [doPeer, hk]
  have hnew : (doPeer s q exc v).fstat s.nsent = .inChan := by simp [doPeer]
  have hchan : (doPeer s q exc v).chan = s.chan ++ [⟨s.nsent, q, exc, v⟩] := rfl
  have hloc : (doPeer s q exc v).loc = s.loc := rfl
  have hns : (doPeer s q exc v).nsent = s.nsent + 1 := rfl
  have hdc : (doPeer s q exc v).dcount = s.dcount := rfl
  have hfresh : s.fstat s.nsent = .unsent := (h.unsent_iff s.nsent).2 (Nat.le_refl _)
  refine ⟨?_, ?_, ?_, ?_, ?_, ?_, ?_, ?_, ?_⟩
  · intro k
    rw [hns]
    by_cases hk : k = s.nsent
    · subst hk; rw [hnew]
      constructor
      · intro hc; cases hc
      · intro hc; omega
    · rw [hstat k hk, h.unsent_iff k]; omega
  · rw [hchan, List.map_append, List.pairwise_append]
    refine ⟨h.chan_sorted, by simp, ?_⟩
    intro a ha b hb
    simp only [List.map_cons, List.map_nil, List.mem_singleton] at hb
    obtain ⟨f, hf, rfl⟩ := List.mem_map.1 ha
    subst hb
    exact h.chan_lt f hf
  · intro f hf
    rw [hchan, List.mem_append, List.mem_singleton] at hf
    rcases hf with hf | rfl
    · have := h.chan_lt f hf
      rw [hstat f.id (by omega)]; exact h.chan_stat f hf
    · exact hnew
  · intro k hk
    rw [hchan]
    by_cases hkn : k = s.nsent
    · exact ⟨⟨s.nsent, q, exc, v⟩, by simp, hkn.symm⟩
    · rw [hstat k hkn] at hk
      obtain ⟨f, hf, hid⟩ := h.stat_chan k hk
      exact ⟨f, List.mem_append_left _ hf, hid⟩
  · intro t f hf; rw [hloc] at hf ⊢; exact h.data_pc t f hf
  · intro t f hf hp
    rw [hloc] at hf hp
    have hst := h.holding_stat t f hf hp
    have : f.id < s.nsent := h.sent_of_ne_unsent (by rw [hst]; intro hc; cases hc)
    rw [hstat f.id (by omega)]; exact hst
  · intro t f hf hp
    rw [hloc] at hf hp
    have hst := h.completing_stat t f hf hp
    have : f.id < s.nsent := h.sent_of_ne_unsent (by rw [hst]; intro hc; cases hc)
    rw [hstat f.id (by omega)]; exact hst
  · intro k t hk
    have hkn : k ≠ s.nsent := by
      intro hc; subst hc; rw [hnew] at hk; cases hk
    rw [hstat k hkn] at hk
    rw [hloc]; exact h.held_data k t hk
  · intro k
    rw [hdc]
    by_cases hkn : k = s.nsent
    · subst hkn
      rw [hnew, h.dcount_eq, hfresh]; simp
    · rw [hstat k hkn]; exact h.dcount_eq k

/-! ### `p0`: a thread takes the head of the channel -/

theorem invF_recv {s s' : St} (h : InvF s) (t : Tid) (f : Frame) (rest : List Frame)
    (hc : s.chan = f :: rest) (hpc : (s.loc t).pc.holding = false)
    (hchan : s'.chan = rest)
    (hfstat : s'.fstat = fun k => if k = f.id then .held t else s.fstat k)
    (hd : s'.dcount = s.dcount) (hn : s'.nsent = s.nsent)
    (hu : ∀ u, u ≠ t → s'.loc u = s.loc u)
    (ht : (s'.loc t).data = some f ∧ (s'.loc t).pc.holding = true) : InvF s' := by
  have hstat : ∀ k, k ≠ f.id → s'.fstat k = s.fstat k := by
    intro k hk; simp [hfstat, hk]
  have hnew : s'.fstat f.id = .held t := by simp [hfstat]
  have hfin : s.fstat f.id = .inChan := h.chan_stat f (by rw [hc]; simp)
  have hsorted := h.chan_sorted
  rw [hc, List.map_cons, List.pairwise_cons] at hsorted
  have hrest : ∀ g ∈ rest, g.id ≠ f.id := by
    intro g hg
    have := hsorted.1 g.id (List.mem_map.2 ⟨g, hg, rfl⟩)
    omega
  refine ⟨?_, ?_, ?_, ?_, ?_, ?_, ?_, ?_, ?_⟩
  · intro k
    rw [hn]
    by_cases hk : k = f.id
    · subst hk; rw [hnew]
      have : f.id < s.nsent := h.chan_lt f (by rw [hc]; simp)
      constructor
      · intro hc; cases hc
      · intro hc; omega
    · rw [hstat k hk]; exact h.unsent_iff k
  · rw [hchan]; exact hsorted.2
  · intro g hg
    rw [hchan] at hg
    rw [hstat g.id (hrest g hg)]
    exact h.chan_stat g (by rw [hc]; exact List.mem_cons_of_mem _ hg)
  · intro k hk
    have hkf : k ≠ f.id := by
      intro hc; subst hc; rw [hnew] at hk; cases hk
    rw [hstat k hkf] at hk
    obtain ⟨g, hg, hid⟩ := h.stat_chan k hk
    rw [hc, List.mem_cons] at hg
    rcases hg with rfl | hg
    · exact absurd hid.symm hkf
    · exact ⟨g, by rw [hchan]; exact hg, hid⟩
  · intro u g hg
    by_cases hut : u = t
    · subst hut; exact Or.inl ht.2
    · rw [hu u hut] at hg ⊢; exact h.data_pc u g hg
  · intro u g hg hp
    by_cases hut : u = t
    · subst hut
      rw [ht.1] at hg; cases hg; exact hnew
    · rw [hu u hut] at hg hp
      have hst := h.holding_stat u g hg hp
      have hne : g.id ≠ f.id := by
        intro hc; rw [hc, hfin] at hst; cases hst
      rw [hstat g.id hne]; exact hst
  · intro u g hg hp
    by_cases hut : u = t
    · subst hut
      exact (PC.holding_completing_absurd ht.2 hp).elim
    · rw [hu u hut] at hg hp
      have hst := h.completing_stat u g hg hp
      have hne : g.id ≠ f.id := by
        intro hc; rw [hc, hfin] at hst; cases hst
      rw [hstat g.id hne]; exact hst
  · intro k u hk
    by_cases hkf : k = f.id
    · subst hkf
      rw [hnew] at hk
      cases hk
      exact ⟨f, ht.1, rfl, ht.2⟩
    · rw [hstat k hkf] at hk
      obtain ⟨g, hg, hid, hp⟩ := h.held_data k u hk
      have hut : u ≠ t := by
        intro hc; subst hc; rw [hpc] at hp; cases hp
      exact ⟨g, by rw [hu u hut]; exact hg, hid, by rw [hu u hut]; exact hp⟩
  · intro k
    rw [hd]
    by_cases hkf : k = f.id
    · subst hkf
      rw [hnew, h.dcount_eq, hfin]; simp
    · rw [hstat k hkf]; exact h.dcount_eq k

/-! ### `d1`: the thread that holds a frame dispatches it -/

theorem invF_dispatch {s s' : St} (h : InvF s) (t : Tid) (f : Frame)
    (hdata : (s.loc t).data = some f) (hpc : (s.loc t).pc.holding = true)
    (hchan : s'.chan = s.chan)
    (hfstat : s'.fstat = fun k => if k = f.id then .dispatched else s.fstat k)
    (hd : s'.dcount = fun k => if k = f.id then s.dcount k + 1 else s.dcount k)
    (hn : s'.nsent = s.nsent)
    (hu : ∀ u, u ≠ t → s'.loc u = s.loc u)
    (ht : (s'.loc t).data = none ∨
          ((s'.loc t).data = some f ∧ (s'.loc t).pc.completing = true)) : InvF s' := by
  have hstat : ∀ k, k ≠ f.id → s'.fstat k = s.fstat k := by
    intro k hk; simp [hfstat, hk]
  have hnew : s'.fstat f.id = .dispatched := by simp [hfstat]
  have hheld : s.fstat f.id = .held t := h.holding_stat t f hdata hpc
  refine ⟨?_, ?_, ?_, ?_, ?_, ?_, ?_, ?_, ?_⟩
  · intro k
    rw [hn]
    by_cases hk : k = f.id
    · subst hk; rw [hnew]
      have : f.id < s.nsent := h.sent_of_ne_unsent (by rw [hheld]; intro hc; cases hc)
      constructor
      · intro hc; cases hc
      · intro hc; omega
    · rw [hstat k hk]; exact h.unsent_iff k
  · rw [hchan]; exact h.chan_sorted
  · intro g hg
    rw [hchan] at hg
    have hst := h.chan_stat g hg
    have hne : g.id ≠ f.id := by
      intro hc; rw [hc, hheld] at hst; cases hst
    rw [hstat g.id hne]; exact hst
  · intro k hk
    have hkf : k ≠ f.id := by
      intro hc; subst hc; rw [hnew] at hk; cases hk
    rw [hstat k hkf] at hk
    rw [hchan]; exact h.stat_chan k hk
  · intro u g hg
    by_cases hut : u = t
    · subst hut
      rcases ht with hnone | ⟨_, hcp⟩
      · rw [hnone] at hg; cases hg
      · exact Or.inr hcp
    · rw [hu u hut] at hg ⊢; exact h.data_pc u g hg
  · intro u g hg hp
    by_cases hut : u = t
    · subst hut
      rcases ht with hnone | ⟨_, hcp⟩
      · rw [hnone] at hg; cases hg
      · exact (PC.holding_completing_absurd hp hcp).elim
    · rw [hu u hut] at hg hp
      have hst := h.holding_stat u g hg hp
      have hne : g.id ≠ f.id := by
        intro hc; rw [hc, hheld] at hst
        cases hst; exact hut rfl
      rw [hstat g.id hne]; exact hst
  · intro u g hg hp
    by_cases hut : u = t
    · subst hut
      rcases ht with hnone | ⟨hsome, _⟩
      · rw [hnone] at hg; cases hg
      · rw [hsome] at hg; cases hg; exact hnew
    · rw [hu u hut] at hg hp
      have hst := h.completing_stat u g hg hp
      by_cases hgf : g.id = f.id
      · rw [hgf]; exact hnew
      · rw [hstat g.id hgf]; exact hst
  · intro k u hk
    have hkf : k ≠ f.id := by
      intro hc; subst hc; rw [hnew] at hk; cases hk
    rw [hstat k hkf] at hk
    obtain ⟨g, hg, hid, hp⟩ := h.held_data k u hk
    have hut : u ≠ t := by
      intro hc; subst hc
      rw [hdata] at hg; cases hg
      exact hkf hid.symm
    exact ⟨g, by rw [hu u hut]; exact hg, hid, by rw [hu u hut]; exact hp⟩
  · intro k
    rw [hd]
    by_cases hkf : k = f.id
    · subst hkf
      have h0 : s.dcount f.id = 0 := h.dcount_zero (by rw [hheld]; intro hc; cases hc)
      simp [hnew, h0]
    · simp only [if_neg hkf]
      rw [hstat k hkf]; exact h.dcount_eq k

/-- closes a step that keeps `data` and the pc class; `$d` is the step function to unfold -/
local macro "frame_keep " h:ident t:ident hpc:ident d:ident : tactic =>
  `(tactic| (refine invF_thread $h $t rfl rfl rfl rfl (fun u hu => by simp [$d:ident, hu]) (Or.inl ?_)
             simp [$d:ident, $hpc:ident, PC.holding, PC.completing]))

/-- the same when the new pc is an `if` -/
local macro "frame_keep_ite " h:ident t:ident hpc:ident d:ident : tactic =>
  `(tactic| (refine invF_thread $h $t rfl rfl rfl rfl (fun u hu => by simp [$d:ident, hu]) (Or.inl ?_)
             simp only [$d:ident, setLoc_loc_self, $hpc:ident]
             split <;> simp [PC.holding, PC.completing]))

/-- a step that clears `data` at a pc that is not `holding` -/
local macro "frame_drop " h:ident t:ident hpc:ident : tactic =>
  `(tactic| (refine invF_thread $h $t rfl rfl rfl rfl (fun u hu => by simp [hu]) (Or.inr ?_)
             simp [leaveServe, $hpc:ident, PC.holding]))

/-! ### thread steps -/

theorem invF_run {s s' : St} (h : InvF s) (t : Tid) (hs : stepRun s t = some s') : InvF s' := by
  simp only [stepRun] at hs
  generalize hpc : (s.loc t).pc = pc at hs
  cases pc <;> simp only [] at hs
  case idle => cases hs
  case c1 => cases hs; frame_keep h t hpc doC1
  case c2 =>
    cases hs
    simp only [doC2]
    split
    · frame_keep h t hpc setLoc_loc_self
    · frame_keep_ite h t hpc setLoc_loc_self
  case c3 => cases hs; frame_keep h t hpc doC3
  case w0 => cases hs; frame_keep_ite h t hpc doW0
  case s0 => cases hs; frame_keep h t hpc doS0
  case s1 =>
    simp only [doS1] at hs
    split at hs
    · cases hs; frame_keep h t hpc setLoc_loc_self
    · cases hs
  case s2 =>
    cases hs
    simp only [doS2]
    split
    · frame_keep h t hpc setLoc_loc_self
    · frame_keep_ite h t hpc setLoc_loc_self
  case s2f => cases hs; frame_drop h t hpc
  case q1 =>
    cases hs
    split
    · frame_keep h t hpc setLoc_loc_self
    · frame_keep h t hpc setLoc_loc_self
  case s2w => cases hs; frame_keep h t hpc doS2w
  case zz =>
    simp only [doZz] at hs
    split at hs
    · cases hs; frame_keep h t hpc setLoc_loc_self
    · split at hs
      · cases hs; frame_keep h t hpc setLoc_loc_self
      · cases hs
  case s2r =>
    simp only [doS2r] at hs
    split at hs
    · cases hs; frame_drop h t hpc
    · cases hs
  case s3 => cases hs; frame_keep h t hpc doS3
  case r0 => cases hs; frame_keep h t hpc doR0
  case n0 =>
    simp only [doN0] at hs
    split at hs
    · cases hs; frame_keep h t hpc setLoc_loc_self
    · cases hs
  case n1 => cases hs; frame_keep h t hpc doN1
  case n2 => cases hs; frame_keep h t hpc doN2
  case w9 =>
    cases hs
    simp only [doW9]
    split
    · frame_keep h t hpc setLoc_loc_self
    · frame_keep h t hpc setLoc_loc_self
  case w10 => cases hs; frame_keep h t hpc doW10
  case b0 => cases hs; frame_keep h t hpc setLoc_loc_self
  case bS => cases hs; frame_keep h t hpc setLoc_loc_self
  case d0 =>
    cases hs
    simp only [doD0]
    split
    · frame_keep h t hpc setLoc_loc_self
    · rename_i hdat
      split
      · split
        · refine invF_thread h t rfl rfl rfl rfl (fun u hu => by simp [hu]) (Or.inl ?_)
          simp [hdat]
        · refine invF_thread h t rfl rfl rfl rfl (fun u hu => by simp [hu]) (Or.inl ?_)
          simp [hdat]
      · refine invF_thread h t rfl rfl rfl rfl (fun u hu => by simp [hu]) (Or.inl ?_)
        simp [leaveServe, hdat]
  case x0 =>
    have hdat : (s.loc t).data = none := by
      cases hd : (s.loc t).data with
      | none => rfl
      | some f =>
        have := h.data_pc t f hd
        simp [hpc, PC.holding, PC.completing] at this
    cases hs
    simp only [doX0]
    split
    · refine invF_thread h t rfl rfl rfl rfl (fun u hu => by simp [hu]) (Or.inl ?_)
      simp [hdat]
    · refine invF_thread h t rfl rfl rfl rfl (fun u hu => by simp [hu]) (Or.inl ?_)
      simp [hdat]
  case d2 =>
    simp only [doD2] at hs
    split at hs
    · cases hs
    · split at hs
      · cases hs; frame_drop h t hpc
      · cases hs; frame_keep h t hpc setLoc_loc_self
  case d3 =>
    simp only [doD3] at hs
    split at hs
    · cases hs; frame_keep h t hpc setLoc_loc_self
    · cases hs
  case d4 =>
    simp only [doD4] at hs
    split at hs
    · cases hs; frame_keep h t hpc setLoc_loc_self
    · cases hs
  case d5 =>
    simp only [doD5] at hs
    split at hs
    · cases hs; frame_drop h t hpc
    · cases hs
  case p0 =>
    simp only [doP0] at hs
    split at hs
    · cases hs; frame_drop h t hpc
    · split at hs
      · rename_i f rest hc
        cases hs
        exact invF_recv h t f rest hc (by simp [hpc, PC.holding]) rfl rfl rfl rfl
          (fun u hu => by simp [hu]) (by simp [PC.holding])
      · split at hs
        · cases hs; frame_drop h t hpc
        · split at hs
          · cases hs; frame_drop h t hpc
          · cases hs
  case d1 =>
    simp only [doD1] at hs
    split at hs
    · cases hs
    · rename_i f hdat
      split at hs
      · cases hs
        exact invF_dispatch h t f hdat (by simp [hpc, PC.holding]) rfl rfl rfl rfl
          (fun u hu => by simp [hu]) (Or.inr (by simp [hdat, PC.completing]))
      · cases hs
        exact invF_dispatch h t f hdat (by simp [hpc, PC.holding]) rfl rfl rfl rfl
          (fun u hu => by simp [hu]) (Or.inl (by simp [leaveServe]))

/-! ### all actors -/

theorem invF_step {s s' : St} (a : Actor) (h : InvF s) (hs : step s a = some s') : InvF s' := by
  cases a with
  | call t tmo =>
    simp only [step] at hs
    split at hs
    · rename_i hc
      cases hs
      refine invF_thread h t rfl rfl rfl rfl (fun u hu => by simp [doCall, hu]) (Or.inr ?_)
      simp [doCall, hc.1, PC.holding]
    · cases hs
  | bg t =>
    simp only [step] at hs
    split at hs
    · rename_i hc
      have hpc := hc.1
      cases hs; frame_keep h t hpc setLoc_loc_self
    · cases hs
  | pollAll t d =>
    simp only [step] at hs
    split at hs
    · rename_i hc
      have hpc := hc.1
      cases hs; frame_keep h t hpc setLoc_loc_self
    · cases hs
  | stop t =>
    simp only [step] at hs
    split at hs
    · rename_i hpc
      cases hs; frame_keep h t hpc setLoc_loc_self
    · cases hs
  | run t => exact invF_run h t hs
  | peer q exc v =>
    simp only [step] at hs
    split at hs
    · cases hs; exact invF_peer h q exc v
    · cases hs
  | peerDup q exc v =>
    simp only [step] at hs
    split at hs
    · cases hs; exact invF_peer h q exc v
    · cases hs
  | peerEof =>
    simp only [step] at hs
    split at hs
    · cases hs
      exact invF_thread h 0 rfl rfl rfl rfl (fun _ _ => rfl) (Or.inl ⟨rfl, fun _ => ⟨rfl, rfl⟩⟩)
    · cases hs
  | tick d =>
    simp only [step] at hs
    cases hs
    exact invF_thread h 0 rfl rfl rfl rfl (fun _ _ => rfl) (Or.inl ⟨rfl, fun _ => ⟨rfl, rfl⟩⟩)

theorem invF_of_reachable {s : St} (h : Reachable s) : InvF s := by
  induction h with
  | init => exact invF_init
  | step a _ hs ih => exact invF_step a ih hs

/-! ### consequences (C13) -/

/-- no frame is dispatched twice -/
theorem dispatch_at_most_once {s : St} (h : Reachable s) (k : Nat) : s.dcount k ≤ 1 := by
  rw [(invF_of_reachable h).dcount_eq k]
  split <;> omega

/-- a frame that was read from the channel and not yet dispatched is in exactly one hand -/
theorem holder_unique {s : St} (h : Reachable s) (t u : Tid) (f g : Frame)
    (ht : (s.loc t).data = some f) (hu : (s.loc u).data = some g)
    (hpt : (s.loc t).pc.holding = true) (hpu : (s.loc u).pc.holding = true)
    (hid : f.id = g.id) : t = u := by
  have hi := invF_of_reachable h
  have h1 := hi.holding_stat t f ht hpt
  have h2 := hi.holding_stat u g hu hpu
  rw [hid, h2] at h1
  cases h1; rfl

/-- every sent frame is still in the channel, or in exactly one hand, or has been dispatched exactly once -/
theorem frame_accounted {s : St} (h : Reachable s) (k : Nat) (hk : k < s.nsent) :
    (∃ f ∈ s.chan, f.id = k ∧ s.dcount k = 0) ∨
    (∃ t f, (s.loc t).data = some f ∧ f.id = k ∧ (s.loc t).pc.holding = true ∧ s.dcount k = 0) ∨
    (s.fstat k = .dispatched ∧ s.dcount k = 1) := by
  have hi := invF_of_reachable h
  cases hst : s.fstat k with
  | unsent =>
    have := (hi.unsent_iff k).1 hst
    omega
  | inChan =>
    obtain ⟨f, hf, hid⟩ := hi.stat_chan k hst
    exact Or.inl ⟨f, hf, hid, hi.dcount_zero (by rw [hst]; intro hc; cases hc)⟩
  | held t =>
    obtain ⟨f, hf, hid, hp⟩ := hi.held_data k t hst
    exact Or.inr (Or.inl ⟨t, f, hf, hid, hp, hi.dcount_zero (by rw [hst]; intro hc; cases hc)⟩)
  | dispatched =>
    refine Or.inr (Or.inr ⟨rfl, ?_⟩)
    rw [hi.dcount_eq k, hst]; simp

/-- frames leave the channel in the order the peer sent them -/
theorem chan_fifo {s : St} (h : Reachable s) : (s.chan.map (·.id)).Pairwise (· < ·) :=
  (invF_of_reachable h).chan_sorted

end Rpyc.Conc.Serve
